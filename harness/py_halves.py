"""Python-side runner of the "Python halves" (C03 C05 C07 C08 C09 C10).

Run with /venv/bin/python (pyshim makes the REAL /repo/src/awkward Python layer executable on top of the real
libawkward built from /repo).  Reads one case per stdin line

    (id FUNC args... (arr LAYOUT) ...)

builds ak.Array(layout) for every (arr LAYOUT) (layout syntax of /verif/impl/drv/drv_common.h), calls the real
ak.<FUNC>, and prints one line per case

    (id ok DUMP)            DUMP = layout dump | (scalar DTYPE v) | (none) | (tuple DUMP...) | (record AT DUMP)
                                   | (names k...) | (value VALUE) | (typestr HEX)
    (id err value|runtime|other)          ValueError / RuntimeError|IndexError.. / anything else
    (id env-skip RULE)                    exception that is only an incompatibility of the 2021 code with NumPy 2 /
                                          Python 3.12 (rules frozen in /verif/cpy/env_skips.json)
    (id bad xMSG)                         the case line itself is malformed (a harness bug)

This file contains no oracle: it only transports arguments and results.
"""
import json
import math
import os
import sys
import traceback
import warnings

sys.path.insert(0, '/verif')
sys.setrecursionlimit(10000)


# ---------------------------------------------------------------- S-expressions
def parse_sx(s):
    pos = [0]
    n = len(s)

    def go():
        while pos[0] < n and s[pos[0]].isspace():
            pos[0] += 1
        if pos[0] >= n:
            raise ValueError('sx: unexpected end')
        if s[pos[0]] == '(':
            pos[0] += 1
            out = []
            while True:
                while pos[0] < n and s[pos[0]].isspace():
                    pos[0] += 1
                if pos[0] >= n:
                    raise ValueError('sx: missing )')
                if s[pos[0]] == ')':
                    pos[0] += 1
                    return out
                out.append(go())
        if s[pos[0]] == ')':
            raise ValueError('sx: unexpected )')
        q = pos[0]
        while q < n and not s[q].isspace() and s[q] not in '()':
            q += 1
        a = s[pos[0]:q]
        pos[0] = q
        return a
    return go()


def sx_str(t):
    if isinstance(t, (list, tuple)):
        return '(' + ' '.join(sx_str(x) for x in t) + ')'
    return str(t)


# ---------------------------------------------------------------- layouts <-> text
_ak = None
_np = None


def _load():
    global _ak, _np
    if _ak is None:
        from pyshim.install import install
        install()
        import awkward
        import numpy
        _ak, _np = awkward, numpy
    return _ak, _np


def _num(a):
    if a == 'true':
        return 1
    if a == 'false':
        return 0
    if a == 'nan':
        return float('nan')
    if a == 'inf':
        return float('inf')
    if a == '-inf':
        return float('-inf')
    if a.startswith('f:'):
        return float.fromhex(a[2:])
    return int(a)


def _ints(l):
    return [int(_num(x)) for x in l]


def layout_from_sx(x):
    """S-expression tree (nested Python lists of atoms) -> pyshim (= ak.layout) node"""
    ak, np = _load()
    L = ak.layout
    h = x[0]
    if h == 'np':
        dt = np.dtype(x[1])
        shape = _ints(x[2])
        vals = [_num(v) for v in x[3]]
        if dt.kind in 'iu':
            arr = np.array([int(v) for v in vals], dtype=object).astype(dt) if vals else np.zeros(0, dt)
        elif dt.kind == 'b':
            arr = np.array([bool(v) for v in vals], dtype=dt)
        else:
            arr = np.array([float(v) for v in vals], dtype=dt)
        need = 1
        for s in shape:
            need *= s
        arr = arr[:need].reshape(shape)
        return L.NumpyArray(arr)
    if h == 'empty':
        return L.EmptyArray()
    W = {'i32': (L.Index32, np.int32), 'u32': (L.IndexU32, np.uint32), 'i64': (L.Index64, np.int64)}

    def idx(w, l):
        cls, dt = W[w]
        return cls(np.array(_ints(l), dtype=np.int64).astype(dt))
    if h == 'lo':
        cls = {'i32': L.ListOffsetArray32, 'u32': L.ListOffsetArrayU32, 'i64': L.ListOffsetArray64}[x[1]]
        return cls(idx(x[1], x[2]), layout_from_sx(x[3]))
    if h == 'la':
        cls = {'i32': L.ListArray32, 'u32': L.ListArrayU32, 'i64': L.ListArray64}[x[1]]
        return cls(idx(x[1], x[2]), idx(x[1], x[3]), layout_from_sx(x[4]))
    if h == 'reg':
        return L.RegularArray(layout_from_sx(x[3]), int(x[1]), int(x[2]))
    if h == 'ix':
        cls = {'i32': L.IndexedArray32, 'u32': L.IndexedArrayU32, 'i64': L.IndexedArray64}[x[1]]
        return cls(idx(x[1], x[2]), layout_from_sx(x[3]))
    if h == 'ixo':
        cls = {'i32': L.IndexedOptionArray32, 'i64': L.IndexedOptionArray64}[x[1]]
        return cls(idx(x[1], x[2]), layout_from_sx(x[3]))
    if h == 'bym':
        m = L.Index8(np.array(_ints(x[1]), dtype=np.int64).astype(np.int8))
        return L.ByteMaskedArray(m, layout_from_sx(x[3]), bool(int(_num(x[2]))))
    if h == 'bim':
        m = L.IndexU8(np.array(_ints(x[1]), dtype=np.int64).astype(np.uint8))
        return L.BitMaskedArray(m, layout_from_sx(x[5]), bool(int(_num(x[2]))), int(x[4]), bool(int(_num(x[3]))))
    if h == 'unm':
        return L.UnmaskedArray(layout_from_sx(x[1]))
    if h == 'un':
        cls = {'i32': L.UnionArray8_32, 'u32': L.UnionArray8_U32, 'i64': L.UnionArray8_64}[x[1]]
        tags = L.Index8(np.array(_ints(x[2]), dtype=np.int8))
        return cls(tags, idx(x[1], x[3]), [layout_from_sx(c) for c in x[4:]])
    if h == 'rec':
        n = int(x[1])
        keys = None if x[2] == 'tuple' else [str(k) for k in x[2]]
        return L.RecordArray([layout_from_sx(c) for c in x[3:]], keys, n)
    if h == 'par':
        c = layout_from_sx(x[3])
        if x[1] != 'none':
            c.setparameter('__array__', x[1])
        if x[2] != 'none':
            c.setparameter('__record__', x[2])
        return c
    raise ValueError('layout_from_sx: unknown node ' + str(h))


def _fmt_float(v):
    if math.isnan(v):
        return 'nan'
    if math.isinf(v):
        return 'inf' if v > 0 else '-inf'
    if v == math.floor(v) and abs(v) < 9.0e18:
        return str(int(v))
    return 'f:' + float(v).hex()


def _fmt_item(dt, v):
    if dt.kind == 'b':
        return '1' if v else '0'
    if dt.kind in 'iu':
        return str(int(v))
    if dt.kind == 'f':
        return _fmt_float(float(v))
    raise ValueError('unsupported dtype in dump: %s' % dt)


def _dtname(dt):
    return 'bool' if dt.kind == 'b' else dt.name


def _ix(i):
    _, np = _load()
    return '(' + ' '.join(str(int(v)) for v in np.asarray(i)) + ')'


def sx_from_layout(c):
    """pyshim node -> dump text (same syntax as drv_common.h dump())"""
    ak, np = _load()
    L = ak.layout
    raw = _raw(c)
    if isinstance(c, L.Record):
        return raw
    ps = c.parameters
    arr = ps.get('__array__')
    rec = ps.get('__record__')
    if arr is None and rec is None:
        return raw
    return '(par %s %s %s)' % (arr if arr is not None else 'none', rec if rec is not None else 'none', raw)


def _raw(c):
    ak, np = _load()
    L = ak.layout
    if isinstance(c, L.NumpyArray):
        a = np.asarray(c)
        dt = a.dtype
        if dt.kind in 'mM':
            a = a.view(np.int64)
            dt = a.dtype
        flat = a.reshape(-1)
        return '(np %s (%s) (%s))' % (_dtname(dt), ' '.join(str(s) for s in a.shape),
                                      ' '.join(_fmt_item(dt, v) for v in flat.tolist()))
    if isinstance(c, L.EmptyArray):
        return '(empty)'
    for cls, w in ((L.ListOffsetArray32, 'i32'), (L.ListOffsetArrayU32, 'u32'), (L.ListOffsetArray64, 'i64')):
        if isinstance(c, cls):
            return '(lo %s %s %s)' % (w, _ix(c.offsets), sx_from_layout(c.content))
    for cls, w in ((L.ListArray32, 'i32'), (L.ListArrayU32, 'u32'), (L.ListArray64, 'i64')):
        if isinstance(c, cls):
            return '(la %s %s %s %s)' % (w, _ix(c.starts), _ix(c.stops), sx_from_layout(c.content))
    if isinstance(c, L.RegularArray):
        return '(reg %d %d %s)' % (c.size, len(c), sx_from_layout(c.content))
    for cls, h, w in ((L.IndexedArray32, 'ix', 'i32'), (L.IndexedArrayU32, 'ix', 'u32'), (L.IndexedArray64, 'ix', 'i64'),
                      (L.IndexedOptionArray32, 'ixo', 'i32'), (L.IndexedOptionArray64, 'ixo', 'i64')):
        if isinstance(c, cls):
            return '(%s %s %s %s)' % (h, w, _ix(c.index), sx_from_layout(c.content))
    if isinstance(c, L.ByteMaskedArray):
        return '(bym %s %d %s)' % (_ix(c.mask), 1 if c.valid_when else 0, sx_from_layout(c.content))
    if isinstance(c, L.BitMaskedArray):
        return '(bim %s %d %d %d %s)' % (_ix(c.mask), 1 if c.valid_when else 0, 1 if c.lsb_order else 0, len(c),
                                         sx_from_layout(c.content))
    if isinstance(c, L.UnmaskedArray):
        return '(unm %s)' % sx_from_layout(c.content)
    for cls, w in ((L.UnionArray8_32, 'i32'), (L.UnionArray8_U32, 'u32'), (L.UnionArray8_64, 'i64')):
        if isinstance(c, cls):
            return '(un %s %s %s %s)' % (w, _ix(c.tags), _ix(c.index), ' '.join(sx_from_layout(k) for k in c.contents))
    if isinstance(c, L.RecordArray):
        keys = 'tuple' if c.istuple else '(' + ' '.join(c.keys()) + ')'
        return '(rec %d %s%s)' % (len(c), keys, ''.join(' ' + sx_from_layout(k) for k in c.contents))
    if isinstance(c, L.Record):
        return '(record %d %s)' % (c.at, sx_from_layout(c.array))
    if isinstance(c, L.VirtualArray):
        return sx_from_layout(c.array)
    raise ValueError('sx_from_layout: unknown node %r' % type(c))


def value_sx(v):
    """Python object as returned by ak.to_list -> VALUE syntax of rd.ml (strings as byte lists)"""
    _, np = _load()
    if v is None:
        return 'none'
    if isinstance(v, (bool, np.bool_)):
        return 'true' if v else 'false'
    if isinstance(v, (int, np.integer)):
        return str(int(v))
    if isinstance(v, (float, np.floating)):
        return _fmt_float(float(v))
    if isinstance(v, str):
        return '(s' + ''.join(' %d' % b for b in v.encode('utf-8', 'surrogateescape')) + ')'
    if isinstance(v, bytes):
        return '(b' + ''.join(' %d' % b for b in v) + ')'
    if isinstance(v, list):
        return '(l' + ''.join(' ' + value_sx(x) for x in v) + ')'
    if isinstance(v, tuple):
        return '(t' + ''.join(' ' + value_sx(x) for x in v) + ')'
    if isinstance(v, dict):
        return '(r' + ''.join(' (%s %s)' % (k, value_sx(x)) for k, x in v.items()) + ')'
    raise ValueError('value_sx: %r' % type(v))


def dump_result(r):
    ak, np = _load()
    if r is None:
        return '(none)'
    if isinstance(r, ak.highlevel.Array):
        return sx_from_layout(r.layout)
    if isinstance(r, ak.highlevel.Record):
        return '(record %d %s)' % (r.layout.at, sx_from_layout(r.layout.array))
    if isinstance(r, ak.layout.Record):
        return '(record %d %s)' % (r.at, sx_from_layout(r.array))
    if isinstance(r, ak.layout.Content):
        return sx_from_layout(r)
    if isinstance(r, tuple):
        return '(tuple' + ''.join(' ' + dump_result(x) for x in r) + ')'
    if isinstance(r, (bool, np.bool_)):
        return '(scalar bool %d)' % (1 if r else 0)
    if isinstance(r, np.generic):
        return '(scalar %s %s)' % (_dtname(r.dtype), _fmt_item(r.dtype, r.item()))
    if isinstance(r, int):
        return '(scalar int64 %d)' % r
    if isinstance(r, float):
        return '(scalar float64 %s)' % _fmt_float(r)
    if isinstance(r, np.ndarray):
        return sx_from_layout(ak.layout.NumpyArray(r)) if r.ndim else dump_result(r[()])
    if isinstance(r, list) and all(isinstance(k, str) for k in r):
        return '(names' + ''.join(' ' + k for k in r) + ')'
    raise ValueError('dump_result: %r' % type(r))


# ---------------------------------------------------------------- argument decoding
def opt_int(a):
    return None if a in ('none', 'None') else int(a)


def flag(a):
    return a in ('1', 'true', 'True')


def split_args(parts):
    """-> (plain args, list of ak.Array / python scalars in order of appearance)"""
    ak, np = _load()
    plain, arrs = [], []
    for p in parts:
        if isinstance(p, list) and p and p[0] == 'arr':
            arrs.append(ak.Array(layout_from_sx(p[1])))
        elif isinstance(p, list) and p and p[0] == 'lay':
            arrs.append(layout_from_sx(p[1]))
        elif isinstance(p, list) and p and p[0] == 'val':
            arrs.append(decode_val(p))
        else:
            plain.append(p)
    return plain, arrs


def decode_val(p):
    _, np = _load()
    k = p[1]
    if k == 'int':
        return int(p[2])
    if k == 'float':
        return float(_num(p[2]))
    if k == 'bool':
        return bool(int(_num(p[2])))
    if k == 'none':
        return None
    if k == 'str':
        return bytes(int(b) for b in p[2:]).decode('utf-8', 'surrogateescape')
    if k == 'list':
        return [decode_val(q) for q in p[2:]]
    if k == 'npint':
        return np.int64(int(p[2]))
    raise ValueError('decode_val ' + str(p))


class Tagged(object):
    def __init__(self, kind, v):
        self.kind, self.v = kind, v


REDUCERS = ('count', 'count_nonzero', 'sum', 'prod', 'any', 'all', 'min', 'max', 'argmin', 'argmax')


class Impure(Exception):
    """an operation changed one of its operands (C12: operations are pure)"""


def _snapshot(arrs):
    ak, np = _load()
    out = []
    for a in arrs:
        if isinstance(a, ak.highlevel.Array):
            out.append(sx_from_layout(a.layout))
        elif isinstance(a, ak.layout.Content):
            out.append(sx_from_layout(a))
        else:
            out.append(None)
    return out


def _plain_value(r):
    """any result of the high-level interface as a plain Python value (arrays, also partitioned ones, through to_list)"""
    ak, np = _load()
    if isinstance(r, Tagged):
        return r.v
    if isinstance(r, (ak.highlevel.Array, ak.highlevel.Record)):
        return ak.to_list(r)
    if isinstance(r, tuple):
        return tuple(_plain_value(x) for x in r)
    if isinstance(r, list):
        return [_plain_value(x) for x in r]
    if isinstance(r, np.ndarray):
        return r.tolist()
    if isinstance(r, (np.generic,)):
        return r.item()
    return r


def _outcome(func, plain, arrs):
    try:
        with warnings.catch_warnings():
            warnings.simplefilter('ignore')
            return '(ok %s)' % value_sx(_plain_value(_run_func(func, plain, arrs)))
    except ValueError:
        return '(err value)'
    except (RuntimeError, IndexError, NotImplementedError):
        return '(err runtime)'
    except (TypeError, AttributeError, AssertionError, KeyError) as e:
        # the library failing in its own way (e.g. a negative axis resolving to a scalar inside a record): an error
        # outcome, compared as such with the other run
        return '(err other)'


def run_part(parts):
    """(part (cut...) FUNC args... (arr L) ...): FUNC on the array as it is, and on the same array split into partitions
    at the given cuts (ak.partitioned of the range slices; empty partitions where cuts repeat); both outcomes are returned"""
    ak, np = _load()
    cuts = [int(x) for x in parts[0]]
    func = parts[1]
    plain, arrs = split_args(parts[2:])
    a = arrs[0]
    bounds = [0] + cuts + [len(a)]
    pieces = [a[b0:b1] for b0, b1 in zip(bounds[:-1], bounds[1:])]
    p = ak.partitioned(pieces)
    assert len(p) == len(a)
    eager = _outcome(func, plain, arrs)
    part = _outcome(func, plain, [p] + arrs[1:])
    return Tagged('pair', '(pair %s %s)' % (eager, part))


def run_func(func, parts):
    """the call, with every array operand dumped (all buffers, reachable or not) before and after it"""
    if func == 'part':
        return run_part(parts)
    plain, arrs = split_args(parts)
    before = _snapshot(arrs)
    try:
        r = _run_func(func, plain, arrs)
    finally:
        after = _snapshot(arrs)
        for k, (b, a) in enumerate(zip(before, after)):
            if b != a:
                raise Impure('%s modified its array operand #%d: before %s after %s' % (func, k, b[:400], a[:400]))
    return r


def _run_func(func, plain, arrs):
    ak, np = _load()
    if func == 'flatten':
        return ak.flatten(arrs[0], axis=opt_int(plain[0]))
    if func == 'ravel':
        return ak.ravel(arrs[0])
    if func == 'num':
        return ak.num(arrs[0], axis=int(plain[0]))
    if func == 'local_index':
        return ak.local_index(arrs[0], axis=int(plain[0]))
    if func == 'unflatten':
        return ak.unflatten(arrs[0], arrs[1], axis=int(plain[0]))
    if func == 'rt_unflatten':
        # the law as C05 states it: unflatten(flatten(x, axis), num(x, axis), axis - 1) for axis >= 1
        axis = int(plain[0])
        x = arrs[0]
        counts = ak.num(x, axis=axis)
        if axis > 1:
            counts = ak.flatten(counts, axis=None)
        return ak.unflatten(ak.flatten(x, axis=axis), counts, axis=axis - 1)
    if func == 'reduce':
        name, axis, mask, keep = plain[0], opt_int(plain[1]), plain[2], flag(plain[3])
        assert name in REDUCERS
        kw = dict(axis=axis, keepdims=keep)
        if mask != 'default':
            kw['mask_identity'] = flag(mask)
        return getattr(ak, name)(arrs[0], **kw)
    if func in ('cartesian', 'argcartesian'):
        axis, nested = int(plain[0]), plain[1]
        keys = None
        if len(plain) > 2 and isinstance(plain[2], list) and plain[2] and plain[2][0] == 'keys':
            keys = [str(k) for k in plain[2][1:]]
        if nested == 'none':
            nst = None
        elif nested in ('true', 'false'):
            nst = nested == 'true'
        else:
            nst = [(keys[int(k)] if (keys is not None and 0 <= int(k) < len(keys)) else int(k)) for k in nested]
        arg = dict(zip(keys, arrs)) if keys is not None else list(arrs)
        return getattr(ak, func)(arg, axis=axis, nested=nst)
    if func in ('combinations', 'argcombinations'):
        n, repl, axis, fields = int(plain[0]), flag(plain[1]), int(plain[2]), plain[3]
        f = None if fields == 'none' else [str(k) for k in fields]
        return getattr(ak, func)(arrs[0], n, replacement=repl, axis=axis, fields=f)
    if func == 'concatenate':
        kw = dict(axis=int(plain[0]))
        if len(plain) > 1:
            kw['mergebool'] = flag(plain[1])
        return ak.concatenate(arrs, **kw)
    if func == 'values_astype':
        return ak.values_astype(arrs[0], plain[0])
    if func == 'typestr':
        return Tagged('typestr', str(ak.type(arrs[0])))
    if func == 'pad_none':
        return ak.pad_none(arrs[0], int(plain[0]), axis=int(plain[1]), clip=flag(plain[2]))
    if func == 'fill_none':
        if plain[0] == 'default':
            with warnings.catch_warnings():
                warnings.simplefilter('ignore')
                return ak.fill_none(arrs[0], arrs[1])
        return ak.fill_none(arrs[0], arrs[1], axis=opt_int(plain[0]))
    if func == 'is_none':
        return ak.is_none(arrs[0], axis=int(plain[0]))
    if func == 'mask':
        return ak.mask(arrs[0], arrs[1], valid_when=flag(plain[0]))
    if func == 'firsts':
        return ak.firsts(arrs[0], axis=int(plain[0]))
    if func == 'singletons':
        return ak.singletons(arrs[0])
    if func == 'firsts_singletons':
        return ak.firsts(ak.singletons(arrs[0]), axis=1)
    if func in ('zip', 'unzip_zip'):
        dl = opt_int(plain[0])
        keys = plain[1]
        arg = list(arrs) if keys == 'tuple' else dict(zip([str(k) for k in keys], arrs))
        z = ak.zip(arg, depth_limit=dl)
        return ak.unzip(z) if func == 'unzip_zip' else z
    if func == 'unzip':
        return ak.unzip(arrs[0])
    if func == 'with_field':
        where = plain[0]
        if where == 'none':
            w = None
        elif isinstance(where, list):
            w = [str(k) for k in where] if len(where) != 1 or (len(plain) > 1 and plain[1] == 'aslist') else str(where[0])
        else:
            w = str(where)
        return ak.with_field(arrs[0], arrs[1], where=w)
    if func == 'get_with_field':
        # read the new field back through the high-level interface: ak.with_field(...)[where...]
        where = [str(k) for k in plain[0]]
        out = ak.with_field(arrs[0], arrs[1], where=(where if len(where) > 1 else where[0]))
        for k in where:
            out = out[k]
        return out
    if func == 'fields':
        return list(ak.fields(arrs[0]))
    if func == 'with_name':
        return ak.with_name(arrs[0], None if plain[0] == 'none' else str(plain[0]))
    if func == 'to_list':
        return Tagged('value', ak.to_list(arrs[0]))
    if func in ('sort', 'argsort'):
        return getattr(ak, func)(arrs[0], axis=int(plain[0]), ascending=flag(plain[1]), stable=flag(plain[2]))
    if func == 'len':
        return Tagged('value', len(arrs[0]))
    if func == 'getitem':
        # items: (at i) | (rng a b s) with none | (arr i...) | (fld name)
        where = []
        for it in plain[0]:
            if it[0] == 'at':
                where.append(int(it[1]))
            elif it[0] == 'rng':
                where.append(slice(*[None if x == 'none' else int(x) for x in it[1:4]]))
            elif it[0] == 'arr':
                where.append(np.array([int(x) for x in it[1:]], dtype=np.int64))
            elif it[0] == 'fld':
                where.append(str(it[1]))
            else:
                raise KeyError('unknown function getitem item ' + str(it[0]))
        return arrs[0][tuple(where) if len(where) != 1 else where[0]]
    if func == 'getfield':
        out = arrs[0]
        for k in plain[0]:
            out = out[str(k)]
        return out
    raise KeyError('unknown function ' + func)


# ---------------------------------------------------------------- environment skips
def load_env_rules():
    p = '/verif/cpy/env_skips.json'
    if os.path.exists(p):
        return json.load(open(p)).get('rules', [])
    return []


ENV_RULES = None


def env_rule(func, exc):
    """name of the frozen env-skip rule matching this exception, or None"""
    global ENV_RULES
    if ENV_RULES is None:
        ENV_RULES = load_env_rules()
    tname = type(exc).__name__
    msg = str(exc)
    for r in ENV_RULES:
        if r.get('type') != tname:
            continue
        if r.get('funcs') and func not in r['funcs']:
            continue
        if r.get('contains') and r['contains'] not in msg:
            continue
        return r['name']
    return None


def hexs(s):
    return 'x' + s.encode('utf-8', 'replace').hex()


def one(line):
    try:
        x = parse_sx(line)
        cid, func, parts = x[0], x[1], x[2:]
    except Exception as e:      # malformed case line
        return '(? bad %s)' % hexs(repr(e))
    try:
        with warnings.catch_warnings():
            warnings.simplefilter('ignore')
            r = run_func(func, parts)
        if isinstance(r, Tagged) and r.kind == 'typestr':
            return '(%s ok (typestr %s))' % (cid, hexs(r.v))
        if isinstance(r, Tagged) and r.kind == 'pair':
            return '(%s ok %s)' % (cid, r.v)
        if isinstance(r, Tagged) and r.kind == 'value':
            return '(%s ok (value %s))' % (cid, value_sx(r.v))
        return '(%s ok %s)' % (cid, dump_result(r))
    except KeyError as e:
        if 'unknown function' in str(e):
            return '(%s bad %s)' % (cid, hexs(str(e)))
        return '(%s err other %s)' % (cid, hexs(type(e).__name__ + ': ' + str(e)[:300]))
    except Impure as e:
        return '(%s impure %s)' % (cid, hexs(str(e)))
    except Exception as e:
        from pyshim.driver import DriverCrashed
        if isinstance(e, DriverCrashed):
            return '(%s crash %s)' % (cid, hexs(str(e)[:300]))
        rule = env_rule(func, e)
        if rule is not None:
            return '(%s env-skip %s)' % (cid, rule)
        if isinstance(e, ValueError):
            k = 'value'
        elif isinstance(e, (RuntimeError, IndexError, NotImplementedError)):
            k = 'runtime'
        else:
            k = 'other'
        tb = traceback.extract_tb(sys.exc_info()[2])
        where = ''
        for fr in reversed(tb):
            if '/repo/src/awkward' in fr.filename:
                where = ' @%s:%d' % (os.path.basename(fr.filename), fr.lineno)
                break
        return '(%s err %s %s)' % (cid, k, hexs(type(e).__name__ + ': ' + str(e)[:300] + where))


def main():
    _load()
    out = sys.stdout
    for line in sys.stdin:
        line = line.strip()
        if not line or line.startswith('#'):
            continue
        out.write(one(line) + '\n')
        out.flush()


if __name__ == '__main__':
    main()
