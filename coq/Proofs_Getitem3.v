(** Slicing, part 3: the layout-level [getitem_model] computes the value-level [getitem_spec]
    (values AND error status) for slice tuples of basic items on the fragment [gfrag]. *)
From Coq Require Import ZArith List Bool Lia ZifyBool.
From AwkV Require Import Base Layout LayoutInd Valid Types AtAxis Carry Ops_Getitem Typing Proofs_Typing
                         Proofs_Lists Proofs_ToList Proofs_Carry Proofs_CarryValid Proofs_AtAxis Proofs_AtAxisOps
                         Proofs_C01 Proofs_Getitem.
Import ListNotations.
Open Scope Z_scope.
Ltac Zify.zify_post_hook ::= Z.to_euclidean_division_equations.

(* ---------------------------------------------------------------- types up to the placement of options *)
(* The specification keeps track of result types without recording where an option came from (the
   values carry the [VNone]s); the model's result layouts have their option nodes.  The two agree up to
   erasure of [TOpt]. *)
Fixpoint er (t : ty) : ty :=
  match t with
  | TNum d => TNum d
  | TUnk => TUnk
  | TList sz str t' => TList sz str (er t')
  | TOpt t' => er t'
  | TRec ks ts => TRec ks (map er ts)
  | TUnion ts => TUnion (map er ts)
  end.

Lemma er_so_ty t : er (so_ty t) = er t.
Proof. induction t; cbn [so_ty er]; auto. Qed.
Lemma so_ty_nonopt t u : so_ty t <> TOpt u.
Proof. induction t; cbn [so_ty]; try discriminate. exact IHt. Qed.
Lemma er_nonopt t u : er t <> TOpt u.
Proof. induction t; cbn [er]; try discriminate. exact IHt. Qed.

(* what [so_ty T] looks like, read off a type with the same erasure *)
Lemma er_view T U :
  er T = er U ->
  match so_ty U with
  | TNum d => so_ty T = TNum d
  | TUnk => so_ty T = TUnk
  | TList sz str u => exists t, so_ty T = TList sz str t /\ er t = er u
  | TOpt _ => False
  | TRec ks us => exists ts, so_ty T = TRec ks ts /\ map er ts = map er us
  | TUnion us => exists ts, so_ty T = TUnion ts /\ map er ts = map er us
  end.
Proof.
  intros H. rewrite <- (er_so_ty T), <- (er_so_ty U) in H.
  pose proof (so_ty_nonopt T) as HT. pose proof (so_ty_nonopt U) as HU.
  destruct (so_ty U) as [d| |sz str u|u|ks us|us]; destruct (so_ty T) as [d'| |sz' str' t|t|ks' ts|ts];
    cbn [er] in H; try discriminate; try (exfalso; eapply HT; reflexivity); try (exfalso; eapply HU; reflexivity);
    try (exfalso; eapply er_nonopt; (exact H || (symmetry; exact H))).
  - inversion H. reflexivity.
  - reflexivity.
  - inversion H; subst. eauto.
  - inversion H; subst. eauto.
  - inversion H; subst. eauto.
Qed.

(* ---------------------------------------------------------------- the fragment *)
(* 1-d numeric leaves; ListOffset / ListArray / RegularArray at any depth; IndexedArray and the option
   encodings; parameter nodes without __array__ *)
Fixpoint gfrag (c : content) : bool :=
  match c with
  | Numpy _ shape _ => match shape with [_] => true | _ => false end
  | Empty => true
  | ListOffset _ _ c' | ListA _ _ _ c' | Regular c' _ _ => gfrag c'
  | _ => false
  end.

Lemma carry_gfrag c : forall ix c', carry c ix = Ok c' -> gfrag c' = gfrag c.
Proof.
  induction c as [dt shape data| |w o c IHc|w s e c IHc|c size zl IHc|w ix0 c IHc|w ix0 c IHc|m vw c IHc
                 |m vw lsb n c IHc|c IHc|w t ix0 cs IHcs|cs ks n IHcs|arr rn c IHc] using content_ind';
    intros ix c' H; cbn [carry] in H.
  - destruct shape as [|n dims]; [discriminate|]. apply bind_Ok in H as (rows & _ & H). inversion H.
    cbn [gfrag]. destruct dims; reflexivity.
  - destruct ix; [|discriminate]. inversion H. reflexivity.
  - apply bind_Ok in H as (s & _ & H). apply bind_Ok in H as (e & _ & H). inversion H. reflexivity.
  - apply bind_Ok in H as (s' & _ & H). apply bind_Ok in H as (e' & _ & H). inversion H. reflexivity.
  - apply bind_Ok in H as (nx & _ & H). apply bind_Ok in H as (c'' & Hc & H). inversion H.
    cbn [gfrag]. apply (IHc _ _ Hc).
  - apply bind_Ok in H as (j & _ & H). inversion H. reflexivity.
  - apply bind_Ok in H as (j & _ & H). inversion H. reflexivity.
  - apply bind_Ok in H as (m' & _ & H). apply bind_Ok in H as (c'' & Hc & H). inversion H. reflexivity.
  - apply bind_Ok in H as (bm & _ & H). apply bind_Ok in H as (m' & _ & H).
    apply bind_Ok in H as (c'' & Hc & H). inversion H. reflexivity.
  - apply bind_Ok in H as (c'' & Hc & H). inversion H. reflexivity.
  - apply bind_Ok in H as (t' & _ & H). apply bind_Ok in H as (j & _ & H). inversion H. reflexivity.
  - destruct (forallb _ ix); [|discriminate]. apply bind_Ok in H as (cs' & _ & H). inversion H. reflexivity.
  - apply bind_Ok in H as (c'' & Hc & H). inversion H. reflexivity.
Qed.

(* ---------------------------------------------------------------- the refinement relation *)
Definition R (n : Z) (m : res content) (s : res (ty * list value)) : Prop :=
  match m with
  | Ok c' => exists t' ws, s = Ok (t', ws) /\ er t' = er (type_of c') /\ to_list c' = Ok ws /\ zlen ws = n
  | Err e => e = EValue /\ s = Err EValue
  end.

Definition basic_item (it : item) : bool := match it with IAt _ | IRange _ _ _ => true | _ => false end.

Lemma se_at_list fs T xs head tail sz u ls adv :
  positional head = true -> so_ty T = TList sz None u -> mapM as_list xs = Ok ls ->
  se_ fs T xs (head :: tail) adv = sg fs None sz u ls (head :: tail) adv.
Proof.
  intros Hp Hs Hl. rewrite se_down; [|exact Hp|unfold is_rec; rewrite Hs; reflexivity].
  unfold list_elem_ty, str_of_ty. rewrite Hs, Hl. reflexivity.
Qed.
Lemma se_at_leaf fs T xs head tail adv :
  positional head = true -> (exists d, so_ty T = TNum d) \/ so_ty T = TUnk ->
  se_ fs T xs (head :: tail) adv = Err EValue.
Proof.
  intros Hp Hs. rewrite se_down; [|exact Hp|unfold is_rec; destruct Hs as [[d ->]| ->]; reflexivity].
  unfold list_elem_ty. destruct Hs as [[d ->]| ->]; reflexivity.
Qed.

(* ---------------------------------------------------------------- one positional item at a list node *)
Lemma gfrag_list_content c bs cc :
  gfrag c = true -> lnode c = true -> list_bounds c = Ok (bs, cc) -> gfrag cc = true.
Proof.
  intros Hfr Hn Hb. destruct c; try discriminate; cbn [list_bounds] in Hb; cbn [gfrag] in Hfr.
  - destruct offsets; inversion Hb; subst; exact Hfr.
  - destruct (_ <? _); inversion Hb; subst; exact Hfr.
  - destruct (_ <? _); inversion Hb; subst; exact Hfr.
Qed.

Lemma lnode_view2 c T xs :
  Valid None c -> gfrag c = true -> lnode c = true -> to_list c = Ok xs -> er T = er (type_of c) ->
  exists bs cc vs0 ls t,
    list_bounds c = Ok (bs, cc) /\ Valid None cc /\ gfrag cc = true /\ to_list cc = Ok vs0 /\
    mapM (cut1 vs0) bs = Ok ls /\ xs = map VList ls /\ so_ty T = TList (rsize c) None t /\ er t = er (type_of cc).
Proof.
  intros HV Hfr Hn Hl HT.
  destruct (lnode_view c xs HV Hn Hl) as (bs & cc & vs0 & ls & Hb & HVc & Hl0 & Hcut & -> & Hty).
  rewrite Hty in HT. pose proof (er_view T _ HT) as Hv. cbn [so_ty] in Hv. destruct Hv as (t & HsT & Het).
  exists bs, cc, vs0, ls, t. repeat split; try assumption. eapply gfrag_list_content; eassumption.
Qed.

Lemma unopt_somes (pk : list (list value)) : map unopt (map Some pk) = pk.
Proof. rewrite map_map. cbn [unopt]. apply map_id. Qed.
Lemma counts_somes (pk : list (list value)) : map (fun o => zlen (unopt o)) (map Some pk) = map zlen pk.
Proof. rewrite map_map. reflexivity. Qed.

Lemma wrap_at_err n i e : wrap_at n i = Err e -> e = EValue.
Proof. unfold wrap_at. destruct (_ && _); [discriminate|]. intros H. inversion H. reflexivity. Qed.
Lemma szchk_err sz i e : szchk sz i = Err e -> e = EValue.
Proof.
  destruct sz as [n|]; cbn [szchk]; [|discriminate]. destruct (wrap_at n i) eqn:E; cbn [rmap]; [discriminate|].
  intros H. inversion H; subst. eapply wrap_at_err, E.
Qed.
Lemma at_model_err i bs e : mapM (at_model i) bs = Err e -> e = EValue.
Proof.
  intros H. apply mapM_Err in H as (ab & _ & H). unfold at_model in H.
  destruct (wrap_at (snd ab - fst ab) i) eqn:E; cbn [bind] in H; [discriminate|]. inversion H; subst. eapply wrap_at_err, E.
Qed.

Section ListNode.
  Variables (tail : list item).
  (* the induction hypothesis for the rest of the tuple, for all sufficient fuels *)
  Variable (Nm Ns : nat).
  Hypothesis IH : forall fm fs c T xs, (Nm <= fm)%nat -> (Ns <= fs)%nat ->
    Valid None c -> gfrag c = true -> to_list c = Ok xs -> er T = er (type_of c) ->
    R (zlen xs) (gn fm c tail None) (se_ fs T xs tail None).

  Lemma list_node_IAt fm fs c T xs i : (Nm <= fm)%nat -> (Ns <= fs)%nat ->
    Valid None c -> gfrag c = true -> lnode c = true -> to_list c = Ok xs -> er T = er (type_of c) ->
    R (zlen xs) (gn (S fm) c (IAt i :: tail) None) (se_ (S fs) T xs (IAt i :: tail) None).
  Proof.
    intros Hfm Hfs HV Hfr Hn Hl HT.
    destruct (lnode_view2 c T xs HV Hfr Hn Hl HT) as (bs & cc & vs0 & ls & t & Hb & HVc & Hfc & Hl0 & Hcut & -> & HsT & Het).
    rewrite (se_at_list _ _ _ (IAt i) _ _ _ _ _ eq_refl HsT (as_list_lists ls)).
    rewrite gn_list_IAt by exact Hn. rewrite sg_IAt, Hb. cbn [bind fst snd].
    destruct (szchk (rsize c) i) as [[]|e] eqn:Esz; cbn [bind]; [|apply szchk_err in Esz; subst; split; reflexivity].
    rewrite present_somes. fold (at_spec i). fold (at_model i).
    destruct (at_step vs0 bs ls i Hcut) as [Hs Hr]. rewrite Hs.
    destruct (mapM (at_model i) bs) as [ks|e] eqn:Hks; cbn [bind]; [|apply at_model_err in Hks; subst; split; reflexivity].
    specialize (Hr ks eq_refl).
    destruct (carry_spec cc vs0 ks HVc Hl0) as (nc & Hnc & Hlnc & Hcl); [rewrite <- (to_list_len _ _ Hl0); exact Hr|].
    destruct (gather_ok vs0 ks Hr) as [xs' Hxs']. rewrite Hnc, Hxs'. cbn [bind]. rewrite Hxs' in Hlnc.
    assert (HVn : Valid None nc).
    { apply (carry_valid cc vs0 ks nc HVc Hl0); [rewrite <- (to_list_len _ _ Hl0); exact Hr|exact Hnc]. }
    assert (Hfn : gfrag nc = true) by (rewrite (carry_gfrag _ _ _ Hnc); exact Hfc).
    assert (Hetn : er t = er (type_of nc)) by (rewrite (carry_type_of _ _ _ Hnc); exact Het).
    pose proof (IH fm fs nc t xs' Hfm Hfs HVn Hfn Hlnc Hetn) as HR. cbn [present_adv].
    assert (Hlen : zlen xs' = zlen ls).
    { rewrite (mapM_zlen _ _ _ Hxs'), (mapM_zlen _ _ _ Hks). symmetry. apply (mapM_zlen _ _ _ Hcut). }
    rewrite zlen_map.
    destruct (gn fm nc tail None) as [c'|e]; cbn [R] in *.
    - destruct HR as (t' & ws & -> & Ht' & Hl' & Hz). cbn [bind fst snd].
      rewrite reinsert_somes by (apply zlen_eq_length; lia). exists t', ws. repeat split; try assumption. lia.
    - destruct HR as [-> ->]. split; reflexivity.
  Qed.

  Lemma list_node_IRange fm fs c T xs a b st : (Nm <= fm)%nat -> (Ns <= fs)%nat ->
    Valid None c -> gfrag c = true -> lnode c = true -> to_list c = Ok xs -> er T = er (type_of c) ->
    R (zlen xs) (gn (S fm) c (IRange a b st :: tail) None) (se_ (S fs) T xs (IRange a b st :: tail) None).
  Proof.
    intros Hfm Hfs HV Hfr Hn Hl HT.
    destruct (lnode_view2 c T xs HV Hfr Hn Hl HT) as (bs & cc & vs0 & ls & t & Hb & HVc & Hfc & Hl0 & Hcut & -> & HsT & Het).
    rewrite (se_at_list _ _ _ (IRange a b st) _ _ _ _ _ eq_refl HsT (as_list_lists ls)).
    rewrite gn_list_IRange by exact Hn. rewrite sg_IRange, Hb. cbn [bind fst snd]. cbv zeta.
    destruct (stepof st =? 0) eqn:Es; [split; reflexivity|].
    destruct (rng_step vs0 bs ls a b (stepof st) ltac:(lia) Hcut) as (pk & Hpk & Hpick & Hrange & Hzpk).
    rewrite Hpick. cbn [bind]. rewrite unopt_somes, counts_somes.
    change (map (fun ab : Z * Z => map (fun j => fst ab + j) (py_indices (snd ab - fst ab) a b (stepof st))) bs)
      with (map (rng_model a b (stepof st)) bs).
    set (pm := map (rng_model a b (stepof st)) bs) in *.
    destruct (carry_spec cc vs0 (concat pm) HVc Hl0) as (nc & Hnc & Hlnc & Hcl); [rewrite <- (to_list_len _ _ Hl0); exact Hrange|].
    rewrite mapM_concat, Hpk in Hlnc. cbn [rmap] in Hlnc. rewrite Hnc. cbn [bind adv_range].
    assert (HVn : Valid None nc).
    { apply (carry_valid cc vs0 (concat pm) nc HVc Hl0); [rewrite <- (to_list_len _ _ Hl0); exact Hrange|exact Hnc]. }
    assert (Hfn : gfrag nc = true) by (rewrite (carry_gfrag _ _ _ Hnc); exact Hfc).
    assert (Hetn : er t = er (type_of nc)) by (rewrite (carry_type_of _ _ _ Hnc); exact Het).
    pose proof (IH fm fs nc t (concat pk) Hfm Hfs HVn Hfn Hlnc Hetn) as HR.
    rewrite (mapM_mapM_lens _ _ _ Hpk). rewrite zlen_map.
    destruct (gn fm nc tail None) as [c'|e]; cbn [R] in *.
    - destruct HR as (t' & ws & -> & Ht' & Hl' & Hz). cbn [bind fst snd].
      rewrite zlen_concat in Hz.
      rewrite regrouped_somes by (rewrite regroup_length, map_length; reflexivity).
      exists (TList None None t'), (map VList (regroup (map zlen pk) ws)). split; [reflexivity|]. split; [|split].
      + cbn [type_of type_of_p strflag er]. f_equal. exact Ht'.
      + apply to_list_regroup; [exact Hl'|apply map_zlen_nonneg|exact Hz].
      + rewrite zlen_map. unfold zlen at 1. rewrite regroup_length, map_length. fold (zlen pk). lia.
    - destruct HR as [-> ->]. split; reflexivity.
  Qed.
End ListNode.

(* ---------------------------------------------------------------- the tuple induction *)
Lemma leaf_positional fm fs c T xs head tail :
  gfrag c = true -> lnode c = false -> er T = er (type_of c) -> positional head = true ->
  R (zlen xs) (gn (S fm) c (head :: tail) None) (se_ fs T xs (head :: tail) None).
Proof.
  intros Hfr Hn HT Hp. pose proof (er_view T _ HT) as Hv.
  destruct c; try discriminate.
  - cbn [gfrag] in Hfr. destruct shape as [|n [|? ?]]; try discriminate.
    rewrite gn_numpy1 by exact Hp. cbn [type_of type_of_p tl numpy_ty so_ty] in Hv.
    rewrite se_at_leaf; [split; reflexivity|exact Hp|left; eauto].
  - rewrite gn_empty by exact Hp. cbn [type_of type_of_p so_ty] in Hv.
    rewrite se_at_leaf; [split; reflexivity|exact Hp|right; exact Hv].
Qed.

Theorem gn_se_basic : forall items, forallb basic_item items = true ->
  forall fm fs c T xs, (length items < fm)%nat -> (length items < fs)%nat ->
  Valid None c -> gfrag c = true -> to_list c = Ok xs -> er T = er (type_of c) ->
  R (zlen xs) (gn fm c items None) (se_ fs T xs items None).
Proof.
  induction items as [|head tail IHt]; intros Hb fm fs c T xs Hfm Hfs HV Hfr Hl HT.
  - destruct fm as [|fm]; [cbn in Hfm; lia|]. rewrite gn_nil, se_nil. cbn [R]. exists T, xs. auto.
  - cbn [forallb] in Hb. apply andb_true_iff in Hb as [Hh Hb]. specialize (IHt Hb). cbn [length] in Hfm, Hfs.
    destruct fm as [|fm]; [lia|]. destruct fs as [|fs]; [lia|].
    assert (IH' : forall fm0 fs0 c0 T0 xs0, (S (length tail) <= fm0)%nat -> (S (length tail) <= fs0)%nat ->
              Valid None c0 -> gfrag c0 = true -> to_list c0 = Ok xs0 -> er T0 = er (type_of c0) ->
              R (zlen xs0) (gn fm0 c0 tail None) (se_ fs0 T0 xs0 tail None)).
    { intros. apply IHt; assumption || lia. }
    destruct (lnode c) eqn:Hn.
    + destruct head; try discriminate.
      * eapply list_node_IAt; [exact IH'|lia|lia|assumption..].
      * eapply list_node_IRange; [exact IH'|lia|lia|assumption..].
    + apply leaf_positional; try assumption. destruct head; try discriminate; reflexivity.
Qed.

(* ---------------------------------------------------------------- the whole operation *)
Lemma top_wrap c vs :
  Valid None c -> to_list c = Ok vs ->
  Valid None (Regular c (clen c) 1) /\ to_list (Regular c (clen c) 1) = Ok [VList vs] /\
  type_of (Regular c (clen c) 1) = TList (Some (zlen vs)) None (type_of c).
Proof.
  intros HV Hl. pose proof (to_list_len _ _ Hl) as Hn. pose proof (zlen_nonneg vs). split; [|split].
  - constructor; [exact I|lia|lia|intros _; exact HV].
  - rewrite to_list_Regular, Hl. cbn [bind]. rewrite <- Hn. unfold chunks.
    destruct (zlen vs <? 0) eqn:E; [lia|]. destruct (zlen vs =? 0) eqn:E0.
    + assert (vs = []) by (apply zlen_0_nil; lia). subst. reflexivity.
    + rewrite Z.div_same by lia. change (Z.to_nat 1) with 1%nat. cbn [chunks_nat rmap map].
      rewrite take_all by lia. reflexivity.
  - cbn [type_of type_of_p strflag]. rewrite Hn. reflexivity.
Qed.

(* the element step on the wrapped array is the specification's initial call *)
Lemma se_top fs t vs items adv :
  (forall head tail, items = head :: tail -> positional head = true) ->
  se_ (S fs) (TList (Some (zlen vs)) None t) [VList vs] items adv = sg (S fs) None (Some (zlen vs)) t [Some vs] items adv.
Proof.
  intros Hp. destruct items as [|head tail].
  - rewrite se_nil, sg_nil. reflexivity.
  - apply se_at_list; [eapply Hp; reflexivity|reflexivity|reflexivity].
Qed.

Definition obs_spec (s : res (ty * list value)) : res (list value) := do r <- s; Ok (snd r).

Lemma R_obs n m s : R n m s -> obs m = obs_spec s /\ obs m <> Err EFuel /\ obs m <> Err EOob.
Proof.
  destruct m as [c'|e]; cbn [R obs].
  - intros (t' & ws & -> & _ & Hl & _). rewrite Hl. repeat split; discriminate.
  - intros [-> ->]. repeat split; discriminate.
Qed.

(* any fuel above the stated bounds gives the same, fuel-independent answer *)
Theorem getitem_basic_fuel : forall items c vs fm fs,
  forallb basic_item items = true -> Valid None c -> gfrag c = true -> to_list c = Ok vs ->
  (length items < fm)%nat -> (length items < fs)%nat ->
  obs (gn fm (Regular c (clen c) 1) items None) =
  obs_spec (sg fs None (Some (zlen vs)) (type_of c) [Some vs] items None) /\
  obs (gn fm (Regular c (clen c) 1) items None) <> Err EFuel /\
  obs (gn fm (Regular c (clen c) 1) items None) <> Err EOob.
Proof.
  intros items c vs fm fs Hb HV Hfr Hl Hfm Hfs.
  destruct (top_wrap c vs HV Hl) as (HVC & HlC & HtC).
  destruct fs as [|fs]; [lia|].
  rewrite <- (se_top fs (type_of c) vs items None).
  - rewrite <- HtC. apply (R_obs 1). change 1 with (zlen [VList vs]).
    apply gn_se_basic; try assumption; reflexivity.
  - intros head tail ->. cbn [forallb] in Hb. apply andb_true_iff in Hb as [Hh _]. destruct head; try discriminate; reflexivity.
Qed.

Lemma items_fuel_enough items : (length items < items_fuel items)%nat.
Proof. unfold items_fuel. lia. Qed.

Theorem getitem_refines_spec_basic : forall items c vs,
  forallb basic_item items = true -> Valid None c -> gfrag c = true -> to_list c = Ok vs ->
  obs (getitem_model items c) = getitem_spec items (type_of c) vs.
Proof.
  intros items c vs Hb HV Hfr Hl. unfold getitem_model, getitem_spec.
  apply (getitem_basic_fuel items c vs _ _ Hb HV Hfr Hl); apply items_fuel_enough.
Qed.
Theorem getitem_basic_never_out_of_fuel : forall items c vs,
  forallb basic_item items = true -> Valid None c -> gfrag c = true -> to_list c = Ok vs ->
  obs (getitem_model items c) <> Err EFuel /\ getitem_spec items (type_of c) vs <> Err EFuel /\
  obs (getitem_model items c) <> Err EOob.
Proof.
  intros items c vs Hb HV Hfr Hl.
  pose proof (getitem_refines_spec_basic items c vs Hb HV Hfr Hl) as He.
  destruct (getitem_basic_fuel items c vs (items_fuel items) (items_fuel items) Hb HV Hfr Hl
              (items_fuel_enough items) (items_fuel_enough items)) as (_ & H1 & H2).
  fold (getitem_model items c) in H1, H2. rewrite <- He. auto.
Qed.
Print Assumptions getitem_refines_spec_basic.
