From AwkJson Require Import Json Proofs_C15.
