(* mergerun: evaluates the extracted C08 model and the (type, value)-level specification on the cases
   the implementation ran, and compares observations.
   input : (id OP args... layout... (impl ok RESULT | err CLASS | crash))
   output: (id VERDICT ...) with VERDICT in  agree | viol | modeldiff | skip | crash | bad
   Verdict discipline (DESIGN 3.5): impl <> spec on a valid input (value, result type, closure) => viol;
   impl = spec but model <> impl => modeldiff; invalid inputs / unspecified cases => skip. *)
open C08model
open Sx
open Rd

let z = z_of_sx
let tobs (t : ty) : string =
  let rec go = function
    | TNum d -> (match d with DBool -> "bool" | DInt8 -> "int8" | DInt16 -> "int16" | DInt32 -> "int32" | DInt64 -> "int64"
                            | DUInt8 -> "uint8" | DUInt16 -> "uint16" | DUInt32 -> "uint32" | DUInt64 -> "uint64"
                            | DFloat32 -> "float32" | DFloat64 -> "float64")
    | TUnk -> "unknown"
    | TList (s, st, t) ->
      "(list " ^ (match s with None -> "var" | Some n -> string_of_z n) ^
      (match st with None -> "" | Some true -> " string" | Some false -> " bytes") ^ " " ^ go t ^ ")"
    | TOpt t -> "(opt " ^ go t ^ ")"
    | TRec (ks, ts) ->
      "(rec " ^ (match ks with None -> "tuple" | Some k -> "(" ^ String.concat " " (List.map string_of_name k) ^ ")") ^
      String.concat "" (List.map (fun t -> " " ^ go t) ts) ^ ")"
    | TUnion ts -> "(union" ^ String.concat "" (List.map (fun t -> " " ^ go t) ts) ^ ")"
  in go t

(* one evaluated case *)
type ev = {
  inputs_valid : bool;
  unsupported : string;
  model : content res;                       (* model result (layout) *)
  spec_of : ty -> obs;                       (* specification of the values, given the result type *)
  spec_alt : ty -> obs;                      (* second admissible reading (value-directed choice of the union alternative) *)
  ty_spec : ty option;                       (* specified result type (compared after erase_sz), if claimed *)
  may_fail : bool;                           (* the specification leaves failure open (precondition not met) *)
}

(* records as dictionaries: fields sorted by name (last resort when a value sits in a union alternative with
   another field order than either reading predicts; the result type is then reported on its own) *)
let rec norm_fields (v : value) : value =
  match v with
  | VList l -> VList (List.map norm_fields l)
  | VTup l -> VTup (List.map norm_fields l)
  | VRec fs ->
    VRec (List.sort (fun (a, _) (b, _) -> compare (string_of_name a) (string_of_name b))
            (List.map (fun (k, x) -> (k, norm_fields x)) fs))
  | _ -> v

let all_ok rs = List.for_all (function Ok _ -> true | Err _ -> false) rs
let lists_of (cs : content list) : (ty * value list) list option =
  let rs = List.map to_list cs in
  if all_ok rs then Some (List.map2 (fun c r -> (type_of c, (match r with Ok v -> v | Err _ -> []))) cs rs) else None

let rec ty_has_nd (c : content) : bool =
  (* n-d NumpyArray somewhere: its type looks like a RegularArray type but the classes do not merge *)
  match c with
  | Numpy (_, sh, _) -> List.length sh > 1
  | Empty -> false
  | ListOffset (_, _, c) | ListA (_, _, _, c) | Regular (c, _, _) | Indexed (_, _, c) | IndexedOption (_, _, c)
  | ByteMasked (_, _, c) | BitMasked (_, _, _, _, c) | Unmasked c | Par (_, _, c) -> ty_has_nd c
  | Union (_, _, _, cs) | Record (cs, _, _) -> List.exists ty_has_nd cs

let rec has_recname (c : content) : bool =
  match c with
  | Par (_, Some _, _) -> true
  | Par (_, None, c) -> has_recname c
  | Numpy _ | Empty -> false
  | ListOffset (_, _, c) | ListA (_, _, _, c) | Regular (c, _, _) | Indexed (_, _, c) | IndexedOption (_, _, c)
  | ByteMasked (_, _, c) | BitMasked (_, _, _, _, c) | Unmasked c -> has_recname c
  | Union (_, _, _, cs) | Record (cs, _, _) -> List.exists has_recname cs

let type_claim (cs : content list) : bool =
  not (List.exists (fun c -> has_union (type_of c) || ty_has_nd c || has_recname c) cs)

let dtype_of_name = dtype_of

let eval (op : string) (args : Sx.t list) : ev =
  match op, args with
  | "concat", mg :: mb :: ls ->
    let cs = List.map content_of_sx ls in
    let mbb = bool_of_sx mb in
    let vss = lists_of cs in
    { inputs_valid = List.for_all valid_b cs; unsupported = "";
      model = concat_model (bool_of_sx mg) mbb cs;
      spec_of = (fun t -> match vss with Some v -> obs_of_list (concat_spec mbb t v) | None -> OBad "input-to_list");
      spec_alt = (fun t -> match vss with Some v -> obs_of_list (concat_spec_v t v) | None -> OBad "input-to_list");
      ty_spec = (if type_claim cs && bool_of_sx mg then Some (concat_ty mbb (List.map type_of cs)) else None);
      may_fail = false }
  | "mergemany", ls ->
    let cs = List.map content_of_sx ls in
    let vss = lists_of cs in
    let rec pairwise = function
      | [] -> true
      | x :: rest -> List.for_all (fun y -> mergeable true x y) rest && pairwise rest in
    let pre = pairwise cs in
    { inputs_valid = List.for_all valid_b cs; unsupported = "";
      model = mergemany cs;
      spec_of = (fun t -> match vss with Some v -> obs_of_list (concat_spec true t v) | None -> OBad "input-to_list");
      spec_alt = (fun t -> match vss with Some v -> obs_of_list (concat_spec_v t v) | None -> OBad "input-to_list");
      ty_spec = None; may_fail = not pre }
  | "mergeasunion", [a; b] ->
    let ca = content_of_sx a and cb = content_of_sx b in
    let vss = lists_of [ca; cb] in
    { inputs_valid = valid_b ca && valid_b cb;
      (* ak.concatenate never hands a union to merge_as_union (a union is mergeable with everything) *)
      unsupported = (if is_union ca || is_union cb then "union-operand" else "");
      model = Ok (merge_as_union ca cb);
      spec_of = (fun t -> match vss with Some v -> obs_of_list (Ok (List.concat (List.map snd v))) | None -> OBad "input-to_list");
      spec_alt = (fun _ -> OBad "none");
      ty_spec = None; may_fail = false }
  | "simplify_option", [l] ->
    let c = content_of_sx l in
    let inner_ok = (match body c with
        | Indexed (_, _, ci) | IndexedOption (_, _, ci) | ByteMasked (_, _, ci) | BitMasked (_, _, _, _, ci) | Unmasked ci ->
          valid_b ci
        | _ -> false) in
    let vs = to_list c in
    { inputs_valid = inner_ok && (match vs with Ok _ -> true | Err _ -> false); unsupported = "";
      model = simplify_option c;
      spec_of = (fun _ -> match vs with Ok v -> obs_of_list (simplify_option_spec v) | Err _ -> OBad "input-to_list");
      spec_alt = (fun _ -> OBad "none");
      ty_spec = None; may_fail = false }
  | "simplify_union", [mg; mb; l] ->
    let c = content_of_sx l in
    let parts_ok = (match body c with Union (_, _, _, cs) -> cs <> [] && List.for_all valid_b cs | _ -> false) in
    let vs = to_list c in
    { inputs_valid = parts_ok && (match vs with Ok _ -> true | Err _ -> false); unsupported = "";
      model = simplify_union (bool_of_sx mg) (bool_of_sx mb) c;
      spec_of = (fun t -> match vs with Ok v -> obs_of_list (simplify_union_spec t v) | Err _ -> OBad "input-to_list");
      spec_alt = (fun _ -> OBad "none");
      ty_spec = None; may_fail = false }
  | "astype", [A name; l] ->
    let c = content_of_sx l in
    let dst = dtype_of_name name in
    let t = type_of c in
    let vs = to_list c in
    { inputs_valid = valid_b c; unsupported = (if has_union t then "union" else "");
      model = astype_model dst c;
      spec_of = (fun _ -> match vs with Ok v -> obs_of_list (astype_spec dst t v) | Err _ -> OBad "input-to_list");
      spec_alt = (fun _ -> OBad "none");
      ty_spec = Some (erase_sz (astype_ty dst t)); may_fail = false }
  | _ -> bad ("unknown op " ^ op)

let split_last l =
  match List.rev l with
  | last :: rest -> (List.rev rest, last)
  | [] -> bad "empty case"

let obs_of_model (m : content res) : obs = obs_of_content m

let verdict id op args impl =
  match op with
  | "mergeable" ->
    (match args with
     | [mb; a; b] ->
       let ca = content_of_sx a and cb = content_of_sx b in
       if not (valid_b ca && valid_b cb) then Printf.sprintf "(%s skip invalid-input)" id else
       let mbb = bool_of_sx mb in
       let m = mergeable mbb ca cb in
       let claim = type_claim [ca; cb] in
       let s = ty_mergeable mbb (type_of ca) (type_of cb) in
       (match impl with
        | IOk (A r) ->
          let i = (r = "1") in
          if claim && i <> s then Printf.sprintf "(%s viol mergeable (impl %s) (spec %b) (model %b))" id r s m
          else if i <> m then Printf.sprintf "(%s modeldiff (impl %s) (model %b))" id r m
          else Printf.sprintf "(%s agree %s%s)" id r (if claim then "" else " noclaim")
        | IOk _ -> Printf.sprintf "(%s viol (impl weird))" id
        | IErr c -> Printf.sprintf "(%s viol mergeable (impl err %s) (model %b))" id c m
        | ICrash w -> Printf.sprintf "(%s crash %s)" id w)
     | _ -> bad "mergeable args")
  | _ ->
    let r = eval op args in
    if not r.inputs_valid then Printf.sprintf "(%s skip invalid-input)" id
    else if r.unsupported <> "" then Printf.sprintf "(%s skip unsupported-%s)" id r.unsupported
    else begin
      match impl with
      | ICrash w -> Printf.sprintf "(%s crash %s)" id w
      | IErr c when c <> "value" && c <> "runtime" -> Printf.sprintf "(%s viol exception (impl %s))" id c
      | IErr _ ->
        (* the implementation refused *)
        let m = obs_of_model r.model in
        if r.may_fail then
          (match m with
           | OErr -> Printf.sprintf "(%s agree err)" id
           | OBad "fuel" -> Printf.sprintf "(%s agree err nomodel)" id
           | _ -> Printf.sprintf "(%s modeldiff (impl err) (model %s))" id (string_of_obs m))
        else
          Printf.sprintf "(%s viol value (impl err) (spec defined) (model %s))" id (string_of_obs m)
      | IOk d ->
        let ci = (try Some (content_of_sx d) with Bad _ -> None) in
        (match ci with
         | None -> Printf.sprintf "(%s bad (impl dump %s))" id (Sx.to_string d)
         | Some ci ->
           let ti = type_of ci in
           let io = obs_of_list (to_list ci) in
           let so = r.spec_of ti in
           let closure_ok = valid_b ci in
           let type_ok = (match r.ty_spec with None -> true | Some t -> ty_eqb (erase_sz ti) t) in
           let is_ = obs_eq io so ||
                     (match io, so, r.spec_alt ti with
                      | OVal (VList li), OVal (VList l1), OVal (VList l2) ->
                        (* element by element, either admissible reading *)
                        List.length li = List.length l1 && List.length li = List.length l2 &&
                        List.for_all2 (fun x (a, b) -> value_eqb x a || value_eqb x b || value_eqb (norm_fields x) (norm_fields a)) li (List.combine l1 l2)
                      | _, _, a -> obs_eq io a) in
           if not is_ && r.may_fail then
             (* mergemany called on operands that are not mergeable with the first: nothing is promised *)
             Printf.sprintf "(%s skip precondition)" id
           else if not is_ then
             Printf.sprintf "(%s viol value (impl %s) (spec %s) (type %s))" id (string_of_obs io) (string_of_obs so) (tobs ti)
           else if not closure_ok then
             Printf.sprintf "(%s viol closure (impl %s))" id (Sx.to_string d)
           else if not type_ok then
             Printf.sprintf "(%s viol type (impl %s) (spec %s))" id (tobs ti)
               (match r.ty_spec with Some t -> tobs t | None -> "?")
           else begin
             (* implementation = specification; now the model *)
             match r.model with
             | Err EFuel -> Printf.sprintf "(%s agree ok nomodel)" id
             | Err _ -> Printf.sprintf "(%s modeldiff (impl ok %s) (model %s))" id (tobs ti) (string_of_obs (obs_of_model r.model))
             | Ok cm ->
               let tm = type_of cm in
               let mo = obs_of_list (to_list cm) in
               if obs_eq mo io && ty_eqb tm ti && valid_b cm then Printf.sprintf "(%s agree ok)" id
               else Printf.sprintf "(%s modeldiff (impl %s : %s) (model %s : %s%s))" id (string_of_obs io) (tobs ti)
                   (string_of_obs mo) (tobs tm) (if valid_b cm then "" else " INVALID")
           end)
    end

(* promotion tables, for the NumPy voter in c08.py: (promo MODEL NUMPY) per ordered pair *)
let dts = ["bool"; "int8"; "int16"; "int32"; "int64"; "uint8"; "uint16"; "uint32"; "uint64"; "float32"; "float64"]
let name_of_dt d = tobs (TNum d)

let () =
  try
    while true do
      let line = input_line stdin in
      if String.length line > 0 && line.[0] <> '#' then begin
        let id = ref "?" in
        (try
           match Sx.parse line with
           | L [A i; A "promotion-table"] ->
             id := i;
             let rows = List.concat_map (fun a -> List.map (fun b ->
                 Printf.sprintf "(%s %s %s %s)" a b (name_of_dt (promote (dtype_of a) (dtype_of b)))
                   (name_of_dt (numpy_promote (dtype_of a) (dtype_of b)))) dts) dts in
             Printf.printf "(%s table %s)\n" i (String.concat " " rows)
           | L (A i :: A op :: rest) ->
             id := i;
             let args, impl = split_last rest in
             print_endline (verdict i op args (impl_of_sx impl))
           | _ -> bad "case syntax"
         with
         | Bad s -> Printf.printf "(%s bad (%s))\n" !id s
         | Sx.Parse s -> Printf.printf "(%s bad (parse %s))\n" !id s
         | Stack_overflow -> Printf.printf "(%s bad (stack overflow))\n" !id
         | Failure s -> Printf.printf "(%s bad (failure %s))\n" !id s
         | Not_found -> Printf.printf "(%s bad (not found))\n" !id)
      end
    done
  with End_of_file -> ()
