(** C04 — model = specification beyond two arrays, part 2: one array of the fragment [jag] and any number of Python scalars:
    the branches of [apply] (leaf, option, list: shortcut and general path), the induction on the fuel. *)
From AwkV Require Import LayoutInd Proofs_Lists Proofs_ToList Proofs_Typing Proofs_Carry Proofs_AtAxisOps Proofs_C05 Ops_Struct.
From AwkBroadcast Require Import Broadcast Proofs_C04 Proofs_C04_Model1 Proofs_C04_Model2 Proofs_C04_Model3 Proofs_C04_Model4
  Proofs_C04_Model5 Proofs_C04_Model6 Proofs_C04_Scal1.
From Coq Require Import Lia ZifyBool.

Definition step1 op pre post (rec : list minput -> res content) (fuel bound : nat) : Prop :=
  forall n ws, jag n = true -> to_list n = Ok ws -> (csize n < bound)%nat ->
    agrees_c (rec (ins pre n post)) (mapM (spec_v op false fuel) (rows1 pre post (type_of n) ws)) /\
    (forall out, rec (ins pre n post) = Ok out -> jag out = true /\ is_option_node out = is_option_node n).

(* ------------------------------------------------------------------ which branch *)
Lemma dispatch1_pre op rec pre post c :
  dispatch op None rec (ins pre c post) =
  do custom <- getfunction op None (ins pre c post);
  match custom with
  | Some out => Ok out
  | None =>
      if is_empty_node c then rec (map (fun i => match i with MC Empty => MC (Numpy DBool [0] []) | _ => i end) (ins pre c post))
      else if is_numpy_nd c then rec (map (fun i => match i with MC c => MC (if is_numpy_nd c then np_to_regular c else c) | _ => i end) (ins pre c post))
      else if is_indexed_node c then
        do next <- map_c (fun c => match c with Indexed _ ix c' => ccarry c' ix | _ => Ok c end) (ins pre c post); rec next
      else if is_union_node c then Err EValue
      else if is_option_node c then opt_branch rec (ins pre c post)
      else if is_list_node c then list_branch rec (ins pre c post)
      else if is_record_node c then rec_branch None rec (ins pre c post)
      else Err EValue
  end.
Proof.
  unfold dispatch. rewrite contents_of_ins. pose proof (single_rcond c) as Hr. cbv zeta in Hr. cbv zeta. rewrite Hr.
  unfold checklength, all_eq. cbn [map forallb negb existsb]. rewrite !orb_false_r. reflexivity.
Qed.

Lemma dispatch1_nonleaf op rec pre post c :
  jag c = true -> is_numpy_node c = false ->
  dispatch op None rec (ins pre c post) =
  if is_option_node c then opt_branch rec (ins pre c post) else list_branch rec (ins pre c post).
Proof.
  intros Hj Hn. rewrite dispatch1_pre, getfunction_ins, (to_nparr_jag_other c Hj Hn). cbn [bind].
  destruct (jag_nodes c Hj) as (A1 & A2 & A3 & A4 & _ & _ & _ & T). rewrite A1, A2, A3, A4.
  destruct (is_option_node c) eqn:Ho; [reflexivity|].
  destruct T as [T|[T|T]]; try congruence. now rewrite T.
Qed.

(* ------------------------------------------------------------------ the leaves *)
Lemma leaf_case1 op rec fuel pre post dt n d vs :
  forallb sc_ok pre = true -> forallb sc_ok post = true ->
  jag (Numpy dt [n] d) = true -> to_list (Numpy dt [n] d) = Ok vs ->
  exists out, dispatch op None rec (ins pre (Numpy dt [n] d) post) = Ok out /\ jag out = true /\ is_option_node out = false /\
              exists ys, to_list out = Ok ys /\
                         mapM (spec_v op false (S fuel)) (rows1 pre post (type_of (Numpy dt [n] d)) vs) = Ok ys.
Proof.
  intros Hpre Hpost Hj Hl. destruct (to_list_numpy1 _ _ _ _ Hl) as (Hn0 & Hd & ->). cbn [jag] in Hj.
  set (t := take n d) in *.
  assert (Ht : zlen t = n) by (unfold t; apply zlen_take; lia).
  set (ks := kinds1 pre post (dt_isbool dt)). set (rdt := if lk op ks then DBool else DInt64).
  set (outd := map (fun x => DZ (lf op ks (vals1 pre post x))) (map (leaf_z dt) t)).
  assert (Hzo : zlen outd = n) by (unfold outd; now rewrite !zlen_map).
  exists (Numpy rdt [n] outd). split; [|split; [|split; [reflexivity|]]].
  - rewrite dispatch1_pre, getfunction_ins, (to_nparr_jag_numpy dt n d Hj Hd). cbn [bind]. fold t.
    rewrite nd_apply_s1 by (now rewrite zlen_map). reflexivity.
  - cbn [jag]. unfold outd. apply forallb_forall. intros x Hx. apply in_map_iff in Hx as (y & <- & _). reflexivity.
  - exists (map (leaf rdt) outd). split.
    + rewrite to_list_numpy1_ok by lia. now rewrite take_all by lia.
    + cbn [type_of type_of_p tl numpy_ty]. unfold rows1. rewrite map_map, mapM_map.
      rewrite (mapM_ext_in _ (fun x : datum => Ok (mk_leaf (lk op ks) (lf op ks (vals1 pre post (leaf_z dt x)))))).
      * rewrite mapM_pure. f_equal. unfold outd. rewrite !map_map. apply map_ext. intros x.
        unfold mk_leaf, leaf, rdt. destruct (lk op ks); reflexivity.
      * intros x Hx. apply spec_leaf_row1; try assumption.
        rewrite forallb_forall in Hj. apply Hj. unfold t, take in Hx. eapply firstn_In'; eassumption.
Qed.

(* ------------------------------------------------------------------ the option step *)
Lemma own_mask_sub vs : Forall2 (fun (v : value) (b : bool) => is_none v = true -> b = true) vs (map is_none vs).
Proof. induction vs as [|v vs IH]; constructor; auto. Qed.

Lemma opt_case1 op rec fuel pre post c vs :
  jag c = true -> to_list c = Ok vs -> is_option_node c = true -> step1 op pre post rec fuel (csize c) ->
  agrees_c (opt_branch rec (ins pre c post)) (mapM (spec_v op false (S fuel)) (rows1 pre post (type_of c) vs)) /\
  (forall out, opt_branch rec (ins pre c post) = Ok out -> jag out = true /\ is_option_node out = true).
Proof.
  intros Hj Hl Ho IH. set (mask := map is_none vs).
  assert (Hbm : bytemask_of c = Ok mask) by (destruct c; try discriminate; now apply bytemask_jag).
  destruct (opt_next c vs mask Hj Hl (own_mask_sub vs)) as (n & P & Jn & NOn & Tn & Tyn & Sn & Sn').
  assert (Hlm : length mask = length vs) by (unfold mask; apply map_length).
  destruct (IH n _ Jn Tn (Sn' Ho)) as [IHa IHj].
  assert (Hopt : opt_branch rec (ins pre c post) = do out <- rec (ins pre n post); Ok (IndexedOption I64 (count_index 0 mask) out)).
  { unfold opt_branch. rewrite contents_of_ins. cbn [filter]. rewrite Ho. cbn [mapM]. rewrite Hbm. cbn [bind fold_left].
    rewrite map_c_ins. cbv beta. change (if is_option_node c then _ else _) with (opt_proj mask c). rewrite P. reflexivity. }
  rewrite Hopt.
  destruct (type_of_jag c Hj) as (JT & OT & _). rewrite Ho in OT.
  destruct (type_of c) as [| | |t'| |] eqn:ET; try discriminate. cbn [strip_opt_t] in Tyn.
  unfold rows1 at 1. rewrite mapM_map.
  pose proof (mapM_scatter (fun v => spec_v op false (S fuel) (row1 pre post (TOpt t') v))
                           (fun v => spec_v op false fuel (row1 pre post t' v)) is_none vs) as Hsc.
  fold mask in Hsc. specialize (Hsc (fun v _ => spec_opt_row1 op false fuel pre post t' v)).
  rewrite Tyn in IHa. unfold rows1 in IHa. rewrite mapM_map in IHa.
  split.
  - destruct (mapM (fun v => spec_v op false fuel (row1 pre post t' v)) (kept vs mask)) as [ys|e] eqn:Einner.
    + rewrite Hsc. cbn [agrees_c] in IHa |- *. destruct IHa as (out & Hrec & Hout). rewrite Hrec. cbn [bind].
      eexists. split; [reflexivity|]. rewrite to_list_IndexedOption, Hout. cbn [bind].
      assert (Hny : nfalse mask = zlen ys) by (rewrite (mapM_zlen _ _ _ Einner); symmetry; now apply zlen_kept).
      exact (count_index_scatter ys mask [] Hny).
    + rewrite Hsc. cbn [agrees_c] in IHa |- *. destruct IHa as [-> IHa]. split; [reflexivity|]. rewrite IHa. reflexivity.
  - intros out Hd. apply bind_Ok in Hd as (o & Hrec & Hd). inversion Hd; subst out.
    destruct (IHj o Hrec) as [Jo Oo]. rewrite NOn in Oo. cbn [jag is_option_node]. now rewrite Jo, Oo.
Qed.

(* ------------------------------------------------------------------ the list step *)
Lemma list_assemble1 op rec fuel pre post n pieces (R : content -> content) bound :
  jag n = true -> to_list n = Ok (concat pieces) -> (csize n < bound)%nat -> step1 op pre post rec fuel bound ->
  (forall out, to_list (R out) = do outvs <- to_list out; rmap (map VList) (cut outvs (offsets_from 0 (map zlen pieces)))) ->
  (forall out, jag out = true -> jag (R out) = true /\ is_option_node (R out) = false) ->
  agrees_c (do out <- rec (ins pre n post); Ok (R out))
           (mapM (fun p => rmap VList (mapM (spec_v op false fuel) (rows1 pre post (type_of n) p))) pieces) /\
  (forall out, (do out <- rec (ins pre n post); Ok (R out)) = Ok out -> jag out = true /\ is_option_node out = false).
Proof.
  intros Jn Ln Hsz IH HR HRj. destruct (IH n _ Jn Ln Hsz) as [IHa IHj].
  rewrite rows1_concat, mapM_concat, mapM_map in IHa. set (g := spec_v op false fuel) in *.
  rewrite (mapM_rmap (fun p => mapM g (rows1 pre post (type_of n) p)) VList pieces).
  split.
  - destruct (mapM (fun p => mapM g (rows1 pre post (type_of n) p)) pieces) as [yss|e] eqn:Einner; cbn [rmap agrees_c] in *.
    + destruct IHa as (out & Hrec & Hout). rewrite Hrec. cbn [bind]. eexists. split; [reflexivity|]. rewrite HR, Hout. cbn [bind].
      assert (Hl : map zlen pieces = map zlen yss).
      { rewrite <- (mapM_map (mapM g) (rows1 pre post (type_of n))) in Einner. rewrite (mapM_mapM_zlen _ _ _ Einner), map_map.
        apply map_ext. intros p. unfold rows1. now rewrite zlen_map. }
      rewrite (cut_concat_lens yss _ Hl). reflexivity.
    + destruct IHa as [-> IHa]. split; [reflexivity|]. rewrite IHa. reflexivity.
  - intros out Hd. apply bind_Ok in Hd as (o & Hrec & Hd). inversion Hd; subst out.
    destruct (IHj o Hrec) as [Jo Oo]. now apply HRj.
Qed.

Lemma same_branch1_eq rec pre c post :
  same_branch rec (ins pre c post) = do n <- same_next c; do out <- rec (ins pre n post); same_out [c] out.
Proof.
  unfold same_branch. rewrite contents_of_ins, map_c_ins. cbv beta.
  change (match c with ListOffset _ o c' => pyslice c' (last o 0)
          | ListA _ s e c'' => if (zlen s =? 0) || (zlen e =? 0) then pyslice c'' 0 else pyslice c'' (fold_right Z.max (hd 0 e) e)
          | _ => Ok c end) with (same_next c).
  destruct (same_next c) as [n|]; reflexivity.
Qed.

Lemma list_case1 op rec fuel pre post c vs :
  jag c = true -> to_list c = Ok vs -> is_list_node c = true ->
  step1 op pre post rec fuel (csize c) ->
  agrees_c (list_branch rec (ins pre c post)) (mapM (spec_v op false (S fuel)) (rows1 pre post (type_of c) vs)) /\
  (forall out, list_branch rec (ins pre c post) = Ok out -> jag out = true /\ is_option_node out = false).
Proof.
  intros Hj Hl N IH.
  destruct (jag_nodes c Hj) as (_ & _ & _ & _ & _ & Rg & _ & _).
  destruct (list_view c vs Hj N Hl) as (vs' & ls & Li & Hc & -> & Ji & S1 & T1 & Zs & Zl).
  assert (Hspec : mapM (spec_v op false (S fuel)) (rows1 pre post (type_of c) (map VList ls)) =
                  mapM (fun p => rmap VList (mapM (spec_v op false fuel) (rows1 pre post (type_of (inner c)) p))) ls).
  { rewrite T1. unfold rows1 at 1. rewrite map_map, mapM_map. apply mapM_ext_in. intros l _. apply spec_list_row1. }
  rewrite Hspec.
  assert (HR : forall offs out, to_list (ListOffset I64 offs out) = do outvs <- to_list out; rmap (map VList) (cut outvs offs)) by reflexivity.
  unfold list_branch. rewrite contents_of_ins. cbn [filter]. rewrite N. cbn [forallb]. rewrite Rg. cbn [andb].
  destruct (all_same_offsets [c]) eqn:Ea; cbn [negb].
  - (* the shortcut *)
    unfold all_same_offsets in Ea. cbn [fold_left] in Ea.
    destruct (same_step (Some None) c) as [k|] eqn:E1; [|discriminate].
    destruct (same_first c k Hj E1 Zl) as (r & -> & G).
    destruct (same_next_ok c vs' ls r Hj N Li Ji Hc Zl G) as (n1 & B1 & Jn1 & Ln1 & Tn1 & Sn1).
    destruct (same_out_ok c c r Hj Hj N N Zl Zl G G) as (R & HRe & HRl & HRj).
    assert (HRe1 : forall out, same_out [c] out = Ok (R out)).
    { intros out. transitivity (same_out [c; c] out); [|exact (f_equal (fun f => f out) HRe)].
      clear -N Hj. destruct c; try discriminate; reflexivity. }
    assert (Hl1 : lens_of (pairs (0 :: r)) = map zlen ls) by (destruct G as (P1 & _); rewrite P1 in Hc; exact (cut1_lens _ _ _ Hc)).
    assert (Hoff : 0 :: r = offsets_from 0 (map zlen ls)).
    { rewrite <- Hl1. rewrite <- (map_sub0 (0 :: r)) at 1. rewrite map_sub_offsets. reflexivity. }
    rewrite same_branch1_eq, B1. cbn [bind].
    assert (Hb : (do out <- rec (ins pre n1 post); same_out [c] out) = (do out <- rec (ins pre n1 post); Ok (R out))).
    { destruct (rec (ins pre n1 post)); [cbn [bind]; apply HRe1|reflexivity]. }
    rewrite Hb. rewrite <- Tn1.
    apply (list_assemble1 op rec fuel pre post n1 ls R) with (bound := csize c); try assumption.
    + lia.
    + intros out. rewrite HRl, Hoff. reflexivity.
  - (* the general path: compact offsets of the list itself *)
    unfold gen_branch. rewrite contents_of_ins. cbn [filter]. rewrite N, Rg. cbn [negb andb].
    rewrite (compact_offsets_jag c vs' ls Hj N Hc Zs Zl). cbn [bind]. rewrite map_c_ins. cbv beta. rewrite N.
    destruct (bto_list_ok c vs' ls Hj N Li Ji Hc Zs Zl) as (n1 & B1 & Jn1 & Ln1 & Tn1 & Sn1 & _ & _). rewrite B1. cbn [bind].
    rewrite <- Tn1.
    apply (list_assemble1 op rec fuel pre post n1 ls (ListOffset I64 (offsets_from 0 (map zlen ls)))) with (bound := csize c); try assumption.
    + lia.
    + intros out. apply HR.
    + intros out Jo. cbn [jag is_option_node]. auto.
Qed.

(* ------------------------------------------------------------------ one call of apply, and the induction on the fuel *)
Lemma dispatch_step1 op rec fuel pre post c vs :
  forallb sc_ok pre = true -> forallb sc_ok post = true ->
  jag c = true -> to_list c = Ok vs -> step1 op pre post rec fuel (csize c) ->
  agrees_c (dispatch op None rec (ins pre c post)) (mapM (spec_v op false (S fuel)) (rows1 pre post (type_of c) vs)) /\
  (forall out, dispatch op None rec (ins pre c post) = Ok out -> jag out = true /\ is_option_node out = is_option_node c).
Proof.
  intros Hpre Hpost Hj Hl IH. destruct (is_numpy_node c) eqn:Hn.
  - destruct c as [dt sh d| | | | | | | | | | | |]; try discriminate. destruct sh as [|n [|x sh]]; try discriminate.
    destruct (leaf_case1 op rec fuel pre post dt n d vs Hpre Hpost Hj Hl) as (out & Hd & Jo & Oo & ys & Lo & Hs).
    rewrite Hd, Hs. split.
    + exists out. auto.
    + intros out' E. inversion E; subst out'. auto.
  - rewrite (dispatch1_nonleaf op rec pre post c Hj Hn). destruct (is_option_node c) eqn:Ho.
    + now apply opt_case1.
    + apply list_case1; try assumption.
      destruct (jag_nodes c Hj) as (_ & _ & _ & _ & _ & _ & _ & T). destruct T as [T|[T|T]]; congruence.
Qed.

Lemma apply_rows1 op pre post : forallb sc_ok pre = true -> forallb sc_ok post = true -> forall fuel c vs,
  jag c = true -> to_list c = Ok vs -> (csize c <= fuel)%nat ->
  agrees_c (Broadcast.apply op None fuel (ins pre c post)) (mapM (spec_v op false fuel) (rows1 pre post (type_of c) vs)) /\
  (forall out, Broadcast.apply op None fuel (ins pre c post) = Ok out -> jag out = true /\ is_option_node out = is_option_node c).
Proof.
  intros Hpre Hpost. induction fuel as [|fuel IH]; intros c vs Hj Hl Hf.
  - pose proof (csize_pos c). lia.
  - rewrite apply_S. apply dispatch_step1; try assumption.
    intros n ws Jn Ln Hlt. apply IH; try assumption. lia.
Qed.
