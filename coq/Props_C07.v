(** C07 property theorems (proofs in Proofs_C07.v).  [combos repl n l] is what the value-level
    specification [comb_f] puts, as tuples, in place of every list [l] at the axis; the theorems
    say it is exactly itertools.combinations(_with_replacement). *)
From AwkV Require Import Layout Ops_Struct Proofs_C07.
From AwkV Require Import Valid Types AtAxis Carry Proofs_Lists Proofs_ToList Proofs_Carry Proofs_AtAxis Proofs_AtAxisOps.

Theorem combinations_result : forall n repl t l,
  comb_f n repl t l = Ok (VList (map VTup (combos repl n l))).
Proof. exact (fun n repl t l => eq_refl). Qed.
Print Assumptions combinations_result.

(* number of tuples per list = binomial count *)
Theorem combs_length_is_binomial : forall (l : list value) n, length (combs n l) = binom (length l) n.
Proof. exact (fun l n => combs_length n l). Qed.
Print Assumptions combs_length_is_binomial.

Theorem combs_r_length_is_multichoose : forall (l : list value) n m,
  length l = S m -> length (combs_r n l) = binom (m + n) n.
Proof. intros l n m H. rewrite combs_r_length, H. apply mc_binom. Qed.
Print Assumptions combs_r_length_is_multichoose.

(* every tuple has n elements, taken from this list in order (never from a neighbouring list) *)
Theorem combs_tuples_are_subsequences : forall (l : list value) n t,
  In t (combs n l) -> length t = n /\ subseq t l.
Proof. exact (fun l n t H => conj (combs_tuple_length n l t H) (combs_subseq n l t H)). Qed.
Print Assumptions combs_tuples_are_subsequences.

(* every n-element subsequence is produced *)
Theorem combs_all_subsequences : forall (l t : list value), subseq t l -> In t (combs (length t) l).
Proof. exact combs_complete. Qed.
Print Assumptions combs_all_subsequences.

(* positions are never duplicated: over distinct positions no tuple appears twice *)
Theorem combs_no_duplicates : forall (positions : list Z) n, NoDup positions -> NoDup (combs n positions).
Proof. exact (fun p n => combs_NoDup n p). Qed.
Print Assumptions combs_no_duplicates.

Theorem combs_r_tuples_have_n : forall (l : list value) n t, In t (combs_r n l) -> length t = n.
Proof. exact (fun l n t => combs_r_tuple_length n l t). Qed.
Print Assumptions combs_r_tuples_have_n.

(* refinement: the layout-level model (Record of IndexedArrays over the list content) computes
   exactly the value-level specification (tuples of itertools combinations per list at the axis) *)
Theorem combinations_refines_spec : forall n repl c axis vs,
  Valid None c -> frag c = true -> to_list c = Ok vs ->
  obs (comb_model n repl axis c) = comb_spec n repl axis (type_of c) vs.
Proof. exact combinations_refines. Qed.
Print Assumptions combinations_refines_spec.
