(** C17b, extended printing/re-parsing round trip, stage 3c/4: [printable_x] contains [printable]; Type::tostring
    is injective on [printable_x]; what stays outside because the printer itself loses the information. *)
From Coq Require Import ZArith List Bool Lia ZifyBool String.
From AwkV Require Import Base Layout.
From AwkTypes Require Import Json Forms TypeStr Proofs_Json Proofs_Parse
  Proofs_C17b_ParseX_Json Proofs_C17b_ParseX_Defs Proofs_C17b_ParseX_Ty Proofs_C17b_ParseX.
Import ListNotations.
Open Scope Z_scope.
Ltac Zify.zify_post_hook ::= Z.to_euclidean_division_equations.

(* ---------------------------------------------------------------- printable_x contains printable *)
Lemma is_name_key_ok w : is_name w = true -> key_ok w = true.
Proof.
  intros H. destruct (is_name_alnum w H) as (_ & _ & _ & _ & Hall & _).
  unfold key_ok. apply forallb_forall. intros x Hx. rewrite forallb_forall in Hall. specialize (Hall x Hx).
  unfold is_alnum_, is_alpha_ in Hall. lia.
Qed.

Lemma forallb_Forall_impl {A} (f g : A -> bool) l :
  Forall (fun x => f x = true -> g x = true) l -> forallb f l = true -> forallb g l = true.
Proof.
  induction 1 as [|x l Hx Hl IH]; [reflexivity|]. simpl. intros H. apply andb_true_iff in H as [H1 H2].
  rewrite (Hx H1), (IH H2). reflexivity.
Qed.

Theorem printable_x_extends t : printable t = true -> printable_x t = true.
Proof.
  induction t as [p s dt|p s|p s t' IH|p s n t' IH|p s t' IH|p s ks l IH|p s l IH] using rty_ind';
    intros Hp; cbn [printable] in Hp; apply orb_true_iff in Hp as [Hp|Hp];
    try (destruct (hardcoded_cases _ Hp) as [E|[E|[E|E]]]; rewrite E; reflexivity).
  - destruct p; [|discriminate]. destruct s; [|discriminate]. cbn [printable_x rty_params].
    change (pvals_ok []) with true. cbn [andb]. apply orb_true_iff. right. exact Hp.
  - destruct p; [|discriminate]. destruct s; [|discriminate]. reflexivity.
  - destruct p; [|discriminate]. destruct s; [|discriminate]. cbn [printable_x rty_params].
    change (pvals_ok []) with true. cbn [andb]. apply orb_true_iff. right. exact (IH Hp).
  - destruct p; [|discriminate]. destruct s; [|discriminate]. cbn [printable_x rty_params].
    change (pvals_ok []) with true. cbn [andb]. apply orb_true_iff. right.
    apply andb_true_iff in Hp as [Hn Hp]. rewrite Hn, (IH Hp). reflexivity.
  - destruct p; [|discriminate]. destruct s; [|discriminate]. cbn [printable_x rty_params].
    change (pvals_ok []) with true. cbn [andb]. apply orb_true_iff. right. exact (IH Hp).
  - destruct s; [|destruct p; discriminate Hp].
    apply andb_true_iff in Hp as [Hp Hpar]. apply andb_true_iff in Hp as [Hpl Hks].
    pose proof (forallb_Forall_impl _ _ l IH Hpl) as Hpl'.
    cbn [printable_x rty_params]. destruct p as [|[k v] p'].
    + change (pvals_ok []) with true. cbn [andb]. apply orb_true_iff. right. rewrite Hpl', Hks. reflexivity.
    + destruct v as [| | | |w| |]; try discriminate Hpar. destruct p'; [|discriminate Hpar].
      assert (Hnamed : named_ok [(k, JStr w)] ks l = true) by exact Hpar.
      apply andb_true_iff in Hpar as [Hpar Hempty]. apply andb_true_iff in Hpar as [Hpar Hres].
      apply andb_true_iff in Hpar as [Hk Hn]. apply bytes_eqb_eq in Hk. subst k.
      assert (Hpv : pvals_ok [(k_record, JStr w)] = true).
      { unfold pvals_ok, pval_ok, catval. cbn [psorted forallb fst snd json_ok]. rewrite (is_name_key_ok w Hn). reflexivity. }
      match goal with |- ?a && _ = true => replace a with true by (symmetry; exact Hpv) end.
      cbn [andb]. apply orb_true_iff. right. rewrite Hpl', Hks. cbn [andb].
      match goal with |- match ?r with Some _ => _ | None => _ end = true => destruct r end; [exact Hnamed|reflexivity].
  - destruct p; [|discriminate]. destruct s; [|discriminate]. cbn [printable_x rty_params].
    change (pvals_ok []) with true. cbn [andb]. apply orb_true_iff. right.
    rewrite (forallb_Forall_impl _ _ l IH Hp). reflexivity.
Qed.

(* ---------------------------------------------------------------- stage 4: the printer is injective on the fragment *)
Theorem type_tostring_injective_x t1 t2 : printable_x t1 = true -> printable_x t2 = true ->
  type_tostring t1 = type_tostring t2 -> t1 = t2.
Proof.
  intros H1 H2 E. pose proof (type_print_parse_roundtrip_x t1 H1) as P1.
  pose proof (type_print_parse_roundtrip_x t2 H2) as P2. rewrite E in P1. congruence.
Qed.

(* ---------------------------------------------------------------- outside the fragment: the printer loses information *)
Definition ti64 : rty := RNum [] [] (FD DInt64).
Definition tbool : rty := RNum [] [] (FD DBool).
Definition nm_Pt : bytes := [80; 116].

(* (a) __categorical__ with a value other than true: string_parameters filters the KEY out whatever its value,
   while is_categorical / parameters_empty only recognise the value true: the value is never printed *)
Example cat_not_true_refuted :
  let t1 := RNum [(k_categorical, JBool false)] [] (FD DInt64) in
  let t2 := RNum [(k_categorical, JNull)] [] (FD DInt64) in
  let t3 := RNum [(k_categorical, JBool false); ([120], JInt 1)] [] (FD DInt64) in
  let t4 := RNum [([120], JInt 1)] [] (FD DInt64) in
  type_tostring t1 = type_tostring t2 /\ t1 <> t2 /\
  type_tostring t1 = bytes_of_string "int64[parameters={}]"%string /\
  type_tostring t3 = type_tostring t4 /\ t3 <> t4 /\
  printable_x t1 = false /\ printable_x t2 = false /\ printable_x t3 = false /\ printable_x t4 = true.
Proof. cbv zeta. repeat split; try discriminate; vm_compute; reflexivity. Qed.

(* (b) a non-empty typestr replaces the whole body (Type::tostring_part returns the typestr at once) *)
Example typestr_refuted :
  let t1 := RNum [([120], JInt 1)] [120] (FD DInt64) in
  let t2 := RList [] [120] (RUnk [] []) in
  type_tostring t1 = type_tostring t2 /\ t1 <> t2 /\ type_tostring t1 = [120] /\
  printable_x t1 = false /\ printable_x t2 = false.
Proof. cbv zeta. repeat split; try discriminate; vm_compute; reflexivity. Qed.

(* (c) RecordType with a name prints Name[...] for tuples and for records alike: with no fields both are Name[] *)
Example named_empty_refuted :
  let t1 := RRec [(k_record, JStr nm_Pt)] [] None [] in
  let t2 := RRec [(k_record, JStr nm_Pt)] [] (Some []) [] in
  type_tostring t1 = type_tostring t2 /\ t1 <> t2 /\ type_tostring t1 = bytes_of_string "Pt[]"%string /\
  printable_x t1 = false /\ printable_x t2 = true.
Proof. cbv zeta. repeat split; try discriminate; vm_compute; reflexivity. Qed.

(* (d) record_name only refuses the datashape keywords: the words union / unknown / struct / tuple are accepted
   as record names, so a tuple named "union" prints like a union type; and the name is cut at the first NUL (cstr) *)
Example keyword_name_refuted :
  let t1 := RRec [(k_record, JStr w_union)] [] None [ti64; tbool] in
  let t2 := RUnion [] [] [ti64; tbool] in
  let t3 := RRec [(k_record, JStr [80; 0; 81])] [] None [ti64] in
  let t4 := RRec [(k_record, JStr [80])] [] None [ti64] in
  type_tostring t1 = type_tostring t2 /\ t1 <> t2 /\ type_tostring t1 = bytes_of_string "union[int64, bool]"%string /\
  type_tostring t3 = type_tostring t4 /\ t3 <> t4 /\
  printable_x t1 = false /\ printable_x t2 = true /\ printable_x t3 = false /\ printable_x t4 = true.
Proof. cbv zeta. repeat split; try discriminate; vm_compute; reflexivity. Qed.
(* ... while with a second parameter the same name is printed inside parameters={} and survives *)
Example keyword_name_with_second_parameter_ok :
  let t := RRec [(k_record, JStr w_union); ([120], JInt 1)] [] None [ti64; tbool] in
  printable_x t = true /\ type_parse_x (type_tostring t) = Ok t /\
  type_tostring t = bytes_of_string "tuple[[int64, bool], parameters={""__record__"": ""union"", ""x"": 1}]"%string.
Proof. cbv zeta. repeat split; vm_compute; reflexivity. Qed.

(* (e) lists that are not std::map listings: the categorical wrapper hides where __categorical__ stood, so an
   unsorted list collides with the sorted one; duplicate keys are likewise not maps (params_parse insists on
   strictly increasing keys, as a std::map lists them) *)
Example unsorted_refuted :
  let t1 := RNum [([122], JInt 1); (k_categorical, JBool true)] [] (FD DInt64) in
  let t2 := RNum [(k_categorical, JBool true); ([122], JInt 1)] [] (FD DInt64) in
  let t3 := RNum [([98], JInt 1); ([97], JInt 2)] [] (FD DInt64) in
  let t4 := RNum [([97], JInt 1); ([97], JInt 2)] [] (FD DInt64) in
  type_tostring t1 = type_tostring t2 /\ t1 <> t2 /\
  printable_x t1 = false /\ printable_x t2 = true /\
  printable_x t3 = false /\ type_parse_x (type_tostring t3) = Err EValue /\
  printable_x t4 = false /\ type_parse_x (type_tostring t4) = Err EValue.
Proof. cbv zeta. repeat split; try discriminate; vm_compute; reflexivity. Qed.

(* (f) a record name next to __categorical__: true: record_name wants EXACTLY one parameter, so the categorical
   named record is printed as struct[...] with the name inside parameters={} -- no loss, it is in the fragment;
   the parser reads categorical[type=Pt[...]] as the same type, which the printer never spells that way *)
Example named_categorical_ok :
  let t := RRec [(k_categorical, JBool true); (k_record, JStr nm_Pt)] [] (Some [[120]]) [ti64] in
  printable_x t = true /\ type_parse_x (type_tostring t) = Ok t /\
  type_tostring t = bytes_of_string "categorical[type=struct[[""x""], [int64], parameters={""__record__"": ""Pt""}]]"%string /\
  type_parse_x (bytes_of_string "categorical[type=Pt[""x"": int64]]"%string) = Ok t /\
  type_parse_x (bytes_of_string "categorical[type={""x"": int64}]"%string) =
    Ok (RRec [(k_categorical, JBool true)] [] (Some [[120]]) [ti64]).
Proof. cbv zeta. repeat split; vm_compute; reflexivity. Qed.

(* outside by the parser's choice, not by loss: a union without contents but with parameters prints "union[, parameters=...]";
   negative regular sizes print "-3 * T" (excluded from [printable] already) *)
Example empty_union_with_parameters_outside :
  let t := RUnion [([120], JInt 1)] [] [] in
  type_tostring t = bytes_of_string "union[, parameters={""x"": 1}]"%string /\ printable_x t = false /\
  type_parse_x (type_tostring t) = Err EValue.
Proof. cbv zeta. repeat split; vm_compute; reflexivity. Qed.

(* a non-integral parameter value (carried as the text rj::Writer chose) survives as well *)
Example double_parameter_ok :
  let t := RList [([120], JDbl [49; 46; 53]); ([121], JArr [JDbl [45; 50; 101; 45; 48; 55]; JInt 3])] [] ti64 in
  printable_x t = true /\ type_parse_x (type_tostring t) = Ok t /\
  type_tostring t = bytes_of_string "[var * int64, parameters={""x"": 1.5, ""y"": [-2e-07,3]}]"%string.
Proof. cbv zeta. repeat split; vm_compute; reflexivity. Qed.
