
(** val negb : bool -> bool **)

let negb = function
| true -> false
| false -> true

type nat =
| O
| S of nat

type ('a, 'b) sum =
| Inl of 'a
| Inr of 'b

(** val fst : ('a1 * 'a2) -> 'a1 **)

let fst = function
| (x, _) -> x

(** val snd : ('a1 * 'a2) -> 'a2 **)

let snd = function
| (_, y) -> y

(** val length : 'a1 list -> nat **)

let rec length = function
| [] -> O
| _ :: l' -> S (length l')

(** val app : 'a1 list -> 'a1 list -> 'a1 list **)

let rec app l m =
  match l with
  | [] -> m
  | a :: l1 -> a :: (app l1 m)

type comparison =
| Eq
| Lt
| Gt

(** val compOpp : comparison -> comparison **)

let compOpp = function
| Eq -> Eq
| Lt -> Gt
| Gt -> Lt

module Coq__1 = struct
 (** val add : nat -> nat -> nat **)
 let rec add n0 m =
   match n0 with
   | O -> m
   | S p -> S (add p m)
end
include Coq__1

(** val mul : nat -> nat -> nat **)

let rec mul n0 m =
  match n0 with
  | O -> O
  | S p -> add m (mul p m)

type positive =
| XI of positive
| XO of positive
| XH

type n =
| N0
| Npos of positive

type z =
| Z0
| Zpos of positive
| Zneg of positive

(** val eqb : bool -> bool -> bool **)

let eqb b1 b2 =
  if b1 then b2 else if b2 then false else true

module Nat =
 struct
  (** val eqb : nat -> nat -> bool **)

  let rec eqb n0 m =
    match n0 with
    | O -> (match m with
            | O -> true
            | S _ -> false)
    | S n' -> (match m with
               | O -> false
               | S m' -> eqb n' m')
 end

module Pos =
 struct
  (** val succ : positive -> positive **)

  let rec succ = function
  | XI p -> XO (succ p)
  | XO p -> XI p
  | XH -> XO XH

  (** val add : positive -> positive -> positive **)

  let rec add x y =
    match x with
    | XI p ->
      (match y with
       | XI q -> XO (add_carry p q)
       | XO q -> XI (add p q)
       | XH -> XO (succ p))
    | XO p ->
      (match y with
       | XI q -> XI (add p q)
       | XO q -> XO (add p q)
       | XH -> XI p)
    | XH -> (match y with
             | XI q -> XO (succ q)
             | XO q -> XI q
             | XH -> XO XH)

  (** val add_carry : positive -> positive -> positive **)

  and add_carry x y =
    match x with
    | XI p ->
      (match y with
       | XI q -> XI (add_carry p q)
       | XO q -> XO (add_carry p q)
       | XH -> XI (succ p))
    | XO p ->
      (match y with
       | XI q -> XO (add_carry p q)
       | XO q -> XI (add p q)
       | XH -> XO (succ p))
    | XH ->
      (match y with
       | XI q -> XI (succ q)
       | XO q -> XO (succ q)
       | XH -> XI XH)

  (** val pred_double : positive -> positive **)

  let rec pred_double = function
  | XI p -> XI (XO p)
  | XO p -> XI (pred_double p)
  | XH -> XH

  (** val pred_N : positive -> n **)

  let pred_N = function
  | XI p -> Npos (XO p)
  | XO p -> Npos (pred_double p)
  | XH -> N0

  (** val mul : positive -> positive -> positive **)

  let rec mul x y =
    match x with
    | XI p -> add y (XO (mul p y))
    | XO p -> XO (mul p y)
    | XH -> y

  (** val iter : ('a1 -> 'a1) -> 'a1 -> positive -> 'a1 **)

  let rec iter f x = function
  | XI n' -> f (iter f (iter f x n') n')
  | XO n' -> iter f (iter f x n') n'
  | XH -> f x

  (** val size : positive -> positive **)

  let rec size = function
  | XI p0 -> succ (size p0)
  | XO p0 -> succ (size p0)
  | XH -> XH

  (** val compare_cont : comparison -> positive -> positive -> comparison **)

  let rec compare_cont r x y =
    match x with
    | XI p ->
      (match y with
       | XI q -> compare_cont r p q
       | XO q -> compare_cont Gt p q
       | XH -> Gt)
    | XO p ->
      (match y with
       | XI q -> compare_cont Lt p q
       | XO q -> compare_cont r p q
       | XH -> Gt)
    | XH -> (match y with
             | XH -> r
             | _ -> Lt)

  (** val compare : positive -> positive -> comparison **)

  let compare =
    compare_cont Eq

  (** val eqb : positive -> positive -> bool **)

  let rec eqb p q =
    match p with
    | XI p0 -> (match q with
                | XI q0 -> eqb p0 q0
                | _ -> false)
    | XO p0 -> (match q with
                | XO q0 -> eqb p0 q0
                | _ -> false)
    | XH -> (match q with
             | XH -> true
             | _ -> false)

  (** val testbit : positive -> n -> bool **)

  let rec testbit p n0 =
    match p with
    | XI p0 -> (match n0 with
                | N0 -> true
                | Npos n1 -> testbit p0 (pred_N n1))
    | XO p0 -> (match n0 with
                | N0 -> false
                | Npos n1 -> testbit p0 (pred_N n1))
    | XH -> (match n0 with
             | N0 -> true
             | Npos _ -> false)

  (** val iter_op : ('a1 -> 'a1 -> 'a1) -> positive -> 'a1 -> 'a1 **)

  let rec iter_op op p a =
    match p with
    | XI p0 -> op a (iter_op op p0 (op a a))
    | XO p0 -> iter_op op p0 (op a a)
    | XH -> a

  (** val to_nat : positive -> nat **)

  let to_nat x =
    iter_op Coq__1.add x (S O)

  (** val of_succ_nat : nat -> positive **)

  let rec of_succ_nat = function
  | O -> XH
  | S x -> succ (of_succ_nat x)
 end

module N =
 struct
  (** val testbit : n -> n -> bool **)

  let testbit a n0 =
    match a with
    | N0 -> false
    | Npos p -> Pos.testbit p n0
 end

module Z =
 struct
  (** val double : z -> z **)

  let double = function
  | Z0 -> Z0
  | Zpos p -> Zpos (XO p)
  | Zneg p -> Zneg (XO p)

  (** val succ_double : z -> z **)

  let succ_double = function
  | Z0 -> Zpos XH
  | Zpos p -> Zpos (XI p)
  | Zneg p -> Zneg (Pos.pred_double p)

  (** val pred_double : z -> z **)

  let pred_double = function
  | Z0 -> Zneg XH
  | Zpos p -> Zpos (Pos.pred_double p)
  | Zneg p -> Zneg (XI p)

  (** val pos_sub : positive -> positive -> z **)

  let rec pos_sub x y =
    match x with
    | XI p ->
      (match y with
       | XI q -> double (pos_sub p q)
       | XO q -> succ_double (pos_sub p q)
       | XH -> Zpos (XO p))
    | XO p ->
      (match y with
       | XI q -> pred_double (pos_sub p q)
       | XO q -> double (pos_sub p q)
       | XH -> Zpos (Pos.pred_double p))
    | XH ->
      (match y with
       | XI q -> Zneg (XO q)
       | XO q -> Zneg (Pos.pred_double q)
       | XH -> Z0)

  (** val add : z -> z -> z **)

  let add x y =
    match x with
    | Z0 -> y
    | Zpos x' ->
      (match y with
       | Z0 -> x
       | Zpos y' -> Zpos (Pos.add x' y')
       | Zneg y' -> pos_sub x' y')
    | Zneg x' ->
      (match y with
       | Z0 -> x
       | Zpos y' -> pos_sub y' x'
       | Zneg y' -> Zneg (Pos.add x' y'))

  (** val opp : z -> z **)

  let opp = function
  | Z0 -> Z0
  | Zpos x0 -> Zneg x0
  | Zneg x0 -> Zpos x0

  (** val sub : z -> z -> z **)

  let sub m n0 =
    add m (opp n0)

  (** val mul : z -> z -> z **)

  let mul x y =
    match x with
    | Z0 -> Z0
    | Zpos x' ->
      (match y with
       | Z0 -> Z0
       | Zpos y' -> Zpos (Pos.mul x' y')
       | Zneg y' -> Zneg (Pos.mul x' y'))
    | Zneg x' ->
      (match y with
       | Z0 -> Z0
       | Zpos y' -> Zneg (Pos.mul x' y')
       | Zneg y' -> Zpos (Pos.mul x' y'))

  (** val pow_pos : z -> positive -> z **)

  let pow_pos z0 =
    Pos.iter (mul z0) (Zpos XH)

  (** val pow : z -> z -> z **)

  let pow x = function
  | Z0 -> Zpos XH
  | Zpos p -> pow_pos x p
  | Zneg _ -> Z0

  (** val compare : z -> z -> comparison **)

  let compare x y =
    match x with
    | Z0 -> (match y with
             | Z0 -> Eq
             | Zpos _ -> Lt
             | Zneg _ -> Gt)
    | Zpos x' -> (match y with
                  | Zpos y' -> Pos.compare x' y'
                  | _ -> Gt)
    | Zneg x' ->
      (match y with
       | Zneg y' -> compOpp (Pos.compare x' y')
       | _ -> Lt)

  (** val leb : z -> z -> bool **)

  let leb x y =
    match compare x y with
    | Gt -> false
    | _ -> true

  (** val ltb : z -> z -> bool **)

  let ltb x y =
    match compare x y with
    | Lt -> true
    | _ -> false

  (** val eqb : z -> z -> bool **)

  let eqb x y =
    match x with
    | Z0 -> (match y with
             | Z0 -> true
             | _ -> false)
    | Zpos p -> (match y with
                 | Zpos q -> Pos.eqb p q
                 | _ -> false)
    | Zneg p -> (match y with
                 | Zneg q -> Pos.eqb p q
                 | _ -> false)

  (** val to_nat : z -> nat **)

  let to_nat = function
  | Zpos p -> Pos.to_nat p
  | _ -> O

  (** val of_nat : nat -> z **)

  let of_nat = function
  | O -> Z0
  | S n1 -> Zpos (Pos.of_succ_nat n1)

  (** val pos_div_eucl : positive -> z -> z * z **)

  let rec pos_div_eucl a b =
    match a with
    | XI a' ->
      let (q, r) = pos_div_eucl a' b in
      let r' = add (mul (Zpos (XO XH)) r) (Zpos XH) in
      if ltb r' b
      then ((mul (Zpos (XO XH)) q), r')
      else ((add (mul (Zpos (XO XH)) q) (Zpos XH)), (sub r' b))
    | XO a' ->
      let (q, r) = pos_div_eucl a' b in
      let r' = mul (Zpos (XO XH)) r in
      if ltb r' b
      then ((mul (Zpos (XO XH)) q), r')
      else ((add (mul (Zpos (XO XH)) q) (Zpos XH)), (sub r' b))
    | XH -> if leb (Zpos (XO XH)) b then (Z0, (Zpos XH)) else ((Zpos XH), Z0)

  (** val div_eucl : z -> z -> z * z **)

  let div_eucl a b =
    match a with
    | Z0 -> (Z0, Z0)
    | Zpos a' ->
      (match b with
       | Z0 -> (Z0, a)
       | Zpos _ -> pos_div_eucl a' b
       | Zneg b' ->
         let (q, r) = pos_div_eucl a' (Zpos b') in
         (match r with
          | Z0 -> ((opp q), Z0)
          | _ -> ((opp (add q (Zpos XH))), (add b r))))
    | Zneg a' ->
      (match b with
       | Z0 -> (Z0, a)
       | Zpos _ ->
         let (q, r) = pos_div_eucl a' b in
         (match r with
          | Z0 -> ((opp q), Z0)
          | _ -> ((opp (add q (Zpos XH))), (sub b r)))
       | Zneg b' -> let (q, r) = pos_div_eucl a' (Zpos b') in (q, (opp r)))

  (** val div : z -> z -> z **)

  let div a b =
    let (q, _) = div_eucl a b in q

  (** val modulo : z -> z -> z **)

  let modulo a b =
    let (_, r) = div_eucl a b in r

  (** val odd : z -> bool **)

  let odd = function
  | Z0 -> false
  | Zpos p -> (match p with
               | XO _ -> false
               | _ -> true)
  | Zneg p -> (match p with
               | XO _ -> false
               | _ -> true)

  (** val log2 : z -> z **)

  let log2 = function
  | Zpos p0 ->
    (match p0 with
     | XI p -> Zpos (Pos.size p)
     | XO p -> Zpos (Pos.size p)
     | XH -> Z0)
  | _ -> Z0

  (** val testbit : z -> z -> bool **)

  let testbit a = function
  | Z0 -> odd a
  | Zpos p ->
    (match a with
     | Z0 -> false
     | Zpos a0 -> Pos.testbit a0 (Npos p)
     | Zneg a0 -> negb (N.testbit (Pos.pred_N a0) (Npos p)))
  | Zneg _ -> false
 end

(** val nth_error : 'a1 list -> nat -> 'a1 option **)

let rec nth_error l = function
| O -> (match l with
        | [] -> None
        | x :: _ -> Some x)
| S n1 -> (match l with
           | [] -> None
           | _ :: l0 -> nth_error l0 n1)

(** val rev : 'a1 list -> 'a1 list **)

let rec rev = function
| [] -> []
| x :: l' -> app (rev l') (x :: [])

(** val concat : 'a1 list list -> 'a1 list **)

let rec concat = function
| [] -> []
| x :: l0 -> app x (concat l0)

(** val map : ('a1 -> 'a2) -> 'a1 list -> 'a2 list **)

let rec map f = function
| [] -> []
| a :: t -> (f a) :: (map f t)

(** val flat_map : ('a1 -> 'a2 list) -> 'a1 list -> 'a2 list **)

let rec flat_map f = function
| [] -> []
| x :: t -> app (f x) (flat_map f t)

(** val fold_right : ('a2 -> 'a1 -> 'a1) -> 'a1 -> 'a2 list -> 'a1 **)

let rec fold_right f a0 = function
| [] -> a0
| b :: t -> f b (fold_right f a0 t)

(** val existsb : ('a1 -> bool) -> 'a1 list -> bool **)

let rec existsb f = function
| [] -> false
| a :: l0 -> (||) (f a) (existsb f l0)

(** val forallb : ('a1 -> bool) -> 'a1 list -> bool **)

let rec forallb f = function
| [] -> true
| a :: l0 -> (&&) (f a) (forallb f l0)

(** val firstn : nat -> 'a1 list -> 'a1 list **)

let rec firstn n0 l =
  match n0 with
  | O -> []
  | S n1 -> (match l with
             | [] -> []
             | a :: l0 -> a :: (firstn n1 l0))

(** val skipn : nat -> 'a1 list -> 'a1 list **)

let rec skipn n0 l =
  match n0 with
  | O -> l
  | S n1 -> (match l with
             | [] -> []
             | _ :: l0 -> skipn n1 l0)

type err =
| EValue
| EOob
| EFuel

type 'a res =
| Ok of 'a
| Err of err

(** val bind : 'a1 res -> ('a1 -> 'a2 res) -> 'a2 res **)

let bind r f =
  match r with
  | Ok a -> f a
  | Err e -> Err e

(** val rmap : ('a1 -> 'a2) -> 'a1 res -> 'a2 res **)

let rmap f = function
| Ok a -> Ok (f a)
| Err e -> Err e

(** val mapM : ('a1 -> 'a2 res) -> 'a1 list -> 'a2 list res **)

let rec mapM f = function
| [] -> Ok []
| x :: xs -> bind (f x) (fun y -> bind (mapM f xs) (fun ys -> Ok (y :: ys)))

(** val zlen : 'a1 list -> z **)

let zlen l =
  Z.of_nat (length l)

(** val get : 'a1 list -> z -> 'a1 res **)

let get l i =
  if Z.ltb i Z0
  then Err EOob
  else (match nth_error l (Z.to_nat i) with
        | Some x -> Ok x
        | None -> Err EOob)

(** val take : z -> 'a1 list -> 'a1 list **)

let take n0 l =
  firstn (Z.to_nat n0) l

(** val drop : z -> 'a1 list -> 'a1 list **)

let drop n0 l =
  skipn (Z.to_nat n0) l

(** val slice : 'a1 list -> z -> z -> 'a1 list res **)

let slice l a b =
  if (&&) ((&&) (Z.leb Z0 a) (Z.leb a b)) (Z.leb b (zlen l))
  then Ok (take (Z.sub b a) (drop a l))
  else Err EOob

(** val iota_nat : z -> nat -> z list **)

let rec iota_nat start = function
| O -> []
| S n' -> start :: (iota_nat (Z.add start (Zpos XH)) n')

(** val iota : z -> z list **)

let iota n0 =
  iota_nat Z0 (Z.to_nat n0)

(** val range : z -> z -> z list **)

let range a b =
  iota_nat a (Z.to_nat (Z.sub b a))

(** val zip : 'a1 list -> 'a2 list -> ('a1 * 'a2) list **)

let rec zip l m =
  match l with
  | [] -> []
  | x :: xs -> (match m with
                | [] -> []
                | y :: ys -> (x, y) :: (zip xs ys))

(** val pairs : z list -> (z * z) list **)

let rec pairs = function
| [] -> []
| a :: t -> (match t with
             | [] -> []
             | b :: _ -> (a, b) :: (pairs t))

(** val list_eqb : ('a1 -> 'a1 -> bool) -> 'a1 list -> 'a1 list -> bool **)

let rec list_eqb eqb0 l m =
  match l with
  | [] -> (match m with
           | [] -> true
           | _ :: _ -> false)
  | x :: xs ->
    (match m with
     | [] -> false
     | y :: ys -> (&&) (eqb0 x y) (list_eqb eqb0 xs ys))

(** val chunks_nat : 'a1 list -> z -> nat -> 'a1 list list **)

let rec chunks_nat vs n0 = function
| O -> []
| S k -> (take n0 vs) :: (chunks_nat (drop n0 vs) n0 k)

type width =
| I32
| U32
| I64

type dtype =
| DBool
| DInt8
| DInt16
| DInt32
| DInt64
| DUInt8
| DUInt16
| DUInt32
| DUInt64
| DFloat32
| DFloat64

type datum =
| DZ of z
| DNaN
| DInf of bool

type name = z list

type akind =
| AString
| ABytestring
| AChar
| AByte
| ACategorical

type value =
| VNum of datum
| VBool of bool
| VStr of bool * z list
| VNone
| VList of value list
| VRec of (name * value) list
| VTup of value list

type content =
| Numpy of dtype * z list * datum list
| Empty
| ListOffset of width * z list * content
| ListA of width * z list * z list * content
| Regular of content * z * z
| Indexed of width * z list * content
| IndexedOption of width * z list * content
| ByteMasked of z list * bool * content
| BitMasked of z list * bool * bool * z * content
| Unmasked of content
| Union of width * z list * z list * content list
| Record of content list * name list option * z
| Par of akind option * name option * content

(** val prodZ : z list -> z **)

let prodZ l =
  fold_right Z.mul (Zpos XH) l

(** val clen : content -> z **)

let rec clen = function
| Numpy (_, shape, _) -> (match shape with
                          | [] -> Z0
                          | n0 :: _ -> n0)
| Empty -> Z0
| ListOffset (_, o, _) -> Z.sub (zlen o) (Zpos XH)
| ListA (_, s, _, _) -> zlen s
| Regular (c', size0, zl) ->
  if Z.eqb size0 Z0 then zl else Z.div (clen c') size0
| Indexed (_, ix, _) -> zlen ix
| IndexedOption (_, ix, _) -> zlen ix
| ByteMasked (m, _, _) -> zlen m
| BitMasked (_, _, _, n0, _) -> n0
| Unmasked c' -> clen c'
| Union (_, t, _, _) -> zlen t
| Record (_, _, n0) -> n0
| Par (_, _, c') -> clen c'

(** val cut1 : 'a1 list -> (z * z) -> 'a1 list res **)

let cut1 vs = function
| (a, b) -> if Z.eqb a b then Ok [] else slice vs a b

(** val cut : 'a1 list -> z list -> 'a1 list list res **)

let cut vs o = match o with
| [] -> Err EValue
| _ :: _ -> mapM (cut1 vs) (pairs o)

(** val cut2 : 'a1 list -> z list -> z list -> 'a1 list list res **)

let cut2 vs s e =
  if Z.ltb (zlen e) (zlen s) then Err EValue else mapM (cut1 vs) (zip s e)

(** val chunks : 'a1 list -> z -> z -> 'a1 list list res **)

let chunks vs size0 zl =
  if Z.ltb size0 Z0
  then Err EValue
  else if Z.eqb size0 Z0
       then if Z.ltb zl Z0
            then Err EValue
            else Ok (map (fun _ -> []) (iota zl))
       else Ok (chunks_nat vs size0 (Z.to_nat (Z.div (zlen vs) size0)))

(** val bit_at : z list -> bool -> z -> bool res **)

let bit_at m lsb i =
  bind (get m (Z.div i (Zpos (XO (XO (XO XH)))))) (fun byte ->
    let k = Z.modulo i (Zpos (XO (XO (XO XH)))) in
    Ok (Z.testbit byte (if lsb then k else Z.sub (Zpos (XI (XI XH))) k)))

(** val pick_opt : value list -> bool -> z -> value res **)

let pick_opt vs valid i =
  if valid then get vs i else Ok VNone

(** val nest : z list -> z -> value list -> value list res **)

let rec nest dims count vs =
  match dims with
  | [] -> Ok vs
  | d :: ds ->
    bind (nest ds (Z.mul count d) vs) (fun inner ->
      bind (chunks inner d count) (fun ch -> Ok (map (fun x -> VList x) ch)))

(** val leaf : dtype -> datum -> value **)

let leaf dt d =
  match dt with
  | DBool ->
    (match d with
     | DZ z0 -> VBool (negb (Z.eqb z0 Z0))
     | _ -> VBool true)
  | _ -> VNum d

(** val bytes_of : value -> z list res **)

let bytes_of = function
| VList l ->
  mapM (fun x ->
    match x with
    | VNum d -> (match d with
                 | DZ z0 -> Ok z0
                 | _ -> Err EValue)
    | _ -> Err EValue) l
| _ -> Err EValue

(** val row : name list option -> value list list -> z -> value res **)

let row named cols i =
  bind (mapM (fun col -> get col i) cols) (fun vs ->
    match named with
    | Some ks ->
      if Nat.eqb (length ks) (length vs)
      then Ok (VRec (zip ks vs))
      else Err EValue
    | None -> Ok (VTup vs))

(** val to_list : content -> value list res **)

let rec to_list = function
| Numpy (dt, shape, data) ->
  (match shape with
   | [] -> Err EValue
   | n0 :: dims ->
     if existsb (fun d -> Z.ltb d Z0) shape
     then Err EValue
     else if Z.ltb (zlen data) (prodZ shape)
          then Err EValue
          else bind (nest dims n0 (map (leaf dt) (take (prodZ shape) data)))
                 (fun vs -> Ok vs))
| Empty -> Ok []
| ListOffset (_, o, c') ->
  bind (to_list c') (fun vs -> rmap (map (fun x -> VList x)) (cut vs o))
| ListA (_, s, e, c') ->
  bind (to_list c') (fun vs -> rmap (map (fun x -> VList x)) (cut2 vs s e))
| Regular (c', size0, zl) ->
  bind (to_list c') (fun vs ->
    rmap (map (fun x -> VList x)) (chunks vs size0 zl))
| Indexed (_, ix, c') -> bind (to_list c') (fun vs -> mapM (get vs) ix)
| IndexedOption (_, ix, c') ->
  bind (to_list c') (fun vs -> mapM (fun i -> pick_opt vs (Z.leb Z0 i) i) ix)
| ByteMasked (m, vw, c') ->
  bind (to_list c') (fun vs ->
    mapM (fun im ->
      let (i, b) = im in pick_opt vs (eqb (negb (Z.eqb b Z0)) vw) i)
      (zip (iota (zlen m)) m))
| BitMasked (m, vw, lsb, n0, c') ->
  bind (to_list c') (fun vs ->
    if Z.ltb n0 Z0
    then Err EValue
    else mapM (fun i ->
           bind (bit_at m lsb i) (fun b -> pick_opt vs (eqb b vw) i))
           (iota n0))
| Unmasked c' -> to_list c'
| Union (_, t, ix, cs) ->
  bind
    (let rec all = function
     | [] -> Ok []
     | x :: xs ->
       bind (to_list x) (fun v -> bind (all xs) (fun vs -> Ok (v :: vs)))
     in all cs) (fun vss ->
    if Z.ltb (zlen ix) (zlen t)
    then Err EValue
    else mapM (fun ti ->
           let (tg, i) = ti in bind (get vss tg) (fun vs -> get vs i))
           (zip t ix))
| Record (cs, ks, n0) ->
  bind
    (let rec all = function
     | [] -> Ok []
     | x :: xs ->
       bind (to_list x) (fun v -> bind (all xs) (fun vs -> Ok (v :: vs)))
     in all cs) (fun vss ->
    if Z.ltb n0 Z0 then Err EValue else mapM (row ks vss) (iota n0))
| Par (arr, _, c') ->
  bind (to_list c') (fun vs ->
    match arr with
    | Some a ->
      (match a with
       | AString ->
         mapM (fun v -> rmap (fun x -> VStr (true, x)) (bytes_of v)) vs
       | ABytestring ->
         mapM (fun v -> rmap (fun x -> VStr (false, x)) (bytes_of v)) vs
       | _ -> Ok vs)
    | None -> Ok vs)

(** val datum_eqb : datum -> datum -> bool **)

let datum_eqb a b =
  match a with
  | DZ x -> (match b with
             | DZ y -> Z.eqb x y
             | _ -> false)
  | DNaN -> (match b with
             | DNaN -> true
             | _ -> false)
  | DInf x -> (match b with
               | DInf y -> eqb x y
               | _ -> false)

(** val value_eqb : value -> value -> bool **)

let rec value_eqb a b =
  match a with
  | VNum x -> (match b with
               | VNum y -> datum_eqb x y
               | _ -> false)
  | VBool x -> (match b with
                | VBool y -> eqb x y
                | _ -> false)
  | VStr (i, s) ->
    (match b with
     | VStr (j, t) -> (&&) (eqb i j) (list_eqb Z.eqb s t)
     | _ -> false)
  | VNone -> (match b with
              | VNone -> true
              | _ -> false)
  | VList l ->
    (match b with
     | VList m ->
       let rec go l0 m0 =
         match l0 with
         | [] -> (match m0 with
                  | [] -> true
                  | _ :: _ -> false)
         | x :: xs ->
           (match m0 with
            | [] -> false
            | y :: ys -> (&&) (value_eqb x y) (go xs ys))
       in go l m
     | _ -> false)
  | VRec f ->
    (match b with
     | VRec g ->
       let rec go l m =
         match l with
         | [] -> (match m with
                  | [] -> true
                  | _ :: _ -> false)
         | p :: xs ->
           let (k, x) = p in
           (match m with
            | [] -> false
            | p0 :: ys ->
              let (k', y) = p0 in
              (&&) ((&&) (list_eqb Z.eqb k k') (value_eqb x y)) (go xs ys))
       in go f g
     | _ -> false)
  | VTup l ->
    (match b with
     | VTup m ->
       let rec go l0 m0 =
         match l0 with
         | [] -> (match m0 with
                  | [] -> true
                  | _ :: _ -> false)
         | x :: xs ->
           (match m0 with
            | [] -> false
            | y :: ys -> (&&) (value_eqb x y) (go xs ys))
       in go l m
     | _ -> false)

(** val strip : content -> content **)

let rec strip c = match c with
| Par (_, _, c') -> strip c'
| _ -> c

(** val optionlike : content -> bool **)

let optionlike c =
  match strip c with
  | Indexed (_, _, _) -> true
  | IndexedOption (_, _, _) -> true
  | ByteMasked (_, _, _) -> true
  | BitMasked (_, _, _, _, _) -> true
  | Unmasked _ -> true
  | _ -> false

(** val unionlike : content -> bool **)

let unionlike c =
  match strip c with
  | Union (_, _, _, _) -> true
  | _ -> false

(** val pair_okb : z -> (z * z) -> bool **)

let pair_okb lc = function
| (a, b) ->
  (||) (Z.eqb a b) ((&&) ((&&) (Z.leb a b) (Z.leb Z0 a)) (Z.leb b lc))

(** val is_chars : akind -> content -> bool **)

let is_chars k = function
| Par (arr, _, c0) ->
  (match arr with
   | Some k' ->
     (match c0 with
      | Numpy (dt, shape, _) ->
        (match dt with
         | DUInt8 ->
           (match shape with
            | [] -> false
            | _ :: l ->
              (match l with
               | [] ->
                 (match k with
                  | AChar -> (match k' with
                              | AChar -> true
                              | _ -> false)
                  | AByte -> (match k' with
                              | AByte -> true
                              | _ -> false)
                  | _ -> false)
               | _ :: _ -> false))
         | _ -> false)
      | _ -> false)
   | None -> false)
| _ -> false

(** val list_content : content -> content option **)

let list_content = function
| ListOffset (_, _, c') -> Some c'
| ListA (_, _, _, c') -> Some c'
| Regular (c', _, _) -> Some c'
| _ -> None

(** val paramcheck : akind option -> content -> bool **)

let paramcheck p c =
  match p with
  | Some a ->
    (match a with
     | AString ->
       (match list_content c with
        | Some c' -> is_chars AChar c'
        | None -> false)
     | ABytestring ->
       (match list_content c with
        | Some c' -> is_chars AByte c'
        | None -> false)
     | _ -> false)
  | None -> true

(** val is_strk : akind option -> bool **)

let is_strk = function
| Some a -> (match a with
             | AString -> true
             | ABytestring -> true
             | _ -> false)
| None -> false

(** val union_okb : z list -> (z * z) -> bool **)

let union_okb lens = function
| (t, i) ->
  (&&) ((&&) (Z.leb Z0 t) (Z.leb Z0 i))
    (match get lens t with
     | Ok lc -> Z.ltb i lc
     | Err _ -> false)

(** val validb : akind option -> content -> bool **)

let rec validb p c = match c with
| Numpy (_, shape, data) ->
  (&&) (paramcheck p c)
    (match shape with
     | [] -> false
     | _ :: _ ->
       (&&) (forallb (fun d -> Z.leb Z0 d) shape)
         (Z.leb (prodZ shape) (zlen data)))
| Empty -> paramcheck p c
| ListOffset (_, o, c') ->
  (&&)
    ((&&) ((&&) (paramcheck p c) (Z.leb (Zpos XH) (zlen o)))
      (forallb (pair_okb (clen c')) (pairs o)))
    (if is_strk p then true else validb None c')
| ListA (_, s, e, c') ->
  (&&)
    ((&&) ((&&) (paramcheck p c) (Z.leb (zlen s) (zlen e)))
      (forallb (pair_okb (clen c')) (zip s e)))
    (if is_strk p then true else validb None c')
| Regular (c', size0, zl) ->
  (&&) ((&&) ((&&) (paramcheck p c) (Z.leb Z0 size0)) (Z.leb Z0 zl))
    (if is_strk p then true else validb None c')
| Indexed (_, ix, c') ->
  (&&)
    ((&&)
      ((&&) (paramcheck p c)
        (forallb (fun i -> (&&) (Z.leb Z0 i) (Z.ltb i (clen c'))) ix))
      (negb (optionlike c'))) (validb None c')
| IndexedOption (_, ix, c') ->
  (&&)
    ((&&) ((&&) (paramcheck p c) (forallb (fun i -> Z.ltb i (clen c')) ix))
      (negb (optionlike c'))) (validb None c')
| ByteMasked (m, _, c') ->
  (&&)
    ((&&) ((&&) (paramcheck p c) (Z.leb (zlen m) (clen c')))
      (negb (optionlike c'))) (validb None c')
| BitMasked (m, _, _, n0, c') ->
  (&&)
    ((&&)
      ((&&)
        ((&&) ((&&) (paramcheck p c) (Z.leb Z0 n0))
          (Z.leb n0 (Z.mul (zlen m) (Zpos (XO (XO (XO XH)))))))
        (Z.leb n0 (clen c'))) (negb (optionlike c'))) (validb None c')
| Unmasked c' ->
  (&&) ((&&) (paramcheck p c) (negb (optionlike c'))) (validb None c')
| Union (_, t, ix, cs) ->
  (&&)
    ((&&)
      ((&&) ((&&) (paramcheck p c) (negb (existsb unionlike cs)))
        (Z.leb (zlen t) (zlen ix)))
      (forallb (union_okb (map clen cs)) (zip t ix)))
    (let rec all = function
     | [] -> true
     | x :: xs -> (&&) (validb None x) (all xs)
     in all cs)
| Record (cs, _, n0) ->
  (&&)
    ((&&)
      ((&&) ((&&) (paramcheck p c) (Z.leb Z0 n0))
        (forallb (fun x -> Z.leb n0 (clen x)) cs))
      (match c with
       | Record (_, keys, _) ->
         (match keys with
          | Some ks -> Nat.eqb (length ks) (length cs)
          | None -> true)
       | _ -> true))
    (let rec all = function
     | [] -> true
     | x :: xs -> (&&) (validb None x) (all xs)
     in all cs)
| Par (arr, _, c') ->
  (match p with
   | Some _ -> false
   | None -> (match c' with
              | Par (_, _, _) -> false
              | _ -> validb arr c'))

(** val valid_b : content -> bool **)

let valid_b c =
  validb None c

type bytes = z list

type rnum =
| RZ of z
| RNaN
| RInf of bool
| RFrac

type ev =
| ENull
| EBool of bool
| EInt of z
| EReal of rnum
| EStr of bytes
| ESA
| EEA
| ESO
| EEO
| EKey of bytes

type jopts = { nan_s : bytes option; inf_s : bytes option;
               minf_s : bytes option }

(** val rdigits : nat -> z -> z list **)

let rec rdigits fuel n0 =
  match fuel with
  | O ->
    (Z.add (Zpos (XO (XO (XO (XO (XI XH))))))
      (Z.modulo n0 (Zpos (XO (XI (XO XH)))))) :: []
  | S f ->
    if Z.ltb n0 (Zpos (XO (XI (XO XH))))
    then (Z.add (Zpos (XO (XO (XO (XO (XI XH)))))) n0) :: []
    else (Z.add (Zpos (XO (XO (XO (XO (XI XH))))))
           (Z.modulo n0 (Zpos (XO (XI (XO XH)))))) :: (rdigits f
                                                        (Z.div n0 (Zpos (XO
                                                          (XI (XO XH))))))

(** val dec_nat : z -> z list **)

let dec_nat n0 =
  rev (rdigits (Z.to_nat (Z.log2 n0)) n0)

(** val dec : z -> z list **)

let dec z0 =
  if Z.ltb z0 Z0
  then (Zpos (XI (XO (XI (XI (XO XH)))))) :: (dec_nat (Z.opp z0))
  else dec_nat z0

(** val is_digit : z -> bool **)

let is_digit c =
  (&&) (Z.leb (Zpos (XO (XO (XO (XO (XI XH)))))) c)
    (Z.leb c (Zpos (XI (XO (XO (XI (XI XH)))))))

(** val read_digits : z list -> z -> z -> (z * z) * z list **)

let rec read_digits bs acc cnt =
  match bs with
  | [] -> ((acc, cnt), [])
  | c :: r ->
    if is_digit c
    then read_digits r
           (Z.add (Z.mul (Zpos (XO (XI (XO XH)))) acc)
             (Z.sub c (Zpos (XO (XO (XO (XO (XI XH))))))))
           (Z.add cnt (Zpos XH))
    else ((acc, cnt), bs)

(** val wrap64 : z -> z **)

let wrap64 z0 =
  let m =
    Z.modulo z0 (Zpos (XO (XO (XO (XO (XO (XO (XO (XO (XO (XO (XO (XO (XO (XO
      (XO (XO (XO (XO (XO (XO (XO (XO (XO (XO (XO (XO (XO (XO (XO (XO (XO (XO
      (XO (XO (XO (XO (XO (XO (XO (XO (XO (XO (XO (XO (XO (XO (XO (XO (XO (XO
      (XO (XO (XO (XO (XO (XO (XO (XO (XO (XO (XO (XO (XO (XO
      XH)))))))))))))))))))))))))))))))))))))))))))))))))))))))))))))))))
  in
  if Z.ltb m (Zpos (XO (XO (XO (XO (XO (XO (XO (XO (XO (XO (XO (XO (XO (XO
       (XO (XO (XO (XO (XO (XO (XO (XO (XO (XO (XO (XO (XO (XO (XO (XO (XO
       (XO (XO (XO (XO (XO (XO (XO (XO (XO (XO (XO (XO (XO (XO (XO (XO (XO
       (XO (XO (XO (XO (XO (XO (XO (XO (XO (XO (XO (XO (XO (XO (XO
       XH))))))))))))))))))))))))))))))))))))))))))))))))))))))))))))))))
  then m
  else Z.sub m (Zpos (XO (XO (XO (XO (XO (XO (XO (XO (XO (XO (XO (XO (XO (XO
         (XO (XO (XO (XO (XO (XO (XO (XO (XO (XO (XO (XO (XO (XO (XO (XO (XO
         (XO (XO (XO (XO (XO (XO (XO (XO (XO (XO (XO (XO (XO (XO (XO (XO (XO
         (XO (XO (XO (XO (XO (XO (XO (XO (XO (XO (XO (XO (XO (XO (XO (XO
         XH)))))))))))))))))))))))))))))))))))))))))))))))))))))))))))))))))

(** val real_ev : jopts -> datum -> ev **)

let real_ev o = function
| DZ z0 -> EReal (RZ z0)
| DNaN -> (match o.nan_s with
           | Some s -> EStr s
           | None -> EReal RNaN)
| DInf neg ->
  if neg
  then (match o.minf_s with
        | Some s -> EStr s
        | None -> EReal (RInf true))
  else (match o.inf_s with
        | Some s -> EStr s
        | None -> EReal (RInf false))

(** val scalar_ev : jopts -> dtype -> datum -> ev **)

let scalar_ev o dt d =
  match dt with
  | DBool -> EBool (match d with
                    | DZ z0 -> negb (Z.eqb z0 Z0)
                    | _ -> true)
  | DUInt64 -> (match d with
                | DZ z0 -> EInt (wrap64 z0)
                | _ -> real_ev o d)
  | DFloat32 -> real_ev o d
  | DFloat64 -> real_ev o d
  | _ -> (match d with
          | DZ z0 -> EInt z0
          | _ -> real_ev o d)

(** val byte_of : dtype -> datum -> z res **)

let byte_of dt d =
  match dt with
  | DBool ->
    (match d with
     | DZ z0 ->
       Ok (Z.modulo z0 (Zpos (XO (XO (XO (XO (XO (XO (XO (XO XH))))))))))
     | _ -> Err EValue)
  | DInt8 ->
    (match d with
     | DZ z0 ->
       Ok (Z.modulo z0 (Zpos (XO (XO (XO (XO (XO (XO (XO (XO XH))))))))))
     | _ -> Err EValue)
  | DUInt8 ->
    (match d with
     | DZ z0 ->
       Ok (Z.modulo z0 (Zpos (XO (XO (XO (XO (XO (XO (XO (XO XH))))))))))
     | _ -> Err EValue)
  | _ -> Err EValue

(** val str_of : dtype -> datum list -> ev list res **)

let str_of dt ds =
  bind (mapM (byte_of dt) ds) (fun bs -> Ok ((EStr bs) :: []))

(** val is_charp : akind option -> bool **)

let is_charp = function
| Some a -> (match a with
             | AChar -> true
             | AByte -> true
             | _ -> false)
| None -> false

(** val np_block :
    jopts -> bool -> dtype -> z list -> datum list -> ev list res **)

let rec np_block o chars dt dims ds =
  match dims with
  | [] ->
    (match ds with
     | [] -> Err EOob
     | d :: _ ->
       if chars then str_of dt (d :: []) else Ok ((scalar_ev o dt d) :: []))
  | n0 :: dims' ->
    (match dims' with
     | [] ->
       if chars
       then bind (slice ds Z0 n0) (fun s -> str_of dt s)
       else let p = prodZ dims' in
            bind
              (mapM (fun k ->
                bind (slice ds (Z.mul k p) (Z.mul (Z.add k (Zpos XH)) p))
                  (fun sub0 -> np_block o chars dt dims' sub0)) (iota n0))
              (fun xs -> Ok (ESA :: (app (concat xs) (EEA :: []))))
     | _ :: _ ->
       let p = prodZ dims' in
       bind
         (mapM (fun k ->
           bind (slice ds (Z.mul k p) (Z.mul (Z.add k (Zpos XH)) p))
             (fun sub0 -> np_block o chars dt dims' sub0)) (iota n0))
         (fun xs -> Ok (ESA :: (app (concat xs) (EEA :: [])))))

(** val eff : akind option -> akind option -> akind option **)

let eff p arr =
  match p with
  | Some _ -> p
  | None -> arr

(** val chars_of : akind option -> content -> (dtype * datum list) option **)

let rec chars_of p = function
| Numpy (dt, shape, data) ->
  (match shape with
   | [] -> None
   | _ :: l ->
     (match l with
      | [] -> if is_charp p then Some (dt, data) else None
      | _ :: _ -> None))
| Unmasked c' -> chars_of None c'
| Par (arr, _, c') -> chars_of (eff p arr) c'
| _ -> None

(** val range_events :
    (z -> ev list res) -> (dtype * datum list) option -> z -> z -> ev list res **)

let range_events item0 chars a b =
  match chars with
  | Some p ->
    let (dt, data) = p in
    if Z.eqb a b
    then Ok ((EStr []) :: [])
    else bind (slice data a b) (fun ds -> str_of dt ds)
  | None ->
    bind (mapM item0 (range a b)) (fun xs -> Ok
      (ESA :: (app (concat xs) (EEA :: []))))

(** val pick_nth : (content -> 'a1 res) -> content list -> nat -> 'a1 res **)

let rec pick_nth f l k =
  match l with
  | [] -> Err EOob
  | x :: xs -> (match k with
                | O -> f x
                | S k' -> pick_nth f xs k')

(** val fields_ev :
    (content -> ev list res) -> content list -> bytes list -> ev list res **)

let rec fields_ev f l kl =
  match l with
  | [] -> Ok []
  | x :: xs ->
    (match kl with
     | [] -> Err EValue
     | k :: kl' ->
       bind (f x) (fun e ->
         bind (fields_ev f xs kl') (fun r -> Ok ((EKey k) :: (app e r)))))

(** val tuple_keys : nat -> bytes list **)

let tuple_keys n0 =
  map dec (iota (Z.of_nat n0))

(** val item : jopts -> akind option -> content -> z -> ev list res **)

let rec item o p c i =
  match c with
  | Numpy (dt, shape, data) ->
    (match shape with
     | [] -> Err EValue
     | _ :: dims ->
       let sz = prodZ dims in
       bind (slice data (Z.mul i sz) (Z.mul (Z.add i (Zpos XH)) sz))
         (fun sub0 -> np_block o (is_charp p) dt dims sub0))
  | Empty -> Err EOob
  | ListOffset (_, offs, c') ->
    bind (get offs i) (fun a ->
      bind (get offs (Z.add i (Zpos XH))) (fun b ->
        range_events (item o None c') (chars_of None c') a b))
  | ListA (_, starts, stops, c') ->
    bind (get starts i) (fun a ->
      bind (get stops i) (fun b ->
        range_events (item o None c') (chars_of None c') a b))
  | Regular (c', size0, _) ->
    range_events (item o None c') (chars_of None c') (Z.mul i size0)
      (Z.mul (Z.add i (Zpos XH)) size0)
  | Indexed (_, ix, c') -> bind (get ix i) (fun j -> item o None c' j)
  | IndexedOption (_, ix, c') ->
    bind (get ix i) (fun j ->
      if Z.ltb j Z0 then Ok (ENull :: []) else item o None c' j)
  | ByteMasked (m, vw, c') ->
    bind (get m i) (fun b ->
      if eqb (negb (Z.eqb b Z0)) vw
      then item o None c' i
      else Ok (ENull :: []))
  | BitMasked (m, vw, lsb, _, c') ->
    bind (bit_at m lsb i) (fun b ->
      if eqb b vw then item o None c' i else Ok (ENull :: []))
  | Unmasked c' -> item o None c' i
  | Union (_, tags, ix, cs) ->
    bind (get tags i) (fun t ->
      bind (get ix i) (fun j ->
        if Z.ltb t Z0
        then Err EOob
        else pick_nth (fun x -> item o None x j) cs (Z.to_nat t)))
  | Record (cs, ks, _) ->
    let keys = match ks with
               | Some k -> k
               | None -> tuple_keys (length cs) in
    bind (fields_ev (fun x -> item o None x i) cs keys) (fun body -> Ok
      (ESO :: (app body (EEO :: []))))
  | Par (arr, _, c') -> item o (eff p arr) c' i

(** val tojson_events : jopts -> content -> ev list res **)

let tojson_events o c =
  range_events (item o None c) (chars_of None c) Z0 (clen c)

(** val datum_of : rnum -> datum res **)

let datum_of = function
| RZ z0 -> Ok (DZ z0)
| RNaN -> Ok DNaN
| RInf n0 -> Ok (DInf n0)
| RFrac -> Err EValue

(** val jval : nat -> ev list -> (value * ev list) res **)

let rec jval fuel evs =
  match fuel with
  | O -> Err EFuel
  | S f ->
    (match evs with
     | [] -> Err EValue
     | e :: r ->
       (match e with
        | ENull -> Ok (VNone, r)
        | EBool b -> Ok ((VBool b), r)
        | EInt z0 -> Ok ((VNum (DZ z0)), r)
        | EReal x -> bind (datum_of x) (fun d -> Ok ((VNum d), r))
        | EStr s -> Ok ((VStr (true, s)), r)
        | ESA -> bind (jvals f r) (fun vr -> Ok ((VList (fst vr)), (snd vr)))
        | ESO -> bind (jkvs f r) (fun vr -> Ok ((VRec (fst vr)), (snd vr)))
        | _ -> Err EValue))

(** val jvals : nat -> ev list -> (value list * ev list) res **)

and jvals fuel evs =
  match fuel with
  | O -> Err EFuel
  | S f ->
    (match evs with
     | [] ->
       bind (jval f evs) (fun vr ->
         bind (jvals f (snd vr)) (fun vsr -> Ok (((fst vr) :: (fst vsr)),
           (snd vsr))))
     | e :: r ->
       (match e with
        | EEA -> Ok ([], r)
        | _ ->
          bind (jval f evs) (fun vr ->
            bind (jvals f (snd vr)) (fun vsr -> Ok (((fst vr) :: (fst vsr)),
              (snd vsr))))))

(** val jkvs : nat -> ev list -> ((name * value) list * ev list) res **)

and jkvs fuel evs =
  match fuel with
  | O -> Err EFuel
  | S f ->
    (match evs with
     | [] -> Err EValue
     | e :: r ->
       (match e with
        | EEO -> Ok ([], r)
        | EKey k ->
          bind (jval f r) (fun vr ->
            bind (jkvs f (snd vr)) (fun kr -> Ok (((k,
              (fst vr)) :: (fst kr)), (snd kr))))
        | _ -> Err EValue))

(** val json_value : ev list -> (value * ev list) res **)

let json_value evs =
  jval (S (length evs)) evs

(** val wf_val : nat -> ev list -> ev list option **)

let rec wf_val fuel evs =
  match fuel with
  | O -> None
  | S f ->
    (match evs with
     | [] -> None
     | e :: r ->
       (match e with
        | ESA -> wf_vals f r
        | EEA -> None
        | ESO -> wf_kvs f r
        | EEO -> None
        | EKey _ -> None
        | _ -> Some r))

(** val wf_vals : nat -> ev list -> ev list option **)

and wf_vals fuel evs =
  match fuel with
  | O -> None
  | S f ->
    (match evs with
     | [] -> (match wf_val f evs with
              | Some r -> wf_vals f r
              | None -> None)
     | e :: r ->
       (match e with
        | EEA -> Some r
        | _ ->
          (match wf_val f evs with
           | Some r0 -> wf_vals f r0
           | None -> None)))

(** val wf_kvs : nat -> ev list -> ev list option **)

and wf_kvs fuel evs =
  match fuel with
  | O -> None
  | S f ->
    (match evs with
     | [] -> None
     | e :: r ->
       (match e with
        | EEO -> Some r
        | EKey _ ->
          (match wf_val f r with
           | Some r' -> wf_kvs f r'
           | None -> None)
        | _ -> None))

(** val wf : ev list -> bool **)

let wf evs =
  match wf_val (S (length evs)) evs with
  | Some l -> (match l with
               | [] -> true
               | _ :: _ -> false)
  | None -> false

(** val is_byte : z -> bool **)

let is_byte c =
  (&&) (Z.leb Z0 c)
    (Z.ltb c (Zpos (XO (XO (XO (XO (XO (XO (XO (XO XH))))))))))

(** val printable_ev : ev -> bool **)

let printable_ev = function
| EInt z0 ->
  (&&)
    (Z.leb (Zneg (XO (XO (XO (XO (XO (XO (XO (XO (XO (XO (XO (XO (XO (XO (XO
      (XO (XO (XO (XO (XO (XO (XO (XO (XO (XO (XO (XO (XO (XO (XO (XO (XO (XO
      (XO (XO (XO (XO (XO (XO (XO (XO (XO (XO (XO (XO (XO (XO (XO (XO (XO (XO
      (XO (XO (XO (XO (XO (XO (XO (XO (XO (XO (XO (XO
      XH)))))))))))))))))))))))))))))))))))))))))))))))))))))))))))))))) z0)
    (Z.ltb z0 (Zpos (XO (XO (XO (XO (XO (XO (XO (XO (XO (XO (XO (XO (XO (XO
      (XO (XO (XO (XO (XO (XO (XO (XO (XO (XO (XO (XO (XO (XO (XO (XO (XO (XO
      (XO (XO (XO (XO (XO (XO (XO (XO (XO (XO (XO (XO (XO (XO (XO (XO (XO (XO
      (XO (XO (XO (XO (XO (XO (XO (XO (XO (XO (XO (XO (XO
      XH)))))))))))))))))))))))))))))))))))))))))))))))))))))))))))))))))
| EReal r ->
  (match r with
   | RZ z0 ->
     (&&)
       (Z.leb (Zneg (XO (XO (XO (XO (XO (XO (XO (XO (XO (XO (XO (XO (XO (XO
         (XO (XO (XO (XO (XO (XO (XO (XO (XO (XO (XO (XO (XO (XO (XO (XO (XO
         (XO (XO (XO (XO (XO (XO (XO (XO (XO (XO (XO (XO (XO (XO (XO (XO (XO
         (XO (XO (XO (XO (XO
         XH)))))))))))))))))))))))))))))))))))))))))))))))))))))) z0)
       (Z.leb z0 (Zpos (XO (XO (XO (XO (XO (XO (XO (XO (XO (XO (XO (XO (XO
         (XO (XO (XO (XO (XO (XO (XO (XO (XO (XO (XO (XO (XO (XO (XO (XO (XO
         (XO (XO (XO (XO (XO (XO (XO (XO (XO (XO (XO (XO (XO (XO (XO (XO (XO
         (XO (XO (XO (XO (XO (XO
         XH)))))))))))))))))))))))))))))))))))))))))))))))))))))))
   | _ -> false)
| EStr s -> forallb is_byte s
| EKey s -> forallb is_byte s
| _ -> true

(** val printable : ev list -> bool **)

let printable evs =
  forallb printable_ev evs

(** val hexdigit : z -> z **)

let hexdigit n0 =
  if Z.ltb n0 (Zpos (XO (XI (XO XH))))
  then Z.add (Zpos (XO (XO (XO (XO (XI XH)))))) n0
  else Z.add (Zpos (XI (XI (XI (XO (XI XH)))))) n0

(** val esc_byte : z -> z list **)

let esc_byte c =
  if Z.eqb c (Zpos (XO (XI (XO (XO (XO XH))))))
  then (Zpos (XO (XO (XI (XI (XI (XO XH))))))) :: ((Zpos (XO (XI (XO (XO (XO
         XH)))))) :: [])
  else if Z.eqb c (Zpos (XO (XO (XI (XI (XI (XO XH)))))))
       then (Zpos (XO (XO (XI (XI (XI (XO XH))))))) :: ((Zpos (XO (XO (XI (XI
              (XI (XO XH))))))) :: [])
       else if Z.eqb c (Zpos (XO (XO (XO XH))))
            then (Zpos (XO (XO (XI (XI (XI (XO XH))))))) :: ((Zpos (XO (XI
                   (XO (XO (XO (XI XH))))))) :: [])
            else if Z.eqb c (Zpos (XO (XO (XI XH))))
                 then (Zpos (XO (XO (XI (XI (XI (XO XH))))))) :: ((Zpos (XO
                        (XI (XI (XO (XO (XI XH))))))) :: [])
                 else if Z.eqb c (Zpos (XO (XI (XO XH))))
                      then (Zpos (XO (XO (XI (XI (XI (XO XH))))))) :: ((Zpos
                             (XO (XI (XI (XI (XO (XI XH))))))) :: [])
                      else if Z.eqb c (Zpos (XI (XO (XI XH))))
                           then (Zpos (XO (XO (XI (XI (XI (XO
                                  XH))))))) :: ((Zpos (XO (XI (XO (XO (XI (XI
                                  XH))))))) :: [])
                           else if Z.eqb c (Zpos (XI (XO (XO XH))))
                                then (Zpos (XO (XO (XI (XI (XI (XO
                                       XH))))))) :: ((Zpos (XO (XO (XI (XO
                                       (XI (XI XH))))))) :: [])
                                else if Z.ltb c (Zpos (XO (XO (XO (XO (XO
                                          XH))))))
                                     then (Zpos (XO (XO (XI (XI (XI (XO
                                            XH))))))) :: ((Zpos (XI (XO (XI
                                            (XO (XI (XI XH))))))) :: ((Zpos
                                            (XO (XO (XO (XO (XI
                                            XH)))))) :: ((Zpos (XO (XO (XO
                                            (XO (XI
                                            XH)))))) :: ((hexdigit
                                                           (Z.div c (Zpos (XO
                                                             (XO (XO (XO
                                                             XH))))))) :: (
                                            (hexdigit
                                              (Z.modulo c (Zpos (XO (XO (XO
                                                (XO XH))))))) :: [])))))
                                     else c :: []

(** val render_string : bytes -> z list **)

let render_string s =
  (Zpos (XO (XI (XO (XO (XO
    XH)))))) :: (app (flat_map esc_byte s) ((Zpos (XO (XI (XO (XO (XO
                  XH)))))) :: []))

(** val render_real : rnum -> z list **)

let render_real = function
| RZ z0 ->
  app (dec z0) ((Zpos (XO (XI (XI (XI (XO XH)))))) :: ((Zpos (XO (XO (XO (XO
    (XI XH)))))) :: []))
| _ -> []

(** val tok : ev -> z list **)

let tok = function
| ENull ->
  (Zpos (XO (XI (XI (XI (XO (XI XH))))))) :: ((Zpos (XI (XO (XI (XO (XI (XI
    XH))))))) :: ((Zpos (XO (XO (XI (XI (XO (XI XH))))))) :: ((Zpos (XO (XO
    (XI (XI (XO (XI XH))))))) :: [])))
| EBool b ->
  if b
  then (Zpos (XO (XO (XI (XO (XI (XI XH))))))) :: ((Zpos (XO (XI (XO (XO (XI
         (XI XH))))))) :: ((Zpos (XI (XO (XI (XO (XI (XI XH))))))) :: ((Zpos
         (XI (XO (XI (XO (XO (XI XH))))))) :: [])))
  else (Zpos (XO (XI (XI (XO (XO (XI XH))))))) :: ((Zpos (XI (XO (XO (XO (XO
         (XI XH))))))) :: ((Zpos (XO (XO (XI (XI (XO (XI XH))))))) :: ((Zpos
         (XI (XI (XO (XO (XI (XI XH))))))) :: ((Zpos (XI (XO (XI (XO (XO (XI
         XH))))))) :: []))))
| EInt z0 -> dec z0
| EReal r -> render_real r
| EStr s -> render_string s
| ESA -> (Zpos (XI (XI (XO (XI (XI (XO XH))))))) :: []
| EEA -> (Zpos (XI (XO (XI (XI (XI (XO XH))))))) :: []
| ESO -> (Zpos (XI (XI (XO (XI (XI (XI XH))))))) :: []
| EEO -> (Zpos (XI (XO (XI (XI (XI (XI XH))))))) :: []
| EKey s -> render_string s

type prev =
| PStart
| PKey
| PVal

(** val after : ev -> prev **)

let after = function
| ESA -> PStart
| ESO -> PStart
| EKey _ -> PKey
| _ -> PVal

(** val is_end : ev -> bool **)

let is_end = function
| EEA -> true
| EEO -> true
| _ -> false

(** val sep : prev -> ev -> z list **)

let sep p e =
  match p with
  | PStart -> []
  | PKey -> (Zpos (XO (XI (XO (XI (XI XH)))))) :: []
  | PVal -> if is_end e then [] else (Zpos (XO (XO (XI (XI (XO XH)))))) :: []

(** val render_from : prev -> ev list -> z list **)

let rec render_from p = function
| [] -> []
| e :: r -> app (sep p e) (app (tok e) (render_from (after e) r))

(** val render : ev list -> z list **)

let render evs =
  render_from PStart evs

(** val is_ws : z -> bool **)

let is_ws c =
  (||)
    ((||)
      ((||) (Z.eqb c (Zpos (XO (XO (XO (XO (XO XH)))))))
        (Z.eqb c (Zpos (XO (XI (XO XH))))))
      (Z.eqb c (Zpos (XI (XO (XI XH)))))) (Z.eqb c (Zpos (XI (XO (XO XH)))))

(** val skip_ws : z list -> z list **)

let rec skip_ws bs = match bs with
| [] -> []
| c :: r -> if is_ws c then skip_ws r else bs

(** val hexv : z -> z option **)

let hexv c =
  if (&&) (Z.leb (Zpos (XO (XO (XO (XO (XI XH)))))) c)
       (Z.leb c (Zpos (XI (XO (XO (XI (XI XH)))))))
  then Some (Z.sub c (Zpos (XO (XO (XO (XO (XI XH)))))))
  else if (&&) (Z.leb (Zpos (XI (XO (XO (XO (XO (XO XH))))))) c)
            (Z.leb c (Zpos (XO (XI (XI (XO (XO (XO XH))))))))
       then Some (Z.sub c (Zpos (XI (XI (XI (XO (XI XH)))))))
       else if (&&) (Z.leb (Zpos (XI (XO (XO (XO (XO (XI XH))))))) c)
                 (Z.leb c (Zpos (XO (XI (XI (XO (XO (XI XH))))))))
            then Some (Z.sub c (Zpos (XI (XI (XI (XO (XI (XO XH))))))))
            else None

(** val hexfail : nat -> z list -> z list **)

let rec hexfail n0 bs =
  match n0 with
  | O -> bs
  | S n' ->
    (match bs with
     | [] -> bs
     | c :: r -> (match hexv c with
                  | Some _ -> hexfail n' r
                  | None -> bs))

(** val hex4 : z -> z -> z -> z -> z option **)

let hex4 a b c d =
  match hexv a with
  | Some x ->
    (match hexv b with
     | Some y ->
       (match hexv c with
        | Some z0 ->
          (match hexv d with
           | Some w ->
             Some
               (Z.add
                 (Z.mul
                   (Z.add
                     (Z.mul (Z.add (Z.mul x (Zpos (XO (XO (XO (XO XH)))))) y)
                       (Zpos (XO (XO (XO (XO XH)))))) z0) (Zpos (XO (XO (XO
                   (XO XH)))))) w)
           | None -> None)
        | None -> None)
     | None -> None)
  | None -> None

(** val utf8 : z -> z list **)

let utf8 cp =
  if Z.leb cp (Zpos (XI (XI (XI (XI (XI (XI XH)))))))
  then cp :: []
  else if Z.leb cp (Zpos (XI (XI (XI (XI (XI (XI (XI (XI (XI (XI XH)))))))))))
       then (Z.add (Zpos (XO (XO (XO (XO (XO (XO (XI XH))))))))
              (Z.div cp (Zpos (XO (XO (XO (XO (XO (XO XH))))))))) :: (
              (Z.add (Zpos (XO (XO (XO (XO (XO (XO (XO XH))))))))
                (Z.modulo cp (Zpos (XO (XO (XO (XO (XO (XO XH))))))))) :: [])
       else if Z.leb cp (Zpos (XI (XI (XI (XI (XI (XI (XI (XI (XI (XI (XI (XI
                 (XI (XI (XI XH))))))))))))))))
            then (Z.add (Zpos (XO (XO (XO (XO (XO (XI (XI XH))))))))
                   (Z.div cp (Zpos (XO (XO (XO (XO (XO (XO (XO (XO (XO (XO
                     (XO (XO XH))))))))))))))) :: ((Z.add (Zpos (XO (XO (XO
                                                     (XO (XO (XO (XO
                                                     XH))))))))
                                                     (Z.modulo
                                                       (Z.div cp (Zpos (XO
                                                         (XO (XO (XO (XO (XO
                                                         XH)))))))) (Zpos (XO
                                                       (XO (XO (XO (XO (XO
                                                       XH))))))))) :: (
                   (Z.add (Zpos (XO (XO (XO (XO (XO (XO (XO XH))))))))
                     (Z.modulo cp (Zpos (XO (XO (XO (XO (XO (XO XH))))))))) :: []))
            else (Z.add (Zpos (XO (XO (XO (XO (XI (XI (XI XH))))))))
                   (Z.div cp (Zpos (XO (XO (XO (XO (XO (XO (XO (XO (XO (XO
                     (XO (XO (XO (XO (XO (XO (XO (XO XH))))))))))))))))))))) :: (
                   (Z.add (Zpos (XO (XO (XO (XO (XO (XO (XO XH))))))))
                     (Z.modulo
                       (Z.div cp (Zpos (XO (XO (XO (XO (XO (XO (XO (XO (XO
                         (XO (XO (XO XH)))))))))))))) (Zpos (XO (XO (XO (XO
                       (XO (XO XH))))))))) :: ((Z.add (Zpos (XO (XO (XO (XO
                                                 (XO (XO (XO XH))))))))
                                                 (Z.modulo
                                                   (Z.div cp (Zpos (XO (XO
                                                     (XO (XO (XO (XO
                                                     XH)))))))) (Zpos (XO (XO
                                                   (XO (XO (XO (XO XH))))))))) :: (
                   (Z.add (Zpos (XO (XO (XO (XO (XO (XO (XO XH))))))))
                     (Z.modulo cp (Zpos (XO (XO (XO (XO (XO (XO XH))))))))) :: [])))

type sres =
| SOk of bytes * z list
| SFail of z list

(** val spush : z list -> sres -> sres **)

let spush pre = function
| SOk (s, rest) -> SOk ((app pre s), rest)
| SFail rest -> SFail rest

(** val lex_str : z list -> sres **)

let rec lex_str bs = match bs with
| [] -> SFail []
| c :: r ->
  if Z.eqb c (Zpos (XO (XI (XO (XO (XO XH))))))
  then SOk ([], r)
  else if Z.eqb c (Zpos (XO (XO (XI (XI (XI (XO XH)))))))
       then (match r with
             | [] -> SFail []
             | e :: r2 ->
               if Z.eqb e (Zpos (XO (XI (XO (XO (XO XH))))))
               then spush ((Zpos (XO (XI (XO (XO (XO XH)))))) :: [])
                      (lex_str r2)
               else if Z.eqb e (Zpos (XO (XO (XI (XI (XI (XO XH)))))))
                    then spush ((Zpos (XO (XO (XI (XI (XI (XO
                           XH))))))) :: []) (lex_str r2)
                    else if Z.eqb e (Zpos (XI (XI (XI (XI (XO XH))))))
                         then spush ((Zpos (XI (XI (XI (XI (XO
                                XH)))))) :: []) (lex_str r2)
                         else if Z.eqb e (Zpos (XO (XI (XO (XO (XO (XI
                                   XH)))))))
                              then spush ((Zpos (XO (XO (XO XH)))) :: [])
                                     (lex_str r2)
                              else if Z.eqb e (Zpos (XO (XI (XI (XO (XO (XI
                                        XH)))))))
                                   then spush ((Zpos (XO (XO (XI
                                          XH)))) :: []) (lex_str r2)
                                   else if Z.eqb e (Zpos (XO (XI (XI (XI (XO
                                             (XI XH)))))))
                                        then spush ((Zpos (XO (XI (XO
                                               XH)))) :: []) (lex_str r2)
                                        else if Z.eqb e (Zpos (XO (XI (XO (XO
                                                  (XI (XI XH)))))))
                                             then spush ((Zpos (XI (XO (XI
                                                    XH)))) :: []) (lex_str r2)
                                             else if Z.eqb e (Zpos (XO (XO
                                                       (XI (XO (XI (XI
                                                       XH)))))))
                                                  then spush ((Zpos (XI (XO
                                                         (XO XH)))) :: [])
                                                         (lex_str r2)
                                                  else if Z.eqb e (Zpos (XI
                                                            (XO (XI (XO (XI
                                                            (XI XH)))))))
                                                       then (match r2 with
                                                             | [] ->
                                                               SFail
                                                                 (hexfail (S
                                                                   (S (S (S
                                                                   O)))) r2)
                                                             | h1 :: l ->
                                                               (match l with
                                                                | [] ->
                                                                  SFail
                                                                    (hexfail
                                                                    (S (S (S
                                                                    (S O))))
                                                                    r2)
                                                                | h2 :: l0 ->
                                                                  (match l0 with
                                                                   | [] ->
                                                                    SFail
                                                                    (hexfail
                                                                    (S (S (S
                                                                    (S O))))
                                                                    r2)
                                                                   | h3 :: l1 ->
                                                                    (match l1 with
                                                                    | [] ->
                                                                    SFail
                                                                    (hexfail
                                                                    (S (S (S
                                                                    (S O))))
                                                                    r2)
                                                                    | h4 :: r3 ->
                                                                    (match 
                                                                    hex4 h1
                                                                    h2 h3 h4 with
                                                                    | Some cp ->
                                                                    if 
                                                                    (&&)
                                                                    (Z.leb
                                                                    (Zpos (XO
                                                                    (XO (XO
                                                                    (XO (XO
                                                                    (XO (XO
                                                                    (XO (XO
                                                                    (XO (XO
                                                                    (XI (XI
                                                                    (XO (XI
                                                                    XH))))))))))))))))
                                                                    cp)
                                                                    (Z.leb cp
                                                                    (Zpos (XI
                                                                    (XI (XI
                                                                    (XI (XI
                                                                    (XI (XI
                                                                    (XI (XI
                                                                    (XI (XO
                                                                    (XI (XI
                                                                    (XO (XI
                                                                    XH)))))))))))))))))
                                                                    then 
                                                                    (match r3 with
                                                                    | [] ->
                                                                    SFail []
                                                                    | b1 :: r4 ->
                                                                    if 
                                                                    Z.eqb b1
                                                                    (Zpos (XO
                                                                    (XO (XI
                                                                    (XI (XI
                                                                    (XO
                                                                    XH)))))))
                                                                    then 
                                                                    (match r4 with
                                                                    | [] ->
                                                                    SFail []
                                                                    | u1 :: r5 ->
                                                                    if 
                                                                    Z.eqb u1
                                                                    (Zpos (XI
                                                                    (XO (XI
                                                                    (XO (XI
                                                                    (XI
                                                                    XH)))))))
                                                                    then 
                                                                    (match r5 with
                                                                    | [] ->
                                                                    SFail
                                                                    (hexfail
                                                                    (S (S (S
                                                                    (S O))))
                                                                    r5)
                                                                    | g1 :: l2 ->
                                                                    (match l2 with
                                                                    | [] ->
                                                                    SFail
                                                                    (hexfail
                                                                    (S (S (S
                                                                    (S O))))
                                                                    r5)
                                                                    | g2 :: l3 ->
                                                                    (match l3 with
                                                                    | [] ->
                                                                    SFail
                                                                    (hexfail
                                                                    (S (S (S
                                                                    (S O))))
                                                                    r5)
                                                                    | g3 :: l4 ->
                                                                    (match l4 with
                                                                    | [] ->
                                                                    SFail
                                                                    (hexfail
                                                                    (S (S (S
                                                                    (S O))))
                                                                    r5)
                                                                    | g4 :: r6 ->
                                                                    (match 
                                                                    hex4 g1
                                                                    g2 g3 g4 with
                                                                    | Some cp2 ->
                                                                    if 
                                                                    (&&)
                                                                    (Z.leb
                                                                    (Zpos (XO
                                                                    (XO (XO
                                                                    (XO (XO
                                                                    (XO (XO
                                                                    (XO (XO
                                                                    (XO (XI
                                                                    (XI (XI
                                                                    (XO (XI
                                                                    XH))))))))))))))))
                                                                    cp2)
                                                                    (Z.leb
                                                                    cp2 (Zpos
                                                                    (XI (XI
                                                                    (XI (XI
                                                                    (XI (XI
                                                                    (XI (XI
                                                                    (XI (XI
                                                                    (XI (XI
                                                                    (XI (XO
                                                                    (XI
                                                                    XH)))))))))))))))))
                                                                    then 
                                                                    spush
                                                                    (utf8
                                                                    (Z.add
                                                                    (Z.add
                                                                    (Z.mul
                                                                    (Z.sub cp
                                                                    (Zpos (XO
                                                                    (XO (XO
                                                                    (XO (XO
                                                                    (XO (XO
                                                                    (XO (XO
                                                                    (XO (XO
                                                                    (XI (XI
                                                                    (XO (XI
                                                                    XH)))))))))))))))))
                                                                    (Zpos (XO
                                                                    (XO (XO
                                                                    (XO (XO
                                                                    (XO (XO
                                                                    (XO (XO
                                                                    (XO
                                                                    XH))))))))))))
                                                                    (Z.sub
                                                                    cp2 (Zpos
                                                                    (XO (XO
                                                                    (XO (XO
                                                                    (XO (XO
                                                                    (XO (XO
                                                                    (XO (XO
                                                                    (XI (XI
                                                                    (XI (XO
                                                                    (XI
                                                                    XH))))))))))))))))))
                                                                    (Zpos (XO
                                                                    (XO (XO
                                                                    (XO (XO
                                                                    (XO (XO
                                                                    (XO (XO
                                                                    (XO (XO
                                                                    (XO (XO
                                                                    (XO (XO
                                                                    (XO
                                                                    XH)))))))))))))))))))
                                                                    (lex_str
                                                                    r6)
                                                                    else 
                                                                    SFail r6
                                                                    | None ->
                                                                    SFail
                                                                    (hexfail
                                                                    (S (S (S
                                                                    (S O))))
                                                                    r5))))))
                                                                    else 
                                                                    SFail r4)
                                                                    else 
                                                                    SFail r3)
                                                                    else 
                                                                    if 
                                                                    (&&)
                                                                    (Z.leb
                                                                    (Zpos (XO
                                                                    (XO (XO
                                                                    (XO (XO
                                                                    (XO (XO
                                                                    (XO (XO
                                                                    (XO (XI
                                                                    (XI (XI
                                                                    (XO (XI
                                                                    XH))))))))))))))))
                                                                    cp)
                                                                    (Z.leb cp
                                                                    (Zpos (XI
                                                                    (XI (XI
                                                                    (XI (XI
                                                                    (XI (XI
                                                                    (XI (XI
                                                                    (XI (XI
                                                                    (XI (XI
                                                                    (XO (XI
                                                                    XH)))))))))))))))))
                                                                    then 
                                                                    SFail r3
                                                                    else 
                                                                    spush
                                                                    (utf8 cp)
                                                                    (lex_str
                                                                    r3)
                                                                    | None ->
                                                                    SFail
                                                                    (hexfail
                                                                    (S (S (S
                                                                    (S O))))
                                                                    r2))))))
                                                       else SFail r)
       else if Z.ltb c (Zpos (XO (XO (XO (XO (XO XH))))))
            then SFail bs
            else spush (c :: []) (lex_str r)

type pres =
| POk of ev list * z list
| PFail of z list
| PFuel

(** val dbl_limit : z **)

let dbl_limit =
  Z.sub
    (Z.pow (Zpos (XO XH)) (Zpos (XO (XO (XO (XO (XO (XO (XO (XO (XO (XO
      XH))))))))))))
    (Z.pow (Zpos (XO XH)) (Zpos (XO (XI (XO (XI (XO (XO (XI (XI (XI
      XH)))))))))))

(** val real_of : bool -> z -> z -> rnum option **)

let real_of neg m e =
  let sgn = fun z0 -> if neg then Z.opp z0 else z0 in
  if Z.eqb m Z0
  then Some (RZ Z0)
  else if Z.ltb (Zpos (XO (XO (XO (XO (XI (XO (XO (XI XH))))))))) e
       then None
       else if Z.leb Z0 e
            then let z0 = Z.mul m (Z.pow (Zpos (XO (XI (XO XH)))) e) in
                 if Z.leb dbl_limit z0 then None else Some (RZ (sgn z0))
            else if Z.ltb e (Zneg (XO (XO (XO (XI (XO (XI (XI (XI (XI
                      XH))))))))))
                 then Some RFrac
                 else let d = Z.pow (Zpos (XO (XI (XO XH)))) (Z.opp e) in
                      if Z.leb (Z.mul dbl_limit d) m
                      then None
                      else if Z.eqb (Z.modulo m d) Z0
                           then Some (RZ (sgn (Z.div m d)))
                           else Some RFrac

(** val strip_minus : z list -> bool * z list **)

let strip_minus bs = match bs with
| [] -> (false, bs)
| c :: r ->
  if Z.eqb c (Zpos (XI (XO (XI (XI (XO XH))))))
  then (true, r)
  else (false, bs)

(** val lex_ipart : z list -> (z * z list) option **)

let lex_ipart b1 = match b1 with
| [] -> None
| c :: r1 ->
  if Z.eqb c (Zpos (XO (XO (XO (XO (XI XH))))))
  then Some (Z0, r1)
  else if (&&) (Z.leb (Zpos (XI (XO (XO (XO (XI XH)))))) c)
            (Z.leb c (Zpos (XI (XO (XO (XI (XI XH)))))))
       then let (p, r) = read_digits b1 Z0 Z0 in let (v, _) = p in Some (v, r)
       else None

(** val lex_frac : z -> z list -> (((bool * z) * z) * z list, z list) sum **)

let lex_frac iv b2 = match b2 with
| [] -> Inl (((false, iv), Z0), b2)
| d :: r2 ->
  if Z.eqb d (Zpos (XO (XI (XI (XI (XO XH))))))
  then let (p, r3) = read_digits r2 Z0 Z0 in
       let (fv, fc) = p in
       if Z.eqb fc Z0
       then Inr r2
       else Inl (((true,
              (Z.add (Z.mul iv (Z.pow (Zpos (XO (XI (XO XH)))) fc)) fv)),
              fc), r3)
  else Inl (((false, iv), Z0), b2)

(** val lex_exp : z list -> ((bool * z) * z list, z list) sum **)

let lex_exp b3 = match b3 with
| [] -> Inl ((false, Z0), b3)
| x :: r3 ->
  if (||) (Z.eqb x (Zpos (XI (XO (XI (XO (XO (XI XH))))))))
       (Z.eqb x (Zpos (XI (XO (XI (XO (XO (XO XH))))))))
  then (match r3 with
        | [] ->
          let eneg = false in
          let (p, r5) = read_digits r3 Z0 Z0 in
          let (xv, xc) = p in
          if Z.eqb xc Z0
          then Inr r3
          else Inl ((true, (if eneg then Z.opp xv else xv)), r5)
        | s :: r ->
          if Z.eqb s (Zpos (XI (XI (XO (XI (XO XH))))))
          then let eneg = false in
               let (p, r5) = read_digits r Z0 Z0 in
               let (xv, xc) = p in
               if Z.eqb xc Z0
               then Inr r
               else Inl ((true, (if eneg then Z.opp xv else xv)), r5)
          else if Z.eqb s (Zpos (XI (XO (XI (XI (XO XH))))))
               then let eneg = true in
                    let (p, r5) = read_digits r Z0 Z0 in
                    let (xv, xc) = p in
                    if Z.eqb xc Z0
                    then Inr r
                    else Inl ((true, (if eneg then Z.opp xv else xv)), r5)
               else let eneg = false in
                    let (p, r5) = read_digits r3 Z0 Z0 in
                    let (xv, xc) = p in
                    if Z.eqb xc Z0
                    then Inr r3
                    else Inl ((true, (if eneg then Z.opp xv else xv)), r5))
  else Inl ((false, Z0), b3)

(** val classify : bool -> bool -> z -> z -> z -> z list -> pres **)

let classify neg isd m fc ex b4 =
  let double0 = fun mm ee ->
    match real_of neg mm ee with
    | Some r -> POk (((EReal r) :: []), b4)
    | None -> PFail b4
  in
  if isd
  then double0 m (Z.sub ex fc)
  else if neg
       then if Z.leb m (Zpos (XO (XO (XO (XO (XO (XO (XO (XO (XO (XO (XO (XO
                 (XO (XO (XO (XO (XO (XO (XO (XO (XO (XO (XO (XO (XO (XO (XO
                 (XO (XO (XO (XO (XO (XO (XO (XO (XO (XO (XO (XO (XO (XO (XO
                 (XO (XO (XO (XO (XO (XO (XO (XO (XO (XO (XO (XO (XO (XO (XO
                 (XO (XO (XO (XO (XO (XO
                 XH))))))))))))))))))))))))))))))))))))))))))))))))))))))))))))))))
            then POk (((EInt (Z.opp m)) :: []), b4)
            else double0 m Z0
       else if Z.ltb m (Zpos (XO (XO (XO (XO (XO (XO (XO (XO (XO (XO (XO (XO
                 (XO (XO (XO (XO (XO (XO (XO (XO (XO (XO (XO (XO (XO (XO (XO
                 (XO (XO (XO (XO (XO (XO (XO (XO (XO (XO (XO (XO (XO (XO (XO
                 (XO (XO (XO (XO (XO (XO (XO (XO (XO (XO (XO (XO (XO (XO (XO
                 (XO (XO (XO (XO (XO (XO (XO
                 XH)))))))))))))))))))))))))))))))))))))))))))))))))))))))))))))))))
            then POk (((EInt (wrap64 m)) :: []), b4)
            else double0 m Z0

(** val lex_number : z list -> pres **)

let lex_number bs =
  let (neg, b1) = strip_minus bs in
  (match lex_ipart b1 with
   | Some p ->
     let (iv, b2) = p in
     (match lex_frac iv b2 with
      | Inl p0 ->
        let (p1, b3) = p0 in
        let (p2, fc) = p1 in
        let (isd1, m) = p2 in
        (match lex_exp b3 with
         | Inl p3 ->
           let (p4, b4) = p3 in
           let (isd2, ex) = p4 in classify neg ((||) isd1 isd2) m fc ex b4
         | Inr stop -> PFail stop)
      | Inr stop -> PFail stop)
   | None -> PFail b1)

(** val lit : z list -> ev -> z list -> pres **)

let rec lit expect e bs =
  match expect with
  | [] -> POk ((e :: []), bs)
  | x :: xs ->
    (match bs with
     | [] -> PFail []
     | c :: r -> if Z.eqb c x then lit xs e r else PFail bs)

(** val pmap : (ev list -> ev list) -> pres -> pres **)

let pmap g x = match x with
| POk (es, r) -> POk ((g es), r)
| _ -> x

(** val parse_value : nat -> z list -> pres **)

let rec parse_value fuel bs =
  match fuel with
  | O -> PFuel
  | S f ->
    (match bs with
     | [] -> PFail []
     | c :: r ->
       if Z.eqb c (Zpos (XO (XI (XI (XI (XO (XI XH)))))))
       then lit ((Zpos (XI (XO (XI (XO (XI (XI XH))))))) :: ((Zpos (XO (XO
              (XI (XI (XO (XI XH))))))) :: ((Zpos (XO (XO (XI (XI (XO (XI
              XH))))))) :: []))) ENull r
       else if Z.eqb c (Zpos (XO (XO (XI (XO (XI (XI XH)))))))
            then lit ((Zpos (XO (XI (XO (XO (XI (XI XH))))))) :: ((Zpos (XI
                   (XO (XI (XO (XI (XI XH))))))) :: ((Zpos (XI (XO (XI (XO
                   (XO (XI XH))))))) :: []))) (EBool true) r
            else if Z.eqb c (Zpos (XO (XI (XI (XO (XO (XI XH)))))))
                 then lit ((Zpos (XI (XO (XO (XO (XO (XI XH))))))) :: ((Zpos
                        (XO (XO (XI (XI (XO (XI XH))))))) :: ((Zpos (XI (XI
                        (XO (XO (XI (XI XH))))))) :: ((Zpos (XI (XO (XI (XO
                        (XO (XI XH))))))) :: [])))) (EBool false) r
                 else if Z.eqb c (Zpos (XO (XI (XO (XO (XO XH))))))
                      then (match lex_str r with
                            | SOk (s, r') -> POk (((EStr s) :: []), r')
                            | SFail r' -> PFail r')
                      else if Z.eqb c (Zpos (XI (XI (XO (XI (XI (XO XH)))))))
                           then let r1 = skip_ws r in
                                (match r1 with
                                 | [] -> PFail []
                                 | d :: r2 ->
                                   if Z.eqb d (Zpos (XI (XO (XI (XI (XI (XO
                                        XH)))))))
                                   then POk ((ESA :: (EEA :: [])), r2)
                                   else pmap (fun x -> ESA :: x)
                                          (parse_elems f r1))
                           else if Z.eqb c (Zpos (XI (XI (XO (XI (XI (XI
                                     XH)))))))
                                then let r1 = skip_ws r in
                                     (match r1 with
                                      | [] -> PFail []
                                      | d :: r2 ->
                                        if Z.eqb d (Zpos (XI (XO (XI (XI (XI
                                             (XI XH)))))))
                                        then POk ((ESO :: (EEO :: [])), r2)
                                        else pmap (fun x -> ESO :: x)
                                               (parse_members f r1))
                                else lex_number bs)

(** val parse_elems : nat -> z list -> pres **)

and parse_elems fuel bs =
  match fuel with
  | O -> PFuel
  | S f ->
    (match parse_value f bs with
     | POk (e, r) ->
       let r1 = skip_ws r in
       (match r1 with
        | [] -> PFail []
        | c :: r2 ->
          if Z.eqb c (Zpos (XO (XO (XI (XI (XO XH))))))
          then pmap (app e) (parse_elems f (skip_ws r2))
          else if Z.eqb c (Zpos (XI (XO (XI (XI (XI (XO XH)))))))
               then POk ((app e (EEA :: [])), r2)
               else PFail r1)
     | x -> x)

(** val parse_members : nat -> z list -> pres **)

and parse_members fuel bs =
  match fuel with
  | O -> PFuel
  | S f ->
    (match bs with
     | [] -> PFail []
     | c :: r ->
       if Z.eqb c (Zpos (XO (XI (XO (XO (XO XH))))))
       then (match lex_str r with
             | SOk (k, r') ->
               let r1 = skip_ws r' in
               (match r1 with
                | [] -> PFail []
                | d :: r2 ->
                  if Z.eqb d (Zpos (XO (XI (XO (XI (XI XH))))))
                  then (match parse_value f (skip_ws r2) with
                        | POk (e, r3) ->
                          let r4 = skip_ws r3 in
                          (match r4 with
                           | [] -> PFail []
                           | x :: r5 ->
                             if Z.eqb x (Zpos (XO (XO (XI (XI (XO XH))))))
                             then pmap (fun es -> (EKey k) :: (app e es))
                                    (parse_members f (skip_ws r5))
                             else if Z.eqb x (Zpos (XI (XO (XI (XI (XI (XI
                                       XH)))))))
                                  then POk (((EKey
                                         k) :: (app e (EEO :: []))), r5)
                                  else PFail r4)
                        | x -> x)
                  else PFail r1)
             | SFail r' -> PFail r')
       else PFail bs)

(** val fuel_for : z list -> nat **)

let fuel_for bs =
  add (mul (S (S O)) (length bs)) (S (S O))

(** val parse1 : z list -> pres **)

let parse1 bs =
  parse_value (fuel_for bs) (skip_ws bs)

(** val parse : z list -> (ev list * z list) res **)

let parse bs =
  match parse1 bs with
  | POk (e, r) -> Ok (e, r)
  | PFail _ -> Err EValue
  | PFuel -> Err EFuel

(** val cstr : z list -> z list **)

let rec cstr = function
| [] -> []
| c :: r -> if Z.eqb c Z0 then [] else c :: (cstr r)

(** val is_opt : bytes option -> bytes -> bool **)

let is_opt o s =
  match o with
  | Some t -> list_eqb Z.eqb (cstr s) t
  | None -> false

(** val handler : jopts -> ev -> ev **)

let handler o e = match e with
| EStr s ->
  if is_opt o.nan_s s
  then EReal RNaN
  else if is_opt o.inf_s s
       then EReal (RInf false)
       else if is_opt o.minf_s s then EReal (RInf true) else EStr s
| EKey k -> EKey (cstr k)
| _ -> e

type jerr =
| JIncomplete
| JInvalid
| JFuel

type jres =
| JDocs of ev list list
| JErr of jerr

(** val do_parse_loop : nat -> jopts -> z list -> ev list list -> jres **)

let rec do_parse_loop fuel o bs acc =
  match fuel with
  | O -> JErr JFuel
  | S f ->
    (match bs with
     | [] -> JDocs (rev acc)
     | _ :: _ ->
       (match skip_ws bs with
        | [] -> JDocs (rev acc)
        | _ :: _ ->
          (match parse1 bs with
           | POk (evs, rest) ->
             do_parse_loop f o rest ((map (handler o) evs) :: acc)
           | PFail rest ->
             (match rest with
              | [] -> JErr JIncomplete
              | _ :: _ -> JErr JInvalid)
           | PFuel -> JErr JFuel)))

(** val do_parse_text : jopts -> z list -> jres **)

let do_parse_text o bs =
  do_parse_loop (S (length bs)) o bs []

(** val do_parse : jopts -> z list -> jres **)

let do_parse o text =
  do_parse_text o (cstr text)

type fromjson_result =
| One of ev list
| Many of ev list list

(** val unwrap : ev list list -> fromjson_result **)

let unwrap docs = match docs with
| [] -> Many docs
| d :: l -> (match l with
             | [] -> One d
             | _ :: _ -> Many docs)
