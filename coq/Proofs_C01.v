(** C01: Python slice semantics of the range item and the integer-index wrap law. *)
From AwkV Require Import Layout Ops_Getitem.
From Coq Require Import ZifyBool.
Ltac Zify.zify_post_hook ::= Z.to_euclidean_division_equations.

Lemma iota_nat_In start n x : In x (iota_nat start n) <-> start <= x < start + Z.of_nat n.
Proof.
  revert start. induction n as [|n IH]; intros start; cbn [iota_nat In].
  - lia.
  - rewrite IH. lia.
Qed.
Lemma iota_In n x : In x (iota n) <-> 0 <= x < n.
Proof. unfold iota. rewrite iota_nat_In. lia. Qed.

Lemma iota_nat_length start n : length (iota_nat start n) = n.
Proof. revert start; induction n; intros; cbn; auto. Qed.

(* integer index: negative counts from the end, anything else outside [0,n) is an error *)
Theorem wrap_at_spec n i j :
  wrap_at n i = Ok j <-> ((0 <= i < n /\ j = i) \/ (- n <= i < 0 /\ j = i + n)).
Proof.
  unfold wrap_at.
  destruct (i <? 0) eqn:E.
  - destruct ((0 <=? i + n) && (i + n <? n)) eqn:B; split; intros H; try discriminate.
    + inversion H; subst. right. lia.
    + destruct H as [[? ?]|[? ?]]; [lia | f_equal; lia].
    + destruct H as [[? ?]|[? ?]]; lia.
  - destruct ((0 <=? i) && (i <? n)) eqn:B; split; intros H; try discriminate.
    + inversion H; subst. left. lia.
    + destruct H as [[? ?]|[? ?]]; [f_equal; lia | lia].
    + destruct H as [[? ?]|[? ?]]; lia.
Qed.
Theorem wrap_at_error n i : (exists j, wrap_at n i = Ok j) <-> - n <= i < n.
Proof.
  split.
  - intros [j H]. apply wrap_at_spec in H. lia.
  - intros H. destruct (Z.ltb_spec i 0).
    + exists (i + n). apply wrap_at_spec. right. lia.
    + exists i. apply wrap_at_spec. left. lia.
Qed.

(* the bounds are CPython's slice.indices(n) clamping *)
Theorem py_bounds_in_range n start stop step :
  0 <= n -> step <> 0 ->
  let (s, e) := py_bounds n start stop step in
  if 0 <? step then 0 <= s <= n /\ 0 <= e <= n else -1 <= s <= n - 1 /\ -1 <= e <= n - 1.
Proof.
  intros Hn Hs. unfold py_bounds.
  destruct (0 <? step) eqn:E; destruct start as [a|], stop as [b|]; cbn; repeat match goal with |- context [if ?c then _ else _] => destruct c eqn:? end; lia.
Qed.

(* every selected index addresses an existing element *)
Theorem py_indices_in_range n start stop step i :
  0 <= n -> step <> 0 -> In i (py_indices n start stop step) -> 0 <= i < n.
Proof.
  intros Hn Hs. unfold py_indices.
  pose proof (py_bounds_in_range n start stop step Hn Hs) as HB.
  destruct (py_bounds n start stop step) as [s e].
  rewrite in_map_iff. intros (k & <- & Hk). apply iota_In in Hk.
  unfold py_count in Hk.
  destruct (0 <? step) eqn:E.
  - destruct (s <? e) eqn:E2; [|lia].
    assert (k * step <= e - s - 1) by nia. nia.
  - destruct (e <? s) eqn:E2; [|lia].
    assert (k * (- step) <= s - e - 1) by nia. nia.
Qed.

(* membership: exactly the arithmetic progression from the clamped start, strictly before the clamped stop *)
Theorem py_indices_spec n start stop step i :
  step <> 0 ->
  let (s, e) := py_bounds n start stop step in
  In i (py_indices n start stop step) <->
  (exists k, 0 <= k /\ i = s + k * step /\ (if 0 <? step then i < e else e < i)).
Proof.
  intros Hs. unfold py_indices. destruct (py_bounds n start stop step) as [s e].
  rewrite in_map_iff. split.
  - intros (k & <- & Hk). apply iota_In in Hk. exists k. unfold py_count in Hk.
    destruct (0 <? step) eqn:E.
    + destruct (s <? e) eqn:E2; [|lia]. repeat split; try lia. nia.
    + destruct (e <? s) eqn:E2; [|lia]. repeat split; try lia. nia.
  - intros (k & Hk0 & -> & Hlim). exists k. split; auto. apply iota_In. unfold py_count.
    destruct (0 <? step) eqn:E.
    + destruct (s <? e) eqn:E2; [|nia]. split; [lia|]. nia.
    + destruct (e <? s) eqn:E2; [|nia]. split; [lia|]. nia.
Qed.

(* in order, without repetition: consecutive selected indexes differ by step *)
Theorem py_indices_progression n start stop step :
  py_indices n start stop step =
  let (s, e) := py_bounds n start stop step in map (fun k => s + k * step) (iota (py_count s e step)).
Proof. reflexivity. Qed.

Lemma map_iota_nat_id start n : map (fun k => 0 + k * 1) (iota_nat start n) = iota_nat start n.
Proof. revert start; induction n as [|n IH]; intros; cbn; auto. rewrite IH. f_equal. lia. Qed.

Theorem full_slice_is_identity n : 0 <= n -> py_indices n None None 1 = iota n.
Proof.
  intros Hn. unfold py_indices, py_bounds, py_count. cbn.
  destruct (0 <? n) eqn:E.
  - replace ((n - 0 + 1 - 1) / 1) with n by (rewrite Z.div_1_r; lia). apply map_iota_nat_id.
  - assert (n = 0) by lia. subst. reflexivity.
Qed.

Example slice_examples :
  py_indices 5 (Some 1) (Some 4) 1 = [1; 2; 3] /\
  py_indices 5 None None (-2) = [4; 2; 0] /\
  py_indices 5 (Some (-2)) (Some 10) 1 = [3; 4] /\
  py_indices 5 (Some 10) (Some (-7)) (-3) = [4; 1] /\
  py_indices 5 (Some 3) (Some 1) 1 = [].
Proof. repeat split; reflexivity. Qed.
