(** C17, model of the Lark parser: the round trip extended to categorical types (high-level mode): every
    parameter-free node except a named record or one of the four string types may carry the single parameter
    "__categorical__": true, which the printer writes categorical[type=...]. *)
From Coq Require Import ZArith List Bool Lia.
From AwkV Require Import Base Layout.
From AwkTypes Require Import Json Forms TypeStr Proofs_Json Proofs_Parse Lark Proofs_C17b_Lark.
Import ListNotations.
Open Scope Z_scope.

Definition p_cat : params := [(k_categorical, JBool true)].
Definition pcat (p : params) : bool :=
  match p with
  | [] => true
  | [(k, JBool true)] => bytes_eqb k k_categorical
  | _ => false
  end.
Definition pnamed (p : params) : bool :=
  match p with [(k, JStr w)] => bytes_eqb k k_record && lname_ok w | _ => false end.

Fixpoint lark_okc (t : rty) {struct t} : bool :=
  hardcoded t ||
  match t with
  | RNum p [] (FD _) => pcat p
  | RUnk p [] => pcat p
  | RList p [] t' => pcat p && lark_okc t'
  | ROpt p [] t' => pcat p && lark_okc t'
  | RUnion p [] l => pcat p && nonempty l && forallb lark_okc l
  | RRec p [] None l => pcat p && nonempty l && forallb lark_okc l
  | RRec p [] (Some ks) l =>
      (pcat p || pnamed p) && nonempty l && Nat.eqb (length ks) (length l) && forallb lkey_ok ks && forallb lark_okc l
  | _ => false
  end.

Lemma pcat_cases p : pcat p = true -> p = [] \/ p = p_cat.
Proof.
  destruct p as [|[k v] [|]]; [auto| |destruct v as [|[]| | | | |]; discriminate]. destruct v as [|[]| | | | |]; simpl; try discriminate.
  intros H. apply bytes_eqb_eq in H. subst. right. reflexivity.
Qed.

(* ---------------------------------------------------------------- printing a categorical node *)
Definition cat_text (body : bytes) : bytes := p_categorical_open ++ body ++ [93].
Lemma print_cat_num dt : type_tostring (RNum p_cat [] dt) = cat_text (type_tostring (RNum [] [] dt)).
Proof. reflexivity. Qed.
Lemma print_cat_unk : type_tostring (RUnk p_cat []) = cat_text (type_tostring (RUnk [] [])).
Proof. reflexivity. Qed.
Lemma print_cat_list t : type_tostring (RList p_cat [] t) = cat_text (type_tostring (RList [] [] t)).
Proof. reflexivity. Qed.
Lemma print_cat_opt t : type_tostring (ROpt p_cat [] t) = cat_text (type_tostring (ROpt [] [] t)).
Proof. reflexivity. Qed.
Lemma print_cat_union l : type_tostring (RUnion p_cat [] l) = cat_text (type_tostring (RUnion [] [] l)).
Proof. reflexivity. Qed.
Lemma print_cat_rec ks l : type_tostring (RRec p_cat [] ks l) = cat_text (type_tostring (RRec [] [] ks l)).
Proof. destruct ks; reflexivity. Qed.

(* categories: "categorical" "[" "type" "=" input "]" *)
Lemma cat_step fuel body rest t :
  lk_ty true fuel true (body ++ 93 :: rest) = Ok (t, false, 93 :: rest) ->
  lk_ty true (S fuel) false (cat_text body ++ rest) = Ok (t, false, rest).
Proof.
  intros H. unfold cat_text. rewrite <- !app_assoc.
  change (p_categorical_open ++ ?x) with (w_categorical ++ 91 :: w_type ++ 61 :: x).
  rewrite (lk_ty_kw true fuel false w_categorical KCategorical); [|eexists; eexists; split; reflexivity|reflexivity].
  cbn [lk_keyword]. change (expect [91] (91 :: ?x)) with (@Ok bytes x). cbn [bind].
  change (expect w_type (w_type ++ ?x)) with (@Ok bytes x). cbn [bind].
  change (expect [61] (61 :: ?x)) with (@Ok bytes x). cbn [bind].
  cbn [app]. rewrite H. cbn [bind fst snd]. reflexivity.
Qed.

(* ---------------------------------------------------------------- the productions, with toast's categorical flag *)
Section Steps.
  Variable hl : bool.
  Variable c : bool.
  Variable fuel : nat.
  Local Notation sub := (lk_ty hl fuel).

  Lemma step_num d rest : follow_ok rest ->
    lk_ty hl (S fuel) c (type_tostring (RNum [] [] (FD d)) ++ rest) = Ok (RNum (with_cat c []) [] (FD d), false, rest).
  Proof.
    intros Hr. rewrite print_num.
    rewrite (lk_ty_kw hl fuel c _ _ rest (prim_letter d) (lex_hit_prim d rest)).
    cbn [lk_keyword]. rewrite (lk_opt_options_follow rest Hr). reflexivity.
  Qed.

  Lemma step_unk rest : follow_ok rest ->
    lk_ty hl (S fuel) c (type_tostring (RUnk [] []) ++ rest) = Ok (RUnk (with_cat c []) [], false, rest).
  Proof.
    intros Hr. rewrite print_unk.
    rewrite (lk_ty_kw hl fuel c n_unknown KUnknown rest); [|eexists; eexists; split; reflexivity|reflexivity].
    cbn [lk_keyword]. rewrite (lk_opt_options_follow rest Hr). reflexivity.
  Qed.

  Lemma step_list t' rest : lparses sub t' -> follow_ok rest ->
    lk_ty hl (S fuel) c (type_tostring (RList [] [] t') ++ rest) = Ok (RList (with_cat c []) [] t', false, rest).
  Proof.
    intros Ht Hr. rewrite print_list. rewrite <- !app_assoc.
    rewrite (lk_ty_kw hl fuel c w_var KVar); [|eexists; eexists; split; reflexivity|reflexivity].
    cbn [lk_keyword]. change (expect [42] (p_star ++ ?x)) with (@Ok bytes (32 :: x)). cbn [bind].
    rewrite lk_ty_space. rewrite (Ht rest Hr). reflexivity.
  Qed.

  Lemma step_opt t' rest : hl || negb (is_listlike t') = true -> lparses sub t' -> follow_ok rest ->
    lk_ty hl (S fuel) c (type_tostring (ROpt [] [] t') ++ rest) = Ok (ROpt (with_cat c []) [] t', false, rest).
  Proof.
    intros Hmode Ht Hr. rewrite print_opt. destruct (is_listlike t') eqn:El.
    - rewrite orb_false_r in Hmode. revert Ht. rewrite Hmode. intros Ht. rewrite <- !app_assoc.
      rewrite (lk_ty_kw true fuel c w_option KOption); [|eexists; eexists; split; reflexivity|reflexivity].
      cbn [lk_keyword]. cbn [app]. change (expect [91] (91 :: ?x)) with (@Ok bytes x). cbn [bind].
      rewrite <- app_assoc. cbn [app].
      rewrite (Ht (93 :: rest)) by (simpl; auto).
      cbn [bind fst snd]. rewrite (skip_ws_nows 93) by reflexivity. reflexivity.
    - change (lk_ty hl (S fuel) c ((63 :: type_tostring t') ++ rest))
        with (lk_question sub c (type_tostring t' ++ rest)).
      unfold lk_question. rewrite (Ht rest Hr).
      cbn [bind fst snd]. rewrite (lk_opt_options_follow rest Hr). reflexivity.
  Qed.

  Lemma step_union l rest : l <> [] -> Forall (lparses sub) l -> Forall nopar l -> (length l <= fuel)%nat ->
    lk_ty hl (S fuel) c (type_tostring (RUnion [] [] l) ++ rest) = Ok (RUnion (with_cat c []) [] l, false, rest).
  Proof.
    intros Hne Hparses Hnopar Hlen. rewrite print_union. rewrite <- !app_assoc. cbn [app].
    rewrite (lk_ty_kw hl fuel c w_union KUnion); [|eexists; eexists; split; reflexivity|reflexivity].
    cbn [lk_keyword]. change (expect [91] (91 :: ?x)) with (@Ok bytes x). cbn [bind].
    rewrite <- app_assoc. cbn [app].
    rewrite (lk_ulist_ok (lk_ty hl fuel) (lk_ty_space hl fuel) l fuel rest Hne Hparses Hnopar Hlen). reflexivity.
  Qed.

  Lemma step_tuple l rest : l <> [] -> Forall (lparses sub) l -> (length l <= fuel)%nat ->
    lk_ty hl (S fuel) c (type_tostring (RRec [] [] None l) ++ rest) = Ok (RRec (with_cat c []) [] None l, false, rest).
  Proof.
    intros Hne Hparses Hlen. rewrite print_tuple.
    change (lk_ty hl (S fuel) c ((40 :: ?x) ++ rest)) with (lk_paren sub fuel c (x ++ rest)).
    unfold lk_paren. rewrite <- app_assoc. cbn [app].
    rewrite (lk_list_ok (lk_ty hl fuel) (lk_ty_space hl fuel) 41 (or_intror eq_refl) l fuel rest Hne Hparses Hlen).
    reflexivity.
  Qed.

  Lemma fields_args ks l : l <> [] -> length ks = length l -> Forall (lparses sub) l -> forallb lkey_ok ks = true ->
    (length l <= fuel)%nat ->
    zip ks l <> [] /\ Forall (fun kt => lparses sub (snd kt)) (zip ks l) /\
    forallb lkey_ok (map fst (zip ks l)) = true /\ (length (zip ks l) <= fuel)%nat /\
    map fst (zip ks l) = ks /\ map snd (zip ks l) = l.
  Proof.
    intros Hne Hl Hparses Hkeys Hlen. destruct (zip_fst_snd ks l Hl) as [E1 E2].
    split; [destruct l; [congruence|]; destruct ks; discriminate|].
    split; [apply Forall_forall; intros [k0 t0] Hin; simpl; rewrite Forall_forall in Hparses; apply Hparses;
            rewrite <- E2; apply (in_map snd _ _ Hin)|].
    split; [rewrite E1; exact Hkeys|].
    split; [|split; assumption].
    assert (length (zip ks l) = length l) by (rewrite <- E2 at 2; rewrite map_length; reflexivity). lia.
  Qed.

  Lemma step_rec ks l rest : l <> [] -> length ks = length l -> Forall (lparses sub) l -> forallb lkey_ok ks = true ->
    (length l <= fuel)%nat ->
    lk_ty hl (S fuel) c (type_tostring (RRec [] [] (Some ks) l) ++ rest) = Ok (RRec (with_cat c []) [] (Some ks) l, false, rest).
  Proof.
    intros Hne Hl Hparses Hkeys Hlen.
    destruct (fields_args ks l Hne Hl Hparses Hkeys Hlen) as (Z1 & Z2 & Z3 & Z4 & E1 & E2).
    rewrite print_rec, (keyed_map ks l Hl).
    change (lk_ty hl (S fuel) c ((123 :: ?x) ++ rest)) with (lk_brace sub fuel c (x ++ rest)).
    unfold lk_brace. rewrite <- app_assoc. cbn [app].
    rewrite (lk_fields_ok (lk_ty hl fuel) (lk_ty_space hl fuel) 125 (or_intror eq_refl) (zip ks l) fuel rest Z1 Z2 Z3 Z4).
    cbn [bind fst snd]. rewrite E1, E2. reflexivity.
  Qed.

  Lemma step_named w ks l rest : hl = true -> lname_ok w = true ->
    l <> [] -> length ks = length l -> Forall (lparses sub) l -> forallb lkey_ok ks = true -> (length l <= fuel)%nat ->
    lk_ty hl (S fuel) c (type_tostring (RRec (@cons (bytes * json) (@pair bytes json k_record (JStr w)) nil) [] (Some ks) l) ++ rest)
    = Ok (RRec (with_cat c (@cons (bytes * json) (@pair bytes json k_record (JStr w)) nil)) [] (Some ks) l, false, rest).
  Proof.
    intros Hhl Hw Hne Hl Hparses Hkeys Hlen.
    destruct (fields_args ks l Hne Hl Hparses Hkeys Hlen) as (Z1 & Z2 & Z3 & Z4 & E1 & E2).
    revert Z2. rewrite Hhl. intros Z2.
    destruct (lname_parts w Hw) as (Hhead & Hletters & Hn & Hres & _ & Htbl).
    rewrite (print_named w (Some ks) l Hn Hres). rewrite (keyed_map ks l Hl).
    rewrite <- !app_assoc. cbn [app]. rewrite <- ?app_assoc. cbn [app].
    rewrite (lk_ty_name true fuel c w _ Hhead (lex_kw_none kw_table w _ Htbl)).
    unfold lk_named. rewrite (span_word is_letter w _ Hletters) by reflexivity.
    change (expect [91] (91 :: ?x)) with (@Ok bytes x). cbn [bind].
    rewrite (lk_fields_ok (lk_ty true fuel) (lk_ty_space true fuel) 93 (or_introl eq_refl) (zip ks l) fuel rest Z1 Z2 Z3 Z4).
    cbn [bind fst snd]. rewrite E1, E2. reflexivity.
  Qed.
End Steps.

(* ---------------------------------------------------------------- sizes (fuel) *)
Definition pc (p : params) : nat := match p with [] => O | _ => 1%nat end.
Fixpoint csize (t : rty) : nat :=
  match t with
  | RNum p _ _ | RUnk p _ => S (pc p)
  | RList p _ t' | RReg p _ _ t' | ROpt p _ t' => S (pc p + csize t')
  | RRec p _ _ l | RUnion p _ l => S (pc p + fold_right (fun t n => (csize t + n)%nat) O l)
  end.
Definition csum (l : list rty) : nat := fold_right (fun t n => (csize t + n)%nat) O l.

Lemma csize_pos t : (1 <= csize t)%nat.
Proof. destruct t; simpl; lia. Qed.

Lemma csum_ge l : (length l <= csum l)%nat /\ forall t, In t l -> (csize t <= csum l)%nat.
Proof.
  unfold csum. induction l as [|x l [IH1 IH2]]; simpl; [split; [lia|intros t []]|].
  pose proof (csize_pos x). split; [lia|]. intros t [<-|Hin]; [lia|]. specialize (IH2 t Hin). lia.
Qed.

(* ---------------------------------------------------------------- no "parameters" at the head *)
Lemma nopar_okc t : lark_okc t = true -> nopar t.
Proof.
  intros H x. destruct t as [p s dt|p s|p s t'|p s n t'|p s t'|p s ks l|p s l]; cbn [lark_okc] in H;
    apply orb_true_iff in H as [H|H];
    try (destruct (hardcoded_cases _ H) as [->|[->|[->| ->]]]; reflexivity); try discriminate H.
  - destruct s; [|discriminate]. destruct dt as [d| | | | | | | |]; try discriminate.
    destruct (pcat_cases p H) as [->| ->]; [|rewrite print_cat_num; reflexivity].
    rewrite print_num. destruct d; reflexivity.
  - destruct s; [|discriminate]. destruct (pcat_cases p H) as [->| ->]; reflexivity.
  - destruct s; [|discriminate]. apply andb_true_iff in H as [H _].
    destruct (pcat_cases p H) as [->| ->]; [rewrite print_list|rewrite print_cat_list]; reflexivity.
  - destruct s; [|discriminate]. apply andb_true_iff in H as [H _].
    destruct (pcat_cases p H) as [->| ->]; [|rewrite print_cat_opt; reflexivity].
    rewrite print_opt. destruct (is_listlike t'); reflexivity.
  - destruct s; [|discriminate]. destruct ks as [ks|].
    + repeat (apply andb_true_iff in H as [H ?]). apply orb_true_iff in H as [H|H].
      * destruct (pcat_cases p H) as [->| ->]; [rewrite print_rec|rewrite print_cat_rec]; reflexivity.
      * destruct p as [|[k v] p']; [discriminate H|]. destruct v as [| | | |w| |]; try discriminate H. destruct p'; [|discriminate H].
        apply andb_true_iff in H as [Hk Hw]. apply bytes_eqb_eq in Hk. subst k.
        destruct (lname_parts w Hw) as ((c & w' & Hw' & Hc) & _ & Hn & Hres & Hpar & _).
        rewrite (print_named w (Some ks) l Hn Hres). rewrite <- app_assoc.
        destruct (letter_tests c Hc) as (Hws & _). rewrite Hw'. change ((c :: w') ++ ?y) with (c :: (w' ++ y)).
        rewrite (skip_ws_nows c _ Hws). change (c :: w' ++ ?y) with ((c :: w') ++ y). rewrite <- Hw'.
        apply strip_prefix_incomparable, Hpar.
    + repeat (apply andb_true_iff in H as [H ?]).
      destruct (pcat_cases p H) as [->| ->]; [rewrite print_tuple|rewrite print_cat_rec]; reflexivity.
  - destruct s; [|discriminate]. repeat (apply andb_true_iff in H as [H ?]).
    destruct (pcat_cases p H) as [->| ->]; [rewrite print_union|rewrite print_cat_union]; reflexivity.
Qed.

(* ---------------------------------------------------------------- the round trip *)
Definition lppc (t : rty) : Prop :=
  lark_okc t = true -> forall fuel rest, (csize t <= fuel)%nat -> follow_ok rest ->
  lk_ty true fuel false (type_tostring t ++ rest) = Ok (t, false, rest).

Lemma lparses_of_lppc fuel l :
  Forall lppc l -> forallb lark_okc l = true -> (csum l <= fuel)%nat ->
  Forall (lparses (lk_ty true fuel)) l /\ Forall nopar l /\ (length l <= fuel)%nat.
Proof.
  intros HF Hp Hs. destruct (csum_ge l) as [Hlen Hsz].
  split; [|split; [|lia]].
  - apply Forall_forall. intros t Ht rest Hr. rewrite Forall_forall in HF. rewrite forallb_forall in Hp.
    apply (HF t Ht (Hp t Ht)); [specialize (Hsz t Ht); lia|exact Hr].
  - apply Forall_forall. intros t Ht. rewrite forallb_forall in Hp. apply nopar_okc, Hp, Ht.
Qed.

Lemma nonempty_ne {A} (l : list A) : nonempty l = true -> l <> [].
Proof. destruct l; [discriminate|discriminate]. Qed.

Lemma follow93 rest : follow_ok (93 :: rest).
Proof. simpl. auto. Qed.

Theorem lark_cat_parse_print_all t : lppc t.
Proof.
  induction t as [p s dt|p s|p s t' IH|p s n t' IH|p s t' IH|p s ks l IH|p s l IH] using rty_ind';
    intros Hp fuel rest Hf Hr; cbn [lark_okc] in Hp;
    apply orb_true_iff in Hp as [Hp|Hp];
    try (apply lhardcoded_pp; [exact Hp|pose proof (csize_pos (RNum p s dt)); simpl in *; lia|exact Hr]);
    try (apply lhardcoded_pp; [exact Hp|simpl in *; lia|exact Hr]); try discriminate Hp.
  - destruct s; [|discriminate]. destruct dt as [d| | | | | | | |]; try discriminate.
    destruct (pcat_cases p Hp) as [->| ->]; simpl in Hf.
    + destruct fuel as [|fuel]; [lia|]. exact (step_num true false fuel d rest Hr).
    + destruct fuel as [|[|fuel]]; try lia. rewrite print_cat_num. apply cat_step.
      exact (step_num true true fuel d (93 :: rest) (follow93 rest)).
  - destruct s; [|discriminate].
    destruct (pcat_cases p Hp) as [->| ->]; simpl in Hf.
    + destruct fuel as [|fuel]; [lia|]. exact (step_unk true false fuel rest Hr).
    + destruct fuel as [|[|fuel]]; try lia. rewrite print_cat_unk. apply cat_step.
      exact (step_unk true true fuel (93 :: rest) (follow93 rest)).
  - destruct s; [|discriminate]. apply andb_true_iff in Hp as [Hp Hc].
    destruct (pcat_cases p Hp) as [->| ->]; simpl in Hf.
    + destruct fuel as [|fuel]; [lia|].
      apply (step_list true false fuel t' rest); [|exact Hr]. intros r Hr'. apply (IH Hc); [lia|exact Hr'].
    + destruct fuel as [|[|fuel]]; try lia. rewrite print_cat_list. apply cat_step.
      apply (step_list true true fuel t' (93 :: rest)); [|apply follow93]. intros r Hr'. apply (IH Hc); [lia|exact Hr'].
  - destruct s; [|discriminate]. apply andb_true_iff in Hp as [Hp Hc].
    destruct (pcat_cases p Hp) as [->| ->]; simpl in Hf.
    + destruct fuel as [|fuel]; [lia|].
      apply (step_opt true false fuel t' rest eq_refl); [|exact Hr]. intros r Hr'. apply (IH Hc); [lia|exact Hr'].
    + destruct fuel as [|[|fuel]]; try lia. rewrite print_cat_opt. apply cat_step.
      apply (step_opt true true fuel t' (93 :: rest) eq_refl); [|apply follow93]. intros r Hr'. apply (IH Hc); [lia|exact Hr'].
  - destruct s; [|discriminate]. destruct ks as [ks|].
    + repeat (apply andb_true_iff in Hp as [Hp ?]).
      match goal with Hx : Nat.eqb _ _ = true |- _ => apply Nat.eqb_eq in Hx; rename Hx into Hl end.
      match goal with Hx : nonempty l = true |- _ => apply nonempty_ne in Hx; rename Hx into Hne end.
      match goal with Hx : forallb lkey_ok ks = true |- _ => rename Hx into Hkeys end.
      match goal with Hx : forallb lark_okc l = true |- _ => rename Hx into Hall end.
      apply orb_true_iff in Hp as [Hp|Hp].
      * destruct (pcat_cases p Hp) as [->| ->]; simpl in Hf.
        -- destruct fuel as [|fuel]; [lia|].
           destruct (lparses_of_lppc fuel l IH Hall ltac:(unfold csum; lia)) as (Hparses & _ & Hlen).
           exact (step_rec true false fuel ks l rest Hne Hl Hparses Hkeys Hlen).
        -- destruct fuel as [|[|fuel]]; try lia. rewrite print_cat_rec. apply cat_step.
           destruct (lparses_of_lppc fuel l IH Hall ltac:(unfold csum; lia)) as (Hparses & _ & Hlen).
           exact (step_rec true true fuel ks l (93 :: rest) Hne Hl Hparses Hkeys Hlen).
      * destruct p as [|[k v] p']; [discriminate Hp|]. destruct v as [| | | |w| |]; try discriminate Hp. destruct p'; [|discriminate Hp].
        apply andb_true_iff in Hp as [Hk Hw]. apply bytes_eqb_eq in Hk. subst k. simpl in Hf.
        destruct fuel as [|fuel]; [lia|].
        destruct (lparses_of_lppc fuel l IH Hall ltac:(unfold csum; lia)) as (Hparses & _ & Hlen).
        exact (step_named true false fuel w ks l rest eq_refl Hw Hne Hl Hparses Hkeys Hlen).
    + repeat (apply andb_true_iff in Hp as [Hp ?]).
      match goal with Hx : nonempty l = true |- _ => apply nonempty_ne in Hx; rename Hx into Hne end.
      match goal with Hx : forallb lark_okc l = true |- _ => rename Hx into Hall end.
      destruct (pcat_cases p Hp) as [->| ->]; simpl in Hf.
      * destruct fuel as [|fuel]; [lia|].
        destruct (lparses_of_lppc fuel l IH Hall ltac:(unfold csum; lia)) as (Hparses & _ & Hlen).
        exact (step_tuple true false fuel l rest Hne Hparses Hlen).
      * destruct fuel as [|[|fuel]]; try lia. rewrite print_cat_rec. apply cat_step.
        destruct (lparses_of_lppc fuel l IH Hall ltac:(unfold csum; lia)) as (Hparses & _ & Hlen).
        exact (step_tuple true true fuel l (93 :: rest) Hne Hparses Hlen).
  - destruct s; [|discriminate]. repeat (apply andb_true_iff in Hp as [Hp ?]).
    match goal with Hx : nonempty l = true |- _ => apply nonempty_ne in Hx; rename Hx into Hne end.
    match goal with Hx : forallb lark_okc l = true |- _ => rename Hx into Hall end.
    destruct (pcat_cases p Hp) as [->| ->]; simpl in Hf.
    + destruct fuel as [|fuel]; [lia|].
      destruct (lparses_of_lppc fuel l IH Hall ltac:(unfold csum; lia)) as (Hparses & Hnopar & Hlen).
      exact (step_union true false fuel l rest Hne Hparses Hnopar Hlen).
    + destruct fuel as [|[|fuel]]; try lia. rewrite print_cat_union. apply cat_step.
      destruct (lparses_of_lppc fuel l IH Hall ltac:(unfold csum; lia)) as (Hparses & Hnopar & Hlen).
      exact (step_union true true fuel l (93 :: rest) Hne Hparses Hnopar Hlen).
Qed.

(* ---------------------------------------------------------------- enough fuel *)
Lemma cat_len body : length (cat_text body) = (18 + length body)%nat.
Proof. unfold cat_text. rewrite !app_length. change (length p_categorical_open) with 17%nat. simpl. lia. Qed.

Lemma csum_le (l : list rty) :
  Forall (fun t => lark_okc t = true -> (csize t <= length (type_tostring t))%nat) l ->
  forallb lark_okc l = true ->
  (csum l <= fold_right (fun p n => (length p + n)%nat) O (map type_tostring l))%nat.
Proof.
  unfold csum. induction 1 as [|t l Ht Hl IH]; intros Hp; simpl; [lia|].
  simpl in Hp. apply andb_true_iff in Hp as [H1 H2]. specialize (Ht H1). specialize (IH H2). lia.
Qed.

Lemma csize_le_print t : lark_okc t = true -> (csize t <= length (type_tostring t))%nat.
Proof.
  induction t as [p s dt|p s|p s t' IH|p s n t' IH|p s t' IH|p s ks l IH|p s l IH] using rty_ind';
    intros Hp; cbn [lark_okc] in Hp; apply orb_true_iff in Hp as [Hp|Hp];
    try (destruct (hardcoded_cases _ Hp) as [E|[E|[E|E]]]; rewrite E; vm_compute; lia); try discriminate Hp.
  - destruct s; [|discriminate]. destruct dt as [d| | | | | | | |]; try discriminate.
    destruct (pcat_cases p Hp) as [->| ->]; [|rewrite print_cat_num, cat_len]; rewrite print_num; destruct d; vm_compute; lia.
  - destruct s; [|discriminate]. destruct (pcat_cases p Hp) as [->| ->]; vm_compute; lia.
  - destruct s; [|discriminate]. apply andb_true_iff in Hp as [Hp Hc]. specialize (IH Hc).
    destruct (pcat_cases p Hp) as [->| ->]; [|rewrite print_cat_list, cat_len]; rewrite print_list, !app_length;
      cbn [csize pc p_cat]; change (length w_var) with 3%nat; change (length p_star) with 3%nat; lia.
  - destruct s; [|discriminate]. apply andb_true_iff in Hp as [Hp Hc]. specialize (IH Hc).
    destruct (pcat_cases p Hp) as [->| ->]; [|rewrite print_cat_opt, cat_len]; rewrite print_opt;
      destruct (is_listlike t'); cbn [csize pc p_cat]; rewrite ?app_length; cbn [length]; rewrite ?app_length; cbn [length];
      change (length w_option) with 6%nat; lia.
  - destruct s; [|discriminate]. destruct ks as [ks|].
    + repeat (apply andb_true_iff in Hp as [Hp ?]).
      match goal with Hx : Nat.eqb _ _ = true |- _ => apply Nat.eqb_eq in Hx; rename Hx into Hl end.
      match goal with Hx : forallb lark_okc l = true |- _ => pose proof (csum_le l IH Hx) as Hsum end.
      pose proof (sep_concat_length p_comma (keyed ks (map type_tostring l))) as Hsep.
      pose proof (keyed_lengths ks l Hl) as Hkl. unfold csum in Hsum.
      apply orb_true_iff in Hp as [Hp|Hp].
      * destruct (pcat_cases p Hp) as [->| ->]; [|rewrite print_cat_rec, cat_len]; rewrite print_rec;
          cbn [csize pc p_cat length]; rewrite app_length; cbn [length]; lia.
      * destruct p as [|[k v] p']; [discriminate Hp|]. destruct v as [| | | |w| |]; try discriminate Hp. destruct p'; [|discriminate Hp].
        apply andb_true_iff in Hp as [Hk Hw]. apply bytes_eqb_eq in Hk. subst k.
        destruct (lname_parts w Hw) as ((c & w' & Hw' & Hc) & _ & Hn & Hres & _).
        rewrite (print_named w (Some ks) l Hn Hres). rewrite app_length. cbn [length]. rewrite app_length. cbn [length csize pc p_cat].
        rewrite Hw'. cbn [length]. lia.
    + repeat (apply andb_true_iff in Hp as [Hp ?]).
      match goal with Hx : forallb lark_okc l = true |- _ => pose proof (csum_le l IH Hx) as Hsum end.
      pose proof (sep_concat_length p_comma (map type_tostring l)) as Hsep. unfold csum in Hsum.
      destruct (pcat_cases p Hp) as [->| ->]; [|rewrite print_cat_rec, cat_len]; rewrite print_tuple;
        cbn [csize pc p_cat length]; rewrite app_length; cbn [length]; lia.
  - destruct s; [|discriminate]. repeat (apply andb_true_iff in Hp as [Hp ?]).
    match goal with Hx : forallb lark_okc l = true |- _ => pose proof (csum_le l IH Hx) as Hsum end.
    pose proof (sep_concat_length p_comma (map type_tostring l)) as Hsep. unfold csum in Hsum.
    destruct (pcat_cases p Hp) as [->| ->]; [|rewrite print_cat_union, cat_len]; rewrite print_union;
      cbn [csize pc p_cat]; rewrite app_length; change (length w_union) with 5%nat; cbn [length]; rewrite app_length; cbn [length]; lia.
Qed.

(* ---------------------------------------------------------------- the theorems *)
Theorem lark_cat_roundtrip_full t : lark_okc t = true -> lark_parse_full true (type_tostring t) = Ok (t, false).
Proof.
  intros Hp. unfold lark_parse_full.
  rewrite <- (app_nil_r (type_tostring t)) at 2.
  rewrite (lark_cat_parse_print_all t Hp (S (length (type_tostring t))) []).
  - reflexivity.
  - pose proof (csize_le_print t Hp). lia.
  - exact I.
Qed.

Theorem lark_cat_roundtrip t : lark_okc t = true -> lark_parse true (type_tostring t) = Ok t.
Proof. intros Hp. unfold lark_parse. rewrite (lark_cat_roundtrip_full t Hp). reflexivity. Qed.

(* the categorical fragment extends the high-level parameter-free one *)
Theorem lark_ok_okc t : lark_ok true t = true -> lark_okc t = true.
Proof.
  induction t as [p s dt|p s|p s t' IH|p s n t' IH|p s t' IH|p s ks l IH|p s l IH] using rty_ind';
    intros Hp; cbn [lark_ok] in Hp; cbn [lark_okc]; apply orb_true_iff in Hp as [Hp|Hp];
    try (rewrite Hp; reflexivity); apply orb_true_iff; right.
  - destruct p; [|discriminate]. destruct s; [|discriminate]. destruct dt as [d| | | | | | | |]; try discriminate. reflexivity.
  - destruct p; [|discriminate]. destruct s; [|discriminate]. reflexivity.
  - destruct p; [|discriminate]. destruct s; [|discriminate]. exact (IH Hp).
  - destruct p; [|discriminate]. destruct s; [|discriminate]. simpl in Hp. discriminate Hp.
  - destruct p; [|discriminate]. destruct s; [|discriminate]. apply andb_true_iff in Hp as [_ Hp]. exact (IH Hp).
  - destruct s; [|destruct p as [|[? []] []]; try discriminate Hp; destruct ks; discriminate Hp].
    destruct p as [|[k v] p'].
    + destruct ks as [ks|].
      * repeat (apply andb_true_iff in Hp as [Hp ?]).
        match goal with Hx : forallb (lark_ok true) l = true |- _ => rewrite (forallb_impl _ _ l IH Hx) end.
        match goal with Hx : forallb lkey_ok ks = true |- _ => rewrite Hx end.
        match goal with Hx : Nat.eqb _ _ = true |- _ => rewrite Hx end. rewrite Hp. reflexivity.
      * apply andb_true_iff in Hp as [Hne Hall]. rewrite (forallb_impl _ _ l IH Hall), Hne. reflexivity.
    + destruct v as [| | | |w| |]; try discriminate Hp. destruct p'; [|discriminate Hp]. destruct ks as [ks|]; [|discriminate Hp].
      repeat (apply andb_true_iff in Hp as [Hp ?]). cbn [pcat pnamed orb].
      match goal with Hx : forallb (lark_ok true) l = true |- _ => rewrite (forallb_impl _ _ l IH Hx) end.
      match goal with Hx : forallb lkey_ok ks = true |- _ => rewrite Hx end.
      match goal with Hx : Nat.eqb _ _ = true |- _ => rewrite Hx end.
      match goal with Hx : nonempty l = true |- _ => rewrite Hx end.
      match goal with Hx : bytes_eqb k k_record = true |- _ => rewrite Hx end.
      match goal with Hx : lname_ok w = true |- _ => rewrite Hx end. reflexivity.
  - destruct p; [|discriminate]. destruct s; [|discriminate]. apply andb_true_iff in Hp as [Hne Hall].
    rewrite Hne, (forallb_impl _ _ l IH Hall). reflexivity.
Qed.

(* var * categorical[type=Point["x": categorical[type=var * int64], "y": ?categorical[type=union[int64, string]]]] ...
   a record whose fields are categorical, inside a categorical list *)
Definition ex_cat : rty :=
  RList p_cat [] (RRec [(k_record, JStr [80; 116])] [] (Some [[120]; [121]])
                    [RList p_cat [] (RNum [] [] (FD DInt64));
                     ROpt [] [] (RUnion p_cat [] [RNum p_cat [] (FD DInt64); t_string; RRec p_cat [] None [RUnk p_cat []]])]).
Example ex_cat_ok : lark_okc ex_cat = true /\ lark_ok true ex_cat = false.
Proof. split; vm_compute; reflexivity. Qed.
Example ex_cat_roundtrip : lark_parse true (type_tostring ex_cat) = Ok ex_cat.
Proof. apply lark_cat_roundtrip. vm_compute. reflexivity. Qed.
(* categorical needs high_level: in low-level mode toast's assert fails *)
Example ex_cat_lowlevel : lark_parse false (type_tostring ex_cat) = Err EValue.
Proof. vm_compute. reflexivity. Qed.
(* outside the fragment: a categorical named record prints as struct[...] with "__record__" among the parameters
   (read back correctly by the parser, but through the parameters production, which this theorem does not cover);
   categorical[type=string] likewise *)
Example ex_cat_named : lark_okc (RRec [(k_categorical, JBool true); (k_record, JStr [80; 116])] [] (Some [[120]]) [RNum [] [] (FD DInt64)]) = false /\
  lark_parse true (type_tostring (RRec [(k_categorical, JBool true); (k_record, JStr [80; 116])] [] (Some [[120]]) [RNum [] [] (FD DInt64)]))
  = Ok (RRec [(k_categorical, JBool true); (k_record, JStr [80; 116])] [] (Some [[120]]) [RNum [] [] (FD DInt64)]).
Proof. split; vm_compute; reflexivity. Qed.
