(** C17b, Form -> JSON -> Form, part 1: the complete characterisation of the round trip.
    For EVERY form f (no well-formedness assumed), both verbosities, top level or not:
      form_fromjson (form_tojson_part v t f) = if form_parses f then Ok (form_canon f) else Err EValue
    where [form_parses] is the boolean "the JSON text of f is accepted" and [form_canon] the form that comes back. *)
From Coq Require Import ZArith List Bool Lia.
From AwkV Require Import Base Layout.
From AwkTypes Require Import Json Forms Proofs_Json.
Import ListNotations.
Open Scope Z_scope.

(* ---------------------------------------------------------------- what comes back *)
(* parameters: written with keys cut at the first NUL, read back into a std::map (sorted, last duplicate wins) *)
Definition pcanon (ps : params) : params :=
  fold_left (fun acc kv => pset (cstr (fst kv)) (snd kv) acc) (map (fun kv : bytes * json => (cstr (fst kv), snd kv)) ps) [].
Definition meta_canon (m : fmeta) : fmeta :=
  mkmeta (m_hid m) (pcanon (m_params m)) (match m_key m with Some k => Some (cstr k) | None => None end).

Fixpoint form_canon (f : form) : form :=
  match f with
  | FNumpy m inner _ _ dt => FNumpy (meta_canon m) inner (dtype_to_itemsize dt) (dtype_to_format dt) dt
  | FEmpty m => FEmpty (meta_canon m)
  | FListOffset m o c => FListOffset (meta_canon m) o (form_canon c)
  | FList m s e c => FList (meta_canon m) s e (form_canon c)
  | FRegular m c size => FRegular (meta_canon m) (form_canon c) size
  | FIndexed m i c => FIndexed (meta_canon m) i (form_canon c)
  | FIndexedOption m i c => FIndexedOption (meta_canon m) i (form_canon c)
  | FByteMasked m k c vw => FByteMasked (meta_canon m) k (form_canon c) vw
  | FBitMasked m k c vw lsb => FBitMasked (meta_canon m) k (form_canon c) vw lsb
  | FUnmasked m c => FUnmasked (meta_canon m) (form_canon c)
  | FUnion m t i cs => FUnion (meta_canon m) t i (map form_canon cs)
  | FRecord m None cs => FRecord (meta_canon m) None (map form_canon cs)
  | FRecord m (Some ks) cs =>
      (* the writer pairs keys and contents and stops at the shorter *)
      FRecord (meta_canon m) (Some (map cstr (firstn (length cs) ks))) (firstn (length ks) (map form_canon cs))
  | FVirtual m None hl => FVirtual (meta_canon m) None hl
  | FVirtual m (Some g) hl => FVirtual (meta_canon m) (Some (form_canon g)) hl
  end.

(* the forms whose JSON is accepted by Form::fromjson *)
Fixpoint form_parses (f : form) : bool :=
  match f with
  | FNumpy _ inner _ _ dt => negb (fdtype_eqb dt FNotPrimitive) && forallb is_int32 inner
  | FEmpty _ => true
  | FListOffset _ o c => width3 o && form_parses c
  | FList _ s e c => width3 s && iform_eqb s e && form_parses c
  | FRegular _ c size => form_parses c && is_int32 size
  | FIndexed _ i c => width3 i && form_parses c
  | FIndexedOption _ i c => (match i with Fi32 | Fi64 => true | _ => false end) && form_parses c
  | FByteMasked _ _ c _ | FBitMasked _ _ c _ _ | FUnmasked _ c => form_parses c
  | FUnion _ t i cs => width3 i && iform_eqb t Fi8 && forallb (fun b : bool => b) (map form_parses cs)
  | FRecord _ None cs => forallb (fun b : bool => b) (map form_parses cs)
  | FRecord _ (Some ks) cs => forallb (fun b : bool => b) (firstn (length ks) (map form_parses cs))
  | FVirtual _ None _ => true
  | FVirtual _ (Some g) _ => form_parses g
  end.

(* ---------------------------------------------------------------- metadata: unconditional *)
Lemma get_params_tail_any pre verbose m :
  jfind k_parameters pre = None -> get_params (pre ++ j_tail verbose m) = Ok (pcanon (m_params m)).
Proof.
  intros P3. unfold get_params, pcanon. rewrite jfind_app, P3, jfind_tail_params.
  destruct (m_params m) as [|p ps']; [destruct verbose; reflexivity|]. reflexivity.
Qed.

Lemma get_form_key_tail_any pre verbose m :
  jfind k_form_key pre = None ->
  get_form_key (pre ++ j_tail verbose m) = Ok (match m_key m with Some k => Some (cstr k) | None => None end).
Proof.
  intros P4. unfold get_form_key. rewrite jfind_app, P4, jfind_tail_key.
  destruct (m_key m) as [k|]; [reflexivity|]. destruct verbose; reflexivity.
Qed.

Lemma get_meta_tail_any verbose m : get_meta (j_tail verbose m) = Ok (meta_canon m).
Proof.
  unfold get_meta. change (j_tail verbose m) with ([] ++ j_tail verbose m).
  rewrite (get_hid_tail [] verbose m eq_refl eq_refl), (get_params_tail_any [] verbose m eq_refl),
    (get_form_key_tail_any [] verbose m eq_refl). reflexivity.
Qed.

Ltac metac := repeat rewrite get_meta_skip by reflexivity; rewrite get_meta_tail_any; cbn [bind].

(* ---------------------------------------------------------------- pieces *)
Lemma from_primitive_name_unknown : from_primitive_name (dtype_to_name FNotPrimitive) = Err EValue.
Proof. reflexivity. Qed.

Lemma mapM_ints_any (l : list Z) :
  mapM (fun x : json => match x with JInt n => if is_int32 n then Ok n else Err EValue | _ => Err EValue end)
       (map JInt l) = if forallb is_int32 l then Ok l else Err EValue.
Proof.
  induction l as [|n l IH]; simpl; [reflexivity|]. destruct (is_int32 n); simpl; [|reflexivity].
  rewrite IH. destruct (forallb is_int32 l); reflexivity.
Qed.

Lemma tojson_part_not_null v t f : form_tojson_part v t f <> JNull.
Proof.
  destruct f as [m inner itemsize format dt|m|m o c|m s e c|m c size|m i c|m i c|m k c vw|m k c vw lsb|m c|m t0 i cs
                |m [ks|] cs|m g hl]; cbn [form_tojson_part]; try discriminate.
  destruct (_ || _ || _ || _); discriminate.
Qed.

Lemma virt_step (rec : json -> res form) j : j <> JNull ->
  match j with JNull => Ok None | _ => do g <- rec j; Ok (Some g) end = do g <- rec j; Ok (Some g).
Proof. destruct j; intros H; try reflexivity. contradiction H; reflexivity. Qed.

Definition rtc (f : form) : Prop :=
  forall verbose toplevel,
    form_fromjson (form_tojson_part verbose toplevel f) = if form_parses f then Ok (form_canon f) else Err EValue.

Lemma rtc_list (verbose : bool) (cs : list form) :
  Forall rtc cs ->
  mapM_id (map form_fromjson (map (form_tojson_part verbose false) cs)) =
  if forallb (fun b : bool => b) (map form_parses cs) then Ok (map form_canon cs) else Err EValue.
Proof.
  induction 1 as [|c cs Hc Hcs IH]; [reflexivity|].
  simpl. rewrite (Hc verbose false). destruct (form_parses c); simpl; [|reflexivity].
  rewrite IH. destruct (forallb _ _); reflexivity.
Qed.

Lemma rtc_fields (verbose : bool) (cs : list form) : forall ks,
  Forall rtc cs ->
  let fs := (fix go (cs : list form) (ks : list bytes) {struct cs} : list (bytes * json) :=
               match cs, ks with
               | c :: cs', k :: ks' => (cstr k, form_tojson_part verbose false c) :: go cs' ks'
               | _, _ => []
               end) cs ks in
  mapM_id (map (fun kv : bytes * json => form_fromjson (snd kv)) fs) =
    (if forallb (fun b : bool => b) (firstn (length ks) (map form_parses cs))
     then Ok (firstn (length ks) (map form_canon cs)) else Err EValue) /\
  map (fun kv : bytes * json => cstr (fst kv)) fs = map cstr (firstn (length cs) ks).
Proof.
  intros ks H. revert ks. induction H as [|c cs Hc Hcs IH]; intros [|k ks]; simpl; try (split; reflexivity).
  destruct (IH ks) as [E1 E2]. rewrite (Hc verbose false). split.
  - destruct (form_parses c); simpl; [|reflexivity]. rewrite E1. destruct (forallb _ _); reflexivity.
  - rewrite E2. f_equal. clear. induction k as [|x k IHk]; simpl; [reflexivity|].
    destruct (x =? 0) eqn:E; simpl; [reflexivity|]. rewrite E, IHk. reflexivity.
Qed.

Ltac contentc IH :=
  rewrite jfind_map_spec; jf; cbn [option_map req]; rewrite IH;
  match goal with |- context [form_parses ?c] => destruct (form_parses c) end; cbn [bind andb]; try reflexivity.

Theorem form_roundtrip_char_all f : rtc f.
Proof.
  induction f as [m inner itemsize format dt|m|m o c IH|m s e c IH|m c size IH|m i c IH|m i c IH|m k c vw IH
                 |m k c vw lsb IH|m c IH|m t i cs IH|m ks cs IH|m hl|m g hl IH] using form_ind';
    intros verbose toplevel.
  - (* NumpyForm *)
    cbn [form_tojson_part form_parses form_canon].
    destruct (verbose || toplevel || negb match inner with [] => true | _ => false end || negb (is_plain_meta m)) eqn:Eobj.
    + cbn [form_fromjson]. unfold fromjson_obj.
      destruct (verbose || negb match inner with [] => true | _ => false end) eqn:Eshape; cbn [app]; jf.
      * metac. dispatch. jf.
        destruct (fdtype_eqb dt FNotPrimitive) eqn:Hd.
        { destruct dt as [[]| | | | | | | |]; try discriminate Hd. reflexivity. }
        rewrite (from_primitive_name_ok dt Hd). cbn [bind negb andb].
        rewrite (mapM_ints_any inner). destruct (forallb is_int32 inner); [|reflexivity]. cbn [bind].
        rewrite (format_to_dtype_canonical dt Hd). reflexivity.
      * metac. dispatch. jf.
        destruct (fdtype_eqb dt FNotPrimitive) eqn:Hd.
        { destruct dt as [[]| | | | | | | |]; try discriminate Hd. reflexivity. }
        rewrite (from_primitive_name_ok dt Hd). cbn [bind negb andb].
        other. cbn [bind]. rewrite (format_to_dtype_canonical dt Hd).
        destruct inner; [reflexivity|]. destruct verbose; discriminate Eshape.
    + cbn [form_fromjson].
      destruct verbose; [discriminate|]. destruct toplevel; [discriminate|].
      destruct inner; [|discriminate]. destruct m as [hid ps key]. unfold is_plain_meta in Eobj. simpl in Eobj.
      destruct hid; [discriminate|]. destruct ps; [|discriminate]. destruct key; [discriminate|].
      destruct (fdtype_eqb dt FNotPrimitive) eqn:Hd.
      { destruct dt as [[]| | | | | | | |]; try discriminate Hd. reflexivity. }
      rewrite (from_primitive_name_ok dt Hd). reflexivity.
  - (* EmptyForm *)
    cbn [form_tojson_part form_fromjson form_parses form_canon]. unfold fromjson_obj. jf. metac. dispatch. reflexivity.
  - (* ListOffsetForm *)
    cbn [form_tojson_part form_fromjson form_parses form_canon]. unfold fromjson_obj. cbn [app]. jf. metac.
    destruct o; dispatch; cbn [width3 andb]; try reflexivity; (iform; contentc IH).
  - (* ListForm *)
    cbn [form_tojson_part form_fromjson form_parses form_canon]. unfold fromjson_obj. cbn [app]. jf. metac.
    destruct s; dispatch; cbn [width3 andb]; try reflexivity;
      (destruct e; iform; cbn [andb]; try reflexivity; contentc IH).
  - (* RegularForm *)
    cbn [form_tojson_part form_fromjson form_parses form_canon]. unfold fromjson_obj. cbn [app]. jf. metac. dispatch.
    contentc IH.
  - (* IndexedForm *)
    cbn [form_tojson_part form_fromjson form_parses form_canon]. unfold fromjson_obj. cbn [app]. jf. metac.
    destruct i; dispatch; cbn [width3 andb]; try reflexivity; (iform; contentc IH).
  - (* IndexedOptionForm *)
    cbn [form_tojson_part form_fromjson form_parses form_canon]. unfold fromjson_obj. cbn [app]. jf. metac.
    destruct i; dispatch; cbn [andb]; try reflexivity; (iform; contentc IH).
  - (* ByteMaskedForm *)
    cbn [form_tojson_part form_fromjson form_parses form_canon]. unfold fromjson_obj. cbn [app]. jf. metac. dispatch.
    iform. contentc IH.
  - (* BitMaskedForm *)
    cbn [form_tojson_part form_fromjson form_parses form_canon]. unfold fromjson_obj. cbn [app]. jf. metac. dispatch.
    iform. contentc IH.
  - (* UnmaskedForm *)
    cbn [form_tojson_part form_fromjson form_parses form_canon]. unfold fromjson_obj. cbn [app]. jf. metac. dispatch.
    contentc IH.
  - (* UnionForm *)
    cbn [form_tojson_part form_fromjson form_parses form_canon]. unfold fromjson_obj. cbn [app]. jf. metac.
    destruct i; dispatch; cbn [width3 andb]; try reflexivity;
      (destruct t; iform; cbn [andb]; try reflexivity;
       rewrite jfind_map_spec; jf; cbn [option_map req];
       rewrite (rtc_list verbose cs IH); destruct (forallb _ _); reflexivity).
  - (* RecordForm *)
    destruct ks as [ks|].
    + cbn [form_tojson_part form_fromjson form_parses form_canon]. unfold fromjson_obj. cbn [app]. jf. metac. dispatch.
      rewrite jfind_map_spec; jf; cbn [option_map req].
      destruct (rtc_fields verbose cs ks IH) as [E1 E2]. rewrite E1.
      destruct (forallb _ _); cbn [bind]; [|reflexivity]. rewrite E2. reflexivity.
    + cbn [form_tojson_part form_fromjson form_parses form_canon]. unfold fromjson_obj. cbn [app]. jf. metac. dispatch.
      rewrite jfind_map_spec; jf; cbn [option_map req]. rewrite (rtc_list verbose cs IH).
      destruct (forallb _ _); reflexivity.
  - (* VirtualForm without a form *)
    cbn [form_tojson_part form_fromjson form_parses form_canon]. unfold fromjson_obj. cbn [app]. jf. metac. dispatch.
    rewrite jfind_map_spec; jf; cbn [option_map req bind]. unfold get_bool. jf. reflexivity.
  - (* VirtualForm with a form *)
    cbn [form_tojson_part form_fromjson form_parses form_canon]. unfold fromjson_obj. cbn [app]. jf. metac. dispatch.
    rewrite jfind_map_spec; jf; cbn [option_map req].
    rewrite (virt_step form_fromjson _ (tojson_part_not_null verbose false g)), (IH verbose false).
    destruct (form_parses g); cbn [bind]; [|reflexivity]. unfold get_bool. jf. reflexivity.
Qed.

(** THE CHARACTERISATION: no hypothesis on the form. *)
Theorem form_roundtrip_char : forall f verbose,
  form_fromjson (form_tojson verbose f) = if form_parses f then Ok (form_canon f) else Err EValue.
Proof. intros f verbose. exact (form_roundtrip_char_all f verbose true). Qed.

(* ---------------------------------------------------------------- corollaries: the fragment form_wf inside the characterisation *)
Lemma wf_parses_canon f : form_wf f = true -> form_parses f = true /\ form_canon f = f.
Proof.
  intros H. pose proof (form_json_roundtrip_thm f false H) as R. rewrite form_roundtrip_char in R.
  destruct (form_parses f); [|discriminate R]. split; [reflexivity|]. congruence.
Qed.

(** 1. two well-formed forms with the same JSON (whatever the verbosity of each) are equal *)
Theorem form_json_injective_thm : forall f g v w,
  form_wf f = true -> form_wf g = true -> form_tojson v f = form_tojson w g -> f = g.
Proof.
  intros f g v w Hf Hg E.
  pose proof (form_json_roundtrip_thm f v Hf) as Rf. pose proof (form_json_roundtrip_thm g w Hg) as Rg.
  rewrite E in Rf. congruence.
Qed.

(** 4. verbose and compact JSON read back identically: for EVERY form (both fail, or both give the same form) *)
Theorem form_json_verbose_compact_thm : forall f,
  form_fromjson (form_tojson true f) = form_fromjson (form_tojson false f).
Proof. intros f. rewrite !form_roundtrip_char. reflexivity. Qed.

(* ---------------------------------------------------------------- what comes back is well-formed *)
Lemma bytes_ltb_total a : forall b, bytes_ltb a b = false -> bytes_ltb b a = false -> a = b.
Proof.
  induction a as [|x a IH]; intros [|y b] H1 H2; simpl in *; try discriminate; [reflexivity|].
  destruct (x <? y) eqn:Exy; [discriminate|]. destruct (y <? x) eqn:Eyx; [discriminate|].
  apply Z.ltb_ge in Exy, Eyx. assert (x = y) by lia. subst. f_equal. apply IH; assumption.
Qed.

Section PSetSorted.
  Context {V : Type}.
  Lemma psorted_head_irrel k (v v' : V) r : psorted ((k, v) :: r) = psorted ((k, v') :: r).
  Proof. reflexivity. Qed.

  Lemma psorted_pset_below (m : list (bytes * V)) : forall k0 v0 k v,
    psorted ((k0, v0) :: m) = true -> bytes_ltb k0 k = true -> psorted ((k0, v0) :: pset k v m) = true.
  Proof.
    induction m as [|[k1 v1] r IH]; intros k0 v0 k v H Hlt.
    - simpl. rewrite Hlt. reflexivity.
    - change (psorted ((k0, v0) :: (k1, v1) :: r)) with (bytes_ltb k0 k1 && psorted ((k1, v1) :: r)) in H.
      apply andb_true_iff in H as [H1 H2]. cbn [pset].
      destruct (bytes_ltb k k1) eqn:E1.
      + change (bytes_ltb k0 k && (bytes_ltb k k1 && psorted ((k1, v1) :: r)) = true). rewrite Hlt, E1, H2. reflexivity.
      + destruct (bytes_ltb k1 k) eqn:E2.
        * change (bytes_ltb k0 k1 && psorted ((k1, v1) :: pset k v r) = true). rewrite H1. apply IH; assumption.
        * pose proof (bytes_ltb_total _ _ E1 E2). subst k1.
          change (bytes_ltb k0 k && psorted ((k, v) :: r) = true). rewrite Hlt, (psorted_head_irrel k v v1). exact H2.
  Qed.

  Lemma psorted_pset (m : list (bytes * V)) k v : psorted m = true -> psorted (pset k v m) = true.
  Proof.
    destruct m as [|[k1 v1] r]; intros H; [reflexivity|]. cbn [pset].
    destruct (bytes_ltb k k1) eqn:E1.
    - change (bytes_ltb k k1 && psorted ((k1, v1) :: r) = true). rewrite E1. exact H.
    - destruct (bytes_ltb k1 k) eqn:E2.
      + apply psorted_pset_below; assumption.
      + pose proof (bytes_ltb_total _ _ E1 E2). subst k1. rewrite (psorted_head_irrel k v v1). exact H.
  Qed.

  Lemma nonul_keys_pset (m : list (bytes * V)) k v :
    nonul k = true -> forallb (fun kv => nonul (fst kv)) m = true -> forallb (fun kv => nonul (fst kv)) (pset k v m) = true.
  Proof.
    intros Hk. induction m as [|[k1 v1] r IH]; intros H; simpl in *; [rewrite Hk; reflexivity|].
    apply andb_true_iff in H as [H1 H2].
    destruct (bytes_ltb k k1); simpl; [rewrite Hk, H1, H2; reflexivity|].
    destruct (bytes_ltb k1 k); simpl; [rewrite H1; exact (IH H2)|rewrite Hk, H2; reflexivity].
  Qed.
End PSetSorted.

Lemma nonul_cstr s : nonul (cstr s) = true.
Proof. induction s as [|c s IH]; simpl; [reflexivity|]. destruct (c =? 0) eqn:E; simpl; [reflexivity|]. rewrite E. exact IH. Qed.

Lemma pcanon_wf ps : psorted (pcanon ps) = true /\ forallb (fun kv => nonul (fst kv)) (pcanon ps) = true.
Proof.
  unfold pcanon. generalize (map (fun kv : bytes * json => (cstr (fst kv), snd kv)) ps). intros l.
  assert (G : forall acc : params, psorted acc = true -> forallb (fun kv => nonul (fst kv)) acc = true ->
            psorted (fold_left (fun acc kv => pset (cstr (fst kv)) (snd kv) acc) l acc) = true /\
            forallb (fun kv => nonul (fst kv)) (fold_left (fun acc kv => pset (cstr (fst kv)) (snd kv) acc) l acc) = true).
  { induction l as [|[k v] l IH]; intros acc H1 H2; simpl; [split; assumption|].
    apply IH; [apply psorted_pset; exact H1|apply nonul_keys_pset; [apply nonul_cstr|exact H2]]. }
  apply G; reflexivity.
Qed.

Lemma meta_canon_wf m : meta_wf (meta_canon m) = true.
Proof.
  unfold meta_wf, meta_canon. cbn [m_params m_key]. destruct (pcanon_wf (m_params m)) as [H1 H2]. rewrite H1, H2.
  destruct (m_key m); [apply nonul_cstr|reflexivity].
Qed.

Lemma canon_wf_list cs :
  Forall (fun f => form_parses f = true -> form_wf (form_canon f) = true) cs -> forall n,
  forallb (fun b : bool => b) (firstn n (map form_parses cs)) = true ->
  forallb form_wf (firstn n (map form_canon cs)) = true.
Proof.
  induction 1 as [|c cs Hc Hcs IH]; intros [|n] H; simpl in *; try reflexivity.
  apply andb_true_iff in H as [H1 H2]. rewrite (Hc H1). exact (IH n H2).
Qed.

Lemma firstn_all_map {A B} (f : A -> B) (l : list A) : firstn (length l) (map f l) = map f l.
Proof. rewrite <- (map_length f l). apply firstn_all. Qed.

Lemma nonul_map_cstr ks : forallb nonul (map cstr ks) = true.
Proof. induction ks as [|k ks IH]; simpl; [reflexivity|]. rewrite nonul_cstr. exact IH. Qed.

Theorem form_canon_wf f : form_parses f = true -> form_wf (form_canon f) = true.
Proof.
  induction f as [m inner itemsize format dt|m|m o c IH|m s e c IH|m c size IH|m i c IH|m i c IH|m k c vw IH
                 |m k c vw lsb IH|m c IH|m t i cs IH|m ks cs IH|m hl|m g hl IH] using form_ind';
    cbn [form_parses form_canon form_wf]; intros H; rewrite ?meta_canon_wf; cbn [andb];
    repeat match type of H with _ && _ = true => let H' := fresh "H" in apply andb_true_iff in H as [H H'] end;
    try solve [ reflexivity
              | repeat match goal with Hx : _ = true |- _ => rewrite Hx; clear Hx end; cbn [andb]; auto ].
  - rewrite H, H0, Z.eqb_refl, bytes_eqb_refl. reflexivity.
  - rewrite H, H1. cbn [andb]. rewrite <- (firstn_all_map form_canon cs). apply canon_wf_list; [exact IH|].
    rewrite firstn_all_map. exact H0.
  - destruct ks as [ks|].
    + cbn [form_parses] in H. cbn [form_canon form_wf]. rewrite meta_canon_wf. cbn [andb].
      rewrite (canon_wf_list cs IH _ H). cbn [andb]. rewrite nonul_map_cstr, andb_true_r.
      apply Nat.eqb_eq. rewrite map_length, !firstn_length, map_length. apply Nat.min_comm.
    + cbn [form_parses] in H. cbn [form_canon form_wf]. rewrite meta_canon_wf. cbn [andb]. rewrite andb_true_r.
      rewrite <- (firstn_all_map form_canon cs). apply canon_wf_list; [exact IH|]. rewrite firstn_all_map. exact H.
Qed.

(** 3. EXACTNESS of the fragment: a form that survives the round trip (either verbosity) is well-formed *)
Theorem form_roundtrip_exact_thm : forall f v, form_fromjson (form_tojson v f) = Ok f -> form_wf f = true.
Proof.
  intros f v R. rewrite form_roundtrip_char in R. destruct (form_parses f) eqn:P; [|discriminate R].
  assert (E : form_canon f = f) by congruence. rewrite <- E. exact (form_canon_wf f P).
Qed.

Theorem form_roundtrip_iff_thm : forall f v, form_fromjson (form_tojson v f) = Ok f <-> form_wf f = true.
Proof. intros f v. split; [apply form_roundtrip_exact_thm|apply form_json_roundtrip_thm]. Qed.

(** 5. whatever comes back is well-formed, hence a fixed point of the round trip (idempotence outside the fragment) *)
Theorem form_roundtrip_idempotent_thm : forall f f' v,
  form_fromjson (form_tojson v f) = Ok f' ->
  form_wf f' = true /\ forall w, form_fromjson (form_tojson w f') = Ok f'.
Proof.
  intros f f' v R. rewrite form_roundtrip_char in R. destruct (form_parses f) eqn:P; [|discriminate R].
  assert (E : form_canon f = f') by congruence. subst f'.
  split; [exact (form_canon_wf f P)|]. intros w. apply form_json_roundtrip_thm. exact (form_canon_wf f P).
Qed.

Corollary form_canon_idem f : form_parses f = true -> form_canon (form_canon f) = form_canon f.
Proof. intros P. exact (proj2 (wf_parses_canon _ (form_canon_wf f P))). Qed.
