(** C14 (Form-driven half): the property theorems about the specification of a Form-driven LayoutBuilder session
    ([LBuilder.lb_run]); proofs in LBProofs.v.  Only restatements + Print Assumptions here. *)
From Coq Require Import ZArith List Bool.
From AwkV Require Import Base Layout Types Typing.
From AwkBuilder Require Import LBuilder LBProofs.
Import ListNotations.
Open Scope Z_scope.

Theorem lb_roundtrip : forall f vs, conforms f vs -> lb_run f (lb_encode f vs) = LOk vs.
Proof. exact LBProofs.lb_roundtrip. Qed.
Print Assumptions lb_roundtrip.

Theorem lb_type : forall f cmds vs,
  lb_run f cmds = LOk vs \/ lb_run f cmds = LPartial vs -> Forall (has_type (form_ty f)) vs.
Proof. exact LBProofs.lb_type. Qed.
Print Assumptions lb_type.

Theorem lb_misfit_errors : forall f vs c rest, conforms f vs -> first_ok f c = false ->
  (exists e, lb_run f (lb_encode f vs ++ c :: rest) = LErr e) \/ lb_run f (lb_encode f vs ++ c :: rest) = LUnspec.
Proof. exact LBProofs.lb_misfit_errors. Qed.
Print Assumptions lb_misfit_errors.

Theorem lb_prefix_snapshot : forall f vs1 vs2, conforms f (vs1 ++ vs2) ->
  lb_encode f (vs1 ++ vs2) = lb_encode f vs1 ++ lb_encode f vs2 /\
  lb_run f (lb_encode f vs1) = LOk vs1.
Proof. exact LBProofs.lb_prefix_snapshot. Qed.
Print Assumptions lb_prefix_snapshot.
