(** C06, strings: [sort_leaves] sorts a list of STRINGS (or bytestrings) as units,
    lexicographically on their bytes, stably, missing values last in both directions;
    argsort returns the positions realising that order.  Mirrors Proofs_C06.v
    ([nums]/[numeric]/[sorted_pairs]) for [VStr]/[KStr]. *)
From Coq Require Import ZArith List Bool Lia ZifyBool Permutation Sorting.Sorted.
From AwkV Require Import Base Layout Ops_Sort Proofs_Sort Proofs_C06.
Import ListNotations.
Open Scope Z_scope.

(** * 1. The byte comparator is the strict lexicographic (total) order on [list Z] *)

Lemma bytes_lt_irrefl : forall a, bytes_lt a a = false.
Proof.
  induction a as [|x xs IH]; cbn [bytes_lt]; [reflexivity|].
  rewrite Z.ltb_irrefl. exact IH.
Qed.

Lemma bytes_lt_trans : forall a b c,
  bytes_lt a b = true -> bytes_lt b c = true -> bytes_lt a c = true.
Proof.
  induction a as [|x xs IH]; intros [|y ys] [|z zs]; cbn [bytes_lt]; intros Hab Hbc;
    try discriminate; try reflexivity.
  destruct (x <? y) eqn:Exy; destruct (y <? x) eqn:Eyx; try discriminate;
  destruct (y <? z) eqn:Eyz; destruct (z <? y) eqn:Ezy; try discriminate;
  destruct (x <? z) eqn:Exz; try reflexivity;
  destruct (z <? x) eqn:Ezx; try lia.
  apply (IH ys zs); assumption.
Qed.

(* trichotomy: two byte lists neither of which is before the other are equal *)
Lemma bytes_lt_total : forall a b, bytes_lt a b = false -> bytes_lt b a = false -> a = b.
Proof.
  induction a as [|x xs IH]; intros [|y ys]; cbn [bytes_lt]; intros Hab Hba;
    try discriminate; try reflexivity.
  destruct (x <? y) eqn:Exy; try discriminate.
  destruct (y <? x) eqn:Eyx; try discriminate.
  assert (x = y) by lia. subst y.
  f_equal. apply IH; assumption.
Qed.

Lemma bytes_lt_asym : forall a b, bytes_lt a b = true -> bytes_lt b a = false.
Proof.
  intros a b Hab. destruct (bytes_lt b a) eqn:Hba; [|reflexivity].
  pose proof (bytes_lt_trans _ _ _ Hab Hba) as C. rewrite bytes_lt_irrefl in C. discriminate.
Qed.

(* it IS the lexicographic order: first differing byte smaller, or proper prefix *)
Lemma bytes_lt_lex : forall a b,
  bytes_lt a b = true <->
  (exists p x y r s, a = p ++ x :: r /\ b = p ++ y :: s /\ x < y) \/
  (exists r y, b = a ++ y :: r).
Proof.
  intros a b. split.
  - revert b. induction a as [|x xs IH]; intros [|y ys]; cbn [bytes_lt]; intros H; try discriminate.
    + right. exists ys, y. reflexivity.
    + destruct (x <? y) eqn:Exy.
      * left. exists [], x, y, xs, ys. cbn [app]. repeat split. lia.
      * destruct (y <? x) eqn:Eyx; [discriminate|].
        assert (x = y) by lia. subst y.
        destruct (IH ys H) as [(p & u & v & r & s & Ha & Hb & Huv) | (r & v & Hb)].
        -- left. exists (x :: p), u, v, r, s. cbn [app]. subst xs ys. repeat split. exact Huv.
        -- right. exists r, v. cbn [app]. subst ys. reflexivity.
  - intros [(p & x & y & r & s & Ha & Hb & Hxy) | (r & y & Hb)]; subst.
    + induction p as [|u p IH]; cbn [app bytes_lt].
      * assert (E : (x <? y) = true) by lia. rewrite E. reflexivity.
      * rewrite Z.ltb_irrefl. exact IH.
    + induction a as [|u a IH]; cbn [app bytes_lt]; [reflexivity|].
      rewrite Z.ltb_irrefl. exact IH.
Qed.

(** The comparator [sort_leaves] applies to two string keys.  The string/bytestring
    flags of the keys play no role. *)
Definition str_before (asc : bool) (a b : list Z) : bool :=
  key_before asc (KStr true a) (KStr true b).

Lemma str_before_flags : forall asc i j a b,
  key_before asc (KStr i a) (KStr j b) = str_before asc a b.
Proof. intros [|] i j a b; reflexivity. Qed.

Lemma str_before_eq : forall asc a b,
  str_before asc a b = if asc then bytes_lt a b else bytes_lt b a.
Proof. intros [|] a b; reflexivity. Qed.

Lemma str_before_asc : forall a b, str_before true a b = bytes_lt a b.
Proof. reflexivity. Qed.
Lemma str_before_desc : forall a b, str_before false a b = bytes_lt b a.
Proof. reflexivity. Qed.

Lemma str_before_irrefl : forall asc a, str_before asc a a = false.
Proof. intros asc a. rewrite str_before_eq. destruct asc; apply bytes_lt_irrefl. Qed.

Lemma str_before_trans : forall asc a b c,
  str_before asc a b = true -> str_before asc b c = true -> str_before asc a c = true.
Proof.
  intros asc a b c. rewrite !str_before_eq. destruct asc; intros Hab Hbc.
  - exact (bytes_lt_trans _ _ _ Hab Hbc).
  - exact (bytes_lt_trans _ _ _ Hbc Hab).
Qed.

Lemma str_before_total : forall asc a b,
  str_before asc a b = false -> str_before asc b a = false -> a = b.
Proof.
  intros asc a b. rewrite !str_before_eq. destruct asc; intros Hab Hba.
  - apply bytes_lt_total; assumption.
  - apply bytes_lt_total; assumption.
Qed.

Lemma str_before_incomp : forall asc x y z,
  str_before asc x y = false -> str_before asc y x = false ->
  str_before asc y z = false -> str_before asc z y = false ->
  str_before asc x z = false /\ str_before asc z x = false.
Proof.
  intros asc x y z H1 H2 H3 H4.
  rewrite (str_before_total _ _ _ H1 H2), (str_before_total _ _ _ H3 H4).
  split; apply str_before_irrefl.
Qed.

(** * 2. What [sort_leaves] returns on a list of strings with missing values *)

(* the string entries (position, (flag, bytes)), in order *)
Fixpoint strs (l : list (Z * value)) : list (Z * (bool * list Z)) :=
  match l with
  | [] => []
  | (j, VStr i s) :: r => (j, (i, s)) :: strs r
  | _ :: r => strs r
  end.

Definition stringy (l : list (Z * value)) : Prop :=
  Forall (fun jv : Z * value => snd jv = VNone \/ exists i s, snd jv = VStr i s) l.

Definition strent_before (asc : bool) (a b : Z * (bool * list Z)) : bool :=
  str_before asc (snd (snd a)) (snd (snd b)).

Definition sorted_strs (asc : bool) (l : list (Z * value)) : list (Z * (bool * list Z)) :=
  sort_by (fun a b : Z * (bool * list Z) => str_before asc (snd (snd a)) (snd (snd b))) (strs l).

Lemma sorted_strs_eq asc l : sorted_strs asc l = sort_by (strent_before asc) (strs l).
Proof. reflexivity. Qed.

Lemma insert_by_ext {A} (b1 b2 : A -> A -> bool) :
  (forall x y, b1 x y = b2 x y) -> forall x l, insert_by b1 x l = insert_by b2 x l.
Proof.
  intros Hb x l. induction l as [|y ys IH]; cbn [insert_by]; [reflexivity|].
  rewrite Hb, IH. reflexivity.
Qed.

Lemma sort_by_ext {A} (b1 b2 : A -> A -> bool) :
  (forall x y, b1 x y = b2 x y) -> forall l, sort_by b1 l = sort_by b2 l.
Proof.
  intros Hb l. unfold sort_by. generalize (@nil A) as acc.
  induction l as [|x xs IH]; intros acc; cbn [fold_left]; [reflexivity|].
  rewrite (insert_by_ext b1 b2 Hb). apply IH.
Qed.

Lemma keyed_stringy l :
  stringy l ->
  mapM (fun jv : Z * value => do k <- key_of_value (snd jv); Ok (fst jv, k))
       (filter (fun jv : Z * value => match snd jv with VNone => false | _ => true end) l)
  = Ok (map (fun e : Z * (bool * list Z) => (fst e, KStr (fst (snd e)) (snd (snd e)))) (strs l)).
Proof.
  induction 1 as [|[j v] r Hv Hr IH]; cbn; auto.
  cbn [snd] in Hv. destruct Hv as [-> | (i & s & ->)]; cbn.
  - exact IH.
  - cbn in IH. rewrite IH. reflexivity.
Qed.

Lemma nones_stringy l :
  stringy l ->
  map fst (filter (fun jv : Z * value => match snd jv with VNone => true | _ => false end) l) = none_pos l.
Proof.
  induction 1 as [|[j v] r Hv Hr IH]; cbn; auto.
  cbn [snd] in Hv. destruct Hv as [-> | (i & s & ->)]; cbn; congruence.
Qed.

Theorem sort_leaves_strings : forall asc argsort l,
  stringy l ->
  sort_leaves asc argsort l =
  Ok (if argsort
      then map (fun e : Z * (bool * list Z) => VNum (DZ (fst e))) (sorted_strs asc l)
           ++ map (fun j => VNum (DZ j)) (none_pos l)
      else map (fun e : Z * (bool * list Z) => VStr (fst (snd e)) (snd (snd e))) (sorted_strs asc l)
           ++ map (fun _ => VNone) (none_pos l)).
Proof.
  intros asc argsort l Hs. unfold sort_leaves. rewrite (keyed_stringy l Hs). cbn [bind].
  rewrite (sort_by_map (fun e : Z * (bool * list Z) => (fst e, KStr (fst (snd e)) (snd (snd e))))).
  rewrite (sort_by_ext _ (fun a b : Z * (bool * list Z) => str_before asc (snd (snd a)) (snd (snd b))))
    by (intros x y; cbn [fst snd]; apply str_before_flags).
  fold (sorted_strs asc l).
  rewrite <- (nones_stringy l Hs).
  destruct argsort; rewrite !map_map; cbn [fst snd value_of_key]; reflexivity.
Qed.

(** * 3. The strings are sorted as units: permutation, order, stability *)

Theorem strings_sorted_perm : forall asc l, Permutation (sorted_strs asc l) (strs l).
Proof. intros asc l. apply sort_by_perm. Qed.

Theorem strings_sorted_sorted : forall asc l,
  StronglySorted (fun a b : Z * (bool * list Z) => str_before asc (snd (snd b)) (snd (snd a)) = false)
                 (sorted_strs asc l).
Proof.
  intros asc l.
  apply (sort_by_sorted (Z * (bool * list Z)) (strent_before asc)).
  - intros x. apply str_before_irrefl.
  - intros x y z. apply str_before_trans.
  - intros x y z. apply str_before_incomp.
Qed.

Theorem strings_sorted_stable : forall asc a l,
  filter (equivb (Z * (bool * list Z)) (strent_before asc) a) (sorted_strs asc l) =
  filter (equivb (Z * (bool * list Z)) (strent_before asc) a) (strs l).
Proof.
  intros asc a l.
  apply (sort_by_stable (Z * (bool * list Z)) (strent_before asc)).
  - intros x. apply str_before_irrefl.
  - intros x y z. apply str_before_trans.
  - intros x y z. apply str_before_incomp.
Qed.

Theorem strings_sort_as_units : forall asc l,
  Permutation (sorted_strs asc l) (strs l) /\
  StronglySorted (fun a b : Z * (bool * list Z) => str_before asc (snd (snd b)) (snd (snd a)) = false)
                 (sorted_strs asc l) /\
  (forall a, filter (equivb (Z * (bool * list Z)) (strent_before asc) a) (sorted_strs asc l) =
             filter (equivb (Z * (bool * list Z)) (strent_before asc) a) (strs l)).
Proof.
  intros asc l. split; [apply strings_sorted_perm|]. split; [apply strings_sorted_sorted|].
  intros a. apply strings_sorted_stable.
Qed.

(* the equivalence classes of the stability statement are exactly "same bytes"
   (whatever the position and the string/bytestring flag) *)
Lemma strent_equiv_iff : forall asc a x,
  equivb (Z * (bool * list Z)) (strent_before asc) a x = true <-> snd (snd a) = snd (snd x).
Proof.
  intros asc a x. unfold equivb, strent_before. rewrite andb_true_iff, !negb_true_iff. split.
  - intros [H1 H2]. apply (str_before_total asc); assumption.
  - intros ->. split; apply str_before_irrefl.
Qed.

(* any later element of a strongly sorted list is related to any earlier one *)
Lemma sorted_later {A} (R : A -> A -> Prop) l1 x l2 :
  StronglySorted R (l1 ++ x :: l2) -> Forall (R x) l2.
Proof.
  induction l1 as [|y ys IH]; cbn [app]; intros H.
  - inversion H as [|? ? Hs Hall]; subst. exact Hall.
  - inversion H as [|? ? Hs Hall]; subst. apply IH. exact Hs.
Qed.

Lemma strings_sorted_later : forall asc l pre a mid b post,
  sorted_strs asc l = pre ++ a :: mid ++ b :: post ->
  str_before asc (snd (snd b)) (snd (snd a)) = false.
Proof.
  intros asc l pre a mid b post E.
  pose proof (strings_sorted_sorted asc l) as Hs. rewrite E in Hs.
  apply sorted_later in Hs. rewrite Forall_forall in Hs.
  apply (Hs b). apply in_or_app. right. left. reflexivity.
Qed.

(* ascending: non-decreasing lexicographically (a later string is never before an earlier one) *)
Corollary strings_ascending : forall l pre a mid b post,
  sorted_strs true l = pre ++ a :: mid ++ b :: post ->
  bytes_lt (snd (snd b)) (snd (snd a)) = false.
Proof. intros l pre a mid b post E. exact (strings_sorted_later true l pre a mid b post E). Qed.

(* descending: non-increasing lexicographically *)
Corollary strings_descending : forall l pre a mid b post,
  sorted_strs false l = pre ++ a :: mid ++ b :: post ->
  bytes_lt (snd (snd a)) (snd (snd b)) = false.
Proof. intros l pre a mid b post E. exact (strings_sorted_later false l pre a mid b post E). Qed.

(* a string that is a proper prefix of another one comes first (ascending) / last (descending) *)
Corollary prefix_before_extension : forall a y r, bytes_lt a (a ++ y :: r) = true.
Proof. intros a y r. apply bytes_lt_lex. right. exists r, y. reflexivity. Qed.

(* the comparator on strings is a strict weak (indeed total) order, in both directions *)
Theorem str_cmp_strict_weak_order : forall asc,
  (forall a, str_before asc a a = false) /\
  (forall a b c, str_before asc a b = true -> str_before asc b c = true -> str_before asc a c = true) /\
  (forall x y z, str_before asc x y = false -> str_before asc y x = false ->
                 str_before asc y z = false -> str_before asc z y = false ->
                 str_before asc x z = false /\ str_before asc z x = false) /\
  (forall a b, str_before asc a b = false -> str_before asc b a = false -> a = b).
Proof.
  intros asc. split; [apply str_before_irrefl|]. split; [apply str_before_trans|].
  split; [apply str_before_incomp | apply str_before_total].
Qed.

(** * 4. Examples: ["b"; None; "ab"; ""; "abc"; "a"] *)
Definition str_sample : list (Z * value) :=
  [(0, VStr true [98]); (1, VNone); (2, VStr true [97; 98]); (3, VStr true []);
   (4, VStr true [97; 98; 99]); (5, VStr true [97])].

Example str_sample_stringy : stringy str_sample.
Proof.
  unfold str_sample, stringy.
  repeat (constructor; [cbn [snd]; first [left; reflexivity | right; eexists; eexists; reflexivity]|]).
  constructor.
Qed.

(* ascending: "", "a", "ab", "abc", "b", None  (prefix before extension, missing last) *)
Example sort_strings_asc :
  sort_leaves true false str_sample
  = Ok [VStr true []; VStr true [97]; VStr true [97; 98]; VStr true [97; 98; 99]; VStr true [98]; VNone].
Proof. vm_compute. reflexivity. Qed.

(* descending: "b", "abc", "ab", "a", "", None  (missing still last) *)
Example sort_strings_desc :
  sort_leaves false false str_sample
  = Ok [VStr true [98]; VStr true [97; 98; 99]; VStr true [97; 98]; VStr true [97]; VStr true []; VNone].
Proof. vm_compute. reflexivity. Qed.

Example argsort_strings_asc :
  sort_leaves true true str_sample
  = Ok [VNum (DZ 3); VNum (DZ 5); VNum (DZ 2); VNum (DZ 4); VNum (DZ 0); VNum (DZ 1)].
Proof. vm_compute. reflexivity. Qed.

Example argsort_strings_desc :
  sort_leaves false true str_sample
  = Ok [VNum (DZ 0); VNum (DZ 4); VNum (DZ 2); VNum (DZ 5); VNum (DZ 3); VNum (DZ 1)].
Proof. vm_compute. reflexivity. Qed.

(* stability and flags: equal bytes keep their original order, flags travel with the strings *)
Example sort_strings_stable :
  sort_leaves true true [(0, VStr true [98]); (1, VStr false [97]); (2, VStr true [98]); (3, VStr true [97])]
  = Ok [VNum (DZ 1); VNum (DZ 3); VNum (DZ 0); VNum (DZ 2)]
  /\ sort_leaves false false [(0, VStr true [97]); (1, VStr false [98]); (2, VStr false [97])]
  = Ok [VStr false [98]; VStr true [97]; VStr false [97]].
Proof. split; vm_compute; reflexivity. Qed.

(* checked: every one prints "Closed under the global context"
Print Assumptions bytes_lt_lex.
Print Assumptions bytes_lt_total.
Print Assumptions str_cmp_strict_weak_order.
Print Assumptions sort_leaves_strings.
Print Assumptions strings_sort_as_units.
Print Assumptions strent_equiv_iff.
Print Assumptions strings_ascending.
Print Assumptions strings_descending.
Print Assumptions sort_strings_asc.
*)
