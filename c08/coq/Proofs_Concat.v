(** C08: ak.concatenate(axis=0) on operands of one skeleton = mergemany (one batch, no union). *)
From Coq Require Import ZArith List Bool Lia ZifyBool.
From AwkV Require Import Base Layout LayoutInd Valid Types Carry Proofs_C11.
From AwkMerge Require Import Merge Lemmas_C08 Proofs_C08 Proofs_MM.
Import ListNotations.
Open Scope Z_scope.

Lemma list_eqb_refl l : list_eqb Z.eqb l l = true.
Proof. induction l; cbn; [reflexivity|]. rewrite Z.eqb_refl. exact IHl. Qed.

(* with mergebool, two layouts of one skeleton are mergeable *)
Lemma mergeable_sk s : forall a b, has_sk s a = true -> has_sk s b = true -> mg true nopar a b = true.
Proof.
  induction s as [|s' IH|s' IH]; intros a b Ha Hb.
  - destruct (has_sk_SNum _ Ha) as (dt & n & data & ->). destruct (has_sk_SNum _ Hb) as (dt' & n' & data' & ->).
    cbn. reflexivity.
  - destruct a; cbn in Ha; try discriminate; destruct b; cbn in Hb; try discriminate; cbn;
      try (apply andb_true_iff in Ha; destruct Ha as [_ Ha]); try (apply andb_true_iff in Hb; destruct Hb as [_ Hb]);
      apply IH; assumption.
  - destruct a; cbn in Ha; try discriminate; destruct b; cbn in Hb; try discriminate; cbn; apply IH; assumption.
Qed.

Lemma concat_loop_one_batch s : forall l c0 batch,
  batch <> [] -> Forall (fun c => has_sk s c = true) batch -> Forall (fun c => has_sk s c = true) l ->
  concat_loop true c0 batch l = Ok (batch ++ l).
Proof.
  induction l as [|x xs IH]; intros c0 batch Hne Hb Hl; cbn [concat_loop].
  - now rewrite app_nil_r.
  - assert (Hlast : has_sk s (last batch c0) = true).
    { destruct (exists_last Hne) as (b' & y & ->). rewrite last_last. apply Forall_app in Hb. destruct Hb as [_ Hb].
      exact (Forall_inv Hb). }
    unfold mergeable. rewrite (mergeable_sk s _ _ Hlast (Forall_inv Hl)).
    rewrite IH.
    + now rewrite <- app_assoc.
    + destruct batch; discriminate.
    + apply Forall_app. split; [exact Hb|constructor; [exact (Forall_inv Hl)|constructor]].
    + exact (Forall_inv_tail Hl).
Qed.

Lemma has_sk_not_union s c : has_sk s c = true -> is_union c = false.
Proof. destruct s, c; cbn; try discriminate; reflexivity. Qed.

Theorem concat_app_partial_pf : forall s merge_ cs,
  (2 <= length cs)%nat ->
  Forall (fun c => has_sk s c = true) cs -> Forall (fun c => valid_b c = true) cs ->
  exists c, concat_model merge_ true cs = Ok c /\ valid_b c = true /\ has_sk s c = true /\
            to_list c = Ok (concat (map (fun x => map (deep_cast (leaf_dt c)) (vals x)) cs)).
Proof.
  intros s merge_ cs Hlen Hsk Hv.
  destruct (mergemany_app_partial_pf s cs Hlen Hsk Hv) as (c & Hm & _ & Ht).
  destruct (mergemany_valid_partial_pf s cs c Hlen Hsk Hv Hm) as [Hvc Hsc].
  exists c. repeat split; auto.
  destruct cs as [|c0 rest]; [cbn in Hlen; lia|].
  unfold concat_model.
  rewrite (concat_loop_one_batch s rest c0 [c0]); try discriminate.
  - cbn [bind app]. rewrite Hm. cbn [bind]. rewrite (has_sk_not_union _ _ Hsc). reflexivity.
  - constructor; [exact (Forall_inv Hsk)|constructor].
  - exact (Forall_inv_tail Hsk).
Qed.

Lemma fold_promote_numpy l : forall d0, fold_left promote l d0 = fold_left numpy_promote l d0.
Proof. induction l as [|x xs IH]; intros d0; cbn; [reflexivity|]. rewrite promotion_table_is_numpy_pf. apply IH. Qed.

(* the leaf dtype of the merged layout is NumPy's promotion of the operands' leaf dtypes *)
Theorem mergemany_dtype_partial_pf : forall s cs c,
  (2 <= length cs)%nat ->
  Forall (fun c => has_sk s c = true) cs -> Forall (fun c => valid_b c = true) cs ->
  mergemany cs = Ok c ->
  leaf_dt c = fold_left numpy_promote (map leaf_dt cs) (leaf_dt (hd Empty cs)).
Proof.
  intros s cs c Hlen Hsk Hv Hm.
  assert (Htl : Forall tl_ok cs).
  { apply Forall_forall. intros x Hx. eapply valid_tl_ok_sk.
    - eapply Forall_forall in Hsk; eauto.
    - eapply Forall_forall in Hv; eauto. }
  destruct cs as [|a rest]; [cbn in Hlen; lia|].
  destruct (mm_sk s (mm_fuel (a :: rest)) (a :: rest)) as (c' & Hc & _ & _ & _ & Hdt); auto.
  { inversion Hsk; subst. pose proof (need_le_csize _ _ H1). unfold mm_fuel. cbn [fold_right length]. lia. }
  unfold mergemany in Hm. rewrite Hc in Hm. inversion Hm; subst. rewrite Hdt. apply fold_promote_numpy.
Qed.
