(** C06 / sort-argsort refinement, part 2: the layout-level [sort_model] computes the value-level
    [sort_spec] whenever it does not answer "not modelled" ([Err EFuel]), in particular for the innermost
    axis ([axis = -1] and the equal non-negative axis). *)
From Coq Require Import ZArith List Bool Lia ZifyBool Permutation.
From AwkV Require Import Base Layout LayoutInd Valid Types AtAxis Carry Ops_Sort Typing Proofs_Typing Proofs_C11
                         Proofs_Lists Proofs_ToList Proofs_Carry Proofs_AtAxis Proofs_AtAxisOps Proofs_Sort
                         Proofs_SortRef.
Import ListNotations.
Open Scope Z_scope.
Ltac Zify.zify_post_hook ::= Z.to_euclidean_division_equations.

(* ---------------------------------------------------------------- sort_leaves: length, totality *)
Lemma filter_partition_length {A} (f g : A -> bool) l :
  (forall x, g x = negb (f x)) -> (length (filter f l) + length (filter g l) = length l)%nat.
Proof.
  intros H. induction l as [|x l IH]; [reflexivity|]. cbn [filter]. rewrite (H x).
  destruct (f x); cbn [negb length]; lia.
Qed.

Lemma sort_leaves_length asc argsort rows vs : sort_leaves asc argsort rows = Ok vs -> length vs = length rows.
Proof.
  unfold sort_leaves. intros H. apply bind_Ok in H as (keyed & Hk & H).
  pose proof (mapM_length _ _ _ Hk) as Hlen.
  pose proof (Permutation_length (sort_by_perm _ (fun a b : Z * key => key_before asc (snd a) (snd b)) keyed)) as Hp.
  pose proof (filter_partition_length
                (fun jv : Z * value => match snd jv with VNone => false | _ => true end)
                (fun jv : Z * value => match snd jv with VNone => true | _ => false end) rows) as Hf.
  destruct argsort; inversion H; subst; rewrite app_length, !map_length, Hp, Hlen; apply Hf;
    intros [j v]; destruct v; reflexivity.
Qed.

Lemma sort_leaves_total asc argsort rows :
  (forall jv, In jv rows -> snd jv = VNone \/ exists k, key_of_value (snd jv) = Ok k) ->
  exists vs, sort_leaves asc argsort rows = Ok vs.
Proof.
  intros H. unfold sort_leaves.
  destruct (mapM_total (fun jv : Z * value => do k <- key_of_value (snd jv); Ok (fst jv, k))
              (filter (fun jv : Z * value => match snd jv with VNone => false | _ => true end) rows)) as [keyed Hk].
  { intros jv Hin. apply filter_In in Hin as [Hin Hnn]. destruct (H jv Hin) as [E | [k Ek]].
    - rewrite E in Hnn. discriminate.
    - rewrite Ek. cbn [bind]. eauto. }
  rewrite Hk. cbn [bind]. destruct argsort; eauto.
Qed.

(* ---------------------------------------------------------------- sortcols at a leaf type *)
Lemma sortcols_leaf asc argsort t rows :
  is_leaf_ty t = true ->
  sortcols asc argsort t rows = do vs <- sort_leaves asc argsort rows; Ok (zip (map fst rows) vs).
Proof. intros H. destruct t; cbn [sortcols]; rewrite H; reflexivity. Qed.

Lemma sortcols_leaf_snd asc argsort t rows :
  is_leaf_ty t = true ->
  (do out <- sortcols asc argsort t rows; Ok (map snd out)) = sort_leaves asc argsort rows.
Proof.
  intros H. rewrite (sortcols_leaf _ _ _ _ H). destruct (sort_leaves asc argsort rows) as [vs|e] eqn:E; [|reflexivity].
  cbn [bind]. rewrite map_snd_zip; [reflexivity|]. rewrite map_length. symmetry. eapply sort_leaves_length, E.
Qed.

Lemma sort_f_sortcols_f asc argsort t l :
  is_leaf_ty t = true -> sort_f asc argsort t l = sortcols_f asc argsort t l.
Proof.
  intros H. unfold sort_f, sortcols_f.
  pose proof (sortcols_leaf_snd asc argsort t (enumv l) H) as E.
  destruct (sortcols asc argsort t (enumv l)) as [out|e]; cbn [bind] in *; rewrite <- E; reflexivity.
Qed.

(* ---------------------------------------------------------------- the four hypotheses of the at-axis refinement *)
Lemma cut1_map {A B} (f : A -> B) l ab : cut1 (map f l) ab = rmap (map f) (cut1 l ab).
Proof. destruct ab as [a b]. unfold cut1. destruct (a =? b); [reflexivity|apply slice_map]. Qed.

Lemma list_node_content p c cc : Valid p c -> list_content c = Some cc -> is_strk p = false -> Valid None cc.
Proof. intros HV Hc Es. destruct c; try discriminate; cbn [list_content] in Hc; inversion Hc; subst; inversion HV; subst; auto. Qed.
Lemma list_node_param p c cc : Valid p c -> list_content c = Some cc -> ParamOk p c.
Proof. intros HV Hc. destruct c; try discriminate; inversion HV; subst; assumption. Qed.

(* the keys below a list node at the axis *)
Lemma keys_below p c cc vs0 :
  Valid p c -> list_content c = Some cc -> to_list cc = Ok vs0 -> leafish (type_of cc) = true ->
  exists ks, leaf_keys None cc = Ok ks /\ keys_of cc vs0 ks.
Proof.
  intros HV Hc Hl0 Hlf. destruct (is_strk p) eqn:Es.
  - destruct (ParamOk_str p c (list_node_param p c cc HV Hc) Es) as (cc' & k & rn & n & dd & Hcc & -> & Hk).
    rewrite Hc in Hcc. inversion Hcc; subst cc.
    assert (Hnum : to_list (Numpy DUInt8 [n] dd) = Ok vs0).
    { rewrite to_list_Par in Hl0. apply bind_Ok in Hl0 as (x & Hx & Hl0). destruct Hk as [-> | ->]; inversion Hl0; subst; exact Hx. }
    destruct (leaf_keys_numpy (Some k) DUInt8 n dd vs0 Hnum) as (ks & Hks & Hvs & kd & Hh & Hcp).
    exists ks. split; [exact Hks|]. split; [exact Hvs|]. exists kd. rewrite leaf_dtype_Par. split; assumption.
  - apply leaf_keys_spec; [eapply list_node_content; eassumption|exact Hlf|exact Hl0].
Qed.

Lemma sort_Hg asc argsort : forall p c cc vs,
  Valid p c -> list_content c = Some cc -> to_list c = Ok vs -> leafish (type_of cc) = true ->
  (is_strk p = true -> true = true) ->
  exists c', sort_g asc argsort p c = Ok c' /\
             to_list c' = mapM (fun v => match v with VList l => sort_f asc argsort (type_of cc) l | _ => Err EValue end) vs.
Proof.
  intros p c cc vs HV Hc Hl Hlf _.
  destruct (list_bounds_spec c cc vs Hc Hl) as (bs & vs0 & ls & Hb & Hl0 & Hcut & ->).
  destruct (keys_below p c cc vs0 HV Hc Hl0 Hlf) as (ks & Hks & -> & kd & Hh & Hcp).
  (* the lists at the axis, as segments of the keys *)
  rewrite (mapM_ext_in _ (fun ab => rmap (map val_of_okey) (cut1 ks ab))) in Hcut by (intros ab _; apply cut1_map).
  rewrite mapM_rmap in Hcut. apply rmap_Ok in Hcut as (segs & Hsegs & ->).
  set (dt := leaf_dtype cc).
  assert (Hper : mapM (fun ab : Z * Z =>
                         do seg <- (if fst ab =? snd ab then Ok [] else slice ks (fst ab) (snd ab));
                         Ok (sort_keys asc argsort dt seg)) bs = Ok (map (sort_keys asc argsort dt) segs)).
  { eapply mapM_transfer; [exact Hsegs|]. intros [a b] seg _ Hseg. unfold cut1 in Hseg. cbn [fst snd]. rewrite Hseg. reflexivity. }
  unfold sort_g. rewrite Hb. cbn [bind snd fst]. rewrite Hks. cbn [bind]. fold dt. rewrite Hper. cbn [bind].
  eexists. split; [reflexivity|].
  set (per := map (sort_keys asc argsort dt) segs).
  assert (Hhom : homog (if argsort then KKNum else kd) (concat per)).
  { apply homog_concat. apply Forall_forall. intros x Hx. apply in_map_iff in Hx as (seg & <- & Hseg).
    apply sort_keys_homog. eapply homog_sub; [exact Hh|]. intros k Hk.
    destruct (mapM_In_inv _ _ _ _ Hsegs Hseg) as (ab & _ & Hab). eapply cut1_In; eassumption. }
  rewrite to_list_ListOffset, (content_of_keys_to_list _ _ _ Hhom (sort_keys_compat argsort kd dt Hcp)). cbn [bind].
  rewrite concat_map, (cut_concat_lens (map (map val_of_okey) per)).
  2:{ rewrite map_map. apply map_ext. intros l. rewrite zlen_map. reflexivity. }
  cbn [rmap]. rewrite !mapM_map.
  rewrite (mapM_ext_in _ (fun seg => Ok (VList (map val_of_okey (sort_keys asc argsort dt seg))))).
  - rewrite mapM_pure. unfold per. rewrite !map_map. reflexivity.
  - intros seg _. unfold sort_f. rewrite (sort_leaves_keys asc argsort dt seg). reflexivity.
Qed.

Lemma list_bounds_err c e : list_bounds c = Err e -> e = EValue.
Proof.
  destruct c; cbn [list_bounds]; try congruence.
  - destruct offsets; congruence.
  - destruct (zlen stops <? zlen starts); congruence.
  - destruct (size <? 0); congruence.
Qed.
Lemma list_bounds_content c bs cc' cc : list_bounds c = Ok (bs, cc') -> list_content c = Some cc -> cc' = cc.
Proof.
  destruct c; cbn [list_bounds list_content]; try discriminate.
  - destruct offsets; [discriminate|]. congruence.
  - destruct (zlen stops <? zlen starts); [discriminate|]. congruence.
  - destruct (size <? 0); [discriminate|]. congruence.
Qed.

Lemma sort_Hgchk asc argsort : forall p c cc,
  Valid p c -> list_content c = Some cc -> leafish (type_of cc) = false -> sort_g asc argsort p c = Err EValue.
Proof.
  intros p c cc HV Hc Hlf. unfold sort_g. destruct (list_bounds c) as [[bs cc']|e] eqn:Eb.
  - rewrite (list_bounds_content _ _ _ _ Eb Hc). cbn [bind snd].
    assert (HVc : Valid None cc).
    { eapply list_node_content; [exact HV|exact Hc|]. destruct (is_strk p) eqn:Es; [|reflexivity].
      destruct (ParamOk_str p c (list_node_param p c cc HV Hc) Es) as (cc'' & k & rn & n & dd & Hcc & -> & Hk).
      rewrite Hc in Hcc. inversion Hcc; subst cc. discriminate. }
    rewrite (leaf_keys_refuses cc None HVc Hlf). reflexivity.
  - apply list_bounds_err in Eb. subst e. reflexivity.
Qed.

Lemma leafish_key t : forall v, leafish t = true -> has_type t v -> v = VNone \/ exists k, key_of_value v = Ok k.
Proof.
  unfold has_type. induction t as [dt| |sz str t' IH|t' IH|ks ts|ts]; intros v Hlf Hv; cbn [leafish has_typeb] in *; try discriminate.
  - destruct v; try discriminate; right; eexists; reflexivity.
  - destruct str; [|discriminate]. destruct v; try discriminate. right. eexists. reflexivity.
  - destruct v; try (apply IH; assumption). left. reflexivity.
Qed.

Lemma sort_Hf asc argsort : forall t l, leafish t = true -> Forall (has_type t) l -> exists v, sort_f asc argsort t l = Ok v.
Proof.
  intros t l Hlf Hty. unfold sort_f. destruct (sort_leaves_total asc argsort (enumv l)) as [vs Hvs].
  - intros [j v] Hin. apply zip_In in Hin as [_ Hin]. rewrite Forall_forall in Hty. apply (leafish_key t v Hlf), Hty, Hin.
  - rewrite Hvs. cbn [rmap]. eauto.
Qed.

Lemma sort_ax_refines asc argsort c ax vs :
  Valid None c -> frag c = true -> to_list c = Ok vs ->
  refines (model_ax (sort_g asc argsort) (Ok Empty) true c ax)
          (check_ax true leafish true (type_of c) 0 ax)
          (mapM (spec_v (sort_f asc argsort) (type_of c) 0 ax) vs).
Proof.
  intros HV Hfr Hl. unfold model_ax.
  pose proof (model_axp_refines (sort_f asc argsort) (sort_g asc argsort) (Ok Empty) true leafish true
                (sort_Hg asc argsort) (sort_Hgchk asc argsort) (sort_Hf asc argsort)
                (ex_intro _ Empty (conj eq_refl eq_refl)) (expand c) 0 ax vs
                (expand_valid c HV Hfr) (expand_frag1 c HV Hfr) (Z.le_refl 0)) as H.
  rewrite (expand_to_list c HV Hfr), (expand_type_of c HV Hfr) in H. exact (H Hl).
Qed.

(* ---------------------------------------------------------------- the fragment *)
(* [frag] (no unions, n-d leaves allowed) without EmptyArray: see [sort_refines_spec_refuted] below *)
Fixpoint no_empty (c : content) : bool :=
  match c with
  | Numpy _ _ _ => true
  | Empty => false
  | ListOffset _ _ c' | ListA _ _ _ c' | Regular c' _ _ | Indexed _ _ c' | IndexedOption _ _ c'
  | ByteMasked _ _ c' | BitMasked _ _ _ _ c' | Unmasked c' | Par _ _ c' => no_empty c'
  | Union _ _ _ cs | Record cs _ _ =>
      (fix all (l : list content) : bool := match l with [] => true | x :: xs => no_empty x && all xs end) cs
  end.
Definition sfrag (c : content) : bool := frag c && no_empty c.

(* the types of sortable layouts of the fragment: lists / options over numbers, strings *)
Fixpoint styp (t : ty) : bool :=
  match t with
  | TNum _ => true
  | TList _ _ t' | TOpt t' => styp t'
  | _ => false
  end.
Lemma styp_numpy dt dims : styp (numpy_ty dt dims) = true.
Proof. induction dims; cbn [numpy_ty styp]; auto. Qed.

Lemma styp_of_layout c : forall p,
  Valid p c -> no_empty c = true -> sortable (type_of_p p c) = true -> styp (type_of_p p c) = true.
Proof.
  induction c as [dt shape data| |w o c IHc|w s e c IHc|c size zl IHc|w ix c IHc|w ix c IHc|m vw c IHc
                 |m vw lsb n c IHc|c IHc|w t ix cs IHcs|cs ks n IHcs|arr rn c IHc] using content_ind';
    intros p HV Hne Hs; pose proof HV as HV0; inversion HV; subst; cbn [no_empty] in Hne; cbn [type_of_p sortable styp] in *;
    try discriminate; try (apply (IHc None); assumption).
  - apply styp_numpy.
  - destruct (is_strk p) eqn:Es.
    + destruct (ParamOk_str p _ (list_node_param p _ c HV0 eq_refl) Es) as (cc & k & rn & n & dd & Hcc & -> & Hk).
      inversion Hcc; subst. reflexivity.
    + apply (IHc None); [auto|assumption|]. destruct p as [[]|]; try discriminate; exact Hs.
  - destruct (is_strk p) eqn:Es.
    + destruct (ParamOk_str p _ (list_node_param p _ c HV0 eq_refl) Es) as (cc & k & rn & n & dd & Hcc & -> & Hk).
      inversion Hcc; subst. reflexivity.
    + apply (IHc None); [auto|assumption|]. destruct p as [[]|]; try discriminate; exact Hs.
  - destruct (is_strk p) eqn:Es.
    + destruct (ParamOk_str p _ (list_node_param p _ c HV0 eq_refl) Es) as (cc & k & rn & n & dd & Hcc & -> & Hk).
      inversion Hcc; subst. reflexivity.
    + apply (IHc None); [auto|assumption|]. destruct p as [[]|]; try discriminate; exact Hs.
  - apply (IHc arr); assumption.
Qed.

(* ---------------------------------------------------------------- type-level facts on [styp] types *)
Lemma styp_leafish t : styp t = true -> leafish t = is_leaf_ty t.
Proof. induction t; cbn [styp leafish is_leaf_ty]; intros H; try discriminate; auto. Qed.
Lemma is_leaf_sortable t : is_leaf_ty t = true -> sortable t = true.
Proof. induction t as [| |sz str t' IH|t' IH| |]; cbn [is_leaf_ty sortable]; intros H; try discriminate; auto. destruct str; [reflexivity|discriminate]. Qed.
Lemma is_leaf_leafish t : is_leaf_ty t = true -> leafish t = true.
Proof. induction t as [| |sz str t' IH|t' IH| |]; cbn [is_leaf_ty leafish]; intros H; try discriminate; auto. Qed.

Lemma check_leafish_leaf t : forall d ax, styp t = true ->
  check_ax true leafish true t d ax = check_ax true is_leaf_ty true t d ax.
Proof.
  induction t as [| |sz str t' IH|t' IH| |]; intros d ax Hs; cbn [styp] in Hs; try discriminate;
    rewrite !check_ax_eq; destruct (resolve_axis _ d ax) as [ax'|]; try reflexivity; cbn [bind check_body].
  - rewrite (styp_leafish t' Hs). destruct (ax' =? d + 1); [reflexivity|]. apply IH, Hs.
  - apply IH, Hs.
Qed.

Lemma check_mono (fchk fchk' : ty -> bool) t : (forall t0, fchk t0 = true -> fchk' t0 = true) ->
  forall d ax, styp t = true -> check_ax true fchk true t d ax = Ok tt -> check_ax true fchk' true t d ax = Ok tt.
Proof.
  intros Hm. induction t as [| |sz str t' IH|t' IH| |]; intros d ax Hs; cbn [styp] in Hs; try discriminate;
    rewrite !check_ax_eq; destruct (resolve_axis _ d ax) as [ax'|]; try discriminate; cbn [bind check_body orb]; try discriminate.
  - destruct (ax' =? d + 1); [|apply IH, Hs]. rewrite !andb_true_r.
    destruct (fchk t') eqn:E; [|discriminate]. rewrite (Hm _ E). reflexivity.
  - apply IH, Hs.
Qed.

Lemma check_err (fchk : ty -> bool) t : forall d ax e, styp t = true -> check_ax true fchk true t d ax = Err e -> e = EValue.
Proof.
  induction t as [| |sz str t' IH|t' IH| |]; intros d ax e Hs; cbn [styp] in Hs; try discriminate;
    rewrite !check_ax_eq; destruct (resolve_axis _ d ax) as [ax'|e'] eqn:Er; cbn [bind check_body orb];
    try (intros H; inversion H; subst; eapply resolve_err, Er); try congruence.
  - destruct (ax' =? d + 1); [|apply IH, Hs]. destruct (fchk t' && true); congruence.
  - apply IH, Hs.
Qed.

Lemma spec_v_leaf_ext asc argsort t : forall d ax v, styp t = true ->
  check_ax true is_leaf_ty true t d ax = Ok tt ->
  spec_v (sort_f asc argsort) t d ax v = spec_v (sortcols_f asc argsort) t d ax v.
Proof.
  induction t as [| |sz str t' IH|t' IH| |]; intros d ax v Hs; cbn [styp] in Hs; try discriminate;
    rewrite check_ax_eq, !spec_v_eq; destruct (resolve_axis _ d ax) as [ax'|]; try reflexivity; cbn [bind check_body spec_body orb]; try reflexivity.
  - destruct (ax' =? d + 1) eqn:E.
    + rewrite andb_true_r. destruct (is_leaf_ty t') eqn:El; [|discriminate]. intros _.
      destruct v; try reflexivity; apply sort_f_sortcols_f, El.
    + intros Hc. destruct v; try reflexivity; f_equal; apply mapM_ext_in; intros x _; apply IH; assumption.
  - intros Hc. destruct v; try reflexivity; apply IH; assumption.
Qed.

(* ---------------------------------------------------------------- the leaf level (the array itself is the list) *)
Lemma leaf_dtype_expand c : forall p, leafish (type_of_p p c) = true -> leaf_dtype (expand c) = leaf_dtype c.
Proof.
  induction c as [dt shape data| |w o c IHc|w s e c IHc|c size zl IHc|w ix c IHc|w ix c IHc|m vw c IHc
                 |m vw lsb n c IHc|c IHc|w t ix cs IHcs|cs ks n IHcs|arr rn c IHc] using content_ind';
    intros p Hlf; cbn [type_of_p leafish expand] in *; try reflexivity.
  - destruct shape as [|n [|d ds]]; [reflexivity|reflexivity|discriminate].
  - rewrite !leaf_dtype_Indexed. apply (IHc None), Hlf.
  - rewrite !leaf_dtype_IndexedOption. apply (IHc None), Hlf.
  - rewrite !leaf_dtype_ByteMasked. apply (IHc None), Hlf.
  - rewrite !leaf_dtype_BitMasked. apply (IHc None), Hlf.
  - rewrite !leaf_dtype_Unmasked. apply (IHc None), Hlf.
  - rewrite !leaf_dtype_Par. apply (IHc arr), Hlf.
Qed.

Lemma sort_top_refines asc (argsort : bool) c vs :
  Valid None c -> frag c = true -> to_list c = Ok vs -> is_leaf_ty (type_of c) = true ->
  obs (do ks <- leaf_keys None (expand c);
       Ok (content_of_keys (if argsort then DInt64 else leaf_dtype c) (sort_keys asc argsort (leaf_dtype c) ks)))
  = sort_leaves asc argsort (enumv vs).
Proof.
  intros HV Hfr Hl Hlf. pose proof (is_leaf_leafish _ Hlf) as Hlf'.
  destruct (leaf_keys_spec (expand c) vs) as (ks & Hks & -> & kd & Hh & Hcp).
  - apply expand_valid; assumption.
  - rewrite expand_type_of; assumption.
  - rewrite expand_to_list; assumption.
  - rewrite (leaf_dtype_expand c None Hlf') in Hcp. rewrite Hks. cbn [bind obs].
    rewrite (content_of_keys_to_list _ _ _ (sort_keys_homog asc argsort (leaf_dtype c) kd ks Hh)
               (sort_keys_compat argsort kd (leaf_dtype c) Hcp)).
    symmetry. apply sort_leaves_keys.
Qed.

(* ---------------------------------------------------------------- the refinement *)
(* "modelled": [sort_model] does not answer [Err EFuel] (its way of saying: legal, but not the innermost axis) *)
Definition sort_modelled (asc argsort : bool) (axis : Z) (c : content) : bool :=
  match sort_model asc argsort axis c with Err EFuel => false | _ => true end.

Theorem sort_refines_spec_partial : forall asc argsort axis c vs,
  Valid None c -> sfrag c = true -> to_list c = Ok vs -> sort_modelled asc argsort axis c = true ->
  obs (sort_model asc argsort axis c) = sort_spec asc argsort axis (type_of c) vs.
Proof.
  intros asc argsort axis c vs HV Hsf Hl Hm. unfold sfrag in Hsf. apply andb_true_iff in Hsf as [Hfr Hne].
  unfold sort_modelled in Hm. unfold sort_model, sort_spec in *.
  destruct (resolve_axis (type_of c) 0 axis) as [ax|e]; cbn [bind] in *; [|reflexivity].
  destruct (sortable (type_of c)) eqn:Hs; cbn [negb] in *; [|reflexivity].
  destruct (ax =? 0) eqn:E0.
  - destruct (is_leaf_ty (type_of c)) eqn:Hlf; [|discriminate].
    rewrite (sortcols_leaf_snd asc argsort _ _ Hlf). apply sort_top_refines; assumption.
  - pose proof (styp_of_layout c None HV Hne Hs) as Hst. fold (type_of c) in Hst.
    pose proof (sort_ax_refines asc argsort c ax vs HV Hfr Hl) as HR.
    unfold spec_ax.
    destruct (model_ax (sort_g asc argsort) (Ok Empty) true c ax) as [r|[]]; cbn [refines] in HR; try contradiction.
    + destruct HR as (Hchk & ws & Hws & Hr). rewrite (check_leafish_leaf _ 0 ax Hst) in Hchk.
      rewrite (check_mono is_leaf_ty sortable _ is_leaf_sortable 0 ax Hst Hchk). cbn [bind obs].
      rewrite Hr, <- Hws. apply mapM_ext_in. intros v _. apply spec_v_leaf_ext; assumption.
    + rewrite (check_leafish_leaf _ 0 ax Hst) in HR. rewrite HR in *.
      destruct (check_ax true (fun _ : ty => true) true (type_of c) 0 ax) as [u|e] eqn:Ec; [discriminate|].
      pose proof (check_err _ _ _ _ _ Hst Ec). subst e. cbn [obs].
      destruct (check_ax true sortable true (type_of c) 0 ax) as [[]|e'] eqn:Ec'.
      * rewrite (check_mono sortable (fun _ => true) _ (fun _ _ => eq_refl) 0 ax Hst Ec') in Ec. discriminate.
      * pose proof (check_err _ _ _ _ _ Hst Ec'). subst e'. reflexivity.
Qed.

(* ---------------------------------------------------------------- which axes are modelled: the innermost one *)
(* on (type, axis): the resolved axis points at the lists that hold the leaves in every branch *)
Definition innermost (axis : Z) (t : ty) : bool :=
  match resolve_axis t 0 axis with
  | Ok ax => if ax =? 0 then is_leaf_ty t
             else match check_ax true is_leaf_ty true t 0 ax with Ok _ => true | Err _ => false end
  | Err _ => true
  end.

Theorem innermost_modelled : forall asc argsort axis c vs,
  Valid None c -> sfrag c = true -> to_list c = Ok vs -> innermost axis (type_of c) = true ->
  sort_modelled asc argsort axis c = true.
Proof.
  intros asc argsort axis c vs HV Hsf Hl Hin. unfold sfrag in Hsf. apply andb_true_iff in Hsf as [Hfr Hne].
  unfold sort_modelled, sort_model, innermost in *.
  destruct (resolve_axis (type_of c) 0 axis) as [ax|e] eqn:Er; cbn [bind]; [|apply resolve_err in Er; subst e; reflexivity].
  destruct (sortable (type_of c)) eqn:Hs; cbn [negb]; [|reflexivity].
  destruct (ax =? 0) eqn:E0.
  - rewrite Hin.
    destruct (leaf_keys_spec (expand c) vs) as (ks & Hks & _);
      [apply expand_valid; assumption|rewrite expand_type_of by assumption; apply is_leaf_leafish, Hin
      |rewrite expand_to_list; assumption|].
    rewrite Hks. reflexivity.
  - pose proof (sort_ax_refines asc argsort c ax vs HV Hfr Hl) as HR.
    destruct (model_ax (sort_g asc argsort) (Ok Empty) true c ax) as [r|[]]; cbn [refines] in HR; try contradiction; [reflexivity|].
    destruct (check_ax true is_leaf_ty true (type_of c) 0 ax); [reflexivity|discriminate].
Qed.

Corollary sort_refines_spec_innermost : forall asc argsort axis c vs,
  Valid None c -> sfrag c = true -> to_list c = Ok vs -> innermost axis (type_of c) = true ->
  obs (sort_model asc argsort axis c) = sort_spec asc argsort axis (type_of c) vs.
Proof.
  intros asc argsort axis c vs HV Hsf Hl Hin. apply sort_refines_spec_partial; try assumption.
  eapply innermost_modelled; eassumption.
Qed.

(* depth of a [styp] type: all branches are equally deep *)
Lemma minmax_styp t : styp t = true -> fst (minmax t) = snd (minmax t) /\ 1 <= snd (minmax t).
Proof.
  induction t as [| |sz str t' IH|t' IH| |]; cbn [styp minmax]; intros Hs; try discriminate.
  - split; cbn; lia.
  - destruct str; [split; cbn; lia|]. specialize (IH Hs). destruct (minmax t') as [a b]. cbn [fst snd] in *. lia.
  - apply IH, Hs.
Qed.

Lemma last_axis_check t : styp t = true ->
  (snd (minmax t) = 1 -> is_leaf_ty t = true) /\
  (forall d, 0 <= d -> 2 <= snd (minmax t) -> check_ax true is_leaf_ty true t d (d + snd (minmax t) - 1) = Ok tt).
Proof.
  induction t as [| |sz str t' IH|t' IH| |]; cbn [styp]; intros Hs; try discriminate.
  - split; [reflexivity|]. cbn [minmax snd]. intros; lia.
  - destruct str as [b|].
    + split; [reflexivity|]. cbn [minmax snd]. intros; lia.
    + specialize (IH Hs). destruct IH as [IH1 IH2]. pose proof (minmax_styp t' Hs) as [_ Hge].
      cbn [minmax]. destruct (minmax t') as [a b]. cbn [fst snd] in *. split; [intros; lia|].
      intros d Hd _. rewrite check_ax_eq. unfold resolve_axis. destruct (0 <=? d + (b + 1) - 1) eqn:E; [|lia].
      cbn [bind check_body orb]. destruct (d + (b + 1) - 1 =? d + 1) eqn:E1.
      * rewrite IH1 by lia. reflexivity.
      * replace (d + (b + 1) - 1) with ((d + 1) + b - 1) by ring. apply IH2; lia.
  - specialize (IH Hs). destruct IH as [IH1 IH2]. cbn [minmax is_leaf_ty]. split; [exact IH1|].
    intros d Hd Hm. rewrite check_ax_eq. unfold resolve_axis. cbn [minmax].
    destruct (0 <=? d + snd (minmax t') - 1) eqn:E; [|lia]. cbn [bind check_body]. apply IH2; assumption.
Qed.

(* axis = -1 and the equal non-negative axis are the innermost one *)
Theorem innermost_last_axis : forall c,
  Valid None c -> no_empty c = true -> sortable (type_of c) = true ->
  innermost (-1) (type_of c) = true /\ innermost (snd (minmax (type_of c)) - 1) (type_of c) = true.
Proof.
  intros c HV Hne Hs. pose proof (styp_of_layout c None HV Hne Hs) as Hst. fold (type_of c) in Hst.
  destruct (minmax_styp _ Hst) as [Heq Hge]. destruct (last_axis_check _ Hst) as [H1 H2].
  assert (G : forall ax, ax = snd (minmax (type_of c)) - 1 ->
              (if ax =? 0 then is_leaf_ty (type_of c)
               else match check_ax true is_leaf_ty true (type_of c) 0 ax with Ok _ => true | Err _ => false end) = true).
  { intros ax ->. destruct (snd (minmax (type_of c)) - 1 =? 0) eqn:E.
    - apply H1. lia.
    - specialize (H2 0 (Z.le_refl 0)). cbn [Z.add] in H2. rewrite H2 by lia. reflexivity. }
  unfold innermost, resolve_axis. split.
  - cbn [Z.leb Z.compare]. destruct (minmax (type_of c)) as [mn mx]. cbn [fst snd] in *. subst mn. rewrite Z.eqb_refl.
    destruct (mx + -1 <? 0) eqn:E; [lia|]. apply G. lia.
  - destruct (0 <=? snd (minmax (type_of c)) - 1) eqn:E; [|lia]. apply G. reflexivity.
Qed.

Corollary sort_refines_spec_last_axis : forall asc argsort c vs,
  Valid None c -> sfrag c = true -> to_list c = Ok vs ->
  obs (sort_model asc argsort (-1) c) = sort_spec asc argsort (-1) (type_of c) vs /\
  obs (sort_model asc argsort (snd (minmax (type_of c)) - 1) c)
  = sort_spec asc argsort (snd (minmax (type_of c)) - 1) (type_of c) vs.
Proof.
  intros asc argsort c vs HV Hsf Hl. pose proof Hsf as Hsf0. unfold sfrag in Hsf. apply andb_true_iff in Hsf as [Hfr Hne].
  destruct (sortable (type_of c)) eqn:Hs.
  - destruct (innermost_last_axis c HV Hne Hs) as [I1 I2]. split; apply sort_refines_spec_innermost; assumption.
  - assert (G : forall axis, obs (sort_model asc argsort axis c) = sort_spec asc argsort axis (type_of c) vs).
    { intros axis. unfold sort_model, sort_spec. destruct (resolve_axis (type_of c) 0 axis); cbn [bind]; [|reflexivity].
      rewrite Hs. reflexivity. }
    split; apply G.
Qed.

(* ---------------------------------------------------------------- layout independence (C02) *)
Theorem layout_independent_sort_partial : forall asc argsort axis a b vs,
  Valid None a -> Valid None b -> sfrag a = true -> sfrag b = true ->
  to_list a = Ok vs -> to_list b = Ok vs -> type_of a = type_of b ->
  innermost axis (type_of a) = true ->
  obs (sort_model asc argsort axis a) = obs (sort_model asc argsort axis b).
Proof.
  intros asc argsort axis a b vs HVa HVb Hfa Hfb Hla Hlb Hty Hin.
  rewrite (sort_refines_spec_innermost asc argsort axis a vs), (sort_refines_spec_innermost asc argsort axis b vs), Hty;
    try assumption; [reflexivity|rewrite <- Hty; exact Hin].
Qed.

(* ---------------------------------------------------------------- instances *)
(* three levels: lists of optional lists of optional numbers (ListOffset / IndexedOption / ListArray with a gap /
   ByteMasked), NaN first, None last, nothing leaves its list; argsort returns positions within each list *)
Example sort_refines_ex :
  let c := ListOffset I64 [0; 2; 3]
             (IndexedOption I64 [1; -1; 0]
                (ListA I64 [0; 3] [3; 5]
                   (ByteMasked [1; 0; 1; 1; 1] true (Numpy DFloat64 [5] [DZ 3; DZ 9; DNaN; DZ (-1); DZ 2])))) in
  validb None c = true /\ sfrag c = true /\
  to_list c = Ok [VList [VList [VNum (DZ (-1)); VNum (DZ 2)]; VNone]; VList [VList [VNum (DZ 3); VNone; VNum DNaN]]] /\
  innermost (-1) (type_of c) = true /\ innermost 2 (type_of c) = true /\ innermost 1 (type_of c) = false /\
  obs (sort_model true false (-1) c)
  = Ok [VList [VList [VNum (DZ (-1)); VNum (DZ 2)]; VNone]; VList [VList [VNum DNaN; VNum (DZ 3); VNone]]] /\
  obs (sort_model false true 2 c)
  = Ok [VList [VList [VNum (DZ 1); VNum (DZ 0)]; VNone]; VList [VList [VNum (DZ 2); VNum (DZ 0); VNum (DZ 1)]]] /\
  sort_modelled true false 1 c = false.
Proof. vm_compute. repeat split. Qed.

(* strings sort as units inside their lists *)
Example sort_refines_strings_ex :
  let c := ListOffset I64 [0; 3; 3; 5]
             (Par (Some AString) None
                (ListOffset I64 [0; 1; 3; 3; 4; 6]
                   (Par (Some AChar) None (Numpy DUInt8 [6] [DZ 98; DZ 97; DZ 98; DZ 97; DZ 99; DZ 100])))) in
  validb None c = true /\ sfrag c = true /\
  to_list c = Ok [VList [VStr true [98]; VStr true [97; 98]; VStr true []]; VList []; VList [VStr true [97]; VStr true [99; 100]]] /\
  obs (sort_model true false (-1) c)
  = Ok [VList [VStr true []; VStr true [97; 98]; VStr true [98]]; VList []; VList [VStr true [97]; VStr true [99; 100]]] /\
  obs (sort_model false true 1 c) = Ok [VList [VNum (DZ 0); VNum (DZ 1); VNum (DZ 2)]; VList []; VList [VNum (DZ 1); VNum (DZ 0)]].
Proof. vm_compute. repeat split. Qed.

(* records are in the fragment, but neither the model nor the specification sorts them: both refuse *)
Example sort_refines_record_ex :
  let c := Record [ListOffset I64 [0; 2; 3] (IndexedOption I64 [1; -1; 0] (Numpy DInt64 [2] [DZ 5; DZ 4]));
                   Numpy DInt64 [2] [DZ 1; DZ 2]] None 2 in
  validb None c = true /\ sfrag c = true /\ sort_modelled true false (-1) c = true /\
  obs (sort_model true false (-1) c) = Err EValue /\
  sort_spec true false (-1) (type_of c)
    [VTup [VList [VNum (DZ 4); VNone]; VNum (DZ 1)]; VTup [VList [VNum (DZ 5)]; VNum (DZ 2)]] = Err EValue.
Proof. vm_compute. repeat split. Qed.

(* Why EmptyArray is excluded ([no_empty]): without it the statement is FALSE of model and specification as
   written.  For a list of missing values whose content is an EmptyArray (type option[unknown]) the model's argsort
   returns the positions of the missing values (as for every other leaf type), whereas [sortcols] treats
   [TOpt TUnk] as a non-leaf type ("missing lists stay missing") and returns None. *)
Example sort_refines_spec_refuted :
  let c := ListOffset I64 [0; 2] (IndexedOption I64 [-1; -1] Empty) in
  validb None c = true /\ frag c = true /\ to_list c = Ok [VList [VNone; VNone]] /\
  type_of c = TList None None (TOpt TUnk) /\
  sort_modelled true true (-1) c = true /\
  obs (sort_model true true (-1) c) = Ok [VList [VNum (DZ 0); VNum (DZ 1)]] /\
  sort_spec true true (-1) (type_of c) [VList [VNone; VNone]] = Ok [VList [VNone; VNone]].
Proof. vm_compute. repeat split. Qed.
