(* C19 — fault freedom, part 4: the data instructions of exec_builtin and exec_read. *)
From Coq Require Import ZArith Bool List Lia ZifyBool.
From AwkForth Require Import Forth Proofs_C19 Proofs_C19_SafeDefs Proofs_C19_Safe Proofs_C19_Safe3 Proofs_C19_Words.
Import ListNotations.
Open Scope Z_scope.

Ltac codes :=
  cbn [Z.eqb Pos.eqb orb andb Z.leb Z.ltb Z.compare Pos.compare Pos.compare_cont
       CODE_LITERAL CODE_HALT CODE_PAUSE CODE_IF CODE_IF_ELSE CODE_DO CODE_DO_STEP CODE_AGAIN CODE_UNTIL CODE_WHILE
       CODE_EXIT CODE_PUT CODE_INC CODE_GET CODE_LEN_INPUT CODE_POS CODE_END CODE_SEEK CODE_SKIP CODE_WRITE
       CODE_WRITE_ADD CODE_WRITE_DUP CODE_LEN_OUTPUT CODE_REWIND CODE_STRING CODE_PRINT_STRING CODE_PRINT CODE_PRINT_CR
       CODE_PRINT_STACK CODE_I CODE_J CODE_K CODE_DUP CODE_DROP CODE_SWAP CODE_OVER CODE_ROT CODE_NIP CODE_TUCK CODE_ADD
       CODE_SUB CODE_MUL CODE_DIV CODE_MOD CODE_DIVMOD CODE_NEGATE CODE_ADD1 CODE_SUB1 CODE_ABS CODE_MIN CODE_MAX CODE_EQ
       CODE_NE CODE_GT CODE_GE CODE_LT CODE_LE CODE_EQ0 CODE_INVERT CODE_AND CODE_OR CODE_XOR CODE_LSHIFT CODE_RSHIFT
       CODE_FALSE CODE_TRUE BOUND_DICTIONARY].

Lemma fetch_eq : forall p m w ip fr seg x, m_frames m = (w, ip) :: fr -> znth (p_segs p) w = Some seg ->
  znth seg ip = Some x -> fetch p m = Ok (x, set_frames m ((w, ip + 1) :: fr)).
Proof. intros p m w ip fr seg x Hf Hs Hx. unfold fetch. rewrite Hf, Hs, Hx. reflexivity. Qed.

Section Data4.
  Variables (p : prog) (e : env).

  Lemma ds_set_frames_shape : forall m fr, shape_ok p e (set_frames m fr) = shape_ok p e m.
  Proof. reflexivity. Qed.

  Lemma ds_vars : forall m i v vs, zupd (m_vars m) i v = Some vs -> ds p e m (set_vars m vs).
  Proof.
    intros m i v vs H. repeat split; auto. intro Hs. destruct (shape_unpack _ _ _ Hs) as [S1 [S2 [S3 [S4 S5]]]].
    apply shape_pack; cbn [m_vars m_inpos m_outs set_vars]; try assumption. rewrite (zupd_len _ _ _ _ _ H). assumption.
  Qed.
  Lemma ds_inpos : forall m i v ip, zupd (m_inpos m) i v = Some ip -> 0 <= v -> ds p e m (set_inpos m ip).
  Proof.
    intros m i v ip H Hv. repeat split; auto. intro Hs. destruct (shape_unpack _ _ _ Hs) as [S1 [S2 [S3 [S4 S5]]]].
    apply shape_pack; cbn [m_vars m_inpos m_outs set_inpos]; try assumption.
    - rewrite (zupd_len _ _ _ _ _ H). assumption.
    - eapply zupd_forallb; [eassumption|assumption|lia].
  Qed.

  (* every stack / arithmetic word only replaces the stack and possibly sets an error *)
  Lemma word_res : forall m x, exists s' z, exec_builtin p e m (word_code x) = continue (set_stack m s') \/
                                            exec_builtin p e m (word_code x) = stop (set_stack m s') z.
  Proof.
    intros m x.
    destruct x; unfold word_code, exec_builtin, bin_op, un_op, push, can_push; codes;
      destruct (m_stack m) as [|? [|? [|? ?]]] eqn:Es;
      try (eexists; exists 0; left; reflexivity);
      try (exists (m_stack m), E_underflow; right; rewrite set_stack_same; reflexivity);
      try (destruct (negb (zlen _ =? p_stack_max p));
           [eexists; exists 0; left; reflexivity
           |exists (m_stack m), E_overflow; right; rewrite set_stack_same; reflexivity]);
      try (match goal with |- context [?b =? 0] => destruct (b =? 0) end;
           [first [eexists; eexists; right; reflexivity
                  |exists (m_stack m), E_div_zero; right; rewrite set_stack_same; reflexivity]
           |eexists; exists 0; left; reflexivity]).
  Qed.

  Lemma word_of_code : forall bc, CODE_DUP <= bc <= CODE_TRUE -> exists x, bc = word_code x.
  Proof.
    intros bc H. unfold CODE_DUP, CODE_TRUE in H.
    assert (Hn : bc = 32 \/ bc = 33 \/ bc = 34 \/ bc = 35 \/ bc = 36 \/ bc = 37 \/ bc = 38 \/ bc = 39 \/ bc = 40 \/ bc = 41 \/ bc = 42 \/ bc = 43 \/ bc = 44 \/ bc = 45 \/ bc = 46 \/ bc = 47 \/ bc = 48 \/ bc = 49 \/ bc = 50 \/ bc = 51 \/ bc = 52 \/ bc = 53 \/ bc = 54 \/ bc = 55 \/ bc = 56 \/ bc = 57 \/ bc = 58 \/ bc = 59 \/ bc = 60 \/ bc = 61 \/ bc = 62 \/ bc = 63 \/ bc = 64 \/ bc = 65) by lia.
    repeat (destruct Hn as [->|Hn]; [first [exists Wdup; reflexivity | exists Wdrop; reflexivity | exists Wswap; reflexivity | exists Wover; reflexivity | exists Wrot; reflexivity | exists Wnip; reflexivity | exists Wtuck; reflexivity | exists Wadd; reflexivity | exists Wsub; reflexivity | exists Wmul; reflexivity | exists Wdiv; reflexivity | exists Wmod; reflexivity | exists Wdivmod; reflexivity | exists Wnegate; reflexivity | exists Wadd1; reflexivity | exists Wsub1; reflexivity | exists Wabs; reflexivity | exists Wmin; reflexivity | exists Wmax; reflexivity | exists Weq; reflexivity | exists Wne; reflexivity | exists Wgt; reflexivity | exists Wge; reflexivity | exists Wlt; reflexivity | exists Wle; reflexivity | exists Weq0; reflexivity | exists Winvert; reflexivity | exists Wand; reflexivity | exists Wor; reflexivity | exists Wxor; reflexivity | exists Wlshift; reflexivity | exists Wrshift; reflexivity | exists Wfalse; reflexivity | exists Wtrue; reflexivity]|]).
    subst bc. exists Wtrue; reflexivity.
  Qed.
End Data4.

Section Data5.
  Variables (p : prog) (e : env).

  Ltac have_some H :=
    match type of H with
    | znth ?l ?i = None => let x := fresh in let Hx := fresh in
        destruct (znth_some _ l i) as [x Hx]; [lia|]; rewrite Hx in H; discriminate H
    | zupd ?l ?i ?v = None => let x := fresh in let Hx := fresh in
        destruct (zupd_some _ l i v) as [x Hx]; [lia|]; rewrite Hx in H; discriminate H
    end.

  Lemma builtin_arg_gres : forall m w ip fr seg a bc,
    m_frames m = (w, ip) :: fr -> znth (p_segs p) w = Some seg -> znth seg ip = Some a ->
    shape_ok p e m = true ->
    (bc = CODE_LITERAL \/
     ((bc = CODE_PUT \/ bc = CODE_INC \/ bc = CODE_GET) /\ in_range a (n_vars p) = true) \/
     ((bc = CODE_LEN_INPUT \/ bc = CODE_POS \/ bc = CODE_END \/ bc = CODE_SEEK \/ bc = CODE_SKIP) /\
      in_range a (n_ins p) = true) \/
     ((bc = CODE_WRITE \/ bc = CODE_WRITE_ADD \/ bc = CODE_WRITE_DUP \/ bc = CODE_LEN_OUTPUT \/ bc = CODE_REWIND) /\
      in_range a (n_outs p) = true)) ->
    gres p e (set_frames m ((w, ip + 1) :: fr)) (exec_builtin p e m bc).
  Proof.
    intros m w ip fr seg a bc Hfr Hseg Ha Hs Hcl.
    pose proof (fetch_eq p m w ip fr seg a Hfr Hseg Ha) as Hf.
    set (m2 := set_frames m ((w, ip + 1) :: fr)) in *.
    assert (Hs2 : shape_ok p e m2 = true) by exact Hs.
    destruct (shape_unpack _ _ _ Hs2) as [S1 [S2 [S3 [S4 S5]]]].
    unfold in_range, n_vars, n_ins, n_outs in Hcl.
    destruct Hcl as [Hb | [ [Hb Hr] | [ [Hb Hr] | [Hb Hr] ] ] ]; [subst bc| | |].
    - unfold exec_builtin, with_arg; codes. rewrite Hf. apply push_ds.
    - destruct Hb as [-> | [-> | ->]]; unfold exec_builtin, with_arg; codes; rewrite Hf.
      + destruct (m_stack m2) as [|v s]; [apply ds_err|].
        destruct (zupd (m_vars m2) a v) as [vs|] eqn:Eu; [|have_some Eu].
        cbn. eapply ds_trans; [apply (ds_stack p e m2 s)|]. eapply ds_vars. exact Eu.
      + destruct (m_stack m2) as [|v s]; [apply ds_err|].
        destruct (znth (m_vars m2) a) as [old|] eqn:Ez; [|have_some Ez].
        destruct (zupd (m_vars m2) a (wrap (p_w p) (old + v))) as [vs|] eqn:Eu; [|have_some Eu].
        cbn. eapply ds_trans; [apply (ds_stack p e m2 s)|]. eapply ds_vars. exact Eu.
      + destruct (can_push p m2); [|apply ds_err].
        destruct (znth (m_vars m2) a) as [old|] eqn:Ez; [|have_some Ez]. apply push_ds.
    - destruct Hb as [->|[->|[-> | [-> | ->]]]]; unfold exec_builtin, with_arg; codes; rewrite Hf.
      + destruct (can_push p m2); [|apply ds_err].
        destruct (znth (e_inputs e) a) as [data|] eqn:Ez; [|have_some Ez].
        destruct (znth (m_inpos m2) a) as [pos|] eqn:Ep; [|have_some Ep]. apply push_ds.
      + destruct (can_push p m2); [|apply ds_err].
        destruct (znth (m_inpos m2) a) as [pos|] eqn:Ep; [|have_some Ep]. apply push_ds.
      + destruct (can_push p m2); [|apply ds_err].
        destruct (znth (e_inputs e) a) as [data|] eqn:Ez; [|have_some Ez].
        destruct (znth (m_inpos m2) a) as [pos|] eqn:Ep; [|have_some Ep]. apply push_ds.
      + destruct (m_stack m2) as [|v s]; [apply ds_err|].
        destruct (znth (e_inputs e) a) as [data|] eqn:Ez; [|have_some Ez].
        cbn [m_inpos set_stack].
        destruct (znth (m_inpos m2) a) as [pos|] eqn:Ep; [|have_some Ep].
        destruct ((v <? 0) || (zlen data <? v)) eqn:Eb; [apply ds_stack_err|].
        destruct (zupd (m_inpos m2) a v) as [ipos|] eqn:Eu; [|have_some Eu].
        cbn. eapply ds_trans; [apply (ds_stack p e m2 s)|]. eapply (ds_inpos p e (set_stack m2 s)); [exact Eu|].
        apply orb_false_iff in Eb. lia.
      + destruct (m_stack m2) as [|v s]; [apply ds_err|].
        destruct (znth (e_inputs e) a) as [data|] eqn:Ez; [|have_some Ez].
        cbn [m_inpos set_stack].
        destruct (znth (m_inpos m2) a) as [pos|] eqn:Ep; [|have_some Ep].
        destruct ((pos + v <? 0) || (zlen data <? pos + v)) eqn:Eb; [apply ds_stack_err|].
        destruct (zupd (m_inpos m2) a (pos + v)) as [ipos|] eqn:Eu; [|have_some Eu].
        cbn. eapply ds_trans; [apply (ds_stack p e m2 s)|]. eapply (ds_inpos p e (set_stack m2 s)); [exact Eu|].
        apply orb_false_iff in Eb. lia.
    - assert (Hr' : in_range a (n_outs p) = true) by (unfold in_range, n_outs; lia).
      destruct Hb as [->|[->|[-> | [-> | ->]]]]; unfold exec_builtin, with_arg; codes; rewrite Hf.
      + destruct (m_stack m2) as [|v s]; [apply ds_err|].
        destruct (out_dtype_some p a Hr') as [d Hd]. rewrite Hd.
        pose proof (out_write_ds p e (set_stack m2 s) a [cast_out d v] Hs2 Hr') as G.
        destruct (out_write (set_stack m2 s) a [cast_out d v]); [|destruct G|destruct G].
        cbn. eapply ds_trans; [apply (ds_stack p e m2 s)|exact G].
      + destruct (m_stack m2) as [|v s]; [apply ds_err|].
        destruct (out_dtype_some p a Hr') as [d Hd]. rewrite Hd.
        eapply gres_trans; [apply (ds_stack p e m2 s)|]. apply out_apply_ds; assumption.
      + destruct (m_stack m2) as [|v s]; [apply ds_err|].
        eapply gres_trans; [apply (ds_stack p e m2 s)|]. apply out_apply_ds; assumption.
      + destruct (can_push p m2); [|apply ds_err].
        destruct (znth (m_outs m2) a) as [b|] eqn:Ez; [|have_some Ez]. apply push_ds.
      + destruct (m_stack m2) as [|v s]; [apply ds_err|].
        eapply gres_trans; [apply (ds_stack p e m2 s)|]. apply out_apply_ds; assumption.
  Qed.
End Data5.

(* ------------------------------------------------------------------ exec_read *)
(* the part of exec_read after the repeat count has been determined (verbatim from Forth.v) *)
Definition read_body (p : prog) (e : env) (bytecode inp n : Z) (m2 : machine) : step_result :=
  let flags := - bytecode - 1 in
  let bigendian := negb (Z.land flags READ_BIGENDIAN =? 0) in
  let is_direct := negb (Z.land flags READ_DIRECT =? 0) in
  let fmt := Z.land flags READ_MASK in
      if n <? 0 then stop m2 E_read_beyond else
      let with_bw : result (Z * machine) :=
        if fmt =? READ_NBIT then fetch p m2 else Ok (0, m2) in
      match with_bw with
      | Ok (bw, m3) =>
        let with_out : result (option Z * machine) :=
          if is_direct then match fetch p m3 with Ok (o, m4) => Ok (Some o, m4) | Fault k => Fault k | OutOfFuel => OutOfFuel end
          else Ok (None, m3) in
        match with_out with
        | Ok (direct, m4) =>
          if (fmt =? READ_VARINT) || (fmt =? READ_ZIGZAG) then
            let cnt := Z.min (Z.max n 0) (remaining_bytes e m4 inp + 1) in
            read_varints (fmt =? READ_ZIGZAG) p e (Z.to_nat cnt) m4 inp direct
          else if fmt =? READ_NBIT then
            if (bw <? 1) || (31 <? bw) then Fault F_nbit
            else if n =? 0 then continue m4
            else
              match input_read e m4 inp 1 with
              | Ok (Some [b], m5) =>
                read_nbits (Z.to_nat (32 * (Z.max 0 (remaining_bytes e m5 inp) + 2))) p e m5 inp direct bigendian
                           bw (2 ^ bw - 1) 8 0 n (if bigendian then bitswap b else b)
              | Ok (Some _, _) => Fault F_internal
              | Ok (None, m5) => stop m5 E_read_beyond
              | Fault k => Fault k
              | OutOfFuel => OutOfFuel
              end
          else
            match fixed_format fmt with
            | None => Fault F_internal
            | Some (size, signed) =>
              match input_read e m4 inp (n * size) with
              | Ok (None, m5) => stop m5 E_read_beyond
              | Ok (Some bs, m5) =>
                let items := chunks (length bs) (Z.to_nat size) bs in
                match direct with
                | Some o =>
                  match out_dtype p o with
                  | None => Fault F_internal
                  | Some d =>
                    let conv (it : list Z) :=
                      match d with
                      | DBool => if fmt =? READ_BOOL then decode size signed bigendian it
                                 else cast_out d (decode size signed bigendian it)
                      | _ => cast_out d (decode size signed bigendian it)
                      end in
                    match out_write m5 o (rev (map conv items)) with Ok m6 => continue m6 | _ => Fault F_internal end
                  end
                | None =>
                  let conv (it : list Z) := wrap (p_w p) (decode size signed bigendian it) in
                  push_items p m5 (map conv items)
                end
              | Fault k => Fault k
              | OutOfFuel => OutOfFuel
              end
            end
        | Fault k => Fault k
        | OutOfFuel => OutOfFuel
        end
      | Fault k => Fault k
      | OutOfFuel => OutOfFuel
      end.

Lemma exec_read_unfold : forall p e m0 bytecode,
  exec_read p e m0 bytecode =
  match fetch p m0 with
  | Ok (inp, m1) =>
    if negb (Z.land (- bytecode - 1) READ_REPEATED =? 0) then
      match m_stack m1 with
      | [] => stop m1 E_underflow
      | n :: s => read_body p e bytecode inp n (set_stack m1 s)
      end
    else read_body p e bytecode inp 1 m1
  | Fault k => Fault k
  | OutOfFuel => OutOfFuel
  end.
Proof.
  intros. unfold exec_read, read_body. cbv zeta. destruct (fetch p m0) as [[inp m1]|k|]; try reflexivity.
  destruct (negb (Z.land (- bytecode - 1) READ_REPEATED =? 0)); [destruct (m_stack m1)|]; reflexivity.
Qed.

Section Read.
  Variables (p : prog) (e : env).

  (* result of an instruction whose argument cells are consumed one by one: either the data step from the state with
     ip after the last argument, or an error stop somewhere in between *)
  Definition rres (m mfin : machine) (r : step_result) : Prop :=
    match r with
    | Ok (fl, m1) => m_targets m1 = m_targets m /\ (ds p e mfin m1 \/ (fl = Return /\ m_err m1 <> E_none))
    | Fault k => k = F_count
    | OutOfFuel => True
    end.

  Lemma rres_of_gres : forall m mfin r, m_targets mfin = m_targets m -> gres p e mfin r -> rres m mfin r.
  Proof.
    intros m mfin r Ht G. destruct r as [[fl m1]|k|]; cbn in *; auto.
    split; [destruct G as [_ [_ [G _]]]; congruence|left; assumption].
  Qed.

  Lemma read_body_rres : forall m w ip fr seg bc inp n,
    m_frames m = (w, ip) :: fr -> znth (p_segs p) w = Some seg -> shape_ok p e m = true ->
    in_range inp (n_ins p) = true ->
    let flags := - bc - 1 in
    let fmt := Z.land flags READ_MASK in
    let is_direct := negb (Z.land flags READ_DIRECT =? 0) in
    let nb := if fmt =? READ_NBIT then 1 else 0 in
    let nd := if is_direct then 1 else 0 in
    (if fmt =? READ_NBIT then cell_is seg ip (fun bw => (1 <=? bw) && (bw <=? 31)) else true) = true ->
    (if is_direct then cell_is seg (ip + nb) (fun o => in_range o (n_outs p)) else true) = true ->
    ((fmt =? READ_VARINT) || (fmt =? READ_ZIGZAG) || (fmt =? READ_NBIT) ||
     match fixed_format fmt with Some _ => true | None => false end) = true ->
    rres m (set_frames m ((w, ip + nb + nd) :: fr)) (read_body p e bc inp n m).
  Proof.
    intros m w ip fr seg bc inp n Hfr Hseg Hs Hinp flags fmt is_direct nb nd Hbw Hout Hfmt.
    unfold read_body. fold flags. fold fmt. fold is_direct. cbv zeta.
    destruct (n <? 0); [cbn; split; [reflexivity|right; split; [reflexivity|discriminate]]|].
    (* the bit width *)
    assert (Hstep1 : exists bw m3, (if fmt =? READ_NBIT then fetch p m else Ok (0, m)) = Ok (bw, m3) /\
                                   m3 = set_frames m ((w, ip + nb) :: fr) /\
                                   (fmt =? READ_NBIT = true -> 1 <= bw <= 31)).
    { subst nb. destruct (fmt =? READ_NBIT) eqn:En.
      - unfold cell_is in Hbw. destruct (znth seg ip) as [bw|] eqn:Eb; [|discriminate].
        exists bw, (set_frames m ((w, ip + 1) :: fr)). split; [eapply fetch_eq; eassumption|]. split; [reflexivity|]. lia.
      - exists 0, m. split; [reflexivity|]. split; [|discriminate].
        destruct m; cbn in *. subst. rewrite Z.add_0_r. reflexivity. }
    destruct Hstep1 as [bw [m3 [E1 [Hm3 Hbwr]]]]. rewrite E1.
    assert (Hfr3 : m_frames m3 = (w, ip + nb) :: fr) by (subst m3; reflexivity).
    assert (Hstep2 : exists direct m4,
               (if is_direct then match fetch p m3 with Ok (o, m4) => Ok (Some o, m4) | Fault k => Fault k | OutOfFuel => OutOfFuel end
                else Ok (None, m3)) = Ok (direct, m4) /\
               m4 = set_frames m ((w, ip + nb + nd) :: fr) /\ direct_ok p direct).
    { subst nd. destruct is_direct.
      - unfold cell_is in Hout. destruct (znth seg (ip + nb)) as [o|] eqn:Eo; [|discriminate].
        exists (Some o), (set_frames m ((w, ip + nb + 1) :: fr)).
        rewrite (fetch_eq p m3 w (ip + nb) fr seg o Hfr3 Hseg Eo). split; [subst m3; reflexivity|].
        split; [reflexivity|]. intros o' Ho'. inv Ho'. assumption.
      - exists None, m3. split; [reflexivity|]. split; [subst m3; rewrite Z.add_0_r; reflexivity|]. intros o' Ho'. discriminate. }
    destruct Hstep2 as [direct [m4 [E2 [Hm4 Hdir]]]]. rewrite E2. clear E1 E2.
    assert (Hs4 : shape_ok p e m4 = true) by (subst m4; exact Hs).
    assert (Ht4 : m_targets m4 = m_targets m) by (subst m4; reflexivity).
    rewrite <- Hm4.
    destruct ((fmt =? READ_VARINT) || (fmt =? READ_ZIGZAG)) eqn:Ev.
    { apply rres_of_gres; [assumption|]. apply read_varints_ds; assumption. }
    destruct (fmt =? READ_NBIT) eqn:En.
    { specialize (Hbwr eq_refl). replace ((bw <? 1) || (31 <? bw)) with false by lia.
      destruct (n =? 0); [apply rres_of_gres; [assumption|apply ds_refl]|].
      pose proof (input_read_ds p e m4 inp 1 Hs4 Hinp) as G.
      destruct (input_read e m4 inp 1) as [[[bs|] m5]|k|]; [| |assumption|destruct G].
      - destruct G as [G1 G2]. destruct (G2 eq_refl bs eq_refl) as [b ->].
        apply rres_of_gres; [assumption|]. eapply gres_trans; [eassumption|].
        apply read_nbits_ds; try assumption. eapply ds_shape; eassumption.
      - destruct G as [G1 _]. apply rres_of_gres; [assumption|]. cbn. eapply ds_trans; [eassumption|apply ds_err]. }
    destruct (fixed_format fmt) as [[size signed]|]; [|exfalso; clear - Hfmt Ev En; lia].
    pose proof (input_read_ds p e m4 inp (n * size) Hs4 Hinp) as G.
    destruct (input_read e m4 inp (n * size)) as [[[bs|] m5]|k|]; [| |assumption|destruct G].
    - destruct G as [G1 _]. apply rres_of_gres; [assumption|]. destruct direct as [o|].
      + specialize (Hdir o eq_refl). destruct (out_dtype_some p o Hdir) as [d Hd]. rewrite Hd.
        match goal with |- context [out_write m5 o ?vs] =>
          pose proof (out_write_ds p e m5 o vs (ds_shape _ _ _ _ G1 Hs4) Hdir) as G2;
          destruct (out_write m5 o vs); [|destruct G2|destruct G2] end.
        cbn. eapply ds_trans; eassumption.
      + eapply gres_trans; [eassumption|]. apply push_items_ds.
    - destruct G as [G1 _]. apply rres_of_gres; [assumption|]. cbn. eapply ds_trans; [eassumption|apply ds_err].
  Qed.
End Read.
