"""C06: sort / argsort order every list along the axis without moving data between lists."""
import common as C
import gen as G

THEOREMS = ['sort_result', 'sort_permutation', 'sort_sorted', 'sort_stable', 'nan_first_both_directions',
            'cmp_strict_weak_order', 'sort_refines_spec_partial', 'sort_modelled_on_innermost_axis',
            'last_axis_is_innermost', 'sort_refines_spec_innermost_axis', 'sort_refines_spec_axis_minus_one',
            'sort_model_reads_and_writes_keys', 'sort_model_preserves_lengths', 'sort_model_no_cross_list_movement',
            'str_cmp_irrefl', 'str_cmp_trans', 'str_cmp_total', 'str_cmp_lexicographic', 'str_cmp_ignores_flags',
            'str_cmp_direction', 'str_cmp_strict_weak_order', 'sort_result_strings', 'strings_sort_as_units',
            'sort_strings_equiv_is_same_bytes', 'sort_strings_ascending', 'sort_strings_descending',
            'str_prefix_before_extension', 'sort_leaves_length', 'sortcols_ids', 'sortcols_rows', 'sortcols_columns',
            'sortcols_columns_nonempty', 'sortcols_columns_empty', 'enumv_NoDup', 'sortcols_shape_partial',
            'sort_spec_preserves_lengths_partial', 'no_cross_list_movement', 'sort_spec_no_cross_list_movement',
            'argsort_realises_sort', 'argsort_positions', 'argsort_realises_sort_cols']
RULE = ('value-first random layouts (numeric incl. NaN/inf floats, bool, strings; options at leaf and list level) x '
        '(sort | argsort) x axis x ascending x stable; argsort is run with stable=True (an unstable argsort is checked '
        'only through sort). non-trivial = some list along the axis has >= 2 elements; distinct by case text')
ASSUMPTIONS = ['the layout-level model covers the innermost axis; for other axes the implementation is compared with the '
               'value-level specification only (verdict agree ... nomodel, counted)',
               'records and unions are outside the specification (the library refuses or treats fields separately)']
LEAVES = ['int64'] * 3 + ['float64'] * 3 + ['bool', 'int8', 'uint8', 'int32', 'uint16', 'float32', 'uint64']


def cases(rng, tier):
    n = 15000 if tier == 'quick' else 300000
    out = []
    for i in range(n):
        a = G.gen_array(rng, depth=rng.choice([1, 2, 2, 3, 3]), canonical_too=False,
                        type_kw=dict(allow_union=False, allow_rec=False, leaf_dtypes=LEAVES),
                        enc_kw=dict(strided=0.15, weird_empty=0.05))
        t = a['type']
        op = rng.choice(['sort', 'argsort'])
        mn, mx = G.list_depth(t)
        r = rng.random()
        strs = G.has_kind(t, 'str')
        if r < 0.6 or (strs and r < 0.9):
            axis = -1            # strings can only be sorted with axis=-1
        elif r < 0.9:
            axis = rng.randint(0, mx - 1)
        else:
            axis = rng.choice(([mx] if not strs else []) + [-mx - 1, -mx - 2])
        asc = rng.choice([0, 1])
        stable = 1 if op == 'argsort' else rng.choice([0, 1])
        tags = dict(op=op, axis=axis, asc=asc, stable=stable, innermost=bool(axis == -1 or axis == mx - 1))
        out.append(C.Case('c%d' % i, op, [str(axis), str(asc), str(stable)], [G.sx(a['layout'])],
                          dict(nontrivial=True, tags=tags, type=t)))
    return out


def _optlist_under_list(t, under=False):
    if t[0] == 'list':
        return _optlist_under_list(t[1], True)
    if t[0] == 'opt':
        if t[1][0] == 'list' and under:
            return True
        return _optlist_under_list(t[1], under)
    return False


def _opt_of_str(t):
    if t[0] == 'opt':
        return t[1][0] == 'str' or _opt_of_str(t[1])
    if t[0] == 'list':
        return _opt_of_str(t[1])
    return False


def _optlist_anywhere(t):
    if t[0] == 'opt':
        return t[1][0] == 'list' or _optlist_anywhere(t[1])
    if t[0] == 'list':
        return _optlist_anywhere(t[1])
    return False


def signature(c, impl, v):
    tg = c.meta.get('tags', {})
    t = c.meta.get('type')
    if t is not None:
        if tg.get('op') == 'argsort' and not tg.get('innermost') and not v.startswith('viol closure'):
            return 'argsort-nonlocal-positions'
        if tg.get('op') == 'argsort' and _opt_of_str(t):
            return 'argsort-option-strings-positions'
        if _optlist_under_list(t) or (not tg.get('innermost') and _optlist_anywhere(t)):
            return 'sort-option-lists-above-axis'
    lay = c.layouts[0]
    if (lay.startswith('(par string') or lay.startswith('(par bytestring')) and \
            impl in ('ok (par char none (np uint8 (0) ()))', 'ok (par byte none (np uint8 (0) ()))'):
        return 'sort-empty-string-array'
    return None
