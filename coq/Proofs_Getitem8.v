(** Slicing, part 8: a field item commutes with the positional items in front of it, at the layout level:
    slicing [pre ++ IField k :: post] gives the same observable result as projecting the field first
    and slicing [pre ++ post]. *)
From Coq Require Import ZArith List Bool Lia ZifyBool.
From AwkV Require Import Base Layout LayoutInd Valid Types AtAxis Carry Ops_Getitem Typing Proofs_Typing
                         Proofs_Lists Proofs_ToList Proofs_Carry Proofs_CarryValid Proofs_AtAxis Proofs_AtAxisOps
                         Proofs_C01 Proofs_Getitem Proofs_Getitem2 Proofs_Getitem3 Proofs_Getitem4 Proofs_Getitem5
                         Proofs_Getitem6 Proofs_Getitem7.
Import ListNotations.
Open Scope Z_scope.
Ltac Zify.zify_post_hook ::= Z.to_euclidean_division_equations.

(* ---------------------------------------------------------------- layouts with the same value and type *)
Definition same_value (c1 c2 : content) : Prop :=
  Valid None c1 /\ Valid None c2 /\ gfrag c1 = true /\ gfrag c2 = true /\
  (exists xs, to_list c1 = Ok xs /\ to_list c2 = Ok xs) /\ type_of c1 = type_of c2.

Lemma R_R_obs n m1 m2 s : R n m1 s -> R n m2 s -> obs m1 = obs m2.
Proof.
  destruct m1 as [c1|e1], m2 as [c2|e2]; cbn [R obs].
  - intros (t1 & ws1 & -> & _ & Hl1 & _) (t2 & ws2 & E & _ & Hl2 & _). inversion E; subst. congruence.
  - intros (t1 & ws1 & -> & _) [_ E]. discriminate.
  - intros [_ ->] (t2 & ws2 & E & _). discriminate.
  - intros [-> _] [-> _]. reflexivity.
Qed.

(* slicing does not distinguish them (any sufficient fuels) *)
Lemma slice_same_value D items c1 c2 f1 f2 :
  forallb item_ok items = true -> same_value c1 c2 ->
  sc items (type_of c1) = true -> tdepth (type_of c1) <= Z.of_nat D ->
  (cost_m D items <= f1)%nat -> (cost_m D items <= f2)%nat ->
  obs (gn f1 c1 items None) = obs (gn f2 c2 items None).
Proof.
  intros Hb (HV1 & HV2 & Hf1 & Hf2 & (xs & Hl1 & Hl2) & Hty) Hsc Hd Hc1 Hc2.
  destruct (gn_refines_sg D items Hb) as [He _].
  apply (R_R_obs (zlen xs) _ _ (se_ (cost_s D items) (type_of c1) xs items None)).
  - apply He; try assumption; try lia. apply ow_refl.
  - apply He; try assumption; try lia. rewrite Hty. apply ow_refl.
Qed.

(* ---------------------------------------------------------------- projecting a field and gathering commute *)
Lemma field_carry k cc fcc vs0 ks nc nc' :
  Valid None cc -> gfrag cc = true -> to_list cc = Ok vs0 -> field_content k cc = Ok fcc ->
  Forall (fun i => 0 <= i < clen cc) ks -> carry cc ks = Ok nc -> carry fcc ks = Ok nc' ->
  exists fnc, field_content k nc = Ok fnc /\ same_value fnc nc'.
Proof.
  intros HV Hfr Hl Hfc Hks Hnc Hnc'.
  pose proof (field_content_spec k cc vs0 HV Hfr Hl) as H. unfold FCres in H. rewrite Hfc in H.
  destruct H as (Hty & (ys0 & Hys0 & Hlf) & HVf & Hff).
  destruct (carry_spec cc vs0 ks HV Hl Hks) as (nc0 & E & Hlnc & _). rewrite Hnc in E. inversion E; subst nc0.
  assert (HVnc : Valid None nc) by (apply (carry_valid cc vs0 ks nc HV Hl Hks Hnc)).
  assert (Hfnc : gfrag nc = true) by (rewrite (carry_gfrag _ _ _ Hnc); exact Hfr).
  assert (Hks' : Forall (fun i => 0 <= i < clen fcc) ks).
  { rewrite <- (to_list_len _ _ Hlf), (mapM_zlen _ _ _ Hys0), (to_list_len _ _ Hl). exact Hks. }
  destruct (carry_spec fcc ys0 ks HVf Hlf Hks') as (nc0 & E' & Hlnc' & _). rewrite Hnc' in E'. inversion E'; subst nc0.
  destruct (gather_ok vs0 ks) as [xs' Hxs']; [rewrite (to_list_len _ _ Hl); exact Hks|]. rewrite Hxs' in Hlnc.
  pose proof (field_content_spec k nc xs' HVnc Hfnc Hlnc) as H. unfold FCres in H.
  rewrite (carry_type_of _ _ _ Hnc), Hty in H.
  destruct (field_content k nc) as [fnc|e]; [|destruct H; discriminate].
  destruct H as (Hty2 & (ys' & Hys' & Hlfn) & HVfn & Hffn). exists fnc. split; [reflexivity|].
  repeat split; try assumption.
  - apply (carry_valid fcc ys0 ks nc' HVf Hlf Hks' Hnc').
  - rewrite (carry_gfrag _ _ _ Hnc'). exact Hff.
  - exists ys'. split; [exact Hlfn|]. rewrite Hlnc'.
    rewrite (mapM_gather _ _ _ ks Hys0), Hxs'. cbn [bind]. exact Hys'.
  - inversion Hty2. rewrite (carry_type_of _ _ _ Hnc'). reflexivity.
Qed.

(* ---------------------------------------------------------------- the structure of a projected layout *)
Lemma field_lnode k c fc bs cc :
  lnode c = true -> list_bounds c = Ok (bs, cc) -> field_content k c = Ok fc ->
  exists fcc, field_content k cc = Ok fcc /\ lnode fc = true /\ rsize fc = rsize c /\
              (clen fcc = clen cc -> list_bounds fc = Ok (bs, fcc)).
Proof.
  intros Hn Hb Hf. destruct c; try discriminate; cbn [list_bounds field_content] in *.
  - destruct offsets as [|o0 o']; [discriminate|]. inversion Hb; subst. apply rmap_Ok in Hf as (fcc & Hfcc & ->).
    exists fcc. repeat split; auto.
  - destruct (zlen stops <? zlen starts) eqn:E; [discriminate|]. inversion Hb; subst. apply rmap_Ok in Hf as (fcc & Hfcc & ->).
    exists fcc. repeat split; auto. intros _. cbn [list_bounds]. rewrite E. reflexivity.
  - destruct (size <? 0) eqn:E; [discriminate|]. inversion Hb; subst. apply rmap_Ok in Hf as (fcc & Hfcc & ->).
    exists fcc. repeat split; auto. intros Hc. cbn [list_bounds]. rewrite E, Hc. reflexivity.
Qed.

Lemma field_opt k c fc ix :
  is_opt c = true -> option_index c = Ok (ix, opt_content c) -> field_content k c = Ok fc ->
  exists fcc, field_content k (opt_content c) = Ok fcc /\ is_opt fc = true /\ opt_content fc = fcc /\
              (clen fcc = clen (opt_content c) -> option_index fc = Ok (ix, fcc)).
Proof.
  intros Ho Hi Hf. destruct c; try discriminate; cbn [opt_content field_content option_index] in *;
    apply rmap_Ok in Hf as (fcc & Hfcc & ->); exists fcc; cbn [is_opt opt_content option_index]; repeat split; auto.
  - inversion Hi; subst. reflexivity.
  - inversion Hi; subst. reflexivity.
  - intros _. apply bind_Ok in Hi as (ix0 & Hix0 & Hi). inversion Hi; subst. rewrite Hix0. reflexivity.
  - intros Hc. inversion Hi; subst. rewrite Hc. reflexivity.
Qed.

(* the result constructors see their argument only through its value *)
Lemma obs_bind_K (K : content -> content) (G : res (list value) -> res (list value)) m :
  (forall r, to_list (K r) = G (to_list r)) -> (forall e, G (Err e) = Err e) ->
  obs (do r <- m; Ok (K r)) = G (obs m).
Proof. intros HK HG. destruct m as [r|e]; cbn [bind obs]; [apply HK|symmetry; apply HG]. Qed.
Lemma obs_ListOffset offs m :
  obs (do r <- m; Ok (ListOffset I64 offs r)) = (do ws <- obs m; rmap (map VList) (cut ws offs)).
Proof. apply (obs_bind_K _ (fun x => do ws <- x; rmap (map VList) (cut ws offs))); reflexivity. Qed.
Lemma obs_IndexedOption oix m :
  obs (do r <- m; Ok (IndexedOption I64 oix r)) = (do vs <- obs m; mapM (fun i => pick_opt vs (0 <=? i) i) oix).
Proof. apply (obs_bind_K _ (fun x => do vs <- x; mapM (fun i => pick_opt vs (0 <=? i) i) oix)); reflexivity. Qed.

(* layout independence of one positional item followed by anything, with the exact fuel *)
Lemma slice_same_value_pos D h rest c1 c2 f1 f2 :
  basic_item h = true -> forallb item_ok rest = true -> same_value c1 c2 ->
  sc (h :: rest) (type_of c1) = true -> tdepth (type_of c1) <= Z.of_nat D ->
  (wd c1 + 1 + cost_m D rest <= f1)%nat -> (wd c2 + 1 + cost_m D rest <= f2)%nat ->
  obs (gn f1 c1 (h :: rest) None) = obs (gn f2 c2 (h :: rest) None).
Proof.
  intros Hh Hb (HV1 & HV2 & Hf1 & Hf2 & (xs & Hl1 & Hl2) & Hty) Hsc Hd Hc1 Hc2.
  destruct (gn_refines_sg D rest Hb) as [He _].
  assert (Hp : positional h = true) by (destruct h; try discriminate; reflexivity).
  destruct (sc_positional h rest _ Hp Hh Hsc) as [Hrec HQ].
  pose proof (items_no_array rest Hb) as Hna.
  apply (R_R_obs (zlen xs) _ _ (se_ (1 + cost_s D rest) (type_of c1) xs (h :: rest) None)).
  - apply (positional_step h rest Hh Hna _ _ _ (fun t => sc rest t = true) He (wd c1)); try assumption; try lia. apply ow_refl.
  - apply (positional_step h rest Hh Hna _ _ _ (fun t => sc rest t = true) He (wd c2)); try assumption; try lia.
    rewrite Hty. apply ow_refl.
Qed.

(* ---------------------------------------------------------------- the side condition and the projection *)
Lemma proj_ty_ok_cases k T T' : proj_ty k T = Ok T' ->
  (exists sz t, so_ty T = TList sz None t) \/ (exists ks ts, so_ty T = TRec ks ts).
Proof.
  revert T'. induction T; intros T' H; cbn [proj_ty so_ty] in *; try discriminate; eauto.
  - destruct str; [discriminate|]. eauto.
  - apply rmap_Ok in H as (? & H & _). eapply IHT, H.
Qed.
Lemma sc_commute k post : forall pre T T',
  forallb basic_item pre = true -> sc (pre ++ IField k :: post) T = true -> proj_ty k T = Ok T' ->
  sc (pre ++ post) T' = true.
Proof.
  induction pre as [|h pre IH]; intros T T' Hb Hsc Hp.
  - cbn [app sc] in *. rewrite Hp in Hsc. exact Hsc.
  - cbn [forallb] in Hb. apply andb_true_iff in Hb as [Hh Hb].
    destruct (proj_ty_ok_cases k T T' Hp) as [(sz & t & Hs)|(ks & ts & Hs)].
    + pose proof (proj_ty_list k T sz t Hs) as Hl. destruct (proj_ty k t) as [t'|e] eqn:Et; [|congruence].
      destruct Hl as (U' & HU' & Hs'). rewrite Hp in HU'. inversion HU'; subst U'.
      destruct h; try discriminate; cbn [app sc] in *; rewrite Hs in Hsc; rewrite Hs'; eapply IH; eassumption.
    + destruct h; try discriminate; cbn [app sc] in Hsc; rewrite Hs in Hsc; discriminate.
Qed.

Lemma items_ok_app pre post : forallb basic_item pre = true -> forallb item_ok post = true -> forallb item_ok (pre ++ post) = true.
Proof.
  intros Hp Hq. rewrite forallb_app, Hq, andb_true_r. clear Hq. induction pre as [|h pre IH]; [reflexivity|].
  cbn [forallb] in *. apply andb_true_iff in Hp as [Hh Hp]. rewrite (IH Hp), andb_true_r. destruct h; try discriminate; reflexivity.
Qed.

(* ---------------------------------------------------------------- the commutation *)
Section Commute.
  Variables (k : name) (post : list item) (D : nat).
  Hypothesis Hpost : forallb item_ok post = true.

  Definition CMp (pre : list item) : Prop :=
    forall c fc xs f1 f2,
      Valid None c -> gfrag c = true -> to_list c = Ok xs -> field_content k c = Ok fc ->
      sc (pre ++ IField k :: post) (type_of c) = true -> tdepth (type_of c) <= Z.of_nat D ->
      (cost_m D (pre ++ IField k :: post) <= f1)%nat -> (cost_m D (pre ++ post) <= f2)%nat ->
      obs (gn f1 c (pre ++ IField k :: post) None) = obs (gn f2 fc (pre ++ post) None).

  (* what [field_content_spec] says when the field exists *)
  Lemma fc_facts c fc xs :
    Valid None c -> gfrag c = true -> to_list c = Ok xs -> field_content k c = Ok fc ->
    proj_ty k (type_of c) = Ok (type_of fc) /\ Valid None fc /\ gfrag fc = true /\
    (exists ys, to_list fc = Ok ys /\ zlen ys = zlen xs) /\ clen fc = clen c /\
    tdepth (type_of fc) <= tdepth (type_of c).
  Proof.
    intros HV Hfr Hl Hfc. pose proof (field_content_spec k c xs HV Hfr Hl) as H. unfold FCres in H. rewrite Hfc in H.
    destruct H as (Hty & (ys & Hys & Hlf) & HVf & Hff). repeat split; try assumption.
    - exists ys. split; [exact Hlf|apply (mapM_zlen _ _ _ Hys)].
    - rewrite <- (to_list_len _ _ Hlf), <- (to_list_len _ _ Hl). apply (mapM_zlen _ _ _ Hys).
    - apply (proj_ty_depth k _ _ Hty).
  Qed.

  Lemma CM_nil : CMp [].
  Proof.
    intros c fc xs f1 f2 HV Hfr Hl Hfc Hsc Hd Hf1 Hf2. cbn [app] in *.
    destruct (fc_facts c fc xs HV Hfr Hl Hfc) as (Hty & HVf & Hff & (ys & Hlf & _) & _ & Hdf).
    cbn [cost_m wm] in Hf1. destruct f1 as [|f1]; [lia|].
    rewrite gn_IField by (apply gfrag_not_nd, Hfr). rewrite Hfc. cbn [bind].
    apply (slice_same_value D post fc fc); try assumption; try lia.
    - repeat split; try assumption. eauto.
    - cbn [sc] in Hsc. rewrite Hty in Hsc. exact Hsc.
  Qed.

  Section Step.
    Variables (h : item) (pre' : list item).
    Hypothesis Hh : basic_item h = true.
    Hypothesis Hpre : forallb basic_item pre' = true.
    Hypothesis IH : CMp pre'.
    Let rest1 := pre' ++ IField k :: post.
    Let rest2 := pre' ++ post.
    Let Hok1 : forallb item_ok rest1 = true.
    Proof. apply items_ok_app; [exact Hpre|]. cbn [forallb]. rewrite Hpost. reflexivity. Qed.
    Let Hok2 : forallb item_ok rest2 = true.
    Proof. apply items_ok_app; assumption. Qed.
    Let Hpos : positional h = true.
    Proof. destruct h; try discriminate; reflexivity. Qed.

    (* the two computations after the same gather of the content *)
    Lemma after_gather cc fcc vs0 ks nc nc' f1 f2 :
      Valid None cc -> gfrag cc = true -> to_list cc = Ok vs0 -> field_content k cc = Ok fcc ->
      Forall (fun i => 0 <= i < clen cc) ks -> carry cc ks = Ok nc -> carry fcc ks = Ok nc' ->
      sc rest1 (type_of cc) = true -> tdepth (type_of cc) <= Z.of_nat D ->
      (cost_m D rest1 <= f1)%nat -> (cost_m D rest2 <= f2)%nat ->
      obs (gn f1 nc rest1 None) = obs (gn f2 nc' rest2 None).
    Proof.
      intros HV Hfr Hl Hfc Hks Hnc Hnc' Hsc Hd Hf1 Hf2. unfold rest1, rest2 in *.
      destruct (field_carry k cc fcc vs0 ks nc nc' HV Hfr Hl Hfc Hks Hnc Hnc') as (fnc & Hfnc & Hsame).
      destruct (carry_spec cc vs0 ks HV Hl Hks) as (nc0 & E & Hlnc & _). rewrite Hnc in E. inversion E; subst nc0.
      destruct (gather_ok vs0 ks) as [xs' Hxs']; [rewrite (to_list_len _ _ Hl); exact Hks|]. rewrite Hxs' in Hlnc.
      assert (HVnc : Valid None nc) by (apply (carry_valid cc vs0 ks nc HV Hl Hks Hnc)).
      assert (Hfrnc : gfrag nc = true) by (rewrite (carry_gfrag _ _ _ Hnc); exact Hfr).
      pose proof (carry_type_of _ _ _ Hnc) as Htnc.
      destruct (fc_facts nc fnc xs' HVnc Hfrnc Hlnc Hfnc) as (Hty & _ & _ & _ & _ & Hdf).
      rewrite (IH nc fnc xs' f1 (cost_m D (pre' ++ post))); try assumption; try (rewrite Htnc; assumption); try lia.
      apply (slice_same_value D (pre' ++ post) fnc nc'); try assumption; try lia.
      - eapply (sc_commute k post pre'); [exact Hpre| |exact Hty]. rewrite Htnc. exact Hsc.
      - rewrite Htnc in Hdf. lia.
    Qed.

    (* the same for a node that is unwrapped before the item applies *)
    Lemma after_unwrap cc fcc vs0 ks p p' f1 f2
      (IHp : forall fp xs' g1 g2, Valid None p -> gfrag p = true -> to_list p = Ok xs' -> field_content k p = Ok fp ->
               (wd p + 1 + cost_m D rest1 <= g1)%nat -> (wd fp + 1 + cost_m D rest2 <= g2)%nat ->
               obs (gn g1 p (h :: rest1) None) = obs (gn g2 fp (h :: rest2) None)) :
      Valid None cc -> gfrag cc = true -> to_list cc = Ok vs0 -> field_content k cc = Ok fcc ->
      Forall (fun i => 0 <= i < clen cc) ks -> carry cc ks = Ok p -> carry fcc ks = Ok p' ->
      sc (h :: rest1) (type_of cc) = true -> tdepth (type_of cc) <= Z.of_nat D ->
      (wd cc + 1 + cost_m D rest1 <= f1)%nat -> (wd fcc + 1 + cost_m D rest2 <= f2)%nat ->
      obs (gn f1 p (h :: rest1) None) = obs (gn f2 p' (h :: rest2) None).
    Proof.
      intros HV Hfr Hl Hfc Hks Hp Hp' Hsc Hd Hf1 Hf2. unfold rest1, rest2 in *.
      destruct (field_carry k cc fcc vs0 ks p p' HV Hfr Hl Hfc Hks Hp Hp') as (fp & Hfp & Hsame).
      destruct (carry_spec cc vs0 ks HV Hl Hks) as (p0 & E & Hlp & _). rewrite Hp in E. inversion E; subst p0.
      destruct (gather_ok vs0 ks) as [xs' Hxs']; [rewrite (to_list_len _ _ Hl); exact Hks|]. rewrite Hxs' in Hlp.
      assert (HVp : Valid None p) by (apply (carry_valid cc vs0 ks p HV Hl Hks Hp)).
      assert (Hfrp : gfrag p = true) by (rewrite (carry_gfrag _ _ _ Hp); exact Hfr).
      pose proof (carry_type_of _ _ _ Hp) as Htp.
      destruct (fc_facts p fp xs' HVp Hfrp Hlp Hfp) as (Hty & _ & _ & _ & _ & Hdf).
      rewrite (IHp fp xs' f1 (wd fp + 1 + cost_m D (pre' ++ post))%nat); try assumption; try lia.
      2:{ rewrite (carry_wd _ _ _ Hp). exact Hf1. }
      apply (slice_same_value_pos D h (pre' ++ post) fp p'); try assumption; try lia.
      - apply (sc_commute k post (h :: pre') (type_of p) (type_of fp)); [cbn [forallb]; rewrite Hh, Hpre; reflexivity| |exact Hty].
        rewrite Htp. exact Hsc.
      - rewrite Htp in Hdf. lia.
      - rewrite (carry_wd _ _ _ Hp'). exact Hf2.
    Qed.

    Lemma CM_inner : forall kk c fc xs f1 f2,
      (wd c <= kk)%nat ->
      Valid None c -> gfrag c = true -> to_list c = Ok xs -> field_content k c = Ok fc ->
      sc (h :: rest1) (type_of c) = true -> tdepth (type_of c) <= Z.of_nat D ->
      (kk + 1 + cost_m D rest1 <= f1)%nat -> (wd fc + 1 + cost_m D rest2 <= f2)%nat ->
      obs (gn f1 c (h :: rest1) None) = obs (gn f2 fc (h :: rest2) None).
    Proof.
      induction kk as [kk IHkk] using lt_wf_ind. intros c fc xs f1 f2 Hw HV Hfr Hl Hfc Hsc Hd Hf1 Hf2.
      destruct f1 as [|f1]; [lia|]. destruct f2 as [|f2]; [lia|].
      destruct (sc_positional h rest1 _ Hpos Hh Hsc) as [Hrec HQ].
      destruct (lnode c) eqn:Hn.
      - (* list node *)
        destruct (lnode_view c xs HV Hn Hl) as (bs & cc & vs0 & ls & Hb & HVc & Hl0 & Hcut & -> & Hty).
        pose proof (gfrag_list_content c bs cc Hfr Hn Hb) as Hfrc.
        destruct (field_lnode k c fc bs cc Hn Hb Hfc) as (fcc & Hfcc & Hnf & Hrs & Hbf).
        destruct (fc_facts cc fcc vs0 HVc Hfrc Hl0 Hfcc) as (_ & HVfc & _ & (ys0 & Hlf0 & Hzy) & Hclen & _).
        specialize (Hbf Hclen).
        assert (Hwf : wd fc = O) by (destruct fc; try discriminate; reflexivity).
        assert (Hscc : sc rest1 (type_of cc) = true) by (apply (HQ (rsize c)); rewrite Hty; reflexivity).
        assert (Hdc : tdepth (type_of cc) <= Z.of_nat D).
        { rewrite Hty in Hd. rewrite (tdepth_list' (TList (rsize c) None (type_of cc)) (rsize c) (type_of cc) eq_refl) in Hd. lia. }
        destruct h; try discriminate.
        + rewrite !gn_list_IAt by assumption. rewrite Hb, Hbf, Hrs. cbn [bind fst snd].
          destruct (szchk (rsize c) i) as [[]|e]; cbn [bind]; [|reflexivity].
          fold (at_model i). destruct (mapM (at_model i) bs) as [ks|e] eqn:Hks; cbn [bind]; [|reflexivity].
          destruct (at_step vs0 bs ls i Hcut) as [_ Hr]. specialize (Hr ks Hks).
          assert (Hks' : Forall (fun j => 0 <= j < clen cc) ks) by (rewrite <- (to_list_len _ _ Hl0); exact Hr).
          destruct (carry_spec cc vs0 ks HVc Hl0 Hks') as (nc & Hnc & _).
          destruct (carry_spec fcc ys0 ks HVfc Hlf0) as (nc' & Hnc' & _); [rewrite Hclen; exact Hks'|].
          rewrite Hnc, Hnc'. cbn [bind].
          apply (after_gather cc fcc vs0 ks nc nc'); try assumption; try lia.
        + rewrite !gn_list_IRange by assumption. rewrite Hb, Hbf. cbn [bind fst snd]. cbv zeta.
          destruct (stepof step =? 0) eqn:Es; [reflexivity|].
          change (map (fun ab : Z * Z => map (fun j => fst ab + j) (py_indices (snd ab - fst ab) start stop (stepof step))) bs)
            with (map (rng_model start stop (stepof step)) bs).
          destruct (rng_step vs0 bs ls start stop (stepof step) ltac:(lia) Hcut) as (pk & _ & _ & Hrange & _).
          set (pm := map (rng_model start stop (stepof step)) bs) in *.
          assert (Hks' : Forall (fun j => 0 <= j < clen cc) (concat pm)) by (rewrite <- (to_list_len _ _ Hl0); exact Hrange).
          destruct (carry_spec cc vs0 (concat pm) HVc Hl0 Hks') as (nc & Hnc & _).
          destruct (carry_spec fcc ys0 (concat pm) HVfc Hlf0) as (nc' & Hnc' & _); [rewrite Hclen; exact Hks'|].
          rewrite Hnc, Hnc'. cbn [bind adv_range]. rewrite !obs_ListOffset. f_equal.
          apply (after_gather cc fcc vs0 (concat pm) nc nc'); try assumption; try lia.
      - (* wrappers *)
        destruct (is_opt c) eqn:Ho.
        { (* option node *)
          destruct (option_view c xs HV Ho Hl) as (ix & vs0 & Hoi & HVc & Hno & Hl0 & Hpick & Hty).
          assert (Hfrc : gfrag (opt_content c) = true).
          { destruct c; try discriminate; cbn [gfrag] in Hfr; apply andb_true_iff in Hfr as [_ Hfr]; exact Hfr. }
          destruct (field_opt k c fc ix Ho Hoi Hfc) as (fcc & Hfcc & Hof & Hocf & Hoif).
          destruct (fc_facts (opt_content c) fcc vs0 HVc Hfrc Hl0 Hfcc) as (_ & HVfc & _ & (ys0 & Hlf0 & Hzy) & Hclen & _).
          specialize (Hoif Hclen).
          rewrite !gn_option by assumption. rewrite Hoi, Hoif, Hocf. cbn [bind fst adv_present].
          destruct (pick_present vs0 ix xs Hpick) as (ys & Hys & _).
          pose proof (gather_range_inv _ _ _ Hys) as Hrange. rewrite (to_list_len _ _ Hl0) in Hrange.
          destruct (carry_spec (opt_content c) vs0 (filter (fun i => 0 <=? i) ix) HVc Hl0 Hrange) as (p & Hp & _).
          destruct (carry_spec fcc ys0 (filter (fun i => 0 <=? i) ix) HVfc Hlf0) as (p' & Hp' & _); [rewrite Hclen; exact Hrange|].
          rewrite Hp, Hp'. cbn [bind]. rewrite !obs_IndexedOption. f_equal.
          assert (Hwc : wd c = S (wd (opt_content c))) by (destruct c; try discriminate; reflexivity).
          assert (Hwf : wd fc = S (wd fcc)) by (rewrite <- Hocf; destruct fc; try discriminate; reflexivity).
          apply (after_unwrap (opt_content c) fcc vs0 (filter (fun i => 0 <=? i) ix) p p'); try assumption; try lia.
          - intros fp xs' g1 g2 HVp Hfp Hlp Hfcp Hg1 Hg2.
            apply (IHkk (wd p) ltac:(rewrite (carry_wd _ _ _ Hp); lia) p fp xs' g1 g2); try assumption; try lia.
            + rewrite (carry_type_of _ _ _ Hp). rewrite Hty, sc_opt in Hsc. exact Hsc.
            + rewrite (carry_type_of _ _ _ Hp). rewrite Hty in Hd. exact Hd.
          - rewrite Hty, sc_opt in Hsc. exact Hsc.
          - rewrite Hty in Hd. exact Hd. }
        destruct c; try discriminate; cbn [field_content] in Hfc; try discriminate.
        + (* Indexed *)
          inversion HV; subst. rewrite to_list_Indexed in Hl. apply bind_Ok in Hl as (vs0 & Hl0 & Hl).
          cbn [gfrag] in Hfr. apply andb_true_iff in Hfr as [_ Hfrc].
          apply rmap_Ok in Hfc as (fcc & Hfcc & ->).
          match goal with H : Forall _ index |- _ => rename H into Hix end.
          match goal with H : Valid None c |- _ => rename H into HVc end.
          destruct (fc_facts c fcc vs0 HVc Hfrc Hl0 Hfcc) as (_ & HVfc & _ & (ys0 & Hlf0 & Hzy) & Hclen & _).
          rewrite !gn_Indexed by exact Hpos.
          destruct (carry_spec c vs0 index HVc Hl0 Hix) as (p & Hp & _).
          destruct (carry_spec fcc ys0 index HVfc Hlf0) as (p' & Hp' & _); [rewrite Hclen; exact Hix|].
          rewrite Hp, Hp'. cbn [bind]. cbn [wd] in Hw, Hf2.
          apply (after_unwrap c fcc vs0 index p p'); try assumption; try lia.
          intros fp xs' g1 g2 HVp Hfp Hlp Hfcp Hg1 Hg2.
          apply (IHkk (wd p) ltac:(rewrite (carry_wd _ _ _ Hp); lia) p fp xs' g1 g2); try assumption; try lia.
          * rewrite (carry_type_of _ _ _ Hp). exact Hsc.
          * rewrite (carry_type_of _ _ _ Hp). exact Hd.
        + (* Par *)
          cbn [gfrag] in Hfr. destruct arr; [discriminate|]. inversion HV; subst.
          rewrite to_list_Par in Hl. apply bind_Ok in Hl as (vs0 & Hl0 & Hl). inversion Hl; subst.
          rewrite gn_Par by exact Hpos.
          replace (do r <- gn f1 c (h :: rest1) None;
                   match h, rest1, strflag None with
                   | (IRange _ _ _ | IArray _), [], Some _ => Ok (Par None recname r)
                   | _, _, _ => Ok r
                   end) with (gn f1 c (h :: rest1) None).
          2:{ symmetry. destruct h; try discriminate; destruct rest1; apply bind_Ok_id. }
          cbn [wd] in Hw.
          apply (IHkk (wd c) ltac:(lia) c fc xs f1 (S f2)); try assumption; try lia.
    Qed.
  End Step.

  Lemma CM_cons h pre' : basic_item h = true -> forallb basic_item pre' = true -> CMp pre' -> CMp (h :: pre').
  Proof.
    intros Hh Hpre IH c fc xs f1 f2 HV Hfr Hl Hfc Hsc Hd Hf1 Hf2.
    destruct (fc_facts c fc xs HV Hfr Hl Hfc) as (_ & HVf & _).
    pose proof (valid_wd _ _ HV) as Hw. pose proof (valid_wd _ _ HVf) as Hwf.
    assert (Hw4 : forall l, cost_m D (h :: l) = (4 + cost_m D l)%nat) by (intros l; destruct h; try discriminate; reflexivity).
    cbn [app] in *. rewrite Hw4 in Hf1, Hf2.
    apply (CM_inner h pre' Hh Hpre IH 3%nat c fc xs f1 f2); try assumption; try lia.
  Qed.
  Lemma CM_all : forall pre, forallb basic_item pre = true -> CMp pre.
  Proof.
    induction pre as [|h pre IH]; intros Hb; [apply CM_nil|].
    cbn [forallb] in Hb. apply andb_true_iff in Hb as [Hh Hb]. apply CM_cons; auto.
  Qed.
End Commute.

(* ---------------------------------------------------------------- the whole operation *)
Definition has_field (k : name) (c : content) : bool :=
  match field_content k c with Ok _ => true | Err _ => false end.

Lemma cost_m_field D pre k post : cost_m D (pre ++ IField k :: post) = S (cost_m D (pre ++ post)).
Proof. induction pre as [|h pre IH]; cbn [app cost_m wm]; [reflexivity|]. rewrite IH. lia. Qed.

Theorem field_commutes_with_positional : forall pre k post c vs,
  forallb basic_item pre = true -> forallb item_ok post = true ->
  Valid None c -> gfrag c = true -> to_list c = Ok vs -> has_field k c = true ->
  slice_ok (pre ++ IField k :: post) c = true -> fuel_ok (pre ++ IField k :: post) c = true ->
  obs (getitem_model (pre ++ IField k :: post) c) = obs (getitem_model (IField k :: pre ++ post) c).
Proof.
  intros pre k post c vs Hpre Hpost HV Hfr Hl Hhas Hsc Hf.
  unfold has_field in Hhas. destruct (field_content k c) as [fc|] eqn:Hfc; [|discriminate].
  destruct (top_wrap c vs HV Hl) as (HVC & HlC & HtC).
  unfold fuel_ok in Hf. apply andb_true_iff in Hf as [Hf1 _]. apply Nat.leb_le in Hf1.
  assert (Hfuel : items_fuel (IField k :: pre ++ post) = items_fuel (pre ++ IField k :: post)).
  { unfold items_fuel. rewrite !app_length. cbn [length]. rewrite app_length. lia. }
  unfold getitem_model. rewrite Hfuel.
  set (f := items_fuel (pre ++ IField k :: post)) in *.
  rewrite cost_m_field in Hf1. destruct f as [|f']; [lia|].
  rewrite (gn_IField f' (Regular c (clen c) 1)) by exact I. cbn [field_content]. rewrite Hfc. cbn [rmap bind].
  apply (CM_all k post (adepth c) Hpost pre Hpre (Regular c (clen c) 1) (Regular fc (clen c) 1) [VList vs]); try assumption.
  - cbn [field_content]. rewrite Hfc. reflexivity.
  - rewrite HtC. rewrite (tdepth_list' (TList (Some (clen c)) None (type_of c)) (Some (clen c)) (type_of c) eq_refl).
    unfold adepth. pose proof (tdepth_nonneg (type_of c)). lia.
  - rewrite cost_m_field. lia.
  - lia.
Qed.

Example field_commutes_ex :
  let c := ListOffset I64 [0; 2; 2; 3]
             (IndexedOption I64 [1; -1; 0]
                (Record [ListA I64 [0; 3] [3; 5] (Indexed I64 [4; 3; 2; 1; 0] (Numpy DInt64 [5] [DZ 1; DZ 2; DZ 3; DZ 4; DZ 5]));
                         Par None None (Numpy DFloat64 [2] [DZ 10; DZ 20])] (Some [[120]; [121]]) 2)) in
  let pre := [IRange None None (Some (-1)); IRange None (Some 1) None] in
  let post := [IAt (-1)] in
  validb None c = true /\ gfrag c = true /\ has_field [120] c = true /\
  slice_ok (pre ++ IField [120] :: post) c = true /\ fuel_ok (pre ++ IField [120] :: post) c = true /\
  obs (getitem_model (pre ++ IField [120] :: post) c) = Ok [VList [VList [VNum (DZ 3)]; VList []; VList [VNum (DZ 1)]]] /\
  obs (getitem_model (IField [120] :: pre ++ post) c) = Ok [VList [VList [VNum (DZ 3)]; VList []; VList [VNum (DZ 1)]]].
Proof. vm_compute. repeat split. Qed.

Print Assumptions field_commutes_with_positional.
