(** C04 — model = specification, part 3: list nodes — compact_offsets64, broadcast_tooffsets64 (kernel, size-1 kernel). *)
From AwkV Require Import LayoutInd Proofs_Lists Proofs_ToList Proofs_Typing Proofs_Carry Proofs_AtAxisOps Proofs_C05 Ops_Struct.
From AwkBroadcast Require Import Broadcast Proofs_C04 Proofs_C04_Model1 Proofs_C04_Model2.
From Coq Require Import Lia ZifyBool.

Lemma Forall2_length {A B} (R : A -> B -> Prop) l l' : Forall2 R l l' -> length l' = length l.
Proof. induction 1; cbn; congruence. Qed.

(* ------------------------------------------------------------------ list nodes: starts, stops, inner content *)
Definition inner (c : content) : content :=
  match c with ListOffset _ _ c' | ListA _ _ _ c' => c' | _ => c end.
Definition lstarts (c : content) : list Z :=
  match c with ListOffset _ o _ => removelast o | ListA _ s _ _ => s | _ => [] end.
Definition lstops (c : content) : list Z :=
  match c with ListOffset _ o _ => tl o | ListA _ _ e _ => e | _ => [] end.

Lemma list_view c vs :
  jag c = true -> is_list_node c = true -> to_list c = Ok vs ->
  exists vs' ls, to_list (inner c) = Ok vs' /\ mapM (cut1 vs') (zip (lstarts c) (lstops c)) = Ok ls /\ vs = map VList ls /\
                 jag (inner c) = true /\ csize c = S (csize (inner c)) /\ type_of c = TList None None (type_of (inner c)) /\
                 zlen (lstarts c) = clen c /\ zlen (lstarts c) <= zlen (lstops c).
Proof.
  intros Hj Hl Ht.
  destruct c as [dt shape data| |w o c'|w s e c'|c' size zl|w ix0 c'|w ix0 c'|m vw c'|m vw lsb n c'|c'|w t ix0 cs|cs ks n|arr rn c'];
    try discriminate; cbn [jag] in Hj.
  - rewrite to_list_ListOffset in Ht. apply bind_Ok in Ht as (vs0 & Hl0 & Ht). apply rmap_Ok in Ht as (ls & Hc & ->).
    unfold cut in Hc. destruct o as [|a o]; [discriminate|]. rewrite pairs_zip in Hc.
    exists vs0, ls. cbn [inner lstarts lstops clen csize]. repeat split; try assumption.
    + rewrite zlen_removelast by discriminate. lia.
    + rewrite zlen_removelast, zlen_tl by discriminate. lia.
  - rewrite to_list_ListA in Ht. apply bind_Ok in Ht as (vs0 & Hl0 & Ht). apply rmap_Ok in Ht as (ls & Hc & ->).
    unfold cut2 in Hc. destruct (zlen e <? zlen s) eqn:E; [discriminate|].
    exists vs0, ls. cbn [inner lstarts lstops clen csize]. repeat split; try assumption. lia.
Qed.

Lemma cut1_inv {A} (vs : list A) a b l :
  cut1 vs (a, b) = Ok l ->
  zlen l = b - a /\ (a = b \/ (0 <= a /\ a <= b /\ b <= zlen vs)) /\ mapM (get vs) (range a b) = Ok l.
Proof.
  unfold cut1. destruct (a =? b) eqn:E.
  - intros H; inversion H; subst. assert (a = b) by lia. subst. repeat split; try (now left).
    + rewrite zlen_nil. lia.
    + now rewrite range_empty by lia.
  - intros H. pose proof (slice_inv _ _ _ _ H) as Hb. pose proof (slice_zlen _ _ _ _ H). repeat split; try assumption; [now right|].
    rewrite gather_range by lia. exact H.
Qed.

Lemma mapM_pointwise {A B} (f : A -> res B) l ys :
  zlen ys = zlen l -> (forall i, 0 <= i < zlen l -> (do x <- get l i; f x) = get ys i) -> mapM f l = Ok ys.
Proof.
  intros Hz Hp. destruct (mapM_total f l) as [zs Hzs].
  { intros x Hx. apply In_nth_error in Hx as [k Hk].
    assert (Hi : 0 <= Z.of_nat k < zlen l) by (pose proof (nth_error_Some l k); unfold zlen; rewrite Hk in *; split; [lia|]; apply inj_lt, H; discriminate).
    specialize (Hp _ Hi). unfold get at 1 in Hp. destruct (Z.of_nat k <? 0) eqn:E; [lia|]. rewrite Nat2Z.id, Hk in Hp. cbn [bind] in Hp.
    destruct (get_ok ys (Z.of_nat k) ltac:(lia)) as [y Hy]. rewrite Hy in Hp. eauto. }
  rewrite Hzs. f_equal. apply get_ext; [rewrite (mapM_zlen _ _ _ Hzs); lia|].
  intros i Hi. rewrite (mapM_zlen _ _ _ Hzs) in Hi. rewrite (mapM_get _ _ _ i Hzs). now apply Hp.
Qed.

Lemma lens_offsets s counts : lens_of (pairs (offsets_from s counts)) = counts.
Proof.
  revert s. induction counts as [|n ns IH]; intros s; [reflexivity|]. cbn [offsets_from]. rewrite pairs_offsets.
  unfold lens_of in *. cbn [map fst snd]. rewrite IH. f_equal. lia.
Qed.
Lemma zlen_offsets counts : forall s, zlen (offsets_from s counts) = zlen counts + 1.
Proof. induction counts as [|n ns IH]; intros s; cbn [offsets_from]; [reflexivity|]. rewrite !zlen_cons, IH. reflexivity. Qed.
Lemma hd_offsets s counts : exists r, offsets_from s counts = s :: r.
Proof. destruct counts; cbn; eauto. Qed.

(* the kernel awkward_ListArray_broadcast_tooffsets: succeeds exactly when every list has the target length *)
Lemma bto_kernel_ok counts starts stops lc :
  let n := zlen counts in
  n <= zlen starts -> n <= zlen stops ->
  Forall2 (fun (se : Z * Z) (k : Z) => 0 <= k /\ snd se - fst se = k /\ (fst se = snd se \/ snd se <= lc))
          (firstn (length counts) (zip starts stops)) counts ->
  bto_kernel (offsets_from 0 counts) starts stops lc =
  Ok (concat (map (fun se : Z * Z => range (fst se) (snd se)) (firstn (length counts) (zip starts stops)))).
Proof.
  intros n Hs He HF. unfold bto_kernel. rewrite zlen_offsets. replace (zlen counts + 1 - 1) with n by (unfold n; lia).
  set (P := pairs (offsets_from 0 counts)). set (B := firstn (length counts) (zip starts stops)) in *.
  assert (HzP : zlen P = n).
  { unfold P. rewrite zlen_pairs by (destruct counts; discriminate). rewrite zlen_offsets. unfold n. lia. }
  assert (HzB : zlen B = n) by (apply Forall2_length in HF; unfold n, zlen; lia).
  erewrite mapM_pointwise with (ys := map (fun se : Z * Z => range (fst se) (snd se)) B); [reflexivity| |].
  - rewrite zlen_map, zlen_zip, zlen_iota by (unfold n; apply zlen_nonneg). lia.
  - intros i Hi. rewrite zlen_zip, zlen_iota in Hi by (unfold n; apply zlen_nonneg).
    rewrite get_zip, get_iota by lia. cbn [bind].
    destruct (get_ok P i ltac:(lia)) as [[a b] Hab]. rewrite Hab. cbn [bind].
    destruct (get_ok B i ltac:(lia)) as [[s e] Hse].
    assert (Hzip : get (zip starts stops) i = Ok (s, e)).
    { unfold B in Hse. rewrite <- Hse. symmetry. unfold take. change (firstn (length counts) (zip starts stops)) with (take (Z.of_nat (length counts)) (zip starts stops)) || idtac.
      replace (firstn (length counts) (zip starts stops)) with (take n (zip starts stops)) by (unfold take, n, zlen; now rewrite Nat2Z.id).
      apply get_take. lia. }
    rewrite get_zip in Hzip. destruct (get starts i) as [s'|] eqn:Es; [|discriminate]. cbn [bind] in Hzip.
    destruct (get stops i) as [e'|] eqn:Ee; [|discriminate]. cbn [bind] in Hzip. inversion Hzip; subst s' e'. cbn [bind].
    (* the facts about entry i *)
    assert (Hk : exists k, get counts i = Ok k /\ 0 <= k /\ e - s = k /\ (s = e \/ e <= lc) /\ b - a = k).
    { destruct (get_ok counts i ltac:(unfold n in *; lia)) as [k Hk]. exists k. split; [exact Hk|].
      assert (Hl : get (lens_of P) i = Ok k) by (unfold P; now rewrite lens_offsets).
      unfold lens_of in Hl. rewrite get_map, Hab in Hl. cbn in Hl.
      assert (Hba : b - a = k) by (inversion Hl; reflexivity).
      cut (0 <= k /\ e - s = k /\ (s = e \/ e <= lc)); [intros (X1 & X2 & X3); repeat split; assumption|].
      clear -HF Hse Hk. revert i Hse Hk. induction HF as [|se k' B counts H _ IH]; intros i Hse Hk; [rewrite get_nil in Hk; discriminate|].
      destruct (Z.compare_spec i 0) as [->|Hlt|Hgt].
      - cbn in Hse, Hk. inversion Hse; inversion Hk; subst. cbn [fst snd] in H. exact H.
      - rewrite get_oob in Hk by lia. discriminate.
      - rewrite get_cons_pos in Hse by lia; rewrite get_cons_pos in Hk by lia. eapply IH; eassumption. }
    destruct Hk as (k & _ & Hk0 & Hke & Hlc & Hba).
    rewrite get_map, Hse. cbn [rmap fst snd].
    destruct (negb (s =? e) && (lc <? e)) eqn:E1; [lia|].
    destruct (b - a <? 0) eqn:E2; [lia|]. destruct (negb (e - s =? b - a)) eqn:E3; [lia|]. reflexivity.
Qed.

Lemma bto_kernel_err counts starts stops lc i se k :
  let n := zlen counts in
  n <= zlen starts -> n <= zlen stops ->
  get (zip starts stops) i = Ok se -> get counts i = Ok k -> snd se - fst se <> k ->
  bto_kernel (offsets_from 0 counts) starts stops lc = Err EValue.
Proof.
  intros n Hs He Hse Hk Hne. unfold bto_kernel. rewrite zlen_offsets. replace (zlen counts + 1 - 1) with n by (unfold n; lia).
  set (P := pairs (offsets_from 0 counts)).
  assert (HzP : zlen P = n).
  { unfold P. rewrite zlen_pairs by (destruct counts; discriminate). rewrite zlen_offsets. unfold n. lia. }
  pose proof (get_range _ _ _ Hk) as Hi. fold n in Hi.
  set (F := fun iab : Z * (Z * Z) => let (i0, ab) := iab in let (a, b) := ab in
              do start <- get starts i0; do stop <- get stops i0;
              if negb (start =? stop) && (lc <? stop) then Err EValue else
              let count := b - a in if count <? 0 then Err EValue else
              if negb (stop - start =? count) then Err EValue else Ok (range start stop)).
  change (rmap (@concat Z) (mapM F (zip (iota n) P)) = Err EValue).
  destruct (mapM F (zip (iota n) P)) as [ys|e] eqn:E; cbn [rmap].
  - exfalso. pose proof (mapM_get _ _ _ i E) as Hg. rewrite get_zip, get_iota in Hg by lia. cbn [bind] in Hg.
    destruct (get_ok P i ltac:(lia)) as [[a b] Hab]. rewrite Hab in Hg. cbn [bind F] in Hg.
    destruct se as [s e]. rewrite get_zip in Hse. destruct (get starts i) as [s'|]; [|discriminate]. cbn [bind] in Hse.
    destruct (get stops i) as [e'|]; [|discriminate]. cbn [bind] in Hse. inversion Hse; subst s' e'. cbn [bind fst snd] in *.
    assert (Hl : get (lens_of P) i = Ok k) by (unfold P; now rewrite lens_offsets).
    unfold lens_of in Hl. rewrite get_map, Hab in Hl. cbn in Hl. inversion Hl.
    destruct (get_ok ys i) as [y Hy]; [rewrite (mapM_zlen _ _ _ E), zlen_zip, zlen_iota by (unfold n; apply zlen_nonneg); lia|].
    rewrite Hy in Hg. destruct (negb (s =? e) && (lc <? e)); [discriminate|]. destruct (b - a <? 0); [discriminate|].
    destruct (negb (e - s =? b - a)) eqn:E3; [discriminate|]. lia.
  - f_equal. apply mapM_Err in E as ([j [a b]] & Hin & HF). apply zip_In in Hin as [Hj _]. apply iota_In' in Hj.
    cbn [F] in HF. destruct (get_ok starts j ltac:(lia)) as [s Hsj]. destruct (get_ok stops j ltac:(lia)) as [e' Hej].
    rewrite Hsj, Hej in HF. cbn [bind] in HF.
    destruct (negb (s =? e') && (lc <? e')); [now inversion HF|]. destruct (b - a <? 0); [now inversion HF|].
    destruct (negb (e' - s =? b - a)); [now inversion HF|discriminate].
Qed.

Lemma firstn_all' {A} (l : list A) n : (length l <= n)%nat -> firstn n l = l.
Proof. revert n. induction l as [|x l IH]; intros [|n] H; cbn in *; try reflexivity; try lia. f_equal. apply IH. lia. Qed.

(* compact_offsets64 of a list node: the running sums of the list lengths *)
Lemma map_sub_offsets base : forall o a,
  map (fun x => x - base) (a :: o) = offsets_from (a - base) (lens_of (pairs (a :: o))).
Proof.
  induction o as [|b o IH]; intros a; [reflexivity|].
  change (pairs (a :: b :: o)) with ((a, b) :: pairs (b :: o)). unfold lens_of in *. cbn [map fst snd offsets_from].
  f_equal. replace (a - base + (b - a)) with (b - base) by lia. rewrite <- (IH b). reflexivity.
Qed.

Lemma cut1_lens {A} (vs : list A) B ls : mapM (cut1 vs) B = Ok ls -> lens_of B = map zlen ls.
Proof.
  revert ls. induction B as [|[a b] B IH]; intros ls H; cbn in H.
  - inversion H. reflexivity.
  - apply bind_Ok in H as (l & Hl & H). apply bind_Ok in H as (ls' & Hls & H). inversion H; subst.
    unfold lens_of in *. cbn [map fst snd]. rewrite (IH _ Hls). f_equal. apply cut1_inv in Hl. lia.
Qed.

Lemma compact_offsets_jag c (vs' : list value) (ls : list (list value)) :
  jag c = true -> is_list_node c = true ->
  mapM (cut1 vs') (zip (lstarts c) (lstops c)) = Ok ls -> zlen (lstarts c) = clen c -> zlen (lstarts c) <= zlen (lstops c) ->
  compact_offsets c = Ok (offsets_from 0 (map zlen ls)).
Proof.
  intros Hj Hl Hc Hzs Hle.
  destruct c as [dt shape data| |w o c'|w s e c'|c' size zl|w ix0 c'|w ix0 c'|m vw c'|m vw lsb n c'|c'|w t ix0 cs|cs ks n|arr rn c'];
    try discriminate; cbn [lstarts lstops clen] in *.
  - destruct o as [|o0 o]; [cbn in Hzs; discriminate|].
    cbn [compact_offsets]. rewrite <- pairs_zip in Hc. rewrite map_sub_offsets, (cut1_lens _ _ _ Hc). f_equal. f_equal. lia.
  - cbn [compact_offsets]. pose proof (cut1_lens _ _ _ Hc) as Hlens.
    assert (Hz : zlen ls = zlen s) by (rewrite (mapM_zlen _ _ _ Hc), zlen_zip; lia).
    erewrite mapM_pointwise with (ys := map zlen ls); [reflexivity| |].
    + rewrite zlen_map, zlen_iota by apply zlen_nonneg. exact Hz.
    + intros i Hi. rewrite zlen_iota in Hi by apply zlen_nonneg. rewrite get_iota by lia. cbn [bind].
      destruct (get_ok s i ltac:(lia)) as [a Ha]. destruct (get_ok e i ltac:(lia)) as [b Hb]. rewrite Ha, Hb. cbn [bind].
      pose proof (mapM_get _ _ _ i Hc) as Hg. rewrite get_zip, Ha, Hb in Hg. cbn [bind] in Hg.
      destruct (get_ok ls i ltac:(lia)) as [l Hli]. rewrite Hli in Hg. symmetry in Hg. apply cut1_inv in Hg as (Hzl & Hb' & _).
      rewrite get_map, Hli. cbn [rmap]. destruct (b <? a) eqn:E; [lia|]. f_equal. lia.
Qed.

(* broadcast_tooffsets64 of a list node whose lists all have the target lengths: the content, gathered *)
Lemma bto_list_ok c vs' ls :
  jag c = true -> is_list_node c = true -> to_list (inner c) = Ok vs' -> jag (inner c) = true ->
  mapM (cut1 vs') (zip (lstarts c) (lstops c)) = Ok ls ->
  zlen (lstarts c) = clen c -> zlen (lstarts c) <= zlen (lstops c) ->
  exists next, bto (offsets_from 0 (map zlen ls)) c = Ok next /\ jag next = true /\ to_list next = Ok (concat ls) /\
               type_of next = type_of (inner c) /\ csize next = csize (inner c) /\
               is_option_node next = is_option_node (inner c) /\ is_list_node next = is_list_node (inner c).
Proof.
  intros Hj Hl Hi Hji Hc Hzs Hle.
  set (counts := map zlen ls). set (B := zip (lstarts c) (lstops c)) in *.
  assert (HzB : zlen B = zlen (lstarts c)) by (unfold B; rewrite zlen_zip; lia).
  assert (Hzl : zlen ls = zlen B) by (apply (mapM_zlen _ _ _ Hc)).
  assert (Hzc : zlen counts = zlen B) by (unfold counts; now rewrite zlen_map).
  pose proof (to_list_len _ _ Hi) as Hlen'.
  assert (Hfirst : firstn (length counts) B = B) by (apply firstn_all'; unfold zlen in *; lia).
  assert (HF : Forall2 (fun (se : Z * Z) (k : Z) => 0 <= k /\ snd se - fst se = k /\ (fst se = snd se \/ snd se <= clen (inner c)))
                       (firstn (length counts) B) counts).
  { rewrite Hfirst. unfold counts. clear -Hc Hlen'. revert ls Hc. induction B as [|[a b] B IH]; intros ls Hc; cbn in Hc.
    - inversion Hc. constructor.
    - apply bind_Ok in Hc as (l & Hl & Hc). apply bind_Ok in Hc as (ls' & Hls & Hc). inversion Hc; subst. cbn [map].
      constructor; [|now apply IH]. apply cut1_inv in Hl as (H1 & H2 & _). cbn [fst snd]. pose proof (zlen_nonneg l). lia. }
  assert (Hk : bto_kernel (offsets_from 0 counts) (lstarts c) (lstops c) (clen (inner c)) =
               Ok (concat (map (fun se : Z * Z => range (fst se) (snd se)) B))).
  { rewrite <- Hfirst. unfold B. apply bto_kernel_ok; try lia. exact HF. }
  set (ix := concat (map (fun se : Z * Z => range (fst se) (snd se)) B)) in *.
  assert (Hg : mapM (get vs') ix = Ok (concat ls)).
  { unfold ix. rewrite mapM_concat, mapM_map.
    replace (mapM (fun x : Z * Z => mapM (get vs') (range (fst x) (snd x))) B) with (mapM (cut1 vs') B); [now rewrite Hc|].
    apply mapM_ext_in. intros [a b] Hin. destruct (mapM_Ok_In _ _ _ _ Hc Hin) as (l & Hl' & _).
    rewrite Hl'. apply cut1_inv in Hl' as (_ & _ & Hr). cbn [fst snd]. now rewrite Hr. }
  destruct (ccarry_jag (inner c) vs' ix Hji Hi) as (next & Hn & Hjn & Hln & Htn & Hsn & _ & Hon & Hlnn & _).
  { rewrite <- Hlen'. eapply gather_range_inv. exact Hg. }
  exists next. split; [|repeat split; try assumption; congruence].
  destruct (hd_offsets 0 counts) as [r Hr]. unfold bto. rewrite Hr. rewrite Z.eqb_refl. cbn [negb]. rewrite <- Hr.
  destruct c as [dt shape data| |w o c'|w s e c'|c' size zl|w ix0 c'|w ix0 c'|m vw c'|m vw lsb n c'|c'|w t ix0 cs|cs ks n|arr rn c'];
    try discriminate; cbn [lstarts lstops inner clen] in *.
  - rewrite zlen_offsets. destruct (zlen o - 1 <? zlen counts + 1 - 1) eqn:E; [lia|]. rewrite Hk. exact Hn.
  - rewrite zlen_offsets. destruct (zlen s <? zlen counts + 1 - 1) eqn:E; [lia|]. rewrite Hk. exact Hn.
Qed.

(* ... and an error as soon as one list has another length *)
Lemma bto_list_err c (vs' : list value) (ls : list (list value)) counts i l k :
  jag c = true -> is_list_node c = true ->
  mapM (cut1 vs') (zip (lstarts c) (lstops c)) = Ok ls ->
  zlen (lstarts c) = clen c -> zlen (lstarts c) <= zlen (lstops c) ->
  zlen counts = clen c -> get ls i = Ok l -> get counts i = Ok k -> zlen l <> k ->
  bto (offsets_from 0 counts) c = Err EValue.
Proof.
  intros Hj Hl Hc Hzs Hle Hzc Hli Hki Hne.
  set (B := zip (lstarts c) (lstops c)) in *.
  assert (HzB : zlen B = zlen (lstarts c)) by (unfold B; rewrite zlen_zip; lia).
  pose proof (get_range _ _ _ Hli) as Hir. rewrite (mapM_zlen _ _ _ Hc) in Hir.
  destruct (get_ok B i Hir) as [[a b] Hab].
  pose proof (mapM_get _ _ _ i Hc) as Hg. rewrite Hab, Hli in Hg. cbn [bind] in Hg. symmetry in Hg. apply cut1_inv in Hg as (Hzl & _ & _).
  assert (Hk : bto_kernel (offsets_from 0 counts) (lstarts c) (lstops c) (clen (inner c)) = Err EValue).
  { eapply (bto_kernel_err counts (lstarts c) (lstops c) (clen (inner c)) i (a, b) k); try lia; try eassumption. cbn [fst snd]. lia. }
  destruct (hd_offsets 0 counts) as [r Hr]. unfold bto. rewrite Hr. rewrite Z.eqb_refl. cbn [negb]. rewrite <- Hr.
  destruct c as [dt shape data| |w o c'|w s e c'|c' size zl|w ix0 c'|w ix0 c'|m vw c'|m vw lsb n c'|c'|w t ix0 cs|cs ks n|arr rn c'];
    try discriminate; cbn [lstarts lstops inner clen] in *.
  - rewrite zlen_offsets. destruct (zlen o - 1 <? zlen counts + 1 - 1) eqn:E; [reflexivity|]. now rewrite Hk.
  - rewrite zlen_offsets. destruct (zlen s <? zlen counts + 1 - 1) eqn:E; [reflexivity|]. now rewrite Hk.
Qed.

(* tree-left: a non-list input is wrapped in a size-1 RegularArray and repeated for every inner list *)
Definition rep_each {A} (vs : list A) (counts : list Z) : list (list A) :=
  map (fun xk : A * Z => repeat (fst xk) (Z.to_nat (snd xk))) (zip vs counts).

Lemma bto_size1_ok counts :
  Forall (fun k => 0 <= k) counts ->
  bto_size1_kernel (offsets_from 0 counts) = Ok (concat (rep_each (iota (zlen counts)) counts)).
Proof.
  intros Hc. unfold bto_size1_kernel. rewrite zlen_offsets. replace (zlen counts + 1 - 1) with (zlen counts) by lia.
  set (n := zlen counts). set (P := pairs (offsets_from 0 counts)).
  assert (HzP : zlen P = n).
  { unfold P. rewrite zlen_pairs by (destruct counts; discriminate). rewrite zlen_offsets. unfold n. lia. }
  pose proof (zlen_nonneg counts) as Hn0. fold n in Hn0.
  erewrite mapM_pointwise with (ys := rep_each (iota n) counts); [reflexivity| |].
  - unfold rep_each. rewrite zlen_map, !zlen_zip, zlen_iota by lia. lia.
  - intros i Hi. rewrite zlen_zip, zlen_iota in Hi by lia. rewrite get_zip, get_iota by lia. cbn [bind].
    destruct (get_ok P i ltac:(lia)) as [[a b] Hab]. rewrite Hab. cbn [bind].
    destruct (get_ok counts i ltac:(unfold n in *; lia)) as [k Hk].
    assert (Hl : get (lens_of P) i = Ok k) by (unfold P; now rewrite lens_offsets).
    unfold lens_of in Hl. rewrite get_map, Hab in Hl. cbn in Hl. inversion Hl.
    assert (0 <= k). { rewrite Forall_forall in Hc. apply Hc. unfold get in Hk. destruct (i <? 0); [discriminate|].
      destruct (nth_error counts (Z.to_nat i)) eqn:E; [|discriminate]. inversion Hk; subst. eapply nth_error_In; eassumption. }
    destruct (b - a <? 0) eqn:E; [lia|]. unfold rep_each. rewrite get_map, get_zip, get_iota, Hk by lia. cbn. now rewrite H0.
Qed.

Lemma gather_rep_each {A} (vs : list A) : forall counts (pre : list A),
  length counts = length vs ->
  mapM (get (pre ++ vs)) (concat (rep_each (iota_nat (zlen pre) (length vs)) counts)) = Ok (concat (rep_each vs counts)).
Proof.
  induction vs as [|x vs IH]; intros [|k counts] pre H; try discriminate; [reflexivity|].
  cbn [length iota_nat]. unfold rep_each in *. cbn [zip map concat fst snd].
  assert (Hz : zlen (pre ++ [x]) = zlen pre + 1) by (rewrite zlen_app, zlen_cons, zlen_nil; lia).
  assert (Ha : (pre ++ [x]) ++ vs = pre ++ x :: vs) by (rewrite <- app_assoc; reflexivity).
  specialize (IH counts (pre ++ [x]) ltac:(cbn in H; lia)). rewrite Hz, Ha in IH.
  rewrite mapM_app, IH.
  assert (Hr : mapM (get (pre ++ x :: vs)) (repeat (zlen pre) (Z.to_nat k)) = Ok (repeat x (Z.to_nat k))).
  { induction (Z.to_nat k) as [|m IHm]; [reflexivity|]. cbn [repeat]. rewrite mapM_cons, IHm.
    pose proof (zlen_nonneg pre). rewrite get_app2 by lia. replace (zlen pre - zlen pre) with 0 by lia. now rewrite get_cons_0. }
  rewrite Hr. reflexivity.
Qed.

Lemma bto_leaf_ok c vs counts :
  jag c = true -> is_list_node c = false -> to_list c = Ok vs ->
  zlen counts = zlen vs -> Forall (fun k => 0 <= k) counts ->
  exists next, bto (offsets_from 0 counts) (Regular c 1 (clen c)) = Ok next /\ jag next = true /\
               to_list next = Ok (concat (rep_each vs counts)) /\ type_of next = type_of c /\ csize next = csize c /\
               is_option_node next = is_option_node c /\ is_list_node next = false.
Proof.
  intros Hj Hnl Hl Hz Hc. pose proof (to_list_len _ _ Hl) as Hlen.
  set (ix := concat (rep_each (iota (zlen counts)) counts)).
  assert (Hg : mapM (get vs) ix = Ok (concat (rep_each vs counts))).
  { unfold ix, iota. replace (Z.to_nat (zlen counts)) with (length vs) by (unfold zlen in *; lia).
    apply (gather_rep_each vs counts []). unfold zlen in *. lia. }
  destruct (ccarry_jag c vs ix Hj Hl) as (next & Hn & Hjn & Hln & Htn & Hsn & _ & Hon & Hlnn & _).
  { rewrite <- Hlen. eapply gather_range_inv. exact Hg. }
  exists next. split; [|repeat split; try assumption; congruence].
  destruct (hd_offsets 0 counts) as [r Hr]. unfold bto. rewrite Hr. rewrite Z.eqb_refl. cbn [negb]. rewrite <- Hr.
  rewrite zlen_offsets. cbn [clen]. rewrite Z.div_1_r. cbn [Z.eqb]. 
  destruct (negb (zlen counts + 1 - 1 =? clen c)) eqn:E; [lia|]. rewrite (bto_size1_ok counts Hc). exact Hn.
Qed.

