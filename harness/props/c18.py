"""C18: virtual (lazy) and partitioned arrays are indistinguishable from the eager array (C++ half).

Implementation side: impl/drv/virtdrv.cpp (VirtualArray with scripted ArrayGenerator/ArrayCache subclasses;
IrregularlyPartitionedArray).  Model side: c18/coq (Virtual.v, Partition.v) extracted to .build/c18/virtrun.
Checked per step of a session:
  (i)   value of the operation on the virtual / partitioned array == value on the eager array: equal dumps, or equal
        values after the driver has walked both results element by element (record fields by name, strings as units);
        types of partition slices, JSON documents and lengths as well;
  (ii)  the implementation's trace of cache/generator calls is a run of the Virtual model: same hit/miss pattern,
        same invocation numbers, same ok/err, same invocation counts;
  (iii) partition operations on the positions array == the Partition model (with the repartition guard);
        the pinned model (without it) must predict an out-of-bounds read exactly where the implementation crashes.
  (iv)  derived objects: the array result of a step (a field / a list of fields / a slice / a carry of the virtual
        array, possibly a lazier VirtualArray that carries what it cached when it was made) stays alive in the driver
        and is the target of later steps `(on I ...)`, across evictions and generations.  What such an object says about
        itself without being asked for elements (length, purelist_depth, minmax_depth, branch_depth, purelist_isregular,
        numfields / keys / fieldindex / haskey, type string) and the operations that dispatch on those answers (reduce
        along non-negative and negative axes, num / flatten / localindex, getitem with several items) are compared with
        the same question to the same derivation of the eager array.  On the model side a (quiet) derivation from a root
        VirtualArray is an SPeek step (no array() call), and every question answered by form(true) is a form_q step.
"""
import os
import re
import subprocess

import common as C
import gen as G

THEOREMS = ['cache_coherent', 'virtual_transparent', 'generator_called_lazily', 'mismatch_errors',
            'no_partial_after_failure', 'partition_index_spec', 'partition_range_is_slice_of_concat',
            'repartition_refuted', 'repartition_in_bounds', 'repartition_preserves_concat',
            'cache_coherent_from', 'peek_transparent', 'declared_queries_are_free', 'getitem_at_concat',
            'partition_range_python', 'repartition_pinned_strict']
COQ_DIR = os.path.join(C.VERIF, 'c18', 'coq')
COQ_LOGICAL = '-R %s/coq AwkV -R . AwkVirt' % C.VERIF
NEEDS_SAN = True
DRIVERS = ('virtdrv',)
PY_HALF = True     # harness/pyhalves.py cases_C18: the Python layer (partition.py, operations/*.py) on ak.partitioned arrays vs the eager array
RULE = ('virt sessions: value-first random layout (all node classes) with 1-2 non-nested nodes replaced by a '
        'VirtualArray; generator script per invocation (ok / throws / short payload / payload of another form), '
        'declared length (none / true / too large / too small) and form (none / right / wrong); cache none / keep / '
        'evict-always / broken / evicting before random accesses; 1-6 steps (28 operations incl. obs = everything the '
        'array says about itself, keys; lazy results operated on later with operations chosen for their type, explicit '
        'evict / break events). vrec sessions (twice as many): a RECORD array whose fields differ in depth (a flat field '
        'next to a list-typed one, a third of any type incl. nested records; sometimes below a list / option or inside an '
        'outer record; tuples) behind one VirtualArray (the root, sometimes the record node), length none / true, form '
        'none / right, script o / t o / o t o, 2-9 steps: derivations (field, fields, range, carry, lazycarry, one-item '
        'getitem; 60% not dumped, so they stay lazy) from the array at every stage of its life (never generated, cached, '
        'evicted, form declared / inferred) and from earlier derived objects, observations (obs, depth, keys, type, len) '
        'and dispatching operations (reduce at axes >= 0 and < 0, num, flatten, localindex, multi-item getitem, ...) on '
        'the derived objects, cache events in between. part sessions: random layout of length 0-11 split into '
        '1-4 partitions (empty ones at start / middle / end), 1-5 steps of at / range with step -3..3 / narrow / '
        'partitionid_index_at / tojson / len / repartition to 1-5 targets incl. empty and trailing empty ones. '
        'non-trivial = virt: >= 1 generator invocation and >= 2 successful steps; part: >= 2 partitions and '
        'length >= 1. distinct by session text.')
ASSUMPTIONS = [
    'C++ half only: src/awkward/partition.py and src/python/virtual.cpp (PyArrayGenerator, PyArrayCache) cannot run here; '
    'the scripted C++ cache mirrors PyArrayCache (get -> nullptr on a miss or when broken, set ignored when broken)',
    'SliceGenerator (lazy slices of a VirtualArray) is exercised on the implementation side (virtual == eager) but is '
    'not part of the Coq model; the model replays the calls that reach the scripted generator/cache',
    'the VirtualArray node carries the parameters of the node it stands for; a node directly below a parameter wrapper is '
    'not wrapped; char/byte nodes are not wrapped (validityerror: "__array__ = char only allowed for NumpyArray")',
    'generator determinism: the scripted generator returns the same node whenever it succeeds',
    'repartition targets are non-empty, non-negative, non-decreasing and end at the length (other targets are outside '
    'the property; a small malformed stream is run and only reported in the evidence)',
    'errors are compared as ok/err only (not the exception class or message)',
    'not generated: sort/argsort on arrays containing records (erratic in the eager code itself), argsort at an axis other '
    'than -1 or over missing values (undefined numbers: a C06 finding), operations on the result of the internal carry, '
    'ellipsis/newaxis over records (RecordArray::getitem_next and IndexedArray<RecordArray> disagree in the eager code)',
    'a std::runtime_error of the eager operation (the library reporting its own inconsistency) ends the comparison of that step',
    'derived objects (check iv) are an implementation-only metamorphic comparison (virtual object vs the same derivation of '
    'the eager array, same driver process): the depth information a lazy VirtualArray caches (cache_depths_) and '
    'SliceGenerator are not in the Rocq model; the model side only replays their generator / cache calls, a quiet '
    'derivation from a root VirtualArray as SPeek (never array()), depth / keys / type questions to a root VirtualArray as form_q',
    'the Form of a derived object is compared through everything it answers (type string, depths, regularity, fields), '
    'not node class by node class: slicing the eager array itself yields other node classes for the same values '
    '(IndexedArray over RecordArray where the materialised lazy slice is a RecordArray); conformance of the two Forms '
    '(Form::equal in compatibility mode) is only counted in the evidence (node_classes_differ)',
    'not generated on the carry of an array containing records: reduce / sort (IndexedArray over a RecordArray whose fields '
    'differ in depth raises \'reduce_next with unbranching depth > negaxis ...\' in the eager code itself), multi-item getitem',
]
TRUSTED_BASE = [
    'Rocq kernel: coqc 8.16.1 (vm_compute used in examples and in repartition_refuted; native_compute not used)',
    'no axioms: every property theorem is closed under the global context (parsed from Print Assumptions on this run)',
    'extraction: ExtrOcamlBasic only, Z/positive/nat kept inductive; OCaml 4.13.1; hand-written runner c18/ocaml/virtrun.ml',
    'C++ driver impl/drv/virtdrv.cpp (scripted ArrayGenerator/ArrayCache subclasses, layout builder/dumper of drv_common.h)',
    'harness/props/c18.py (generators, trace grammar, verdict logic), harness/gen.py',
    'RapidJSON substitute impl/rapidjson_shim (tojson comparisons go through it on both sides)',
    'model vs code: Virtual.v / Partition.v are hand-written models of the C++; tied by differential testing only',
]

B18 = os.path.join(C.BUILD, 'c18')
DRV = os.environ.get('VERIF_C18_DRV', 'virtdrv')      # (a differently built driver, for experiments)
KNOWN_SIG = 'repartition-trailing-empty-oob'
EMPTY_SIG = 'partition-empty-range-wrong-type'
LONG_SIG = 'virtual-declared-length-longer-accepted'
BITMASK_SIG = 'virtual-lazy-slice-bitmasked-form-mismatch'
STRSORT_SIG = 'virtual-lazy-carry-hides-array-parameter'
UNION_SIG = 'virtual-content-hidden-from-simplify'      # simplify_uniontype / simplify_optiontype do not look through a VirtualArray


# ------------------------------------------------------------------------------------------------ build
def build():
    r = C.sh('cd %s && ([ -f Makefile.coq ] || coq_makefile -f _CoqProject -o Makefile.coq) >/dev/null 2>&1 '
             '&& timeout 900 make -f Makefile.coq -j8 2>&1 | tail -30' % COQ_DIR)
    if r.returncode != 0 or 'Error' in r.stdout:
        raise C.BuildError('C18 Rocq build failed:\n' + r.stdout[-3000:])
    r = C.sh('timeout 900 make -s -C %s/c18/ocaml VERIF=%s' % (C.VERIF, C.VERIF))
    if r.returncode != 0 or not os.path.exists(os.path.join(B18, 'virtrun')):
        raise C.BuildError('virtrun build failed:\n' + r.stdout[-3000:])


# ------------------------------------------------------------------------------------------------ S-expressions
TOK = re.compile(r'[()]|[^\s()]+')


def parse(s):
    """text -> nested lists of strings"""
    stack = [[]]
    for t in TOK.findall(s):
        if t == '(':
            stack.append([])
        elif t == ')':
            x = stack.pop()
            stack[-1].append(x)
        else:
            stack[-1].append(t)
    if len(stack) != 1 or len(stack[0]) != 1:
        raise ValueError('sx: ' + s[:100])
    return stack[0][0]


def unparse(x):
    if isinstance(x, (list, tuple)):
        return '(' + ' '.join(unparse(y) for y in x) + ')'
    return str(x)


def fld(items, name):
    for x in items:
        if isinstance(x, list) and x and x[0] == name:
            return x
    return None


# ------------------------------------------------------------------------------------------------ generation
REDUCERS = ['count', 'count_nonzero', 'sum', 'prod', 'any', 'all', 'min', 'max', 'argmin', 'argmax']


def rec_fields(t):
    while t[0] in ('opt',):
        t = t[1]
    if t[0] == 'rec' and not t[2]:
        return [n for n, _ in t[1]]
    return []


def deep_fields(t):
    """field names reachable by getitem_field: of a record, or of the records below lists / options"""
    while t[0] in ('opt', 'list'):
        t = t[1]
    if t[0] == 'rec':
        return [str(i) for i in range(len(t[1]))] if t[2] else [nm for nm, _ in t[1]]
    return []


def map_rec(t, f):
    """the type with the record below lists / options replaced by f(record type)"""
    if t[0] in ('opt', 'list'):
        return (t[0], map_rec(t[1], f))
    return f(t)


def field_type(t, key):
    def pick(r):
        if r[2]:
            return r[1][int(key)][1]
        return dict(r[1])[key]
    return map_rec(t, pick)


def fields_type(t, keys):
    def pick(r):
        if r[2]:
            return ('rec', [(str(j), r[1][int(k)][1]) for j, k in enumerate(keys)], False)
        d = dict(r[1])
        return ('rec', [(k, d[k]) for k in keys], False)
    return map_rec(t, pick)


def range_len(n, a, b):
    lo = 0 if a == 'none' else (a + n if a < 0 else a)
    hi = n if b == 'none' else (b + n if b < 0 else b)
    lo, hi = min(max(lo, 0), n), min(max(hi, 0), n)
    return max(hi - lo, 0)


def derived(op, t, n, how='root'):
    """(type, length, how) of the array result of `op` on an array of type t and length n, when the harness can tell
    (it only steers the choice of later operations on that result; the verdict never depends on it)"""
    if t is None:
        return None
    h = op[0]
    try:
        if h == 'field':
            return (field_type(t, op[1]), n, 'field')
        if h == 'fields':
            return (fields_type(t, op[1]), n, 'fields')
        if h == 'range':
            return (t, range_len(n, op[1], op[2]), 'range')
        if h in ('carry', 'lazycarry'):
            return (t, len(op[1]), 'carry')
        if h == 'materialize':
            return (t, n, how)      # (the very same object)
        if h == 'getitem' and len(op[1]) == 1:
            it = op[1][0]
            if isinstance(it, list) and it[0] == 'fld':
                return (field_type(t, it[1]), n, 'field')
            if isinstance(it, list) and it[0] == 'rng' and it[3] in ('none', 1):
                # (below an eager node getitem goes through carry: IndexedArray over the records, like a carry)
                return (t, range_len(n, it[1], it[2]), 'carry')
    except (KeyError, IndexError, ValueError, TypeError):
        return None
    return None


def gen_slice(rng, t, n):
    items = []
    has_rec = G.has_kind(t, 'rec')
    for _ in range(rng.choice([1, 1, 1, 2, 2, 3])):
        r = rng.random()
        if has_rec and 0.6 <= r < 0.74:
            r = 0.3      # no ellipsis / newaxis over records: RecordArray and IndexedArray-of-RecordArray place the
            #              new axis differently in the eager code itself (a C01 matter)
        if r < 0.25:
            items.append(['at', rng.randint(-n - 1, n)])
        elif r < 0.6:
            a = rng.choice(['none', rng.randint(-n - 2, n + 2)])
            b = rng.choice(['none', rng.randint(-n - 2, n + 2)])
            items.append(['rng', a, b, rng.choice(['none', 1, 1, 2, -1, 3, -2])])
        elif r < 0.68:
            items.append('ell')
        elif r < 0.74:
            items.append('newaxis')
        elif r < 0.9:
            k = rng.choice([0, 1, 2, 3])
            items.append(['arr', [k], [rng.randint(-n, max(n - 1, 0)) for _ in range(k)]])
        else:
            fs = deep_fields(t) if not items else rec_fields(t)
            items.append(['fld', rng.choice(fs)] if fs else ['at', 0])
    return items


def gen_op(rng, t, n, generic=False, only=None):
    """one operation (list form); generic = the input is an earlier result of unknown type; only = the operation
    names to choose from"""
    def ax():
        return rng.choice([0, 1, -1, 1, 2]) if generic else G.pick_axis(rng, t)
    names = ['len', 'valid', 'tojson', 'type', 'depth', 'num', 'flatten', 'localindex', 'getitem', 'getitem',
             'at', 'range', 'range', 'carry', 'reduce', 'sort', 'argsort', 'combinations', 'rpad', 'rpadclip',
             'materialize', 'field', 'fields', 'simplify', 'lazycarry', 'obs', 'obs', 'keys']
    c = rng.choice(only or names)
    if c in ('sort', 'argsort') and G.has_kind(t, 'rec'):
        c = 'reduce'            # sort over records is not a defined operation in this tree (erratic eager results)
    if c == 'argsort' and (generic or G.has_kind(t, 'opt')):
        c = 'sort'              # argsort writes undefined numbers at missing values (they differ from run to run)
    if generic and c in ('carry', 'lazycarry'):
        c = 'materialize'       # carry is an internal operation whose indices must be in range of an unknown length
    if c in ('field', 'fields'):
        fs = deep_fields(t) if not generic else []
        if not fs:
            c = 'materialize'
        elif c == 'field':
            return ['field', rng.choice(fs)]
        else:
            return ['fields', rng.sample(fs, rng.randint(1, len(fs)))]
    if c in ('len', 'valid', 'tojson', 'type', 'depth', 'materialize', 'simplify', 'obs', 'keys', 'form'):
        return [c]
    if c in ('num', 'flatten', 'localindex'):
        return [c, ax()]
    if c == 'getitem':
        return ['getitem', gen_slice(rng, t, n)]
    if c == 'at':
        return ['at', rng.randint(-n - 1, n)]
    if c == 'range':
        return ['range', rng.choice(['none', rng.randint(-n - 1, n + 1)]), rng.choice(['none', rng.randint(-n - 1, n + 1)])]
    if c in ('carry', 'lazycarry'):
        k = rng.choice([0, 1, 2, n, n])
        if rng.random() < 0.3:
            ix = list(range(min(k, n)))          # contiguous: the lazy path of VirtualArray::carry
        else:
            ix = [rng.randint(0, max(n - 1, 0)) for _ in range(k)] if n > 0 else []
        return [c, ix]
    if c == 'reduce':
        red = rng.choice(REDUCERS)
        # argmin/argmax across lists (axis other than -1) leave undefined numbers where a list is empty (a C03 matter)
        axis = -1 if red in ('argmin', 'argmax') else rng.choice([-1, -1, ax()])
        return ['reduce', red, axis, rng.choice([0, 1]), rng.choice([0, 0, 1])]
    if c == 'argsort':
        # only the local branch: the non-local one returns uninitialised memory on sliced input (a C06 finding),
        # which differs from run to run and so between the two arrays
        return [c, -1, rng.choice([0, 1]), rng.choice([0, 1])]
    if c == 'sort':
        return [c, rng.choice([-1, -1, ax()]), rng.choice([0, 1]), rng.choice([0, 1])]
    if c == 'combinations':
        return ['combinations', rng.choice([2, 2, 3]), rng.choice([0, 1]), ax()]
    return [c, rng.choice([0, 1, 2, 4]), ax()]      # rpad / rpadclip


ARRAY_OPS = {'num', 'flatten', 'localindex', 'getitem', 'range', 'carry', 'lazycarry', 'reduce', 'sort', 'argsort',
             'combinations', 'rpad', 'rpadclip', 'materialize', 'field', 'fields', 'simplify'}


def gen_virt(rng, i):
    # (no int64 extremes: sum/prod overflow is undefined behaviour in the eager kernels, reported by UBSan: a C03 matter)
    a = G.gen_array(rng, depth=rng.choice([1, 2, 2, 3]), canonical_too=False, special=False)
    lay, t, n = a['layout'], a['type'], len(a['vals'])
    cands = []
    heads = ('np', 'nps', 'empty', 'lo', 'la', 'reg', 'ix', 'ixo', 'bym', 'bim', 'unm', 'un', 'rec', 'par')
    for path, node in G.nodes(lay):
        if node[0] not in heads:
            continue            # (gen.nodes also lists the key list of a record)
        if path:
            parent = lay
            for p in path[:-1]:
                parent = parent[p]
            if parent[0] == 'par':
                continue
        if node[0] == 'par' and node[1] in ('char', 'byte'):
            continue        # "__array__ = char only allowed for NumpyArray": the library's own validity rule
        cands.append((path, node))
    first = rng.choice(cands) if rng.random() < 0.65 else cands[0]     # the root more often
    wraps = [first]
    if rng.random() < 0.2:
        others = [c for c in cands if c[0][:len(first[0])] != first[0] and first[0][:len(c[0])] != c[0]]
        if others:
            wraps.append(rng.choice(others))
    cache = rng.choice(['none', 'keep', 'keep', 'evict-always', 'broken', 'flaky', 'flaky'])
    if cache == 'flaky':
        cache_sx = ['flaky'] + sorted(set(rng.randint(1, 14) for _ in range(rng.choice([1, 2, 3, 5]))))
    else:
        cache_sx = cache
    decls, scripts, meta_w = [], [], []
    for path, node in wraps:
        ln = G.child_len(node)
        r = rng.random()
        if r < 0.3 or ln is None:
            dlen, lenkind = 'none', 'none'
        elif r < 0.8:
            dlen, lenkind = ln, 'true'
        elif r < 0.9:
            dlen, lenkind = ln + rng.choice([1, 2]), 'toolarge'     # every payload is too short: error
        elif ln >= 1:
            dlen, lenkind = ln - 1, 'toosmall'                      # payload longer than declared
        else:
            dlen, lenkind = ln, 'true'
        form = rng.choice(['none', 'none', 'ok', 'ok', 'ok', 'wrong'])
        letters = ['o', 'o', 'o', 't']
        if lenkind == 'true' and ln >= 1:
            letters.append('s')
        if form == 'ok':
            letters.append('f')
        k = rng.choice([1, 1, 1, 2, 2, 3, 4])
        script = [rng.choice(letters) for _ in range(k)]
        if rng.random() < 0.7:
            script[-1] = 'o'
        decls.append([dlen, form])
        scripts.append(script)
        meta_w.append(dict(path=list(path), lenkind=lenkind, form=form, script=script, root=(len(path) == 0)))
    steps = gen_steps(rng, t, n, cache, rng.randint(1, 6), p_on=0.3, p_quiet=0.2)
    line = '(v%d virt (layout %s) (wrap %s) (gen %s) (cache %s) (declare %s) (ops %s))' % (
        i, G.sx(lay), ' '.join(G.sx(list(p)) for p, _ in wraps), ' '.join(G.sx(s) for s in scripts),
        G.sx(cache_sx), ' '.join(G.sx(d) for d in decls), ' '.join(G.sx(s) for s in steps))
    tags = dict(kind='virt', cache=cache, nwraps=len(wraps), root=meta_w[0]['root'],
                lenkind=meta_w[0]['lenkind'], form=meta_w[0]['form'])
    return C.Case('v%d' % i, 'virt', [line], [], dict(tags=tags, wraps=meta_w, cache=cache, steps=steps))


# operations on a derived object (a field / a slice / a carry of the array, kept alive since the step that made it):
# what it says about itself, and the operations whose dispatch consults those answers
ON_DERIVED = ['obs', 'obs', 'obs', 'depth', 'keys', 'type', 'len', 'reduce', 'reduce', 'reduce', 'num', 'flatten',
              'localindex', 'getitem', 'getitem', 'tojson', 'materialize', 'field', 'fields', 'range', 'lazycarry',
              'at', 'combinations', 'rpad', 'sort']
# (the eager carry is IndexedArray-over-RecordArray where the virtual one is a RecordArray: the multi-item getitem of
#  the two differs in the eager code itself, see ASSUMPTIONS; everything else is asked of a carry as well)
ON_CARRY = [c for c in ON_DERIVED if c not in ('getitem', 'field', 'fields', 'range', 'lazycarry', 'combinations', 'rpad', 'sort')]
# (reduce / sort of an IndexedArray over a RecordArray whose fields differ in depth raises in the eager code itself:
#  "reduce_next with unbranching depth > negaxis ... instead, it returned RecordArray")
ON_CARRY_REC = [c for c in ON_CARRY if c != 'reduce']
DERIVE = ['field', 'field', 'field', 'fields', 'range', 'lazycarry', 'carry', 'getitem']


def gen_steps(rng, t, n, cache, nsteps, p_on, p_quiet, p_derive=0.0):
    """a history: operations on the array and on the results of earlier steps, cache events in between.
    known[k] = (type, length, how) of the array result of step k when the harness can tell, else None."""
    steps = []
    known = {}
    for k in range(nsteps):
        r = rng.random()
        if cache != 'none' and r < 0.14:
            steps.append(['evict'])
            continue
        if cache != 'none' and r < 0.17:
            steps.append(['break'])
            continue
        on = None
        if known and rng.random() < p_on:
            on = rng.choice(sorted(known))
        src = known[on] if on is not None else (t, n, 'root')
        if src is None:
            op = gen_op(rng, t, n, generic=True)
        elif on is not None:
            only = ON_DERIVED
            if src[2] == 'carry':
                only = ON_CARRY_REC if G.has_kind(src[0], 'rec') else ON_CARRY
            op = gen_op(rng, src[0], src[1], only=only)
        elif rng.random() < p_derive:
            op = gen_op(rng, t, n, only=DERIVE)
            if op[0] == 'getitem':
                # a single item: the branch of VirtualArray::getitem that answers lazily
                fs = deep_fields(t)
                op = ['getitem', [rng.choice([['fld', rng.choice(fs)] if fs else ['rng', 0, 'none', 1],
                                              ['rng', rng.randint(0, n), rng.choice(['none', rng.randint(0, n + 1)]), 1]])]]
        else:
            op = gen_op(rng, t, n)
        st = []
        if op[0] in ARRAY_OPS and rng.random() < p_quiet:
            st.append('quiet')
        if on is not None:
            st += ['on', on]
        if op[0] in ARRAY_OPS:
            known[k] = derived(op, src[0], src[1], src[2]) if src is not None else None
        steps.append(st + op)
    return steps


def gen_rec_type(rng):
    """a record type whose fields differ in depth: a flat field next to a list-typed one (and a third of any type,
    nested records included); sometimes below a list / an option, or itself a field of an outer record"""
    nf = rng.choice([2, 2, 3])
    names = rng.sample(['a', 'b', 'c', 'x', 'y', 'pt'], nf)
    flat = ('leaf', rng.choice(['int64', 'int64', 'float64', 'bool', 'int32']))
    inner = G.gen_type(rng, rng.choice([0, 0, 1]), allow_union=False, allow_str=False)
    fts = [flat, ('list', inner)]
    if nf == 3:
        fts.append(G.gen_type(rng, 2, allow_union=rng.random() < 0.3, allow_str=rng.random() < 0.3))
    rng.shuffle(fts)
    rec = ('rec', list(zip(names, fts)), rng.random() < 0.12)
    r = rng.random()
    if r < 0.55:
        return rec
    if r < 0.75:
        return ('list', rec)
    if r < 0.85:
        return ('opt', rec)
    outer = rng.sample(['p', 'q', 'r'], 2)
    return ('rec', [(outer[0], rec), (outer[1], ('leaf', 'int64'))] if rng.random() < 0.5 else
            [(outer[1], ('list', ('leaf', 'float64'))), (outer[0], rec)], False)


def gen_vrec(rng, i):
    """histories about derived objects: a virtual RECORD array (fields of different depths); fields / lists of fields /
    slices / carries are taken at every stage of the life of the array (never generated, generated and cached,
    evicted; form declared or inferred by an earlier generation) and stay alive; later steps ask them about
    themselves and run the operations that dispatch on those answers"""
    t = gen_rec_type(rng)
    n = rng.choice([1, 2, 3, 3, 4])
    vals = [G.gen_value(rng, t, 4, False) for _ in range(n)]
    if hasattr(G, 'rectangularise'):
        vals = G.rectangularise(rng, t, vals)
    enc = G.Enc(rng, special=False, opt_kinds=('ixo', 'bym', 'unm', 'ixo', 'bym', 'unm', 'bim'))
    lay = G.encode(enc, t, vals)
    cands = [((), lay)]
    for path, node in G.nodes(lay):
        if path and node[0] == 'rec':
            parent = lay
            for p in path[:-1]:
                parent = parent[p]
            if parent[0] != 'par':
                cands.append((path, node))
    path, node = cands[0] if rng.random() < 0.75 else rng.choice(cands)
    cache = rng.choice(['none', 'none', 'keep', 'keep', 'keep', 'evict-always', 'flaky', 'flaky', 'broken'])
    cache_sx = ['flaky'] + sorted(set(rng.randint(1, 14) for _ in range(rng.choice([1, 2, 3])))) if cache == 'flaky' else cache
    ln = G.child_len(node)
    lenkind = 'none' if (ln is None or rng.random() < 0.3) else 'true'
    form = rng.choice(['none', 'none', 'ok', 'ok', 'ok'])
    script = rng.choice([['o'], ['o'], ['o'], ['o'], ['t', 'o'], ['o', 't', 'o']])
    steps = gen_steps(rng, t, n, cache, rng.randint(2, 9), p_on=0.55, p_quiet=0.6, p_derive=0.7)
    line = '(w%d virt (layout %s) (wrap %s) (gen %s) (cache %s) (declare %s) (ops %s))' % (
        i, G.sx(lay), G.sx(list(path)), G.sx(script), G.sx(cache_sx), G.sx([ln if lenkind == 'true' else 'none', form]),
        ' '.join(G.sx(s) for s in steps))
    mw = [dict(path=list(path), lenkind=lenkind, form=form, script=script, root=(len(path) == 0))]
    tags = dict(kind='vrec', cache=cache, nwraps=1, root=mw[0]['root'], lenkind=lenkind, form=form)
    return C.Case('w%d' % i, 'virt', [line], [], dict(tags=tags, wraps=mw, cache=cache, steps=steps))


def gen_stops(rng, n, kmax):
    k = rng.randint(1, kmax)
    cuts = sorted(rng.choice([0, 0, n, n] + list(range(n + 1))) for _ in range(k - 1))
    return cuts + [n]


def trailing_empty(target, total):
    """the known defect's trigger: a zero-length target partition after the data are exhausted"""
    return any(target[i] == total and target[i - 1] == total for i in range(1, len(target)))


def gen_part(rng, i):
    a = G.gen_array(rng, depth=rng.choice([1, 2, 2, 3]), toplen=rng.choice([0, 1, 2, 3, 4, 5, 6, 6, 8, 11]), canonical_too=False)
    lay, n = a['layout'], len(a['vals'])
    stops = gen_stops(rng, n, 4)
    steps = []
    cur_n = n
    nsteps = rng.randint(1, 5)
    for k in range(nsteps):
        c = rng.choice(['at', 'at', 'range', 'range', 'range', 'narrow', 'pidx', 'pidx', 'tojson', 'len',
                        'repartition', 'repartition', 'repartition', 'numpartitions'])
        if c == 'at':
            steps.append(['at', rng.randint(-cur_n - 1, cur_n)])
        elif c in ('range', 'narrow'):
            b = lambda: rng.choice(['none', rng.randint(-cur_n - 2, cur_n + 2)])
            step = rng.choice(['none', 1, 1, 1, 2, 3, -1, -1, -2, -2, -3])
            if c == 'narrow':
                if k == nsteps - 1:
                    c = 'range'
                else:
                    step = rng.choice(['none', 1])      # keep the length computable here
            x, y = b(), b()
            steps.append([c, x, y, step])
            if c == 'narrow':
                lo = 0 if x == 'none' else (x + cur_n if x < 0 else x)
                hi = cur_n if y == 'none' else (y + cur_n if y < 0 else y)
                lo, hi = min(max(lo, 0), cur_n), min(max(hi, 0), cur_n)
                cur_n = max(hi - lo, 0)
        elif c == 'pidx':
            steps.append(['pidx', rng.randint(0, cur_n + 1)])
        elif c == 'repartition':
            target = gen_stops(rng, cur_n, 5)
            if trailing_empty(target, cur_n) and (k != nsteps - 1 or rng.random() < 0.8):
                # (the known defect's trigger: kept rare, and last in its session, because it kills the process)
                target = [x for j, x in enumerate(target) if not (j >= 1 and x == cur_n and target[j - 1] == cur_n)]
            steps.append(['repartition'] + target)
        else:
            steps.append([c])
    line = '(p%d part (n %d) (layout %s) (stops %s) (ops %s))' % (
        i, n, G.sx(lay), ' '.join(str(s) for s in stops), ' '.join(G.sx(s) for s in steps))
    tags = dict(kind='part', nparts=len(stops), empties=sum(1 for j, s in enumerate(stops) if s == ([0] + stops)[j]),
                n=n)
    return C.Case('p%d' % i, 'part', [line], [], dict(tags=tags, steps=steps, n=n, stops=stops))


def gen_malformed(rng, i):
    """repartition targets outside the property (non-monotone / wrong total): only reported"""
    n = rng.choice([2, 3, 4])
    lay = ['np', 'int64', [n], list(range(10, 10 + n))]
    target = rng.choice([[n + 1], [n, n - 1, n], [1, 0, n], [n - 1]])
    line = '(m%d part (n %d) (layout %s) (stops %d) (ops (repartition %s)))' % (
        i, n, G.sx(lay), n, ' '.join(str(x) for x in target))
    return C.Case('m%d' % i, 'part', [line], [], dict(tags=dict(kind='malformed'), steps=[['repartition'] + target],
                                                      n=n, stops=[n], malformed=True))


def corpus_cases():
    out = []
    d = os.path.join(C.VERIF, 'corpus', 'C18')
    if os.path.isdir(d):
        for fn in sorted(os.listdir(d)):
            if fn.endswith('.case'):
                out += replay_cases(os.path.join(d, fn), prefix='c' + re.sub(r'\W', '', fn[:-5]))
    return out


def case_of_line(ln, cid=None):
    x = parse(ln)
    if cid is not None:
        x[0] = cid
    kind = x[1]
    steps = fld(x, 'ops')[1:]
    meta = dict(tags=dict(kind=kind, corpus=1), steps=[to_py(s) for s in steps])
    if kind == 'part':
        lay = fld(x, 'layout')[1]
        nf = fld(x, 'n')
        n = int(nf[1]) if nf else G.child_len(to_py(lay))
        if nf is None:
            x.insert(2, ['n', str(n)])
        meta.update(n=n, stops=[int(s) for s in fld(x, 'stops')[1:]])
    else:
        wraps = fld(x, 'wrap')[1:]
        if all(not isinstance(w, list) for w in wraps):
            wraps = [wraps]
        gens = fld(x, 'gen')[1:] if fld(x, 'gen') else [['o']]
        if all(not isinstance(g, list) for g in gens):
            gens = [gens]
        decl = fld(x, 'declare')[1:] if fld(x, 'declare') else []
        if decl and all(not isinstance(d, list) for d in decl):
            decl = [decl] * len(wraps)
        lay = to_py(fld(x, 'layout')[1])
        mw = []
        alias = {'ok': ['o'], 'throws': ['t'], 'throws-first-then-ok': ['t', 'o'], 'wrong-length': ['s'], 'wrong-form': ['f']}
        for j, w in enumerate(wraps):
            node = lay
            for p in w:
                node = node[int(p)]
            ln_ = G.child_len(node)
            d = decl[j] if j < len(decl) else ['none', 'none']
            if d[0] == 'none':
                lk = 'none'
            elif d[0] == 'true' or int(d[0]) == ln_:
                lk = 'true'
            else:
                lk = 'toolarge' if int(d[0]) > ln_ else 'toosmall'
            sc = []
            for g in (gens[j] if j < len(gens) else ['o']):
                sc += alias.get(g, [g])
            mw.append(dict(path=[int(p) for p in w], lenkind=lk, form=d[1], script=sc, root=(len(w) == 0)))
        c = fld(x, 'cache')
        cache = 'none' if c is None else (c[1] if not isinstance(c[1], list) else 'flaky')
        meta.update(wraps=mw, cache=cache)
        meta['tags'].update(cache=cache)
    return C.Case(x[0], kind, [unparse(x)], [], meta)


def to_py(x):
    if isinstance(x, list):
        return [to_py(y) for y in x]
    try:
        return int(x)
    except ValueError:
        return x


def replay_cases(path, prefix='r'):
    out = []
    k = 0
    for ln in open(path):
        ln = ln.strip()
        if not ln or ln.startswith('#'):
            continue
        out.append(case_of_line(ln, '%s%d' % (prefix, k)))
        k += 1
    return out


def cases(rng, tier):
    nv, npart = (1000, 2000) if tier == 'quick' else (20000, 20000)
    out = corpus_cases()
    out += [gen_virt(rng, i) for i in range(nv)]
    out += [gen_vrec(rng, i) for i in range(2 * nv)]
    out += [gen_part(rng, i) for i in range(npart)]
    out += [gen_malformed(rng, i) for i in range(12 if tier == 'quick' else 60)]
    return out


# ------------------------------------------------------------------------------------------------ running
def session_line(c):
    return c.args[0]


def run_virtrun(lines):
    exe = os.path.join(B18, 'virtrun')
    p = subprocess.run('ulimit -s unlimited 2>/dev/null; exec ' + exe, shell=True, input='\n'.join(lines) + '\n',
                       stdout=subprocess.PIPE, stderr=subprocess.PIPE, text=True, timeout=3600)
    if p.returncode != 0:
        raise RuntimeError('virtrun failed rc=%s: %s' % (p.returncode, p.stderr[-2000:]))
    out = {}
    for ol in p.stdout.splitlines():
        m = C.LINE_ID.match(ol)
        if m:
            out[m.group(1)] = ol[len(m.group(1)) + 2:-1]
    return out


def under_option(session, wraps, heads=('ixo', 'bym', 'bim', 'unm')):
    """is some wrapped node the direct content of an option node (of a node that calls simplify_optiontype)?"""
    lay = fld(session, 'layout')[1]
    for w in wraps:
        node = lay
        for p in w['path'][:-1]:
            node = node[p]
        if w['path'] and node[0] in heads:
            return True
    return False


def hidden_from_simplify(session, wraps, tv, te):
    """the type difference that simplify_optiontype leaves when it cannot see that its content (a VirtualArray) is an
    option / indexed array: an option of an option, or (UnmaskedArray over an IndexedArray) an option the eager
    array drops -- the same type up to option markers"""
    if double_option(tv) and not double_option(te):
        return True
    norm = lambda ts: re.sub(r'\?|option\[|\]', '', ts)
    return tv != te and norm(tv) == norm(te) and under_option(session, wraps)


def under_union(session, wraps):
    """is some wrapped node a direct content of a UnionArray?"""
    lay = fld(session, 'layout')[1]
    for w in wraps:
        node = lay
        for p in w['path'][:-1]:
            node = node[p]
        if w['path'] and node[0] == 'un':
            return True
    return False


def model_outcomes(w, lenient):
    """model-level generator outcomes for one wrap: o conforming / b wrong shape / f exception"""
    out = []
    for ch in w['script']:
        if ch == 't':
            out.append('f')
        elif ch == 's':
            out.append('b' if w['lenkind'] in ('true', 'toolarge') else 'o')
        elif ch == 'f':
            out.append('b' if w['form'] in ('ok', 'wrong') else 'o')
        else:
            if w['lenkind'] == 'toolarge' or w['form'] == 'wrong':
                out.append('b')
            elif w['lenkind'] == 'toosmall' and not lenient:
                out.append('b')
            else:
                out.append('o')
    return out


def peek_only(st_in, w):
    """a (quiet) step on the root VirtualArray that VirtualArray answers with a lazier VirtualArray or from the
    cache (peek_array), never through array(): getitem_field / getitem_fields always; getitem_range, carry and a
    one-item getitem with a range when the length is declared (otherwise length() materialises)"""
    if 'on' in st_in[:2]:
        return False
    op = op_name(st_in)
    args = st_in[st_in.index(op) + 1:]
    if op in ('field', 'fields'):
        return True
    if op == 'getitem' and len(args[0]) == 1 and isinstance(args[0][0], list) and args[0][0][0] == 'fld':
        return True
    if w['lenkind'] == 'none':
        return False
    if op in ('range', 'carry', 'lazycarry'):
        return True
    return False


def virtm_line(c, steps_out, lenient, tag):
    m = c.meta
    wr = []
    for w in m['wraps']:
        wr.append('(%d %d (chars %s) (model %s))' % (0 if w['lenkind'] == 'none' else 1, 0 if w['form'] == 'none' else 1,
                                                     ' '.join(w['script']), ' '.join(model_outcomes(w, lenient))))
    sts = []
    single_root = len(m['wraps']) == 1 and m['wraps'][0]['root']
    for st_in, st_out in zip([['build']] + m['steps'], steps_out):
        toks = fld(st_out, 't')[1:]
        head = st_in[0]
        if head in ('evict', 'break'):
            kind = 'event'
        elif single_root and head == 'len':
            kind = 'len'
        elif single_root and head in ('type', 'depth', 'keys', 'form'):
            kind = 'type'      # answered by form(true): from the declared / inferred Form when there is one
        elif single_root and head == 'quiet' and peek_only(st_in, m['wraps'][0]):
            kind = 'peek'      # the result is not dumped: making it must not have materialised anything
        else:
            kind = 'op'
        sts.append('(%s%s)' % (kind, ''.join(' ' + t for t in toks)))
    return '(%s%s virtm (cached %d) (broken %d) (wraps %s) (steps %s))' % (
        c.id, tag, 0 if m['cache'] == 'none' else 1, 1 if m['cache'] == 'broken' else 0, ' '.join(wr), ' '.join(sts))


def canon(d):
    """the dumper prints the parameters of a VirtualArray node and again those of its payload: collapse"""
    if not isinstance(d, list):
        return d
    d = [canon(x) for x in d]
    if len(d) == 4 and d[0] == 'par' and isinstance(d[3], list) and len(d[3]) == 4 and d[3][0] == 'par' \
            and d[3][1] == d[1] and d[3][2] == d[2]:
        return d[3]
    return d


def same_json(a, b):
    """two tojson answers (lists of character codes) as JSON documents (object key order is not significant)"""
    import json
    try:
        return json.loads(''.join(chr(int(x)) for x in a)) == json.loads(''.join(chr(int(x)) for x in b))
    except (ValueError, TypeError):
        return False


OBSERVATIONS = ('obs', 'depth', 'keys', 'form')
PART_NAMES = dict(depth='(purelist_depth minmax_depth branch_depth purelist_isregular)', len='length', type='type',
                  keys='numfields/keys/fieldindex/haskey', form='Form conforms to the eager Form')


def double_option(ts):
    """an option of an option in a type string: what simplify_optiontype leaves when the content is hidden in a
    VirtualArray (the eager array never has one)"""
    return re.search(r'\?\?|\?option\[|option\[\?|option\[option\[', ts) is not None


def derivation_ops(steps_in, st_in):
    """names of the operations that made the object a step works on (following 'on I' references), innermost last"""
    out = []
    cur = st_in
    seen = 0
    while 'on' in cur[:2] and seen < 50:
        seen += 1
        maker = steps_in[cur[cur.index('on') + 1] + 1]
        out.append(op_name(maker))
        cur = maker
    return out


def op_name(st_in):
    """the operation of a step (after quiet / on I)"""
    j = 0
    if st_in[j] == 'quiet':
        j += 1
    if st_in[j] == 'on':
        j += 2
    return st_in[j]


def show_part(name, x):
    if name == 'type' and isinstance(x, list):
        try:
            return '"' + ''.join(chr(int(ch)) for ch in x) + '"'
        except (ValueError, TypeError):
            pass
    return unparse(x)


def obs_diff(opname, vt, et):
    """[(what, virtual answer, eager answer)] for the observations that differ"""
    if opname == 'form':
        return []
    if opname != 'obs':
        return [] if vt == et else [(PART_NAMES.get(opname, opname), show_part(opname, vt), show_part(opname, et))]
    out = []
    if not (isinstance(vt, list) and isinstance(et, list)):
        return [('obs', unparse(vt), unparse(et))]
    for name in ('len', 'depth', 'keys', 'type'):
        # ((form 0|1): whether the node classes conform as well -- not promised, see ASSUMPTIONS; counted only)
        a, b = fld(vt, name), fld(et, name)
        if a != b:
            out.append((name if name == 'type' else PART_NAMES[name] if name != 'len' else 'length',
                        show_part(name, a[1] if a and len(a) == 2 else a), show_part(name, b[1] if b and len(b) == 2 else b)))
    return out


def np_ints(d):
    """(np int64 (k) (a b ...)) -> [a, b, ...];  (scalar int64 v) -> v"""
    if isinstance(d, list) and d and d[0] == 'np':
        return [int(x) for x in d[3]]
    if isinstance(d, list) and d and d[0] == 'scalar':
        return int(d[2])
    return d


def q_value(q):
    """driver result on the positions array -> comparable python value"""
    if isinstance(q, list) and q and q[0] == 'parts':
        return ('parts', [int(x) for x in q[1]], [np_ints(p) for p in q[2:]])
    if isinstance(q, list) and q and q[0] in ('np', 'scalar'):
        return np_ints(q)
    if isinstance(q, list):
        return [int(x) if re.match(r'^-?\d+$', x) else x for x in q]
    return int(q) if re.match(r'^-?\d+$', q) else q


def m_value(m):
    if isinstance(m, list) and m and m[0] == 'parts':
        return ('parts', [int(x) for x in m[1]], [[int(y) for y in p] for p in m[2:]])
    if isinstance(m, list):
        return [int(x) for x in m]
    return int(m) if re.match(r'^-?\d+$', m) else m


def first_crashing_prefix(c, san):
    """re-run a crashing session on growing prefixes of its steps; returns (k, phase, stderr_tail, line)"""
    x = parse(session_line(c))
    ops = fld(x, 'ops')
    steps = ops[1:]
    exe = os.path.join(C.SAN if san else C.STD, DRV)
    env = dict(os.environ)
    env['ASAN_OPTIONS'] = 'detect_leaks=0:abort_on_error=1:allocator_may_return_null=1'
    env['UBSAN_OPTIONS'] = 'halt_on_error=1:abort_on_error=1:print_stacktrace=1'
    for k in range(1, len(steps) + 1):
        ops[1:] = steps[:k]
        ln = unparse(x)
        try:
            p = subprocess.run([exe], input=ln + '\n', stdout=subprocess.PIPE, stderr=subprocess.PIPE, text=True,
                               timeout=20, env=env)
            rc, err, hung = p.returncode, p.stderr, False
        except subprocess.TimeoutExpired as e:
            rc, hung = None, True
            err = e.stderr.decode() if isinstance(e.stderr, bytes) else (e.stderr or '')
        if hung or rc != 0:
            marks = re.findall(r'^@([EVPQ]) (-?\d+)$', err, re.M)
            phase = marks[-1][0] if marks else '?'
            if not san and phase != 'E':
                # undefined behaviour in the eager phase may only show later: ask the sanitizer build, if it is current
                sexe = os.path.join(C.SAN, DRV)
                src = os.path.join(C.VERIF, 'impl', 'drv', 'virtdrv.cpp')
                if os.path.exists(sexe) and os.path.getmtime(sexe) >= os.path.getmtime(src):
                    try:
                        ps = subprocess.run([sexe], input=ln + '\n', stdout=subprocess.PIPE, stderr=subprocess.PIPE,
                                            text=True, timeout=60, env=env)
                        if ps.returncode != 0 and 'loading shared libraries' not in ps.stderr:
                            smarks = re.findall(r'^@([EVPQ]) (-?\d+)$', ps.stderr, re.M)
                            if smarks and smarks[-1][0] == 'E':
                                phase = 'E'
                    except subprocess.TimeoutExpired:
                        pass
            tail = '\n'.join(l for l in err.splitlines() if not l.startswith('@'))[:1500]
            # try the crashing step alone
            ops[1:] = [steps[k - 1]]
            alone = unparse(x)
            try:
                p1 = subprocess.run([exe], input=alone + '\n', stdout=subprocess.PIPE, stderr=subprocess.PIPE,
                                    text=True, timeout=20, env=env)
                if p1.returncode != 0 and not (steps[k - 1][0] == 'on' or 'on' in steps[k - 1][:2]):
                    ln = alone
            except subprocess.TimeoutExpired:
                pass
            return k - 1, phase, ('hang' if hung else 'rc=%s' % rc) + '\n' + tail, ln
    # not reproducible on its own (undefined behaviour): ask the sanitizer build where it goes wrong first
    phase, tail = '?', ''
    sexe = os.path.join(C.SAN, DRV)
    src = os.path.join(C.VERIF, 'impl', 'drv', 'virtdrv.cpp')
    if os.path.exists(sexe) and os.path.getmtime(sexe) >= os.path.getmtime(src):
        try:
            ps = subprocess.run([sexe], input=session_line(c) + '\n', stdout=subprocess.PIPE, stderr=subprocess.PIPE,
                                text=True, timeout=120, env=env)
            if ps.returncode != 0 and 'loading shared libraries' not in ps.stderr:
                smarks = re.findall(r'^@([EVPQ]) (-?\d+)$', ps.stderr, re.M)
                if smarks:
                    phase = smarks[-1][0]
                tail = '\n'.join(l for l in ps.stderr.splitlines() if not l.startswith('@'))[:1500]
        except subprocess.TimeoutExpired:
            pass
    return None, phase, 'not reproducible in isolation\n' + tail, session_line(c)


def run(cases, tier, rng):
    san = (tier == 'thorough')
    findings = []
    verd = {}
    dist = {}
    samples = []
    distinct = set()
    evaluations = 0
    info = dict(eager_crashes=0, malformed={}, long_sessions=0, lazy_checked=0, model_steps=0, value_walks=0, observations=0,
                observations_on_derived=0)
    corr = {'corr:virtual==eager': True, 'corr:trace-is-a-model-run': True, 'corr:invocation-counts': True,
            'corr:declared-queries-do-not-generate': True, 'corr:partitioned==eager': True,
            'corr:partition-model(positions)': True, 'corr:pinned-model-predicts-crash': True}
    # a correspondence broken only by a listed known finding stays discharged
    known_sigs = set(k.get('signature') for k in C.load_known() if k.get('property') == 'C18' and k.get('status') != 'fixed')

    def bump(k):
        verd[k] = verd.get(k, 0) + 1

    def add(kind, what, c, lines, sig=None, no_input=False, obl=None):
        if obl and not (sig is not None and sig in known_sigs):
            corr[obl] = False
        findings.append(dict(kind=kind, what=what, case_lines=lines, signature=sig, no_input=no_input,
                             size=len(lines[0]) if lines else 0, cid=c.id))

    for c in cases:
        for k2, v2 in (c.meta.get('tags') or {}).items():
            dist.setdefault(k2, {})
            dist[k2][str(v2)] = dist[k2].get(str(v2), 0) + 1

    t0 = C.time.time()
    res, errs = C.run_driver([session_line(c) for c in cases], drv=DRV, san=san)
    for attempt in range(4):
        again = [c for c in cases if res.get(c.id, '').startswith('crash rc=127')
                 or 'error while loading shared libraries' in errs.get(c.id, '')]
        if not again:
            break
        C.log('%d sessions hit a library that was being rebuilt; retrying' % len(again))
        C.time.sleep(20)
        res2, errs2 = C.run_driver([session_line(c) for c in again], drv=DRV, san=san)
        for c in again:
            errs.pop(c.id, None)
        res.update(res2)
        errs.update(errs2)
    C.log('driver: %d sessions in %.1fs' % (len(cases), C.time.time() - t0))
    budget = {'minimise': 30}

    # ---------------- model runs
    mlines = []
    parsed = {}
    for c in cases:
        r = res.get(c.id, 'crash missing')
        if not r.startswith('ok'):
            continue
        try:
            steps_out = parse('(' + r[3:] + ')') if len(r) > 3 else []
        except ValueError:
            continue
        parsed[c.id] = steps_out
        if c.op == 'virt':
            has_small = any(w['lenkind'] == 'toosmall' for w in c.meta['wraps'])
            mlines.append(virtm_line(c, steps_out, False, ''))
            if has_small:
                mlines.append(virtm_line(c, steps_out, True, '~lenient'))
        else:
            mlines.append(session_line(c))
    # crashed part sessions still get a model verdict (the pinned model must predict the crash)
    for c in cases:
        if c.op == 'part' and c.id not in parsed:
            mlines.append(session_line(c))
    t0 = C.time.time()
    mres = run_virtrun(mlines) if mlines else {}
    C.log('model: %d lines in %.1fs' % (len(mlines), C.time.time() - t0))


    for c in cases:
        r = res.get(c.id, 'crash missing')
        line = session_line(c)
        nontrivial = False
        # ------------------------------------------------------------ crashes / hangs / driver misuse
        if r.startswith('bad'):
            bump('bad')
            add('bad', 'driver rejected the session: %s' % r[:200], c, [line], no_input=True, obl='corr:virtual==eager')
            continue
        if not r.startswith('ok'):
            if c.meta.get('malformed'):
                info['malformed'][r.split()[0] + ' ' + unparse(parse(line)[-1])] = 1
                bump('malformed-crash')
                continue
            sig = None
            k = None
            obl = 'corr:partitioned==eager' if c.op == 'part' else 'corr:virtual==eager'
            if c.op == 'part':
                # the pinned model predicts where the implementation reads partitions_[numpartitions]
                mr = mres.get(c.id)
                if mr and mr.startswith('ok'):
                    ms = parse('(' + mr[3:] + ')')
                    for kk, st in enumerate(c.meta['steps']):
                        if kk >= len(ms) or st[0] != 'repartition':
                            continue
                        pin, fx = fld(ms[kk], 'pinned'), fld(ms[kk], 'm')
                        if pin is not None and pin[1:] == ['err', 'oob'] and fx[1] == 'ok' and fx[2][1] \
                                and trailing_empty([int(x) for x in st[1:]], int(fx[2][1][-1])):
                            sig, k = KNOWN_SIG, kk
                            break
            elif any(w['lenkind'] == 'toosmall' for w in c.meta['wraps']):
                sig = LONG_SIG     # the accepted longer payload makes length() and the buffers disagree
            rep = 'reps:%s' % sig
            if sig is not None and budget.get(rep, 0) >= 2:
                bump('crash')
                info.setdefault('crashes_by_signature', {})
                info['crashes_by_signature'][sig] = info['crashes_by_signature'].get(sig, 0) + 1
                if not (sig in known_sigs):
                    corr[obl] = False
                continue
            if budget['minimise'] <= 0:
                bump('crash')
                add('crash', '%s session: implementation crashed/hung [%s] (not minimised)' % (c.op, r), c,
                    [line, '# stderr: ' + errs.get(c.id, '')[-800:].replace('\n', '\n# ')], sig, obl=obl)
                continue
            budget['minimise'] -= 1
            budget[rep] = budget.get(rep, 0) + 1
            k2, phase, tail, minimal = first_crashing_prefix(c, san)
            if phase == 'E':
                info['eager_crashes'] += 1        # the eager operation itself dies: not this property's subject
                bump('eager-crash')
                info.setdefault('eager_crash_sessions', []).append(minimal[:600])
                continue
            if sig == KNOWN_SIG and k2 != k:
                sig = None                          # it died somewhere else than predicted
            if c.op == 'part' and sig is None and k2 is not None and c.meta['steps'][k2][0] == 'repartition':
                add('modeldiff', 'the implementation crashes in repartition where the pinned model does not read out of bounds',
                    c, [minimal], no_input=True, obl='corr:pinned-model-predicts-crash')
            bump('crash')
            info.setdefault('crashes_by_signature', {})
            info['crashes_by_signature'][str(sig)] = info['crashes_by_signature'].get(str(sig), 0) + 1
            what = ('%s session: implementation crashed/hung in step %s (%s phase) [%s]' %
                    (c.op, k2, {'V': 'virtual', 'P': 'partitioned', 'Q': 'partitioned(positions)'}.get(phase, phase), r))
            add('crash', what, c, [minimal, '# full session: ' + line] + ['# ' + l for l in tail.splitlines()[:25]], sig, obl=obl)
            continue
        steps_out = parsed.get(c.id)
        if steps_out is None:
            bump('bad')
            add('bad', 'unparsable driver output', c, [line], no_input=True, obl='corr:virtual==eager')
            continue
        evaluations += len(steps_out)

        # ------------------------------------------------------------ virtual sessions
        if c.op == 'virt':
            m = c.meta
            steps_in = [['build']] + m['steps']
            has_small = any(w['lenkind'] == 'toosmall' for w in m['wraps'])
            # a declaration that contradicts the eager array: answers taken from the declaration legitimately differ
            lying = any(w['lenkind'] in ('toosmall', 'toolarge') or w['form'] == 'wrong' for w in m['wraps'])
            if has_small:
                info['long_sessions'] += 1
            mr = mres.get(c.id, 'bad missing')
            ml = mres.get(c.id + '~lenient') if has_small else None
            if not mr.startswith('ok') or (has_small and not (ml or '').startswith('ok')):
                bump('bad')
                add('bad', 'virtrun could not replay: %s' % mr[:200], c, [line], no_input=True, obl='corr:trace-is-a-model-run')
                continue
            msteps = parse('(' + mr[3:] + ')')
            lsteps = parse('(' + ml[3:] + ')') if has_small else None

            def explains(ms, k, so):
                """does this model run explain step k of the implementation? (trace, counts, error => error)"""
                mstat, mcounts, magree = ms[k][1], [int(x) for x in fld(ms[k], 'n')[1:]], ms[k][3]
                counts_impl = [int(x) for x in fld(so, 'n')[1:]]
                v_ok = fld(so, 'v')[1] in ('ok', 'build', 'event', 'skip')
                return magree == 'agree' and 'incoherent' not in ms[k] and mcounts == counts_impl and not (mstat == 'err' and v_ok)

            ngen = 0
            nok = 0
            use_lenient = False
            for k, (st_in, so) in enumerate(zip(steps_in, steps_out)):
                v, e, nn, tt = fld(so, 'v'), fld(so, 'e'), fld(so, 'n'), fld(so, 't')
                info['model_steps'] += 1
                counts_impl = [int(x) for x in nn[1:]]
                ngen = sum(counts_impl)
                if has_small and not use_lenient and not explains(msteps, k, so) and explains(lsteps, k, so):
                    # the expectation "a payload longer than declared is a mismatch" fails here, and the model in
                    # which such a payload is accepted explains the implementation
                    use_lenient = True
                ms = lsteps if use_lenient else msteps
                mstat, mcounts, magree = ms[k][1], [int(x) for x in fld(ms[k], 'n')[1:]], ms[k][3]
                if magree != 'agree' or 'incoherent' in ms[k]:
                    bump('modeldiff')
                    add('modeldiff', 'correspondence corr:trace-is-a-model-run broken at step %d: %s (trace %s)' %
                        (k, unparse(magree), unparse(tt)), c, [line, '# driver: ' + r[:1500], '# model: ' + mr[:800]],
                        no_input=True, obl='corr:trace-is-a-model-run')
                    break
                if mcounts != counts_impl:
                    bump('modeldiff')
                    add('modeldiff', 'correspondence corr:invocation-counts broken at step %d: implementation %s model %s' %
                        (k, counts_impl, mcounts), c, [line, '# driver: ' + r[:1500], '# model: ' + mr[:800]],
                        no_input=True, obl='corr:invocation-counts')
                    break
                if v[1] in ('event', 'skip'):
                    continue
                if e[1] == 'err' and st_in[0] == 'build':
                    break                                    # the eager layout itself was refused: nothing to compare
                # laziness (generator_called_lazily / declared_queries_are_free, on the implementation)
                if st_in[0] == 'len' and len(m['wraps']) == 1 and m['wraps'][0]['root'] and m['wraps'][0]['lenkind'] != 'none':
                    info['lazy_checked'] += 1
                    if len(tt) > 1:
                        bump('viol')
                        add('viol', 'length() with a declared length touched the generator/cache at step %d: %s' % (k, unparse(tt)),
                            c, [line, '# driver: ' + r[:1500]], obl='corr:declared-queries-do-not-generate')
                        break
                v_ok, e_ok = v[1] in ('ok', 'build'), e[1] in ('ok', 'build')
                if mstat == 'err' and v_ok:
                    bump('viol')
                    add('viol', 'step %d %s: a generation fails (exception / mismatch) but the virtual array answered' %
                        (k, unparse(st_in)), c, [line, '# driver: ' + r[:1500], '# model: ' + mr[:800]], obl='corr:virtual==eager')
                    break
                if not v_ok and st_in[0] == 'build':
                    if mstat == 'err' or lying:
                        break                                # construction needs the payload and the generation failed
                    bump('viol')
                    add('viol', 'the layout can be built eagerly but not with the virtual node (%s)' % v[2],
                        c, [line, '# driver: ' + r[:1500]], obl='corr:virtual==eager')
                    break
                if lying or mstat == 'err' or not e_ok:
                    if not e_ok and e[2] == 'runtime':
                        bump('eager-internal-error')     # std::runtime_error = the library reports its own inconsistency
                        continue
                    if not e_ok and v_ok and mstat != 'err' and not lying:
                        if v[2] == 'lazy':
                            bump('deferred-error')       # a lazy result: the error belongs to its materialisation
                            continue
                        sig = None
                        opname = [x for x in st_in if x not in ('quiet', 'on') and not isinstance(x, int)][0]
                        if opname in ('sort', 'argsort') and ('(par string' in line or '(par bytestring' in line):
                            sig = STRSORT_SIG
                        bump('viol')
                        add('viol', 'step %d %s: the eager array raises, the virtual array answers' % (k, unparse(st_in)),
                            c, [line, '# driver: ' + r[:1500]], sig, obl='corr:virtual==eager')
                        break
                    continue
                if not v_ok:
                    sig = None
                    if v[2] == 'value' and under_union(parse(line), m['wraps']):
                        sig = UNION_SIG
                    elif v[2] == 'runtime' and under_option(parse(line), m['wraps'], ('ix', 'ixo', 'bym', 'bim', 'unm')):
                        # IndexedArray / option node over a VirtualArray whose payload is an option: left unsimplified
                        # (IndexedArray over IndexedOptionArray), on which sort / reduce report an internal inconsistency
                        sig = UNION_SIG
                    elif v[2] == 'value' and '(bim ' in line and not (
                            re.search(r'\(layout (\(par \S+ \S+ )?\(bim ', line) and
                            all(o in ('range', 'materialize') for o in derivation_ops(steps_in, st_in) + [op_name(st_in)])):
                        # (a chain of plain range slices of a BitMaskedArray that is the top node is predicted correctly --
                        # Form::getitem_range turns a BitMaskedForm into a ByteMaskedForm -- so the known finding does not
                        # cover it; below a record the fields are sliced too and the prediction is wrong: known finding)
                        sig = BITMASK_SIG
                    bump('viol')
                    add('viol', 'step %d %s: the eager array answers, the virtual array raises (%s) although every generation succeeded' %
                        (k, unparse(st_in), v[2]), c, [line, '# driver: ' + r[:1500], '# model: ' + mr[:800]], sig,
                        obl='corr:virtual==eager')
                    break
                nok += 1
                if v[1] == 'build' or v[2] == '=' or v[2] == 'lazy':
                    if v[1] != 'build' and op_name(st_in) in OBSERVATIONS:
                        info['observations'] += 1
                        info['observations_on_derived'] += 1 if 'on' in st_in[:2] else 0
                    continue

                veq = fld(so, 'veq')
                info['value_walks'] += 1
                opname = op_name(st_in)
                if opname in OBSERVATIONS:
                    info['observations'] += 1
                    info['observations_on_derived'] += 1 if 'on' in st_in[:2] else 0
                    diffs = obs_diff(opname, v[2], e[2])
                    if (opname == 'form' and v[2] != e[2]) or (opname == 'obs' and isinstance(v[2], list) and fld(v[2], 'form') != fld(e[2], 'form')):
                        info['node_classes_differ'] = info.get('node_classes_differ', 0) + 1
                    if not diffs:
                        continue
                    sig = None
                    if all(d[0] == 'type' and hidden_from_simplify(parse(line), m['wraps'], d[1], d[2]) for d in diffs):
                        sig = UNION_SIG
                    bump('viol')
                    add('viol', 'step %d %s: %s answers %s' % (
                        k, unparse(st_in), 'the object made by step %d (%s)' % (st_in[st_in.index('on') + 1], unparse(
                            steps_in[st_in[st_in.index('on') + 1] + 1])) if 'on' in st_in[:2] else 'the virtual array',
                        '; '.join('%s = %s where the eager array answers %s' % d for d in diffs)[:900]),
                        c, [line, '# driver: ' + r[:1500]], sig, obl='corr:virtual==eager')
                    break
                if 'type' in st_in and not isinstance(v[2], str):
                    tv = ''.join(chr(int(x)) for x in v[2])
                    te = ''.join(chr(int(x)) for x in e[2])
                    if tv != te:
                        bump('viol')
                        add('viol', 'step %d %s: type of the virtual array "%s", of the eager array "%s"' % (k, unparse(st_in), tv, te),
                            c, [line, '# driver: ' + r[:1500]], UNION_SIG if hidden_from_simplify(parse(line), m['wraps'], tv, te) else None, obl='corr:virtual==eager')
                        break
                    continue
                if veq is not None and veq[1] == '1':
                    continue
                if veq is not None and 'walk-failed' in unparse(veq):
                    info['uncomparable'] = info.get('uncomparable', 0) + 1     # a result that cannot be re-read
                    continue
                if veq is None and canon(v[2]) == e[2]:
                    continue
                bump('viol')
                add('viol', 'step %d %s: virtual %s != eager %s' % (k, unparse(st_in), unparse(veq[2] if veq else v[2])[:300],
                                                                  unparse(veq[3] if veq else e[2])[:300]),
                    c, [line, '# driver: ' + r[:1500]], obl='corr:virtual==eager')
                break
            else:
                bump('agree' if not use_lenient else 'long-accepted')
                nontrivial = ngen >= 1 and nok >= 2
            if use_lenient:
                add('viol', 'a generated array longer than the declared length is accepted (no error): length() and the '
                    'materialised array disagree', c, [line, '# driver: ' + r[:1500]], LONG_SIG, obl='corr:virtual==eager')
            if nontrivial:
                distinct.add(line.split(' ', 1)[1])
                if len(samples) < 3:
                    samples.append(line[:400])
            continue

        # ------------------------------------------------------------ partition sessions
        mr = mres.get(c.id, 'bad missing')
        if not mr.startswith('ok'):
            bump('bad')
            add('bad', 'virtrun could not run the partition session: %s' % mr[:200], c, [line], no_input=True,
                obl='corr:partition-model(positions)')
            continue
        msteps = parse('(' + mr[3:] + ')')
        ok_session = True
        repartitioned = False
        pending_model = None
        for k, (st_in, so) in enumerate(zip(c.meta['steps'], steps_out)):
            p, e, q, es = fld(so, 'p'), fld(so, 'e'), fld(so, 'q'), fld(so, 'es')
            if st_in[0] == 'repartition':
                repartitioned = True       # merging may change node classes / union arity: types no longer compared
            mm = fld(msteps[k], 'm')
            pin = fld(msteps[k], 'pinned')
            if c.meta.get('malformed'):
                info['malformed'][unparse(st_in) + ' -> ' + unparse(p)[:60]] = 1
                ok_session = False
                break
            # (iii) positions run vs model
            if (q[1] == 'ok') != (mm[1] == 'ok') or (q[1] == 'ok' and mm[2] != 'na' and q_value(q[2]) != m_value(mm[2])):
                # (reported after the session, unless the partitioned array also differs from the eager one -- (i) below --
                #  which is a concrete failing input for the property itself)
                if pending_model is None:
                    pending_model = ('correspondence corr:partition-model(positions) broken at step %d %s: implementation %s model %s' %
                                     (k, unparse(st_in), unparse(q)[:300], unparse(mm)[:300]))
            if pin is not None and pin[1:] == ['err', 'oob'] and p[1] == 'ok':
                # the pinned model reads out of bounds but the implementation survived: either it was fixed (fine: it
                # agrees with the guarded model above) or the read went unnoticed (std build)
                bump('pinned-oob-survived')
            # (i) partitioned vs eager
            if (p[1] == 'ok') != (e[1] == 'ok'):
                bump('viol')
                add('viol', 'step %d %s: partitioned %s, eager %s' % (k, unparse(st_in), unparse(p)[:200], unparse(e)[:200]),
                    c, [line, '# driver: ' + r[:1500]], obl='corr:partitioned==eager')
                ok_session = False
                break
            if p[1] != 'ok':
                continue
            if st_in[0] in ('range', 'narrow', 'repartition'):
                if es is None or (len(es) > 1 and es[1] == 'lengths-differ'):
                    bump('viol')
                    add('viol', 'step %d %s: partitioned result has total length %s, eager result %s' %
                        (k, unparse(st_in), p[2][1][-1] if p[2][1] else '?', es[2] if es else '?'),
                        c, [line, '# driver: ' + r[:1500]], obl='corr:partitioned==eager')
                    ok_session = False
                    break
                if q[1] == 'ok' and [int(x) for x in p[2][1]] != [int(x) for x in q[2][1]]:
                    bump('viol')
                    add('viol', 'step %d %s: stops differ between the array and the positions run' % (k, unparse(st_in)),
                        c, [line, '# driver: ' + r[:1500]], obl='corr:partitioned==eager')
                    ok_session = False
                    break
                ty = fld(so, 'ty')
                if ty is not None and ty[1] != 'same' and not repartitioned:
                    total = int(p[2][1][-1]) if p[2][1] else 0
                    tp = ''.join(chr(int(x)) for x in ty[2])
                    te = ''.join(chr(int(x)) for x in ty[3])
                    bump('viol')
                    add('viol', 'step %d %s: a partition of the result has type "%s", the eager slice "%s"' % (k, unparse(st_in), tp, te),
                        c, [line, '# driver: ' + r[:1500]], EMPTY_SIG if total == 0 else None, obl='corr:partitioned==eager')
                    ok_session = False
                    break
                peq = fld(so, 'peq')
                bad_part = None
                for j, flag in enumerate(peq[1:] if peq else []):
                    info['value_walks'] += 1
                    if flag != '1':
                        bad_part = (j, flag)
                        break
                if peq is None or bad_part is not None:
                    bump('viol')
                    add('viol', 'step %d %s: partition %s of the result %s != the eager slice %s' %
                        (k, unparse(st_in), bad_part[0] if bad_part else '?', unparse(bad_part[1][1])[:300] if bad_part else '?',
                         unparse(bad_part[1][2])[:300] if bad_part else '?'), c, [line, '# driver: ' + r[:1500]],
                        obl='corr:partitioned==eager')
                    ok_session = False
                    break
            elif st_in[0] == 'at':
                aeq = fld(so, 'aeq')
                info['value_walks'] += 1
                if aeq is None or aeq[1] != '1':
                    bump('viol')
                    add('viol', 'step %d %s: partitioned %s != eager %s' % (k, unparse(st_in), unparse(p[2])[:300], unparse(e[2])[:300]),
                        c, [line, '# driver: ' + r[:1500]], obl='corr:partitioned==eager')
                    ok_session = False
                    break
            elif st_in[0] in ('tojson', 'len'):
                if p[2] != e[2] and not (st_in[0] == 'tojson' and same_json(p[2], e[2])):
                    bump('viol')
                    add('viol', 'step %d %s: partitioned %s != eager %s' % (k, unparse(st_in), unparse(p[2])[:300], unparse(e[2])[:300]),
                        c, [line, '# driver: ' + r[:1500]], obl='corr:partitioned==eager')
                    ok_session = False
                    break
        if ok_session and pending_model is not None:
            bump('modeldiff')
            add('modeldiff', pending_model, c, [line, '# driver: ' + r[:1500], '# model: ' + mr[:800]],
                no_input=True, obl='corr:partition-model(positions)')
            ok_session = False
        if ok_session:
            bump('agree')
            if len(c.meta['stops']) >= 2 and c.meta['n'] >= 1:
                distinct.add(line.split(' ', 1)[1])
                if len(samples) < 6:
                    samples.append(line[:400])

    # keep the smallest representative per (kind, signature, headline)
    best = {}
    for f in findings:
        head = re.sub(r'\d+', 'N', f['what'].split(':')[0])[:60]
        key = (f['kind'], str(f['signature']), head if f['signature'] is None else '')
        if key not in best or f['size'] < best[key]['size']:
            best[key] = f
    fl = sorted(best.values(), key=lambda f: (f.get('no_input', False), f['size']))
    info['malformed'] = sorted(info['malformed'])[:12]
    return dict(findings=fl, corr_obligations=corr, evaluations=evaluations, distinct_nontrivial=len(distinct),
                samples=samples, distribution=dist, verdicts=verd, extra=dict(c18=info))


def signature(case, impl, verdict):
    """the known defect: a repartition whose target has a zero-length partition after the data are exhausted"""
    if case.op != 'part':
        return None
    total = case.meta.get('n')
    for st in case.meta.get('steps', []):
        if st and st[0] == 'repartition' and total is not None and trailing_empty([int(x) for x in st[1:]], total):
            return KNOWN_SIG
    return None
