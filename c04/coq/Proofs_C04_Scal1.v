(** C04 — model = specification beyond two arrays, part 1: ONE array of the fragment [jag] and ANY NUMBER of Python scalars,
    at any positions (e.g. [x + 1], [2 * x], [np.clip(x, 0, 10)]): inputs, rows of the specification, the specification
    steps (leaf, option, list), the leaf engine (NumPy on one buffer and 0-d scalars). *)
From AwkV Require Import LayoutInd Proofs_Lists Proofs_ToList Proofs_Typing Proofs_Carry Proofs_AtAxisOps Proofs_C05 Ops_Struct.
From AwkBroadcast Require Import Broadcast Proofs_C04 Proofs_C04_Model1 Proofs_C04_Model2 Proofs_C04_Model3 Proofs_C04_Model4
  Proofs_C04_Model5 Proofs_C04_Model6.
From Coq Require Import Lia ZifyBool.

(* a Python scalar: (is-boolean, value) *)
Definition sc : Type := (bool * Z)%type.
Definition msc (s : sc) : minput := MS (fst s) (snd s).
Definition ssc (s : sc) : sarg := (TNum (if fst s then DBool else DInt64), mk_leaf (fst s) (snd s)).
Definition sinp (s : sc) : sinput := SScalar (fst s) (snd s).
(* Python's True / False are the integers 1 / 0 *)
Definition sc_ok (s : sc) : bool := negb (fst s) || (snd s =? 0) || (snd s =? 1).

(* the inputs of the model: scalars, the array, scalars *)
Definition ins (pre : list sc) (c : content) (post : list sc) : list minput := map msc pre ++ MC c :: map msc post.
(* one row of the specification: the scalars and one element of the array *)
Definition row1 (pre post : list sc) (t : ty) (v : value) : list sarg := map ssc pre ++ (t, v) :: map ssc post.
Definition rows1 (pre post : list sc) (t : ty) (vs : list value) : list (list sarg) := map (row1 pre post t) vs.

Lemma pack_s_sinp s : pack_s (sinp s) = ssc s.
Proof. reflexivity. Qed.

(* ------------------------------------------------------------------ the inputs *)
Lemma contents_of_msc l : contents_of (map msc l) = [].
Proof. induction l as [|s l IH]; [reflexivity|]. exact IH. Qed.
Lemma contents_of_app a b : contents_of (a ++ b) = contents_of a ++ contents_of b.
Proof. unfold contents_of. apply flat_map_app. Qed.
Lemma contents_of_ins pre c post : contents_of (ins pre c post) = [c].
Proof.
  unfold ins. rewrite contents_of_app, contents_of_msc. cbn [app].
  change (contents_of (MC c :: map msc post)) with (c :: contents_of (map msc post)). now rewrite contents_of_msc.
Qed.

Lemma mapM_msc (F : content -> res content) l :
  mapM (fun i => match i with MC c => rmap MC (F c) | MS _ _ => Ok i end) (map msc l) = Ok (map msc l).
Proof. induction l as [|s l IH]; [reflexivity|]. cbn [map mapM msc]. rewrite IH. reflexivity. Qed.
Lemma map_c_ins (F : content -> res content) pre c post :
  map_c F (ins pre c post) = do n <- F c; Ok (ins pre n post).
Proof.
  unfold map_c, ins. rewrite mapM_app, mapM_msc. cbn [bind]. rewrite mapM_cons, mapM_msc.
  destruct (F c); reflexivity.
Qed.

Lemma ins_has_array pre c post : existsb (fun i => match i with MC _ => true | _ => false end) (ins pre c post) = true.
Proof. unfold ins. rewrite existsb_app. cbn [existsb]. apply orb_true_r. Qed.
Lemma map_pack_ins pre c post : map pack (ins pre c post) = ins pre (packC c) post.
Proof.
  unfold ins. rewrite map_app. cbn [map pack]. fold (packC c).
  assert (H : forall l, map pack (map msc l) = map msc l) by (induction l as [|s l IH]; [reflexivity|]; cbn [map]; now rewrite IH).
  now rewrite !H.
Qed.

(* a single array never takes the "implicit right-broadcasting" step *)
Lemma single_rcond c :
  (let cs := [c] in
   let md := fold_right Z.max (-1) (map pl_depth cs) in
   existsb is_list_node cs && (0 <? md) && forallb pl_isreg cs && existsb (fun c => pl_depth c <? md) cs) = false.
Proof.
  cbv zeta. cbn [map fold_right existsb]. rewrite !orb_false_r.
  destruct (0 <? Z.max (pl_depth c) (-1)) eqn:E; [|now rewrite andb_false_r].
  assert (H : (pl_depth c <? Z.max (pl_depth c) (-1)) = false) by lia. rewrite H. apply andb_false_r.
Qed.

(* ------------------------------------------------------------------ predicates on a row *)
Lemma existsb_row1 (P : sarg -> bool) pre post t v :
  (forall s, P (ssc s) = false) -> existsb P (row1 pre post t v) = P (t, v).
Proof.
  intros H. unfold row1. rewrite existsb_app. cbn [existsb].
  assert (E : forall l, existsb P (map ssc l) = false).
  { induction l as [|s l IH]; [reflexivity|]. cbn [map existsb]. now rewrite H, IH. }
  rewrite !E. cbn [orb]. apply orb_false_r.
Qed.
Lemma existsb_row1_t (P : ty -> bool) pre post t v :
  (forall dt, P (TNum dt) = false) -> existsb P (map fst (row1 pre post t v)) = P t.
Proof.
  intros H. transitivity (existsb (fun a : sarg => P (fst a)) (row1 pre post t v)).
  - induction (row1 pre post t v) as [|a l IH]; [reflexivity|]. cbn [map existsb]. now rewrite IH.
  - apply (existsb_row1 (fun a : sarg => P (fst a))). intros s. apply H.
Qed.
Lemma forallb_row1_t (P : ty -> bool) pre post t v :
  (forall dt, P (TNum dt) = true) -> forallb P (map fst (row1 pre post t v)) = P t.
Proof.
  intros H. unfold row1. rewrite map_app, forallb_app. cbn [map forallb fst].
  assert (E : forall l, forallb P (map fst (map ssc l)) = true).
  { induction l as [|s l IH]; [reflexivity|]. cbn [map forallb fst ssc]. now rewrite H, IH. }
  rewrite !E. cbn [andb]. apply andb_true_r.
Qed.

(* ------------------------------------------------------------------ the specification on one row *)
Lemma rpad_row1 pre post t v : is_listT t && pure_reg t = false -> rpad (row1 pre post t v) = row1 pre post t v.
Proof.
  intros H. apply rpad_nocond. unfold rpad_cond.
  rewrite (existsb_row1_t is_listT) by reflexivity. rewrite (forallb_row1_t pure_reg) by reflexivity. exact H.
Qed.

Lemma leaf_zb_ssc s : sc_ok s = true -> leaf_zb (ssc s) = Ok s.
Proof.
  destruct s as [[|] z]; unfold sc_ok, ssc, leaf_zb, mk_leaf; cbn [fst snd negb orb]; [|reflexivity].
  intros H. destruct z as [|[p|p|]|p]; try reflexivity; cbn in H; discriminate.
Qed.
Lemma mapM_leaf_zb_ssc l : forallb sc_ok l = true -> mapM leaf_zb (map ssc l) = Ok l.
Proof.
  induction l as [|s l IH]; [reflexivity|]. cbn [forallb map]. intros H. apply andb_prop in H as [Hs Hl].
  rewrite mapM_cons, (leaf_zb_ssc s Hs), (IH Hl). reflexivity.
Qed.

Definition kinds1 (pre post : list sc) (b : bool) : list bool := map fst pre ++ b :: map fst post.
Definition vals1 (pre post : list sc) (z : Z) : list Z := map snd pre ++ z :: map snd post.

Lemma spec_leaf_row1 op ar fuel pre post dt d :
  forallb sc_ok pre = true -> forallb sc_ok post = true -> is_dz d = true ->
  spec_v op ar (S fuel) (row1 pre post (TNum dt) (leaf dt d)) =
  Ok (mk_leaf (lk op (kinds1 pre post (dt_isbool dt)))
              (lf op (kinds1 pre post (dt_isbool dt)) (vals1 pre post (leaf_z dt d)))).
Proof.
  intros Hpre Hpost Hd. rewrite spec_v_S. cbv zeta. rewrite rpad_row1 by reflexivity.
  rewrite (existsb_row1_t badT), (existsb_row1_t is_optT), (existsb_row1_t is_listT), (existsb_row1_t is_recT) by reflexivity.
  cbn [badT is_optT is_listT is_recT].
  assert (Hz : mapM leaf_zb (row1 pre post (TNum dt) (leaf dt d)) = Ok (pre ++ (dt_isbool dt, leaf_z dt d) :: post)).
  { unfold row1. rewrite mapM_app, (mapM_leaf_zb_ssc pre Hpre). cbn [bind]. rewrite mapM_cons, (leaf_value_zb dt d Hd). cbn [bind].
    rewrite (mapM_leaf_zb_ssc post Hpost). reflexivity. }
  rewrite Hz. cbn [bind]. unfold kinds1, vals1. rewrite !map_app. reflexivity.
Qed.

Lemma strip_opt_ssc l : map strip_opt (map ssc l) = map ssc l.
Proof. induction l as [|[[|] z] l IH]; [reflexivity| |]; cbn [map]; rewrite IH; reflexivity. Qed.

Lemma spec_opt_row1 op ar fuel pre post t' v :
  spec_v op ar (S fuel) (row1 pre post (TOpt t') v) = if is_none v then Ok VNone else spec_v op ar fuel (row1 pre post t' v).
Proof.
  rewrite spec_v_S. cbv zeta. rewrite rpad_row1 by reflexivity.
  rewrite (existsb_row1_t badT), (existsb_row1_t is_optT) by reflexivity. cbn [badT is_optT].
  unfold none_in. rewrite (existsb_row1 (fun a : sarg => is_optT (fst a) && is_none (snd a))) by reflexivity. cbn [fst snd is_optT andb].
  destruct (is_none v); [reflexivity|]. f_equal. unfold row1. rewrite map_app. cbn [map]. now rewrite !strip_opt_ssc.
Qed.

(* columns and rows of a list level *)
Definition cols1 (pre post : list sc) (t' : ty) (l' : list value) (k : nat) : list (list sarg) :=
  map (fun s => repeat (ssc s) k) pre ++ map (fun x => (t', x)) l' :: map (fun s => repeat (ssc s) k) post.

Lemma column_ssc n s : column n (ssc s) = Ok (repeat (ssc s) (Z.to_nat n)).
Proof. reflexivity. Qed.
Lemma columns_ssc n l : mapM (column n) (map ssc l) = Ok (map (fun s => repeat (ssc s) (Z.to_nat n)) l).
Proof. induction l as [|s l IH]; [reflexivity|]. cbn [map]. rewrite mapM_cons, column_ssc, IH. reflexivity. Qed.
Lemma columns_row1 n pre post t v t' l' :
  column n (t, v) = Ok (map (fun x => (t', x)) l') ->
  mapM (column n) (row1 pre post t v) = Ok (cols1 pre post t' l' (Z.to_nat n)).
Proof.
  intros H. unfold row1, cols1. rewrite mapM_app, columns_ssc. cbn [bind]. rewrite mapM_cons, H. cbn [bind].
  rewrite columns_ssc. reflexivity.
Qed.

Lemma zipcons_repeat {A} (x : A) r k : zipcons (repeat x k) (repeat r k) = repeat (x :: r) k.
Proof. induction k as [|k IH]; [reflexivity|]. cbn [repeat zipcons]. now rewrite IH. Qed.
Lemma transpose_reps (post : list sc) k : transpose k (map (fun s => repeat (ssc s) k) post) = repeat (map ssc post) k.
Proof.
  induction post as [|s post IH]; [reflexivity|]. cbn [map]. rewrite transpose_cons, IH. apply zipcons_repeat.
Qed.
Lemma zipcons_map_repeat {A B} (f : B -> A) r l : zipcons (map f l) (repeat r (length l)) = map (fun x => f x :: r) l.
Proof. induction l as [|x l IH]; [reflexivity|]. cbn [map length repeat zipcons]. now rewrite IH. Qed.
Lemma zipcons_repeat_map {A B} (x : A) (g : B -> list A) l : zipcons (repeat x (length l)) (map g l) = map (fun y => x :: g y) l.
Proof. induction l as [|y l IH]; [reflexivity|]. cbn [map length repeat zipcons]. now rewrite IH. Qed.

Lemma transpose_cols1 pre post t' l' : transpose (length l') (cols1 pre post t' l' (length l')) = rows1 pre post t' l'.
Proof.
  unfold cols1, rows1. induction pre as [|s pre IH].
  - cbn [map app]. rewrite transpose_cons, transpose_reps. apply zipcons_map_repeat.
  - cbn [map app]. rewrite transpose_cons, IH. apply zipcons_repeat_map.
Qed.

Lemma filter_listT_ssc l : filter is_listT (map fst (map ssc l)) = [].
Proof. induction l as [|s l IH]; [reflexivity|]. exact IH. Qed.
Lemma lists_of_row1 pre post t v : is_listT t = true -> filter is_listT (map fst (row1 pre post t v)) = [t].
Proof.
  intros H. unfold row1. rewrite map_app, filter_app, filter_listT_ssc. cbn [map filter fst app]. rewrite H.
  now rewrite filter_listT_ssc.
Qed.
Lemma first_var_len_row1 pre post t' l : first_var_len (row1 pre post (TList None None t') (VList l)) = Ok (zlen l).
Proof. unfold row1. induction pre as [|s pre IH]; [reflexivity|]. exact IH. Qed.

Lemma spec_list_row1 op ar fuel pre post t' l :
  spec_v op ar (S fuel) (row1 pre post (TList None None t') (VList l)) =
  rmap VList (mapM (spec_v op ar fuel) (rows1 pre post t' l)).
Proof.
  rewrite spec_v_S. cbv zeta. rewrite rpad_row1 by reflexivity.
  rewrite (existsb_row1_t badT), (existsb_row1_t is_optT), (existsb_row1_t is_listT) by reflexivity. cbn [badT is_optT is_listT].
  unfold list_target. rewrite lists_of_row1 by reflexivity. cbn [forallb is_regT andb]. rewrite first_var_len_row1. cbn [bind].
  rewrite (columns_row1 (zlen l) pre post _ _ t' l) by (apply column_list; reflexivity). cbn [bind].
  replace (Z.to_nat (zlen l)) with (length l) by (unfold zlen; lia). now rewrite transpose_cols1.
Qed.

Lemma rows1_concat pre post t ps : rows1 pre post t (concat ps) = concat (map (rows1 pre post t) ps).
Proof. unfold rows1. now rewrite concat_map. Qed.

(* ------------------------------------------------------------------ the leaf engine: one buffer and 0-d scalars *)
Definition scn (s : sc) : nparr := (fst s, ([], [snd s])).
Definition arrs1 (pre post : list sc) (a : nparr) : list nparr := map scn pre ++ a :: map scn post.
Definition dims1 (pre post : list sc) (n : Z) : list Z := map (fun _ => 1) pre ++ n :: map (fun _ => 1) post.

Lemma to_nparr_msc l : mapM to_nparr (map msc l) = Ok (map (fun s => Some (scn s)) l).
Proof. induction l as [|s l IH]; [reflexivity|]. cbn [map]. rewrite mapM_cons, IH. reflexivity. Qed.
Lemma to_nparr_ins pre c post :
  mapM to_nparr (ins pre c post) =
  do r <- to_nparr (MC c); Ok (map (fun s => Some (scn s)) pre ++ r :: map (fun s => Some (scn s)) post).
Proof.
  unfold ins. rewrite mapM_app, to_nparr_msc. cbn [bind]. rewrite mapM_cons, to_nparr_msc.
  destruct (to_nparr (MC c)); reflexivity.
Qed.
Lemma all_somes_arrs1 pre post r :
  all_somes (map (fun s => Some (scn s)) pre ++ r :: map (fun s => Some (scn s)) post) =
  match r with Some a => Some (arrs1 pre post a) | None => None end.
Proof.
  assert (E : forall l, all_somes (map (fun s => Some (scn s)) l) = Some (map scn l)).
  { induction l as [|s l IH]; [reflexivity|]. cbn [map all_somes]. now rewrite IH. }
  unfold arrs1. induction pre as [|s pre IH].
  - cbn [map app all_somes]. rewrite E. now destruct r.
  - cbn [map app all_somes]. rewrite IH. now destruct r.
Qed.
Lemma getfunction_ins op pre c post :
  getfunction op None (ins pre c post) =
  do r <- to_nparr (MC c);
  match r with Some a => rmap Some (nd_apply op (arrs1 pre post a)) | None => Ok None end.
Proof.
  unfold getfunction. rewrite to_nparr_ins. destruct (to_nparr (MC c)) as [r|]; [|reflexivity]. cbn [bind].
  rewrite all_somes_arrs1. now destruct r.
Qed.

Lemma rank_arrs1 pre post b sh zs :
  fold_right Nat.max O (map (fun a : nparr => length (fst (snd a))) (arrs1 pre post (b, (sh, zs)))) = length sh.
Proof.
  assert (Z0 : forall l acc, fold_right Nat.max acc (map (fun a : nparr => length (fst (snd a))) (map scn l)) = acc).
  { induction l as [|s l IH]; intros acc; [reflexivity|]. cbn [map fold_right scn fst snd length]. now rewrite IH. }
  unfold arrs1. rewrite map_app, fold_right_app. cbn [map fold_right fst snd]. rewrite !Z0. lia.
Qed.

Lemma zip_map_same {A B C} (f : A -> B) (g : A -> C) l : zip (map f l) (map g l) = map (fun x => (f x, g x)) l.
Proof. induction l as [|x l IH]; [reflexivity|]. cbn [map zip]. now rewrite IH. Qed.

Lemma zip_arrs1 (f : nparr -> list Z) pre post a :
  zip (map f (arrs1 pre post a)) (map (fun a : nparr => snd (snd a)) (arrs1 pre post a)) =
  map (fun s => (f (scn s), [snd s])) pre ++ (f a, snd (snd a)) :: map (fun s => (f (scn s), [snd s])) post.
Proof. rewrite zip_map_same. unfold arrs1. rewrite map_app. cbn [map]. now rewrite !map_map. Qed.

Lemma gather_row1 (shs : sc -> list Z) (sha : list Z) m pre post zs x j :
  (forall s, flat_ix 0 (shs s) m = 0) -> flat_ix 0 sha m = j -> get zs j = Ok x ->
  mapM (fun sd : list Z * list Z => get (snd sd) (flat_ix 0 (fst sd) m))
       (map (fun s => (shs s, [snd s])) pre ++ (sha, zs) :: map (fun s => (shs s, [snd s])) post) = Ok (vals1 pre post x).
Proof.
  intros Hs Ha Hx.
  assert (E : forall l, mapM (fun sd : list Z * list Z => get (snd sd) (flat_ix 0 (fst sd) m)) (map (fun s => (shs s, [snd s])) l) = Ok (map snd l)).
  { induction l as [|s l IH]; [reflexivity|]. cbn [map]. rewrite mapM_cons. cbn [fst snd]. rewrite Hs, get_cons_0, IH. reflexivity. }
  rewrite mapM_app, E. cbn [bind]. rewrite mapM_cons. cbn [fst snd]. rewrite Ha, Hx, E. reflexivity.
Qed.

Lemma mapM_iota_get {A B} (g : Z -> res B) (h : A -> B) (zs : list A) n :
  zlen zs = n -> (forall i x, get zs i = Ok x -> g i = Ok (h x)) -> mapM g (iota n) = Ok (map h zs).
Proof.
  intros Hz Hg. pose proof (zlen_nonneg zs) as Hn. apply mapM_pointwise.
  - rewrite zlen_map, zlen_iota by lia. exact Hz.
  - intros i Hi. rewrite zlen_iota in Hi by lia. rewrite get_iota by lia. cbn [bind].
    destruct (get_ok zs i ltac:(lia)) as [x Hx]. rewrite get_map, Hx. cbn [rmap]. now apply Hg.
Qed.

Lemma filter_ones {A} (l : list A) : filter (fun s => negb (s =? 1)) (map (fun _ => 1) l) = [].
Proof. induction l as [|x l IH]; [reflexivity|]. exact IH. Qed.
Lemma dim_target_dims1 pre post n : dim_target (dims1 pre post n) = Ok n.
Proof.
  unfold dim_target, dims1. rewrite filter_app, filter_ones. cbn [app filter]. rewrite filter_ones.
  destruct (n =? 1) eqn:E; cbn [negb forallb]; f_equal; lia.
Qed.
Lemma dim_target_ones {A} (l : list A) : dim_target (map (fun _ => 1) l) = Ok 1.
Proof. unfold dim_target. now rewrite filter_ones. Qed.
Lemma transpose1_map ds : transpose 1 (map (fun d : Z => [d]) ds) = [ds].
Proof. induction ds as [|d ds IH]; [reflexivity|]. cbn [map]. rewrite transpose_cons, IH. reflexivity. Qed.
Lemma transpose2_map ds : transpose 2 (map (fun d : Z => [1; d]) ds) = [map (fun _ => 1) ds; ds].
Proof. induction ds as [|d ds IH]; [reflexivity|]. cbn [map]. rewrite transpose_cons, IH. reflexivity. Qed.

Lemma multi_N N : multi [N] = map (fun i => [i]) (iota N).
Proof. cbn [multi]. induction (iota N) as [|i l IH]; [reflexivity|]. cbn [flat_map map app]. f_equal; exact IH. Qed.

(* NumPy on one buffer of shape (n) and scalars *)
Lemma nd_apply_s1 op pre post b n zs :
  zlen zs = n ->
  nd_apply op (arrs1 pre post (b, ([n], zs))) =
  Ok (Numpy (if lk op (kinds1 pre post b) then DBool else DInt64) [n]
        (map (fun x => DZ (lf op (kinds1 pre post b) (vals1 pre post x))) zs)).
Proof.
  intros Hz. unfold nd_apply. rewrite rank_arrs1. cbn [length].
  assert (Hk : map fst (arrs1 pre post (b, ([n], zs))) = kinds1 pre post b).
  { unfold arrs1, kinds1. rewrite map_app. cbn [map fst]. now rewrite !map_map. }
  rewrite Hk.
  assert (Hsh : map (fun a : nparr => pad_shape 1 (fst (snd a))) (arrs1 pre post (b, ([n], zs))) = map (fun d : Z => [d]) (dims1 pre post n)).
  { unfold arrs1, dims1. rewrite !map_app. cbn [map]. now rewrite !map_map. }
  rewrite Hsh at 1. rewrite transpose1_map. cbn [mapM]. rewrite dim_target_dims1. cbn [bind].
  rewrite multi_N, mapM_map.
  rewrite (mapM_iota_get _ (fun x => DZ (lf op (kinds1 pre post b) (vals1 pre post x))) zs n Hz); [reflexivity|].
  intros i x Hx. rewrite zip_arrs1. cbn [fst snd scn].
  rewrite (gather_row1 (fun _ => pad_shape 1 []) (pad_shape 1 [n]) [i] pre post zs x i); [reflexivity| | |exact Hx].
  - intros s. reflexivity.
  - pose proof (get_range _ _ _ Hx). unfold pad_shape. cbn [length Nat.sub repeat app flat_ix].
    destruct (n =? 1) eqn:E; lia.
Qed.

(* ... and of shape (1, n): what broadcast_pack makes of a 1-d array *)
Lemma nd_apply_s2 op pre post b n zs :
  zlen zs = n ->
  nd_apply op (arrs1 pre post (b, ([1; n], zs))) =
  Ok (Numpy (if lk op (kinds1 pre post b) then DBool else DInt64) [1; n]
        (map (fun x => DZ (lf op (kinds1 pre post b) (vals1 pre post x))) zs)).
Proof.
  intros Hz. unfold nd_apply. rewrite rank_arrs1. cbn [length].
  assert (Hk : map fst (arrs1 pre post (b, ([1; n], zs))) = kinds1 pre post b).
  { unfold arrs1, kinds1. rewrite map_app. cbn [map fst]. now rewrite !map_map. }
  rewrite Hk.
  assert (Hsh : map (fun a : nparr => pad_shape 2 (fst (snd a))) (arrs1 pre post (b, ([1; n], zs))) = map (fun d : Z => [1; d]) (dims1 pre post n)).
  { unfold arrs1, dims1. rewrite !map_app. cbn [map]. now rewrite !map_map. }
  rewrite Hsh at 1. rewrite transpose2_map. cbn [mapM]. rewrite dim_target_dims1, dim_target_ones. cbn [bind].
  rewrite multi_1N, mapM_map.
  rewrite (mapM_iota_get _ (fun x => DZ (lf op (kinds1 pre post b) (vals1 pre post x))) zs n Hz); [reflexivity|].
  intros i x Hx. rewrite zip_arrs1. cbn [fst snd scn].
  rewrite (gather_row1 (fun _ => pad_shape 2 []) (pad_shape 2 [1; n]) [0; i] pre post zs x i); [reflexivity| | |exact Hx].
  - intros s. reflexivity.
  - pose proof (get_range _ _ _ Hx). unfold pad_shape. cbn [length Nat.sub repeat app flat_ix].
    change (1 =? 1) with true. cbv iota. destruct (n =? 1) eqn:E; lia.
Qed.
