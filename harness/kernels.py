"""C13 machinery: kernel-specification.yml -> ctypes signatures, fenced buffers, compiled call,
execution of the YAML Python `definition` on width-wrapping typed buffers, comparison.

Everything about *one call* lives here (so that a replay re-runs exactly that call); argument generation is in
kernels_gen.py; orchestration (workers, model voter, verdicts) in props/c13.py.
"""
import array
import ctypes
import hashlib
import json
import math
import mmap
import os
import re
import signal
import struct
import sys

sys.path.insert(0, os.path.dirname(os.path.abspath(__file__)))
import common as C  # noqa: E402

SPEC_YML = os.path.join(C.REPO, 'kernel-specification.yml')
KERNELS_H = os.path.join(C.REPO, 'include', 'awkward', 'kernels.h')

kMaxInt64 = 9223372036854775806
kSliceNone = kMaxInt64 + 1

# ------------------------------------------------------------------ element types
#            name        array code, bytes, lo, hi, kind
PRIM = {
    'bool':     ('B', 1, 0, 1, 'b'),
    'int8_t':   ('b', 1, -2**7, 2**7 - 1, 'i'),
    'uint8_t':  ('B', 1, 0, 2**8 - 1, 'u'),
    'int16_t':  ('h', 2, -2**15, 2**15 - 1, 'i'),
    'uint16_t': ('H', 2, 0, 2**16 - 1, 'u'),
    'int32_t':  ('i', 4, -2**31, 2**31 - 1, 'i'),
    'uint32_t': ('I', 4, 0, 2**32 - 1, 'u'),
    'int64_t':  ('q', 8, -2**63, 2**63 - 1, 'i'),
    'uint64_t': ('Q', 8, 0, 2**64 - 1, 'u'),
    'float':    ('f', 4, None, None, 'f'),
    'double':   ('d', 8, None, None, 'f'),
}
CT = {
    'bool': ctypes.c_bool, 'int8_t': ctypes.c_int8, 'uint8_t': ctypes.c_uint8, 'int16_t': ctypes.c_int16,
    'uint16_t': ctypes.c_uint16, 'int32_t': ctypes.c_int32, 'uint32_t': ctypes.c_uint32,
    'int64_t': ctypes.c_int64, 'uint64_t': ctypes.c_uint64, 'float': ctypes.c_float, 'double': ctypes.c_double,
}
SHORT = {'bool': 'b', 'int8_t': 'i8', 'uint8_t': 'u8', 'int16_t': 'i16', 'uint16_t': 'u16', 'int32_t': 'i32',
         'uint32_t': 'u32', 'int64_t': 'i64', 'uint64_t': 'u64', 'float': 'f32', 'double': 'f64'}
SENT_BYTE = 0xA5


def sentinel(prim):
    code, nb = PRIM[prim][0], PRIM[prim][1]
    return array.array(code, bytes([SENT_BYTE]) * nb)[0]


SENT = {p: sentinel(p) for p in PRIM}


def wrap_store(prim, v):
    """value stored into a C buffer of element type prim (what `buf[i] = (T)v` leaves there), as a Python number.
    bool buffers are observed as bytes 0/1."""
    code, nb, lo, hi, kind = PRIM[prim]
    if kind == 'f':
        v = float(v)
        if prim == 'float':
            if math.isnan(v) or math.isinf(v):
                return v
            try:
                return struct.unpack('f', struct.pack('f', v))[0]
            except OverflowError:
                return math.copysign(math.inf, v)
        return v
    if isinstance(v, float):
        if math.isnan(v) or math.isinf(v):
            raise SpecNotInt('non-finite float stored into integer buffer')
        v = int(v)            # C conversion truncates toward zero
    elif not isinstance(v, int):
        v = int(v)
    if kind == 'b':
        return 1 if v else 0
    if lo <= v <= hi:
        return v
    m = 1 << (8 * nb)
    v %= m
    if kind == 'i' and v > hi:
        v -= m
    return v


class SpecOOB(Exception):
    """the Python definition indexed outside an argument's extent"""


class SpecNotInt(Exception):
    pass


class SpecTimeout(Exception):
    pass


def exact_float(x=0):
    if isinstance(x, int) and not isinstance(x, bool):
        return int(x)
    return float(x)


class U8(int):
    """stand-in for numpy.uint8 in the two BitMaskedArray definitions (wraps on shifts)"""
    def __new__(cls, v=0):
        return int.__new__(cls, int(v) & 0xFF)

    def __and__(self, o): return U8(int(self) & int(o))
    __rand__ = __and__
    def __or__(self, o): return U8(int(self) | int(o))
    def __lshift__(self, o): return U8(int(self) << int(o))
    def __rshift__(self, o): return U8(int(self) >> int(o))


class TBuf:
    """typed buffer seen by the Python definition. Reads/writes outside [0, extent) raise SpecOOB unless the
    buffer is `open_` (measuring pass: extent unknown, unwritten cells read as the sentinel)."""
    __slots__ = ('prim', 'v', 'open_', 'maxw', 'writable', 'u8')

    def __init__(self, prim, values, writable, open_=False):
        self.prim, self.v, self.writable, self.open_ = prim, values, writable, open_
        self.maxw = 0
        self.u8 = prim == 'uint8_t'

    def _ix(self, i):
        if isinstance(i, float):
            if i != int(i):
                raise SpecOOB('non-integer index')
            i = int(i)
        elif isinstance(i, TBuf):
            raise SpecOOB('buffer used as index')
        i = int(i)
        if i < 0:
            raise SpecOOB('negative index %d' % i)
        return i

    def __getitem__(self, i):
        i = self._ix(i)
        if i >= len(self.v):
            if self.open_:
                return SENT[self.prim]
            raise SpecOOB('read [%d] of extent %d' % (i, len(self.v)))
        x = self.v[i]
        if self.u8 and self.writable is False:
            return U8(x)
        return x

    def __setitem__(self, i, x):
        i = self._ix(i)
        if not self.writable:
            raise SpecOOB('store into a const argument')
        if i >= len(self.v):
            if not self.open_:
                raise SpecOOB('write [%d] of extent %d' % (i, len(self.v)))
            if i > 4000000:
                raise SpecOOB('write at absurd index %d' % i)
            self.v.extend([SENT[self.prim]] * (i + 1 - len(self.v)))
        if i >= self.maxw:
            self.maxw = i + 1
        self.v[i] = wrap_store(self.prim, x)

    def __len__(self):
        return len(self.v)


# ------------------------------------------------------------------ specification
class Arg:
    __slots__ = ('name', 'prim', 'depth', 'const', 'dir', 'role', 'type')

    def __init__(self, d):
        self.name, self.type, self.dir, self.role = d['name'], d['type'], d['dir'], d.get('role', 'default')
        t = d['type']
        self.const = t.startswith('Const[')
        if self.const:
            t = t[len('Const['):-1]
        self.depth = 0
        while t.startswith('List['):
            t = t[len('List['):-1]
            self.depth += 1
        if t not in PRIM:
            raise ValueError('unknown element type %r' % d['type'])
        self.prim = t
        if self.dir not in ('in', 'out'):
            raise ValueError('unknown direction %r' % self.dir)

    def cdecl(self):
        return ('const ' if self.const else '') + self.prim + '*' * self.depth


class Spec:
    __slots__ = ('name', 'args', 'kernel', 'idx')

    def __init__(self, d, kernel, idx):
        self.name, self.kernel, self.idx = d['name'], kernel, idx
        self.args = [Arg(a) for a in d['args']]

    def arg(self, n):
        for a in self.args:
            if a.name == n:
                return a
        raise KeyError(n)


class Kernel:
    __slots__ = ('name', 'specs', 'definition', 'auto', 'pyfunc', 'pyfunc_exact', 'pyerr', 'idx')

    def __init__(self, d, idx):
        self.name, self.idx = d['name'], idx
        self.definition = d['definition'] or ''
        self.auto = bool(d['automatic-tests'])
        self.specs = [Spec(s, self, i) for i, s in enumerate(d['specializations'])]
        self.pyfunc, self.pyerr, self.pyfunc_exact = None, None, None
        n = len(self.specs[0].args)
        for s in self.specs:
            if [a.name for a in s.args] != [a.name for a in self.specs[0].args]:
                raise ValueError('specializations of %s differ in argument names' % self.name)
        if 'def ' not in self.definition:
            self.pyerr = 'placeholder definition'
            return
        g = {'uint8': U8, 'kMaxInt64': kMaxInt64, 'kSliceNone': kSliceNone, '__builtins__': __builtins__}
        try:
            exec(compile(self.definition, '<%s>' % self.name, 'exec'), g)
            f = g.get(self.name)
            if f is None:
                self.pyerr = 'definition does not define ' + self.name
            elif f.__code__.co_argcount != n:
                self.pyerr = 'definition takes %d arguments, specializations %d' % (f.__code__.co_argcount, n)
            else:
                self.pyfunc = f
                if 'float(' in self.definition:
                    # the same definition with `float` read as an exact conversion (ints stay ints): used only to
                    # recognise disagreements that are artefacts of the double-precision cast in the definition
                    g2 = dict(g)
                    g2['float'] = exact_float
                    exec(compile(self.definition, '<%s>' % self.name, 'exec'), g2)
                    self.pyfunc_exact = g2[self.name]
        except Exception as e:       # noqa: BLE001
            self.pyerr = 'definition does not compile: %r' % (e,)


_SPEC_CACHE = None


def load_spec():
    global _SPEC_CACHE
    if _SPEC_CACHE is None:
        import yaml
        loader = getattr(yaml, 'CSafeLoader', yaml.SafeLoader)
        with open(SPEC_YML) as f:
            d = yaml.load(f, Loader=loader)
        ks = [Kernel(k, i) for i, k in enumerate(d['kernels'])]
        _SPEC_CACHE = ks
    return _SPEC_CACHE


def spec_by_name():
    out = {}
    for k in load_spec():
        for s in k.specs:
            out[s.name] = s
    return out


def header_crosscheck():
    """kernel-specification.yml vs include/awkward/kernels.h: same symbols, same arity, same C types.
    returns list of problems (each names the symbol)"""
    src = open(KERNELS_H).read()
    decl = {}
    for m in re.finditer(r'EXPORT_SYMBOL\s+ERROR\s+(\w+)\s*\(([^;]*)\)\s*;', src):
        args = [a.strip() for a in m.group(2).split(',') if a.strip()]
        parsed = []
        for a in args:
            mm = re.match(r'^(.*?)\s*(\w+)$', a)
            parsed.append((re.sub(r'\s+', ' ', mm.group(1)).replace(' *', '*'), mm.group(2)))
        decl[m.group(1)] = parsed
    probs = []
    names = set()
    for k in load_spec():
        for s in k.specs:
            names.add(s.name)
            if s.name not in decl:
                probs.append('symbol %s is in kernel-specification.yml but not declared in kernels.h' % s.name)
                continue
            h = decl[s.name]
            if len(h) != len(s.args):
                probs.append('symbol %s: arity %d in kernels.h, %d in kernel-specification.yml' % (s.name, len(h), len(s.args)))
                continue
            for (ht, hn), a in zip(h, s.args):
                if ht != a.cdecl() or hn != a.name:
                    probs.append('symbol %s: argument %s is `%s %s` in kernels.h, `%s` in kernel-specification.yml'
                                 % (s.name, a.name, ht, hn, a.cdecl()))
    for n in decl:
        if n not in names:
            probs.append('symbol %s is declared in kernels.h but absent from kernel-specification.yml' % n)
    return probs, len(decl)


# ------------------------------------------------------------------ compiled side
class Error(ctypes.Structure):
    _fields_ = [('str', ctypes.c_char_p), ('filename', ctypes.c_char_p), ('identity', ctypes.c_int64),
                ('attempt', ctypes.c_int64), ('pass_through', ctypes.c_bool)]


_LIB = {}


def lib(san=False):
    if san not in _LIB:
        p = os.path.join(C.SAN if san else C.STD, 'libawkward-cpu-kernels.so')
        _LIB[san] = ctypes.CDLL(p)
    return _LIB[san]


def cfunc(spec, san=False):
    """ctypes function for a specialization, signature regenerated from the YAML"""
    try:
        f = getattr(lib(san), spec.name)
    except AttributeError:
        return None
    at = []
    for a in spec.args:
        if a.depth:
            at.append(ctypes.c_void_p)
        else:
            at.append(CT[a.prim])
    f.argtypes = at
    f.restype = Error
    return f


PAGE = mmap.PAGESIZE
PROT_NONE, PROT_RW = 0, 3


class Arena:
    """slots of [guard page | DATA bytes | guard page]; the guard pages are PROT_NONE, so a read or write far
    outside a buffer faults; the rest of DATA is filled with the sentinel and verified after the call."""
    DATA = 4 * PAGE

    def __init__(self, nslots=40):
        self.nslots = nslots
        self.stride = self.DATA + 2 * PAGE
        self.mm = mmap.mmap(-1, self.stride * nslots + PAGE)
        base = ctypes.addressof(ctypes.c_char.from_buffer(self.mm))
        self.base = (base + PAGE - 1) // PAGE * PAGE
        libc = ctypes.CDLL(None, use_errno=True)
        libc.mprotect.argtypes = [ctypes.c_void_p, ctypes.c_size_t, ctypes.c_int]
        for i in range(nslots):
            s = self.base + i * self.stride
            for g in (s, s + PAGE + self.DATA):
                if libc.mprotect(g, PAGE, PROT_NONE) != 0:
                    raise OSError('mprotect failed')
        self.used = 0
        self.bufs = []
        self.big = []
        self.heap = []
        self.libc = libc
        libc.malloc.restype = ctypes.c_void_p
        libc.malloc.argtypes = [ctypes.c_size_t]
        libc.free.argtypes = [ctypes.c_void_p]

    def reset(self):
        self.used = 0
        self.bufs = []
        self.big = []
        for p in self.heap:
            self.libc.free(p)
        self.heap = []

    def place_heap(self, data):
        """sanitizer runs: exact-size malloc'ed buffer (ASan red zones catch any read or write outside it)"""
        n = len(data)
        p = self.libc.malloc(max(n, 1))
        if n:
            ctypes.memmove(p, data, n)
        self.heap.append(p)
        self.bufs.append(('heap', p, n))
        return p

    def place(self, data, right):
        """copy bytes into a fresh slot, right- or left-aligned; returns address"""
        n = len(data)
        if n > self.DATA or self.used >= self.nslots:
            # oversized: plain heap buffer with sentinel margins (no page protection)
            m = 256
            raw = ctypes.create_string_buffer(bytes([SENT_BYTE]) * (n + 2 * m), n + 2 * m)
            addr = ctypes.addressof(raw) + m
            ctypes.memmove(addr, data, n)
            self.big.append((raw, m, n))
            self.bufs.append(('big', len(self.big) - 1, n))
            return addr
        s = self.base + self.used * self.stride + PAGE
        self.used += 1
        ctypes.memset(s, SENT_BYTE, self.DATA)
        addr = s + self.DATA - n if right else s
        if n:
            ctypes.memmove(addr, data, n)
        self.bufs.append((s, addr, n))
        return addr

    def read(self, k):
        b = self.bufs[k]
        if b[0] == 'heap':
            return ctypes.string_at(b[1], b[2])
        if b[0] == 'big':
            raw, m, n = self.big[b[1]]
            return raw.raw[m:m + n]
        return ctypes.string_at(b[1], b[2])

    def margins_ok(self, k):
        b = self.bufs[k]
        if b[0] == 'heap':
            return True
        if b[0] == 'big':
            raw, m, n = self.big[b[1]]
            r = raw.raw
            return r[:m] == bytes([SENT_BYTE]) * m and r[m + n:] == bytes([SENT_BYTE]) * m
        s, addr, n = b
        pre = ctypes.string_at(s, addr - s)
        post = ctypes.string_at(addr + n, s + self.DATA - addr - n)
        return pre.count(SENT_BYTE) == len(pre) and post.count(SENT_BYTE) == len(post)


_ARENA = None


def arena():
    global _ARENA
    if _ARENA is None:
        _ARENA = Arena()
    return _ARENA


def to_bytes(prim, vals):
    code = PRIM[prim][0]
    try:
        return array.array(code, vals).tobytes()
    except (OverflowError, TypeError) as e:
        raise ValueError('value not representable as %s: %s (%r)' % (prim, e, vals[:8]))


def from_bytes(prim, b):
    return array.array(PRIM[prim][0], b).tolist()


# ------------------------------------------------------------------ one call
class Call:
    """a concrete call: specialization + argument values. For list arguments `vals[name]` is the list of initial
    element values (for `out` arguments: the initial content, normally all-sentinel, whose length is the extent).
    `align` is a bit string choosing right/left alignment per list argument."""

    def __init__(self, spec, vals, align=None):
        self.spec, self.vals = spec, vals
        self.align = align if align is not None else '1' * len(spec.args)

    def to_json(self):
        return json.dumps(dict(spec=self.spec.name, align=self.align,
                               args=[[a.name, self.vals[a.name]] for a in self.spec.args]),
                          separators=(',', ':'))

    @staticmethod
    def from_json(s):
        d = json.loads(s)
        sp = spec_by_name()[d['spec']]
        return Call(sp, {k: v for k, v in d['args']}, d.get('align'))

    def key(self):
        return hashlib.sha1(self.to_json().encode()).hexdigest()

    def nontrivial_lengths(self):
        return any(a.depth == 0 and PRIM[a.prim][4] in 'iu' and isinstance(self.vals[a.name], int)
                   and self.vals[a.name] > 0 and ('len' in a.name or a.name in LENGTHY) for a in self.spec.args)


LENGTHY = {'length', 'size', 'n', 'target', 'skip', 'repetitions', 'ndim'}


def run_compiled(call, san=False):
    """-> dict(status='ok'|'err', msg, identity, attempt, out={name: list}, guard=[names with overwritten margins],
    inmod=[const/in args modified])"""
    sp = call.spec
    f = cfunc(sp, san)
    if f is None:
        return dict(status='nosym')
    ar = arena()
    ar.reset()
    cargs, slots, keep = [], {}, []
    for i, a in enumerate(sp.args):
        v = call.vals[a.name]
        right = call.align[i] == '1'
        if a.depth == 0:
            cargs.append(v if PRIM[a.prim][4] != 'b' else bool(v))
        elif a.depth == 1:
            addr = ar.place_heap(to_bytes(a.prim, v)) if san else ar.place(to_bytes(a.prim, v), right)
            slots[a.name] = [len(ar.bufs) - 1]
            cargs.append(addr)
        else:
            ptrs, ks = [], []
            for row in v:
                ptrs.append(ar.place_heap(to_bytes(a.prim, row)) if san else ar.place(to_bytes(a.prim, row), right))
                ks.append(len(ar.bufs) - 1)
            addr = ar.place_heap(array.array('Q', ptrs).tobytes()) if san else ar.place(array.array('Q', ptrs).tobytes(), right)
            slots[a.name] = ks + [len(ar.bufs) - 1]
            cargs.append(addr)
    e = f(*cargs)
    res = dict(status='ok' if not e.str else 'err', msg=(e.str or b'').decode('utf-8', 'replace'),
               identity=e.identity, attempt=e.attempt, out={}, guard=[], inmod=[])
    for a in sp.args:
        if a.depth == 0:
            continue
        ks = slots[a.name]
        for k in ks:
            if not ar.margins_ok(k):
                res['guard'].append(a.name)
                break
        v = call.vals[a.name]
        if a.depth == 1:
            now = from_bytes(a.prim, ar.read(ks[0]))
        else:
            now = [from_bytes(a.prim, ar.read(k)) for k in ks[:-1]]
            if all(ar.bufs[k][0] != 'big' for k in ks[:-1]) and \
                    from_bytes('uint64_t', ar.read(ks[-1])) != [ar.bufs[k][1] for k in ks[:-1]]:
                res['inmod'].append(a.name + '(pointer table)')
        if a.dir == 'out' or not a.const:
            res['out'][a.name] = now
        if a.const and not same(now, v):
            res['inmod'].append(a.name)
    return res


def same(x, y):
    """exact equality of number lists (NaN equals NaN)"""
    if len(x) != len(y):
        return False
    for p, q in zip(x, y):
        if isinstance(p, list):
            if not same(p, q):
                return False
        elif p != q and not (isinstance(p, float) and isinstance(q, float) and p != p and q != q):
            return False
    return True


def _alarm(signum, frame):
    raise SpecTimeout()


def run_spec(call, open_out=False, timeout=5.0, exact=False):
    """exec the YAML definition. -> dict(status='ok'|'err'|'notexec'|'oob'|'timeout', msg, out, extent={name: n})"""
    sp = call.spec
    k = sp.kernel
    if k.pyfunc is None:
        return dict(status='notexec', msg=k.pyerr)
    pa, bufs = [], {}
    for a in sp.args:
        v = call.vals[a.name]
        if a.depth == 0:
            pa.append(bool(v) if PRIM[a.prim][4] == 'b' else v)
        elif a.depth == 1:
            w = not a.const
            b = TBuf(a.prim, list(v), w, open_=open_out and a.dir == 'out')
            bufs[a.name] = b
            pa.append(b)
        else:
            w = not a.const
            rows = [TBuf(a.prim, list(r), w, open_=open_out and a.dir == 'out') for r in v]
            bufs[a.name] = rows
            pa.append(rows)
    old = signal.signal(signal.SIGALRM, _alarm)
    signal.setitimer(signal.ITIMER_REAL, timeout)
    try:
        (k.pyfunc_exact if exact else k.pyfunc)(*pa)
        st, msg = 'ok', ''
    except ValueError as e:
        st, msg = 'err', str(e)
    except SpecOOB as e:
        st, msg = 'oob', str(e)
    except SpecTimeout:
        st, msg = 'timeout', ''
    except RecursionError as e:
        st, msg = 'notexec', repr(e)
    except Exception as e:       # noqa: BLE001  (NameError, TypeError, ...: the definition is not executable as written)
        st, msg = 'notexec', '%s: %s' % (type(e).__name__, e)
    finally:
        signal.setitimer(signal.ITIMER_REAL, 0)
        signal.signal(signal.SIGALRM, old)
    out, ext = {}, {}
    for a in sp.args:
        if a.depth and (a.dir == 'out' or not a.const):
            b = bufs[a.name]
            if a.depth == 1:
                out[a.name] = b.v
                ext[a.name] = b.maxw
            else:
                out[a.name] = [r.v for r in b]
                ext[a.name] = [r.maxw for r in b]
    return dict(status=st, msg=msg, out=out, extent=ext)


# ------------------------------------------------------------------ comparison
def first_diff(x, y):
    if len(x) != len(y):
        return 'length %d vs %d' % (len(x), len(y))
    for i, (p, q) in enumerate(zip(x, y)):
        if isinstance(p, list):
            d = first_diff(p, q)
            if d:
                return '[%d]%s' % (i, d)
        elif p != q and not (isinstance(p, float) and isinstance(q, float) and p != p and q != q):
            return '[%d] compiled=%r spec=%r' % (i, p, q)
    return None


def compare(call, rc, rs):
    """compiled result vs Python-definition result -> (verdict, detail)
    verdicts: agree | agree-err | guard | inmod | status | out | spec-notexec | spec-oob | spec-timeout"""
    if rc.get('status') == 'nosym':
        return 'nosym', 'symbol %s not exported by the built library' % call.spec.name
    if rc['guard']:
        return 'guard', 'wrote outside the extent of ' + ','.join(rc['guard'])
    if rc['inmod']:
        return 'inmod', 'modified const argument ' + ','.join(rc['inmod'])
    st = rs['status']
    if st == 'notexec':
        return 'spec-notexec', rs['msg']
    if st == 'oob':
        return 'spec-oob', rs['msg']
    if st == 'timeout':
        return 'spec-timeout', ''
    if rc['status'] != st:
        return 'status', 'compiled %s%s, definition %s%s' % (
            rc['status'], ' (%s)' % rc['msg'].split('\n')[0] if rc['msg'] else '', st, ' (%s)' % rs['msg'] if rs['msg'] else '')
    if st == 'err':
        return 'agree-err', '' if rc['msg'].split('\n')[0] == rs['msg'] else 'messages differ: %r vs %r' % (rc['msg'].split('\n')[0], rs['msg'])
    for a in call.spec.args:
        if a.name in rc['out']:
            d = first_diff(rc['out'][a.name], rs['out'][a.name])
            if d:
                return 'out', '%s%s' % (a.name, d)
    return 'agree', ''
