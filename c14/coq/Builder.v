(** C14 — model of /repo/src/libawkward/builder/*.cpp (ArrayBuilder and its node classes).
    MODEL ONLY: no proofs in this file.

    Reading guide (C++ -> Gallina)
    - [gb]           GrowableBuffer<T>: physical array [gdata] of [gres] cells, the first [glen] are meaningful; the
                     rest is uninitialised memory ([junk]).  [gid] is a ghost allocation identity: 0 = "allocated during
                     the current command" (BuilderPhys.v numbers them after each command), kept by in-place writes.
    - [builder]      one constructor per Builder subclass; [std::vector<BuilderPtr>] = [list builder].
    - [step b c]     the virtual method selected by [c] called on the object [b].  C++ mutates [*this] and returns a
                     BuilderPtr; the model returns [SOk self' ret]: [self'] = the object after the call, [ret = None]
                     when the method returned [shared_from_this()], [Some n] when it returned a different builder [n]
                     (which usually wraps [self']).  [SErr e self'] = an exception left the method; [self'] is the
                     state the object was left in.  [EValue] = a C++ exception, [EOob] = undefined behaviour in the C++
                     (out-of-bounds vector/buffer access), [EFuel] = the C++ does not terminate (unbounded recursion).
    - [mu] / [dr]    the two kinds of call sites: [maybeupdate(child->m())] stores the returned pointer, a bare
                     [child->m();] drops it (the child object itself has still been mutated).
    - [snapshot]     Builder::snapshot.  simplify_optiontype / simplify_uniontype applied by OptionBuilder / UnionBuilder
                     snapshots are value-preserving normalisations (C08) and are NOT modelled: the model returns the
                     un-simplified node; the correspondence compares values (and types modulo that normalisation).
    Not modelled: complex / datetime / timedelta, append / extend (IndexedBuilder), the *_fast entry points that
    compare C string pointers (the driver, like the Python layer, uses field_check / beginrecord_check, and
    beginrecord() = beginrecord_fast(nullptr) for unnamed records), int8 overflow of union tags (> 127 alternatives). *)
From AwkV Require Import Base Layout.
Open Scope Z_scope.

(* ------------------------------------------------------------------ commands *)
Inductive cmd :=
| CNull
| CBool (b : bool)
| CInt (z : Z)
| CReal (z : Z)                       (* integer-valued doubles only, see DESIGN 2.6 *)
| CStr (isstr : bool) (s : list Z)    (* string (utf-8) / bytestring *)
| CBeginList | CEndList
| CBeginTuple (n : Z) | CIndex (i : Z) | CEndTuple
| CBeginRecord (nm : option name) | CField (k : name) | CEndRecord.

(* ArrayBuilder-level alphabet *)
Inductive scmd := SC (c : cmd) | SSnapshot | SClear.

Inductive ckind := KNull | KAtom | KBegin | KEnd | KInner.
Definition kind_of (c : cmd) : ckind :=
  match c with
  | CNull => KNull
  | CBool _ | CInt _ | CReal _ | CStr _ _ => KAtom
  | CBeginList | CBeginTuple _ | CBeginRecord _ => KBegin
  | CEndList | CEndTuple | CEndRecord => KEnd
  | CIndex _ | CField _ => KInner
  end.

(* ------------------------------------------------------------------ ArrayBuilderOptions *)
Record opts := { initial : Z; grow : Z -> Z; junk : Z }.
(* [grow r] stands for (int64_t)ceil(r * resize) *)
Definition good_opts (o : opts) : Prop := 1 <= initial o /\ forall r, 1 <= r -> r < grow o r.

(* ------------------------------------------------------------------ GrowableBuffer *)
Record gb := { gid : nat; gdata : list Z; glen : Z; gres : Z }.

Definition fill (v : Z) (n : Z) : list Z := repeat v (Z.to_nat n).
Fixpoint upd_nth {A} (l : list A) (i : nat) (x : A) : list A :=
  match l, i with
  | [], _ => []
  | _ :: t, O => x :: t
  | h :: t, S j => h :: upd_nth t j x
  end.

Definition gb_list (g : gb) : list Z := take (glen g) (gdata g).

(* kernel::malloc of max(initial, minreserve) cells; a negative request is an exception
   (std::bad_array_new_length out of awkward_malloc) *)
Definition gb_make (o : opts) (pre : list Z) (n : Z) : res gb :=
  if n <? 0 then Err EValue else
  let a := Z.max (initial o) n in
  Ok {| gid := O; gdata := pre ++ fill (junk o) (a - n); glen := n; gres := a |}.
Definition gb_empty (o : opts) : res gb := gb_make o [] 0.
Definition gb_full (o : opts) (v n : Z) : res gb := gb_make o (fill v n) n.
Definition gb_arange (o : opts) (n : Z) : res gb := gb_make o (iota n) n.

(* set_reserved: new allocation, memcpy of the first glen cells *)
Definition gb_set_reserved (o : opts) (g : gb) (minres : Z) : gb :=
  if gres g <? minres
  then {| gid := O; gdata := take (glen g) (gdata g) ++ fill (junk o) (minres - glen g);
          glen := glen g; gres := minres |}
  else g.

(* append: grows when full, then writes ptr[length]; writing outside the allocation is UB *)
Definition gb_append (o : opts) (g : gb) (x : Z) : res gb :=
  let g1 := if glen g =? gres g then gb_set_reserved o g (grow o (gres g)) else g in
  if (0 <=? glen g1) && (glen g1 <? gres g1)
  then Ok {| gid := gid g1; gdata := upd_nth (gdata g1) (Z.to_nat (glen g1)) x;
             glen := glen g1 + 1; gres := gres g1 |}
  else Err EOob.

Fixpoint gb_extend (o : opts) (g : gb) (xs : list Z) : res gb :=
  match xs with
  | [] => Ok g
  | x :: t => do g1 <- gb_append o g x; gb_extend o g1 t
  end.

(* clear: fresh allocation of [initial] cells *)
Definition gb_clear (o : opts) (g : gb) : res gb := gb_empty o.

(* Float64Builder::fromint64: empty(options, old.reserved()), element-wise cast, set_length *)
Definition gb_convert (o : opts) (g : gb) : res gb :=
  if gres g <? 0 then Err EValue else
  let a := Z.max (initial o) (gres g) in
  Ok {| gid := O; gdata := take (glen g) (gdata g) ++ fill (junk o) (a - glen g); glen := glen g; gres := a |}.

(* ------------------------------------------------------------------ builder tree *)
Inductive builder :=
| BUnknown (nullcount : Z)
| BBool (buf : gb)
| BInt (buf : gb)
| BFloat (buf : gb)
| BString (isstr : bool) (offsets content : gb)
| BOption (index : gb) (content : builder)
| BList (offsets : gb) (content : builder) (begun : bool)
| BRecord (contents : list builder) (keys : list name) (nm : name) (nameptr_null : bool)
          (length : Z) (begun : bool) (nextindex nexttotry : Z)
| BTuple (contents : list builder) (length : Z) (begun : bool) (nextindex : Z)
| BUnion (tags index : gb) (contents : list builder) (current : Z).

Inductive sres :=
| SOk (self : builder) (ret : option builder)
| SErr (e : err) (self : builder).

(* Builder::length() *)
Definition blen (b : builder) : Z :=
  match b with
  | BUnknown n => n
  | BBool g | BInt g | BFloat g => glen g
  | BString _ offs _ => glen offs - 1
  | BOption idx _ => glen idx
  | BList offs _ _ => glen offs - 1
  | BRecord _ _ _ _ len _ _ _ => if len =? -1 then 0 else len     (* -1 = fresh(), internal only *)
  | BTuple _ len _ _ => if len =? -1 then 0 else len
  | BUnion tags _ _ _ => glen tags
  end.

(* Builder::active() *)
Fixpoint active (b : builder) : bool :=
  match b with
  | BOption _ c => active c
  | BList _ _ begun => begun
  | BRecord _ _ _ _ _ begun _ _ => begun
  | BTuple _ _ begun _ => begun
  | BUnion _ _ _ cur => negb (cur =? -1)
  | _ => false
  end.

Definition name_eqb (a b : name) : bool := list_eqb Z.eqb a b.

(* ------------------------------------------------------------------ small combinators *)
Definition pick (self : builder) (ret : option builder) : builder :=
  match ret with Some n => n | None => self end.

(* maybeupdate(child->m()) inside a parent rebuilt by [k]; the parent returns shared_from_this() *)
Definition mu (r : sres) (k : builder -> builder) : sres :=
  match r with
  | SOk c' ret => SOk (k (pick c' ret)) None
  | SErr e c' => SErr e (k c')
  end.
(* child->m(); with the returned pointer dropped *)
Definition dr (r : sres) (k : builder -> builder) : sres :=
  match r with
  | SOk c' _ => SOk (k c') None
  | SErr e c' => SErr e (k c')
  end.

(* a buffer operation inside a method: an exception / UB leaves [self] as it was *)
Definition withgb (r : res gb) (self : builder) (k : gb -> sres) : sres :=
  match r with Ok g => k g | Err e => SErr e self end.
Definition withb (r : res builder) (self : builder) (k : builder -> sres) : sres :=
  match r with Ok b => k b | Err e => SErr e self end.

Section Lists.
  Context {A B : Type}.
  Variable f : A -> B.
  Fixpoint at_nth (l : list A) (i : nat) : option B :=
    match l, i with
    | x :: _, O => Some (f x)
    | _ :: t, S j => at_nth t j
    | [], _ => None
    end.
  (* first element satisfying [p]: its position and [f] of it *)
  Variable p : A -> bool.
  Fixpoint find_app (l : list A) (i : nat) : option (nat * A * B) :=
    match l with
    | [] => None
    | x :: t => if p x then Some (i, x, f x) else find_app t (S i)
    end.
End Lists.

Section MapMs.
  Context {A B : Type}.
  Variable f : A -> res B.
  (* Base.mapM with [f] outside the fixpoint, so that it can be used on the sub-builders of a node *)
  Fixpoint mapMs (l : list A) : res (list B) :=
    match l with
    | [] => Ok []
    | x :: xs => do y <- f x; do ys <- mapMs xs; Ok (y :: ys)
    end.
End MapMs.

Definition nth_z {A} (l : list A) (i : Z) : option A :=
  if i <? 0 then None else nth_error l (Z.to_nat i).

(* the builder a fresh node of the class selected by [c] is in after receiving [c] *)
Definition string_after (o : opts) (isstr : bool) (offs cont : gb) (s : list Z) : res builder :=
  do cont' <- gb_extend o cont s;
  do offs' <- gb_append o offs (glen cont');
  Ok (BString isstr offs' cont').

Definition fresh_after (o : opts) (c : cmd) : res builder :=
  match c with
  | CBool x => do g <- gb_empty o; do g' <- gb_append o g (if x then 1 else 0); Ok (BBool g')
  | CInt x => do g <- gb_empty o; do g' <- gb_append o g x; Ok (BInt g')
  | CReal x => do g <- gb_empty o; do g' <- gb_append o g x; Ok (BFloat g')
  | CStr e s =>
      do offs <- gb_empty o; do offs0 <- gb_append o offs 0; do cont <- gb_empty o;
      string_after o e offs0 cont s
  | CBeginList => do offs <- gb_empty o; do offs0 <- gb_append o offs 0; Ok (BList offs0 (BUnknown 0) true)
  | CBeginTuple n =>
      (* TupleBuilder::fromempty(); begintuple(n) throws for numfields < 0 *)
      if n <? 0 then Err EValue
      else Ok (BTuple (repeat (BUnknown 0) (Z.to_nat n)) 0 true (-1))
  | CBeginRecord nm =>
      Ok (BRecord [] [] (match nm with Some s => s | None => [] end)
                  (match nm with Some _ => false | None => true end) 0 true (-1) 0)
  | _ => Err EValue    (* never requested *)
  end.

(* OptionBuilder::fromvalids(options, this); out->null(); return out *)
Definition option_null (o : opts) (self : builder) : sres :=
  withgb (gb_arange o (blen self)) self (fun idx =>
  withgb (gb_append o idx (-1)) self (fun idx' =>
  SOk self (Some (BOption idx' self)))).

(* UnionBuilder::fromsingle(options, this); out->c; return out      (c a value-starting command that [self] does
   not take itself: the search in {self} fails, a fresh node is pushed as alternative 1) *)
Definition union_wrap (o : opts) (self : builder) (c : cmd) : sres :=
  withgb (gb_full o 0 (blen self)) self (fun tags =>
  withgb (gb_arange o (blen self)) self (fun idx =>
  withb (fresh_after o c) self (fun nb =>
  match kind_of c with
  | KAtom =>
      withgb (gb_append o tags 1) self (fun tags' =>
      withgb (gb_append o idx 0) self (fun idx' =>
      SOk self (Some (BUnion tags' idx' [self; nb] (-1)))))
  | _ => SOk self (Some (BUnion tags idx [self; nb] 1))
  end))).

(* UnknownBuilder: out = X::fromempty; if (nullcount != 0) out = OptionBuilder::fromnulls(nullcount, out); out->c *)
Definition unknown_start (o : opts) (n : Z) (c : cmd) : sres :=
  let self := BUnknown n in
  withb (fresh_after o c) self (fun nb =>
  if n =? 0 then SOk self (Some nb) else
  withgb (gb_full o (-1) n) self (fun idx =>
  match kind_of c with
  | KAtom => withgb (gb_append o idx 0) self (fun idx' => SOk self (Some (BOption idx' nb)))
  | _ => SOk self (Some (BOption idx nb))
  end)).

(* which alternative of a UnionBuilder takes a value-starting command *)
Definition takes (c : cmd) (b : builder) : bool :=
  match c, b with
  | CBool _, BBool _ => true
  | CInt _, BInt _ => true
  | CReal _, BFloat _ => true
  | CStr e _, BString e' _ _ => Bool.eqb e e'
  | CBeginList, BList _ _ _ => true
  | CBeginTuple n, BTuple cs len _ _ => (len =? -1) || (zlen cs =? n)
  | CBeginRecord nm, BRecord _ _ rn nullp len _ _ _ =>
      (len =? -1) || match nm with Some s => negb nullp && name_eqb rn s | None => nullp end
  | _, _ => false
  end.
Definition is_int (b : builder) : bool := match b with BInt _ => true | _ => false end.

(* RecordBuilder::field_check: round-robin search from nexttotry *)
Fixpoint find_key (k : name) (keys : list name) (i : Z) : option Z :=
  match keys with
  | [] => None
  | x :: t => if name_eqb x k then Some i else find_key k t (i + 1)
  end.
Definition rr_find (k : name) (keys : list name) (ntt : Z) : option Z :=
  match find_key k (drop ntt keys) ntt with
  | Some i => Some i
  | None => find_key k (take ntt keys) 0
  end.

(* the loop of endrecord / endtuple: fill untouched fields with None, then require length+1 everywhere.
   [nullf] = fun c => step c CNull.  Returns the contents as left behind and whether an exception was thrown. *)
Section Fill.
  Variable nullf : builder -> sres.
  Fixpoint fill_loop (len : Z) (cs : list builder) : list builder * option err :=
    match cs with
    | [] => ([], None)
    | c :: t =>
        let r := if blen c =? len
                 then match nullf c with
                      | SOk c' ret => (pick c' ret, None)
                      | SErr e c' => (c', Some e)
                      end
                 else (c, None) in
        match r with
        | (c1, Some e) => (c1 :: t, Some e)
        | (c1, None) =>
            if negb (blen c1 =? len + 1) then (c1 :: t, Some EValue)
            else let (t', e) := fill_loop len t in (c1 :: t', e)
        end
    end.
End Fill.

(* ------------------------------------------------------------------ the methods *)
Section Step.
Variable o : opts.

Fixpoint step (b : builder) (c : cmd) {struct b} : sres :=
  match b with
  (* ---------------- UnknownBuilder ---------------- *)
  | BUnknown n =>
      match kind_of c with
      | KNull => SOk (BUnknown (n + 1)) None
      | KAtom | KBegin => unknown_start o n c
      | KEnd | KInner => SErr EValue b
      end
  (* ---------------- BoolBuilder ---------------- *)
  | BBool g =>
      match c with
      | CNull => option_null o b
      | CBool x => withgb (gb_append o g (if x then 1 else 0)) b (fun g' => SOk (BBool g') None)
      | _ => match kind_of c with KEnd | KInner => SErr EValue b | _ => union_wrap o b c end
      end
  (* ---------------- Int64Builder ---------------- *)
  | BInt g =>
      match c with
      | CNull => option_null o b
      | CInt x => withgb (gb_append o g x) b (fun g' => SOk (BInt g') None)
      | CReal x =>   (* Float64Builder::fromint64(options, buffer_); out->real(x); return out *)
          withgb (gb_convert o g) b (fun gf =>
          withgb (gb_append o gf x) b (fun gf' => SOk b (Some (BFloat gf'))))
      | _ => match kind_of c with KEnd | KInner => SErr EValue b | _ => union_wrap o b c end
      end
  (* ---------------- Float64Builder ---------------- *)
  | BFloat g =>
      match c with
      | CNull => option_null o b
      | CInt x | CReal x => withgb (gb_append o g x) b (fun g' => SOk (BFloat g') None)
      | _ => match kind_of c with KEnd | KInner => SErr EValue b | _ => union_wrap o b c end
      end
  (* ---------------- StringBuilder ---------------- *)
  | BString e offs cont =>
      match c with
      | CNull => option_null o b
      | CStr e' s =>
          if Bool.eqb e e' then withb (string_after o e offs cont s) b (fun b' => SOk b' None)
          else union_wrap o b c
      | _ => match kind_of c with KEnd | KInner => SErr EValue b | _ => union_wrap o b c end
      end
  (* ---------------- OptionBuilder ---------------- *)
  | BOption idx ct =>
      let k := BOption idx in
      if negb (active ct) then
        match kind_of c with
        | KNull => withgb (gb_append o idx (-1)) b (fun idx' => SOk (BOption idx' ct) None)
        | KAtom =>
            (* int64_t length = content_->length(); maybeupdate(content_->m(x)); index_.append(length); *)
            match step ct c with
            | SErr e ct' => SErr e (k ct')
            | SOk ct' ret =>
                let cn := pick ct' ret in
                withgb (gb_append o idx (blen ct)) (k cn) (fun idx' => SOk (BOption idx' cn) None)
            end
        | KBegin => mu (step ct c) k
        | KEnd | KInner => SErr EValue b
        end
      else
        match kind_of c with
        | KEnd =>
            (* length = content_->length(); content_->endX(); if (length != content_->length()) index_.append(length) *)
            match step ct c with
            | SErr e ct' => SErr e (k ct')
            | SOk ct' _ =>
                if blen ct' =? blen ct then SOk (k ct') None
                else withgb (gb_append o idx (blen ct)) (k ct') (fun idx' => SOk (BOption idx' ct') None)
            end
        | _ => dr (step ct c) k
        end
  (* ---------------- ListBuilder ---------------- *)
  | BList offs ct begun =>
      let k := fun x => BList offs x begun in
      if negb begun then
        match c with
        | CNull => option_null o b
        | CBeginList => SOk (BList offs ct true) None
        | _ => match kind_of c with KEnd | KInner => SErr EValue b | _ => union_wrap o b c end
        end
      else
        match c with
        | CEndList =>
            if negb (active ct)
            then withgb (gb_append o offs (blen ct)) b (fun offs' => SOk (BList offs' ct false) None)
            else mu (step ct c) k
        | CIndex _ | CEndTuple | CField _ | CEndRecord => dr (step ct c) k
        | _ => mu (step ct c) k
        end
  (* ---------------- RecordBuilder ---------------- *)
  | BRecord cs keys rn nullp len begun ni ntt =>
      let k := fun cs' => BRecord cs' keys rn nullp len begun ni ntt in
      let ki := fun x => k (upd_nth cs (Z.to_nat ni) x) in
      (* contents_[(size_t)nextindex_]: out of range is UB *)
      let child (site : sres -> (builder -> builder) -> sres) (always_drop : bool) : sres :=
        match nth_z cs ni, at_nth (fun x => step x c) cs (Z.to_nat ni) with
        | Some x, Some r => if always_drop || active x then dr r ki else site r ki
        | _, _ => SErr EOob b
        end in
      match c with
      | CBeginRecord nm =>
          let '(len1, rn1, nullp1) :=
            if len =? -1
            then (0, match nm with Some s => s | None => [] end, match nm with Some _ => false | None => true end)
            else (len, rn, nullp) in
          let self1 := BRecord cs keys rn1 nullp1 len1 begun ni ntt in
          let same := match nm with Some s => negb nullp1 && name_eqb rn1 s | None => nullp1 end in
          if negb begun && same then SOk (BRecord cs keys rn1 nullp1 len1 true (-1) 0) None
          else if negb begun then union_wrap o self1 c
          else if ni =? -1 then SErr EValue self1
          else match nth_z cs ni, at_nth (fun x => step x c) cs (Z.to_nat ni) with
               | Some x, Some r =>
                   let ki1 := fun y => BRecord (upd_nth cs (Z.to_nat ni) y) keys rn1 nullp1 len1 begun ni ntt in
                   if active x then dr r ki1 else mu r ki1
               | _, _ => SErr EOob self1
               end
      | CField key =>
          if negb begun then SErr EValue b
          else
            let here := if ni =? -1 then Some true
                        else match nth_z cs ni with Some x => Some (negb (active x)) | None => None end in
            match here with
            | None => SErr EOob b
            | Some true =>
                match rr_find key keys ntt with
                | Some i => SOk (BRecord cs keys rn nullp len begun i (i + 1)) None
                | None =>
                    let fresh :=
                      if len =? 0 then Ok (BUnknown 0)
                      else do idx <- gb_full o (-1) len; Ok (BOption idx (BUnknown 0)) in
                    withb fresh b (fun nb =>
                    SOk (BRecord (cs ++ [nb]) (keys ++ [key]) rn nullp len begun (zlen keys) 0) None)
                end
            | Some false => child dr true
            end
      | CEndRecord =>
          if negb begun then SErr EValue b
          else
            let here := if ni =? -1 then Some true
                        else match nth_z cs ni with Some x => Some (negb (active x)) | None => None end in
            match here with
            | None => SErr EOob b
            | Some true =>
                match fill_loop (fun x => step x CNull) len cs with
                | (cs', Some e) => SErr e (k cs')
                | (cs', None) => SOk (BRecord cs' keys rn nullp (len + 1) false ni ntt) None
                end
            | Some false => child dr true
            end
      | CEndList | CIndex _ | CEndTuple =>
          if negb begun then SErr EValue b
          else if ni =? -1 then SErr EValue b
          else child dr true
      | CNull =>
          if negb begun then option_null o b
          else if ni =? -1 then SErr EValue b
          else child mu false
      | _ =>
          if negb begun then union_wrap o b c
          else if ni =? -1 then SErr EValue b
          else child mu false
      end
  (* ---------------- TupleBuilder ---------------- *)
  | BTuple cs len begun ni =>
      let k := fun cs' => BTuple cs' len begun ni in
      let ki := fun x => k (upd_nth cs (Z.to_nat ni) x) in
      let child (site : sres -> (builder -> builder) -> sres) (always_drop : bool) : sres :=
        match nth_z cs ni, at_nth (fun x => step x c) cs (Z.to_nat ni) with
        | Some x, Some r => if always_drop || active x then dr r ki else site r ki
        | _, _ => SErr EOob b
        end in
      match c with
      | CBeginTuple n =>
          if n <? 0 then SErr EValue b else
          let '(cs1, len1) :=
            if len =? -1 then (cs ++ repeat (BUnknown 0) (Z.to_nat n), 0) else (cs, len) in
          let self1 := BTuple cs1 len1 begun ni in
          if negb begun && (n =? zlen cs1) then SOk (BTuple cs1 len1 true (-1)) None
          else if negb begun then union_wrap o self1 c
          else if ni =? -1 then SErr EValue self1
          else match nth_z cs1 ni, at_nth (fun x => step x c) cs (Z.to_nat ni) with
               | Some x, Some r =>
                   let ki1 := fun y => BTuple (upd_nth cs1 (Z.to_nat ni) y) len1 begun ni in
                   if active x then dr r ki1 else mu r ki1
               | _, _ => SErr EOob self1
               end
      | CIndex i =>
          if negb begun then SErr EValue b
          else
            let here := if ni =? -1 then Some true
                        else match nth_z cs ni with Some x => Some (negb (active x)) | None => None end in
            match here with
            | None => SErr EOob b
            | Some true =>
                if (i <? 0) || (zlen cs <=? i) then SErr EValue b else SOk (BTuple cs len begun i) None
            | Some false => child dr true
            end
      | CEndTuple =>
          if negb begun then SErr EValue b
          else
            let here := if ni =? -1 then Some true
                        else match nth_z cs ni with Some x => Some (negb (active x)) | None => None end in
            match here with
            | None => SErr EOob b
            | Some true =>
                match fill_loop (fun x => step x CNull) len cs with
                | (cs', Some e) => SErr e (k cs')
                | (cs', None) => SOk (BTuple cs' (len + 1) false ni) None
                end
            | Some false => child dr true
            end
      | CEndList | CField _ | CEndRecord =>
          if negb begun then SErr EValue b
          else if ni =? -1 then SErr EValue b
          else child dr true
      | CNull =>
          if negb begun then option_null o b
          else if ni =? -1 then SErr EValue b
          else child mu false
      | _ =>
          if negb begun then union_wrap o b c
          else if ni =? -1 then SErr EValue b
          else child mu false
      end
  (* ---------------- UnionBuilder ---------------- *)
  | BUnion tags idx cs cur =>
      if negb (cur =? -1) then
        (* every method forwards to contents_[current_] and drops what it returns *)
        match nth_z cs cur, at_nth (fun x => step x c) cs (Z.to_nat cur) with
        | Some x, Some r =>
            let kc := fun y => upd_nth cs (Z.to_nat cur) y in
            match kind_of c with
            | KEnd =>
                match r with
                | SErr e x' => SErr e (BUnion tags idx (kc x') cur)
                | SOk x' _ =>
                    if blen x' =? blen x then SOk (BUnion tags idx (kc x') cur) None
                    else
                      let self1 := BUnion tags idx (kc x') cur in
                      withgb (gb_append o tags cur) self1 (fun tags' =>
                      withgb (gb_append o idx (blen x)) (BUnion tags' idx (kc x') cur) (fun idx' =>
                      SOk (BUnion tags' idx' (kc x') (-1)) None))
                end
            | _ => dr r (fun y => BUnion tags idx (kc y) cur)
            end
        | _, _ => SErr EOob b
        end
      else
        match kind_of c with
        | KNull => option_null o b
        | KEnd | KInner => SErr EValue b
        | KAtom | KBegin =>
            (* tofill = first alternative of the right class (real(): a Float64Builder, else an Int64Builder
               which is converted in place, else a new one) *)
            let found := find_app (fun x => step x c) (takes c) cs O in
            let after (i : nat) (len0 : Z) (cs' : list builder) : sres :=
              let self1 := BUnion tags idx cs' cur in
              match kind_of c with
              | KAtom =>
                  withgb (gb_append o tags (Z.of_nat i)) self1 (fun tags' =>
                  withgb (gb_append o idx len0) (BUnion tags' idx cs' cur) (fun idx' =>
                  SOk (BUnion tags' idx' cs' cur) None))
              | _ => SOk (BUnion tags idx cs' (Z.of_nat i)) None
              end in
            match found with
            | Some (i, x, r) =>
                match r with
                | SErr e x' => SErr e (BUnion tags idx (upd_nth cs i x') cur)
                | SOk x' _ => after i (blen x) (upd_nth cs i x')
                end
            | None =>
                let conv :=
                  match c with
                  | CReal v => find_app (fun x => x) is_int cs O
                  | _ => None
                  end in
                match conv with
                | Some (i, BInt g, _) =>
                    withgb (gb_convert o g) b (fun gf =>
                    let cs1 := upd_nth cs i (BFloat gf) in
                    match c with
                    | CReal v =>
                        withgb (gb_append o gf v) (BUnion tags idx cs1 cur) (fun gf' =>
                        after i (glen gf) (upd_nth cs i (BFloat gf')))
                    | _ => SErr EValue b
                    end)
                | _ =>
                    match c with
                    | CBeginTuple n =>
                        (* the new TupleBuilder is pushed before its begintuple(n) throws *)
                        if n <? 0 then SErr EValue (BUnion tags idx (cs ++ [BTuple [] (-1) false (-1)]) cur) else
                        withb (fresh_after o c) b (fun nb => after (length cs) 0 (cs ++ [nb]))
                    | _ => withb (fresh_after o c) b (fun nb => after (length cs) 0 (cs ++ [nb]))
                    end
                end
            end
        end
  end.

End Step.

(* ------------------------------------------------------------------ clear *)
Section Clear.
Variable o : opts.
Definition offsets0 : res gb := do g <- gb_empty o; gb_append o g 0.
Fixpoint clear (b : builder) : res builder :=
  match b with
  | BUnknown _ => Ok (BUnknown 0)
  | BBool g => do g' <- gb_clear o g; Ok (BBool g')
  | BInt g => do g' <- gb_clear o g; Ok (BInt g')
  | BFloat g => do g' <- gb_clear o g; Ok (BFloat g')
  | BString e offs cont => do offs' <- offsets0; do cont' <- gb_clear o cont; Ok (BString e offs' cont')
  | BOption idx ct => do idx' <- gb_clear o idx; do ct' <- clear ct; Ok (BOption idx' ct')
  | BList offs ct begun => do offs' <- offsets0; do ct' <- clear ct; Ok (BList offs' ct' false)   (* begun_ = false (fix 954152d) *)
  | BRecord _ _ _ _ _ _ _ _ => Ok (BRecord [] [] [] true (-1) false (-1) 0)
  | BTuple _ _ _ _ => Ok (BTuple [] (-1) false (-1))
  | BUnion tags idx cs cur =>
      do tags' <- gb_clear o tags; do idx' <- gb_clear o idx; do cs' <- mapMs clear cs;
      Ok (BUnion tags' idx' cs' (-1))                                                             (* current_ = -1 (fix 6aeac8c) *)
  end.
End Clear.

(* ------------------------------------------------------------------ snapshot *)
Definition numpy1 (dt : dtype) (g : gb) : content := Numpy dt [glen g] (map DZ (gb_list g)).

Fixpoint snapshot (b : builder) : res content :=
  match b with
  | BUnknown n => if n =? 0 then Ok Empty else Ok (IndexedOption I64 (fill (-1) n) Empty)
  | BBool g => Ok (numpy1 DBool g)
  | BInt g => Ok (numpy1 DInt64 g)
  | BFloat g => Ok (numpy1 DFloat64 g)
  | BString e offs cont =>
      Ok (Par (Some (if e then AString else ABytestring)) None
            (ListOffset I64 (gb_list offs)
               (Par (Some (if e then AChar else AByte)) None (numpy1 DUInt8 cont))))
  | BOption idx ct => do c <- snapshot ct; Ok (IndexedOption I64 (gb_list idx) c)
  | BList offs ct _ => do c <- snapshot ct; Ok (ListOffset I64 (gb_list offs) c)
  | BRecord cs keys rn nullp len _ _ _ =>
      if len =? -1 then Ok Empty else
      do snaps <- mapMs snapshot cs;
      (* recordlookup->push_back(keys_[i]) for i < contents_.size(): reading past keys_ is UB *)
      if (length keys <? length cs)%nat then Err EOob else
      let r := Record snaps (Some (firstn (length cs) keys)) len in
      Ok (if nullp then r else Par None (Some rn) r)
  | BTuple cs len _ _ =>
      if len =? -1 then Ok Empty else
      do snaps <- mapMs snapshot cs; Ok (Record snaps None len)
  | BUnion tags idx cs _ =>
      do snaps <- mapMs snapshot cs; Ok (Union I64 (gb_list tags) (gb_list idx) snaps)
  end.

(* ------------------------------------------------------------------ ArrayBuilder *)
(* ArrayBuilder::m(): maybeupdate(builder_->m()).  After an exception builder_ still points at the same object. *)
Definition ab_step (o : opts) (b : builder) (c : cmd) : builder * option err :=
  match step o b c with
  | SOk self ret => (pick self ret, None)
  | SErr e self => (self, Some e)
  end.

Definition ab_init : builder := BUnknown 0.

(* one session: the events an observer sees *)
Inductive event :=
| EvErr (pos : nat) (e : err)
| EvSnap (pos : nat) (len : Z) (c : res content).

Fixpoint run_session (o : opts) (b : builder) (pos : nat) (cs : list scmd) : list event * builder :=
  match cs with
  | [] => ([], b)
  | SC c :: t =>
      let (b', e) := ab_step o b c in
      let (evs, bf) := run_session o b' (S pos) t in
      (match e with Some e => EvErr pos e :: evs | None => evs end, bf)
  | SSnapshot :: t =>
      let (evs, bf) := run_session o b (S pos) t in
      (EvSnap pos (blen b) (snapshot b) :: evs, bf)
  | SClear :: t =>
      match clear o b with
      | Ok b' => run_session o b' (S pos) t
      | Err e => let (evs, bf) := run_session o b (S pos) t in (EvErr pos e :: evs, bf)
      end
  end.

(* plain command sequences (no snapshot / clear), errors ignored: the state after feeding [cs] *)
Definition feed (o : opts) (b : builder) (cs : list cmd) : builder :=
  fold_left (fun b c => fst (ab_step o b c)) cs b.

(* the same, stopping at the first exception *)
Fixpoint run (o : opts) (b : builder) (cs : list cmd) : res builder :=
  match cs with
  | [] => Ok b
  | c :: t => match ab_step o b c with
              | (b', None) => run o b' t
              | (_, Some e) => Err e
              end
  end.

(* what an observer reads from a state: the snapshot as nested values *)
Definition observe (b : builder) : res (list value) := do c <- snapshot b; to_list c.

(* ------------------------------------------------------------------ from_iter and the specification *)
(* Python values as ak.from_iter sees them (ints and floats are distinguished here, not in Layout.value) *)
Inductive pyval :=
| PNone
| PBool (b : bool)
| PInt (z : Z)
| PFloat (z : Z)
| PStr (isstr : bool) (s : list Z)
| PList (l : list pyval)
| PTup (l : list pyval)
| PRec (nm : option name) (fs : list (name * pyval)).

(* what builder_fromiter (src/python/content.cpp) / ArrayBuilder.fromiter do for one value *)
Fixpoint encode (v : pyval) : list cmd :=
  match v with
  | PNone => [CNull]
  | PBool b => [CBool b]
  | PInt z => [CInt z]
  | PFloat z => [CReal z]
  | PStr e s => [CStr e s]
  | PList l => CBeginList :: flat_map encode l ++ [CEndList]
  | PTup l =>
      CBeginTuple (zlen l)
        :: (fix go (l : list pyval) (i : Z) : list cmd :=
              match l with [] => [] | x :: t => CIndex i :: encode x ++ go t (i + 1) end) l 0
        ++ [CEndTuple]
  | PRec nm fs =>
      CBeginRecord nm
        :: (fix go (fs : list (name * pyval)) : list cmd :=
              match fs with [] => [] | (k, x) :: t => CField k :: encode x ++ go t end) fs
        ++ [CEndRecord]
  end.
Definition encode_all (vs : list pyval) : list cmd := flat_map encode vs.

(* the plain reading of a Python value as a Layout.value *)
Fixpoint val_of (v : pyval) : value :=
  match v with
  | PNone => VNone
  | PBool b => VBool b
  | PInt z | PFloat z => VNum (DZ z)
  | PStr e s => VStr e s
  | PList l => VList (map val_of l)
  | PTup l => VTup (map val_of l)
  | PRec _ fs => VRec (map (fun kv => (fst kv, val_of (snd kv))) fs)
  end.
