# ak.types.* and ak.forms.* substitutes: Python value objects; tostring/equality/derived data come from C++.
import json
import operator

import numpy

from pyshim import core
from pyshim.core import hx, unhx_str, e_int, e_bool, e_str, e_strs, e_typestrs, d_int, d_bool, d_str, d_strs
from pyshim.nodes import dict2parameters, parameters2dict, sx_params, rd_params, FILENAME_SUFFIX


# ====================================================================== types
def _typestr2str(t):
    if t is None:
        return None
    if not isinstance(t, str):
        raise RuntimeError("Unable to cast Python instance to C++ type (typestr must be str or None)")
    return t if t != "" else None


class Type(object):
    def _init(self, parameters, typestr):
        self._params = dict2parameters(parameters)
        self._typestr = _typestr2str(typestr)

    def _PT(self):
        return sx_params(self._params) + " " + ("-" if self._typestr is None else hx(self._typestr))

    def _req(self, method, *args):
        body = "type " + method + " " + self._sx()
        if args:
            body += " " + " ".join(args)
        return core.request(body)

    def __eq__(self, other):
        if not isinstance(other, Type):
            return NotImplemented
        return d_bool(self._req("eq", other._sx()))

    def __ne__(self, other):
        if not isinstance(other, Type):
            return NotImplemented
        return not d_bool(self._req("eq", other._sx()))

    __hash__ = None

    def __repr__(self):
        return d_str(self._req("tostring"))

    @property
    def parameters(self):
        return parameters2dict(self._params)

    @parameters.setter
    def parameters(self, value):
        self._params = dict2parameters(value)

    def setparameter(self, key, value):
        self._params[key] = json.dumps(value)

    @property
    def typestr(self):
        return self._typestr

    @property
    def numfields(self):
        return d_int(self._req("numfields"))

    def fieldindex(self, key):
        return d_int(self._req("fieldindex", e_str(key)))

    def key(self, fieldindex):
        return d_str(self._req("key", e_int(fieldindex)))

    def haskey(self, key):
        return d_bool(self._req("haskey", e_str(key)))

    def keys(self):
        return d_strs(self._req("keys"))

    def empty(self):
        from pyshim import content

        return content.fromsx(self._req("empty"))


def _type_arg(t):
    if not isinstance(t, Type):
        raise TypeError("argument must be a Type subtype, not %r" % type(t).__name__)
    return t


class ArrayType(Type):
    def __init__(self, type, length, parameters=None, typestr=None):
        self._type = _type_arg(type)
        self._length = operator.index(length)
        self._init(parameters, typestr)

    type = property(lambda self: self._type)
    length = property(lambda self: self._length)

    def _sx(self):
        return "(ArrayType %s %s %d)" % (self._PT(), self._type._sx(), self._length)


class ListType(Type):
    def __init__(self, type, parameters=None, typestr=None):
        self._type = _type_arg(type)
        self._init(parameters, typestr)

    type = property(lambda self: self._type)

    def _sx(self):
        return "(ListType %s %s)" % (self._PT(), self._type._sx())


class OptionType(Type):
    def __init__(self, type, parameters=None, typestr=None):
        self._type = _type_arg(type)
        self._init(parameters, typestr)

    type = property(lambda self: self._type)

    def _sx(self):
        return "(OptionType %s %s)" % (self._PT(), self._type._sx())


class RegularType(Type):
    def __init__(self, type, size, parameters=None, typestr=None):
        self._type = _type_arg(type)
        self._size = operator.index(size)
        self._init(parameters, typestr)

    type = property(lambda self: self._type)
    size = property(lambda self: self._size)

    def _sx(self):
        return "(RegularType %s %s %d)" % (self._PT(), self._type._sx(), self._size)


_PRIMITIVES = set(
    ["bool", "int8", "int16", "int32", "int64", "uint8", "uint16", "uint32", "uint64", "float16", "float32",
     "float64", "float128", "complex64", "complex128", "complex256"])


class PrimitiveType(Type):
    def __init__(self, dtype, parameters=None, typestr=None):
        if not isinstance(dtype, str):
            raise TypeError("PrimitiveType dtype must be a string")
        if not (dtype in _PRIMITIVES or dtype.startswith("datetime64") or dtype.startswith("timedelta64")):
            raise ValueError("unrecognized primitive type: " + dtype + FILENAME_SUFFIX)
        # name_to_dtype -> dtype_to_name normalisation
        if dtype.startswith("datetime64"):
            dtype = "datetime64"
        elif dtype.startswith("timedelta64"):
            dtype = "timedelta64"
        self._dtype = dtype
        self._init(parameters, typestr)

    dtype = property(lambda self: self._dtype)

    def _sx(self):
        return "(PrimitiveType %s %s)" % (self._PT(), hx(self._dtype))


class UnknownType(Type):
    def __init__(self, parameters=None, typestr=None):
        self._init(parameters, typestr)

    def _sx(self):
        return "(UnknownType %s)" % self._PT()


class UnionType(Type):
    def __init__(self, types, parameters=None, typestr=None):
        self._types = [_type_arg(t) for t in types]
        self._init(parameters, typestr)

    numtypes = property(lambda self: len(self._types))
    types = property(lambda self: tuple(self._types))

    def type(self, index):
        return self._types[operator.index(index)]

    def _sx(self):
        return "(UnionType %s%s)" % (self._PT(), "".join(" " + t._sx() for t in self._types))


class RecordType(Type):
    def __init__(self, types, *args, **kwargs):
        if isinstance(types, dict):
            names = ["parameters", "typestr"]
            keys = list(types.keys())
            ts = list(types.values())
        else:
            names = ["keys", "parameters", "typestr"]
            keys = None
            ts = list(types)
        if len(args) > len(names):
            raise TypeError("RecordType(): too many arguments")
        opts = dict(zip(names, args))
        for k, v in kwargs.items():
            if k not in names or k in opts:
                raise TypeError("RecordType(): incompatible constructor arguments (%s)" % k)
            opts[k] = v
        if opts.get("keys") is not None:
            keys = list(opts["keys"])
        self._types = [_type_arg(t) for t in ts]
        if keys is not None and len(keys) != len(self._types):
            raise ValueError("if provided, 'keys' must have the same length as 'types'" + FILENAME_SUFFIX)
        self._recordlookup = keys
        self._init(opts.get("parameters"), opts.get("typestr"))

    istuple = property(lambda self: self._recordlookup is None)
    types = property(lambda self: tuple(self._types))

    def field(self, where):
        if isinstance(where, str):
            return self._types[self.fieldindex(where)]
        i = operator.index(where)
        if not (0 <= i < len(self._types)):
            raise ValueError("fieldindex %d for record with only %d fields" % (i, len(self._types)) + FILENAME_SUFFIX)
        return self._types[i]

    __getitem__ = field

    def fields(self):
        return list(self._types)

    def fielditems(self):
        return list(zip(self.keys(), self._types))

    def _sx(self):
        keys = "tuple" if self._recordlookup is None else e_strs(self._recordlookup)
        return "(RecordType %s %s%s)" % (self._PT(), keys, "".join(" " + t._sx() for t in self._types))


def rd_type(t):
    h = t[0]
    params = rd_params(t[1])
    typestr = None if t[2] == "-" else unhx_str(t[2])

    def fin(obj):
        obj._params = params
        obj._typestr = typestr
        return obj

    if h == "ArrayType":
        o = ArrayType.__new__(ArrayType); o._type = rd_type(t[3]); o._length = int(t[4]); return fin(o)
    if h == "ListType":
        o = ListType.__new__(ListType); o._type = rd_type(t[3]); return fin(o)
    if h == "OptionType":
        o = OptionType.__new__(OptionType); o._type = rd_type(t[3]); return fin(o)
    if h == "RegularType":
        o = RegularType.__new__(RegularType); o._type = rd_type(t[3]); o._size = int(t[4]); return fin(o)
    if h == "UnknownType":
        return fin(UnknownType.__new__(UnknownType))
    if h == "PrimitiveType":
        o = PrimitiveType.__new__(PrimitiveType); o._dtype = unhx_str(t[3]); return fin(o)
    if h == "UnionType":
        o = UnionType.__new__(UnionType); o._types = [rd_type(x) for x in t[3:]]; return fin(o)
    if h == "RecordType":
        o = RecordType.__new__(RecordType)
        o._recordlookup = None if t[3] == "tuple" else [unhx_str(k) for k in t[3]]
        o._types = [rd_type(x) for x in t[4:]]
        return fin(o)
    raise core.DriverProtocolError("unknown type node " + str(h))


# ====================================================================== forms
def _form_arg(f, none_ok=False):
    if f is None and none_ok:
        return None
    if not isinstance(f, Form):
        raise TypeError("argument must be an ak.forms.Form, not %r" % type(f).__name__)
    return f


_INDEX_FORMS = ("i8", "u8", "i32", "u32", "i64")


def _str2form(s):
    if not isinstance(s, str):
        raise TypeError("Index form must be a string")
    # Index::str2form uses strncmp(str, "i8", len(str)): prefixes match, the empty string matches "i8"
    for name in _INDEX_FORMS:
        if name[:len(s)] == s:
            return name
    raise ValueError("unrecognized Index::Form: " + s + FILENAME_SUFFIX)


class Form(object):
    _cls = None

    def _init(self, has_identities, parameters, form_key):
        self._has_identities = bool(has_identities)
        self._params = dict2parameters(parameters)
        if form_key is not None and not isinstance(form_key, str):
            raise RuntimeError("Unable to cast Python instance to C++ type (form_key must be str or None)")
        self._form_key = form_key

    # -- JSON
    def _common(self, d):
        d["has_identities"] = self._has_identities
        d["parameters"] = dict((k, json.loads(v)) for k, v in self._params.items())
        d["form_key"] = self._form_key
        return d

    def _json(self):
        return json.dumps(self._obj())

    def _req(self, method, *args):
        body = "form " + method + " " + hx(self._json())
        if args:
            body += " " + " ".join(args)
        return core.request(body)

    @staticmethod
    def fromjson(data):
        if not isinstance(data, str):
            raise TypeError("Form.fromjson requires a str")
        return form_from_json(d_str(core.request("form canonical " + hx(data))))

    @staticmethod
    def from_numpy(dtype):
        if not isinstance(dtype, numpy.dtype):
            raise ValueError("Form.from_numpy requires a numpy.dtype" + FILENAME_SUFFIX)
        inner_shape = list(dtype.shape)
        if len(inner_shape) == 0:
            kind, itemsize = dtype.kind, dtype.itemsize
        else:
            sub = dtype.subdtype[0]
            kind, itemsize = sub.kind, sub.itemsize
        return form_from_json(d_str(core.request(
            "form from_numpy %s %d (%s)" % (hx(kind), itemsize, " ".join(str(x) for x in inner_shape)))))

    def tojson(self, pretty=False, verbose=True):
        return d_str(self._req("tojson", e_bool(pretty), e_bool(verbose)))

    def __repr__(self):
        return d_str(self._req("tostring"))

    def __eq__(self, other):
        if not isinstance(other, Form):
            return NotImplemented
        return d_bool(self._req("eq", hx(other._json())))

    def __ne__(self, other):
        if not isinstance(other, Form):
            return NotImplemented
        return not d_bool(self._req("eq", hx(other._json())))

    __hash__ = None

    has_identities = property(lambda self: self._has_identities)
    form_key = property(lambda self: self._form_key)

    @property
    def parameters(self):
        return parameters2dict(self._params)

    def parameter(self, key):
        return json.loads(self._params.get(key, "null"))

    def type(self, typestrs):
        return rd_type(self._req("type", e_typestrs(typestrs)))

    @property
    def purelist_depth(self):
        return d_int(self._req("purelist_depth"))

    def with_form_key(self, form_key):
        import copy

        out = copy.copy(self)
        out._params = dict(self._params)
        if form_key is not None and not isinstance(form_key, str):
            raise RuntimeError("Unable to cast Python instance to C++ type (form_key must be str or None)")
        out._form_key = form_key
        return out


class BitMaskedForm(Form):
    def __init__(self, mask, content, valid_when, lsb_order, has_identities=False, parameters=None, form_key=None):
        self._mask = _str2form(mask)
        self._content = _form_arg(content)
        self._valid_when = bool(valid_when)
        self._lsb_order = bool(lsb_order)
        self._init(has_identities, parameters, form_key)

    mask = property(lambda self: self._mask)
    content = property(lambda self: self._content)
    valid_when = property(lambda self: self._valid_when)
    lsb_order = property(lambda self: self._lsb_order)

    def _obj(self):
        return self._common({"class": "BitMaskedArray", "mask": self._mask, "content": self._content._obj(),
                             "valid_when": self._valid_when, "lsb_order": self._lsb_order})


class ByteMaskedForm(Form):
    def __init__(self, mask, content, valid_when, has_identities=False, parameters=None, form_key=None):
        self._mask = _str2form(mask)
        self._content = _form_arg(content)
        self._valid_when = bool(valid_when)
        self._init(has_identities, parameters, form_key)

    mask = property(lambda self: self._mask)
    content = property(lambda self: self._content)
    valid_when = property(lambda self: self._valid_when)

    def _obj(self):
        return self._common({"class": "ByteMaskedArray", "mask": self._mask, "content": self._content._obj(),
                             "valid_when": self._valid_when})


class EmptyForm(Form):
    def __init__(self, has_identities=False, parameters=None, form_key=None):
        self._init(has_identities, parameters, form_key)

    def _obj(self):
        return self._common({"class": "EmptyArray"})


class _IndexedFormBase(Form):
    _classes = None

    def __init__(self, index, content, has_identities=False, parameters=None, form_key=None):
        self._index = _str2form(index)
        self._content = _form_arg(content)
        self._init(has_identities, parameters, form_key)

    index = property(lambda self: self._index)
    content = property(lambda self: self._content)

    def _obj(self):
        return self._common({"class": self._classes[self._index], "index": self._index, "content": self._content._obj()})


class IndexedForm(_IndexedFormBase):
    _classes = {"i32": "IndexedArray32", "u32": "IndexedArrayU32", "i64": "IndexedArray64",
                "i8": "IndexedArray", "u8": "IndexedArray"}


class IndexedOptionForm(_IndexedFormBase):
    _classes = {"i32": "IndexedOptionArray32", "i64": "IndexedOptionArray64",
                "u32": "IndexedOptionArray", "i8": "IndexedOptionArray", "u8": "IndexedOptionArray"}


class ListForm(Form):
    def __init__(self, starts, stops, content, has_identities=False, parameters=None, form_key=None):
        self._starts = _str2form(starts)
        self._stops = _str2form(stops)
        self._content = _form_arg(content)
        self._init(has_identities, parameters, form_key)

    starts = property(lambda self: self._starts)
    stops = property(lambda self: self._stops)
    content = property(lambda self: self._content)

    def _obj(self):
        cls = {"i32": "ListArray32", "u32": "ListArrayU32", "i64": "ListArray64"}.get(self._starts, "ListArray")
        return self._common({"class": cls, "starts": self._starts, "stops": self._stops, "content": self._content._obj()})


class ListOffsetForm(Form):
    def __init__(self, offsets, content, has_identities=False, parameters=None, form_key=None):
        self._offsets = _str2form(offsets)
        self._content = _form_arg(content)
        self._init(has_identities, parameters, form_key)

    offsets = property(lambda self: self._offsets)
    content = property(lambda self: self._content)

    def _obj(self):
        cls = {"i32": "ListOffsetArray32", "u32": "ListOffsetArrayU32", "i64": "ListOffsetArray64"}.get(self._offsets, "ListOffsetArray")
        return self._common({"class": cls, "offsets": self._offsets, "content": self._content._obj()})


class NumpyForm(Form):
    def __init__(self, inner_shape, itemsize, format, has_identities=False, parameters=None, form_key=None):
        self._inner_shape = [operator.index(x) for x in inner_shape]
        self._itemsize = operator.index(itemsize)
        if not isinstance(format, str):
            raise TypeError("NumpyForm format must be a string")
        self._format = format
        self._primitive = None  # derived by C++ from (format, itemsize) on demand
        self._init(has_identities, parameters, form_key)

    inner_shape = property(lambda self: list(self._inner_shape))
    itemsize = property(lambda self: self._itemsize)
    format = property(lambda self: self._format)

    @property
    def primitive(self):
        if self._primitive is None:
            js = json.loads(d_str(self._req("canonical")))
            self._primitive = js.get("primitive")
        return self._primitive

    def to_numpy(self):
        table = {"bool": "bool", "int8": "i1", "int16": "i2", "int32": "i4", "int64": "i8", "uint8": "u1",
                 "uint16": "u2", "uint32": "u4", "uint64": "u8", "float16": "f2", "float32": "f4", "float64": "f8",
                 "float128": "f16", "complex64": "c8", "complex128": "c16", "complex256": "c32",
                 "datetime64": "?", "timedelta64": "?"}
        dt = table.get(self.primitive, "O")
        return numpy.dtype((dt, tuple(self._inner_shape)))

    def _obj(self):
        d = {"class": "NumpyArray", "inner_shape": self._inner_shape, "itemsize": self._itemsize, "format": self._format}
        if self._primitive is not None:
            d["primitive"] = self._primitive
        return self._common(d)


class RecordForm(Form):
    def __init__(self, contents, *args, **kwargs):
        if isinstance(contents, dict):
            names = ["has_identities", "parameters", "form_key"]
            # std::map<std::string, FormPtr>: keys arrive sorted
            keys = sorted(contents.keys())
            cs = [contents[k] for k in keys]
        else:
            names = ["keys", "has_identities", "parameters", "form_key"]
            keys = None
            cs = list(contents)
        if len(args) > len(names):
            raise TypeError("RecordForm(): too many arguments")
        opts = dict(zip(names, args))
        for k, v in kwargs.items():
            if k not in names or k in opts:
                raise TypeError("RecordForm(): incompatible constructor arguments (%s)" % k)
            opts[k] = v
        if opts.get("keys") is not None:
            keys = list(opts["keys"])
        self._contents = [_form_arg(c) for c in cs]
        self._recordlookup = keys
        self._init(opts.get("has_identities", False), opts.get("parameters"), opts.get("form_key"))

    @property
    def contents(self):
        ks = self.keys()
        return dict((ks[i], self._contents[i]) for i in range(len(self._contents)))

    istuple = property(lambda self: self._recordlookup is None)
    numfields = property(lambda self: len(self._contents))

    def fieldindex(self, key):
        return d_int(self._req("fieldindex", e_str(key)))

    def key(self, fieldindex):
        return d_str(self._req("key", e_int(fieldindex)))

    def haskey(self, key):
        return d_bool(self._req("haskey", e_str(key)))

    def keys(self):
        if self._recordlookup is None:
            return [str(i) for i in range(len(self._contents))]
        return list(self._recordlookup)

    def content(self, where):
        if isinstance(where, str):
            return self._contents[self.fieldindex(where)]
        i = operator.index(where)
        if not (0 <= i < len(self._contents)):
            raise ValueError("fieldindex %d for record with only %d fields" % (i, len(self._contents)) + FILENAME_SUFFIX)
        return self._contents[i]

    def items(self):
        return list(zip(self.keys(), self._contents))

    def values(self):
        return list(self._contents)

    def _obj(self):
        if self._recordlookup is None:
            cs = [c._obj() for c in self._contents]
        else:
            cs = _OrderedPairs((k, c._obj()) for k, c in zip(self._recordlookup, self._contents))
        return self._common({"class": "RecordArray", "contents": cs})


class _OrderedPairs(dict):
    """dict that keeps duplicate keys when dumped as JSON (record keys need not be unique)."""

    def __init__(self, pairs):
        self._pairs = list(pairs)
        dict.__init__(self, self._pairs)

    def items(self):
        return list(self._pairs)

    def __len__(self):
        return len(self._pairs)

    def __bool__(self):
        return True


class RegularForm(Form):
    def __init__(self, content, size, has_identities=False, parameters=None, form_key=None):
        self._content = _form_arg(content)
        self._size = operator.index(size)
        self._init(has_identities, parameters, form_key)

    content = property(lambda self: self._content)
    size = property(lambda self: self._size)

    def _obj(self):
        return self._common({"class": "RegularArray", "content": self._content._obj(), "size": self._size})


class UnionForm(Form):
    def __init__(self, tags, index, contents, has_identities=False, parameters=None, form_key=None):
        self._tags = _str2form(tags)
        self._index = _str2form(index)
        self._contents = [_form_arg(c) for c in contents]
        self._init(has_identities, parameters, form_key)

    tags = property(lambda self: self._tags)
    index = property(lambda self: self._index)
    contents = property(lambda self: list(self._contents))
    numcontents = property(lambda self: len(self._contents))

    def content(self, i):
        return self._contents[operator.index(i)]

    def _obj(self):
        cls = {"i32": "UnionArray8_32", "u32": "UnionArray8_U32", "i64": "UnionArray8_64"}.get(self._index, "UnionArray")
        return self._common({"class": cls, "tags": self._tags, "index": self._index,
                             "contents": [c._obj() for c in self._contents]})


class UnmaskedForm(Form):
    def __init__(self, content, has_identities=False, parameters=None, form_key=None):
        self._content = _form_arg(content)
        self._init(has_identities, parameters, form_key)

    content = property(lambda self: self._content)

    def _obj(self):
        return self._common({"class": "UnmaskedArray", "content": self._content._obj()})


class VirtualForm(Form):
    def __init__(self, form, has_length, has_identities=False, parameters=None, form_key=None):
        self._form = _form_arg(form, none_ok=True)
        self._has_length = bool(has_length)
        self._init(has_identities, parameters, form_key)

    form = property(lambda self: self._form)
    has_length = property(lambda self: self._has_length)

    def _obj(self):
        return self._common({"class": "VirtualArray", "form": None if self._form is None else self._form._obj(),
                             "has_length": self._has_length})


def _pairs_hook(pairs):
    return _OrderedPairs(pairs)


def form_from_json(text):
    return _form_from_obj(json.loads(text, object_pairs_hook=_pairs_hook))


def _form_from_obj(js):
    cls = js["class"]
    params = js.get("parameters", {})
    if isinstance(params, _OrderedPairs):
        params = _plain(params)

    def fin(o):
        o._has_identities = bool(js.get("has_identities", False))
        o._params = dict((k, json.dumps(v)) for k, v in params.items())
        o._form_key = js.get("form_key")
        return o

    if cls == "NumpyArray":
        o = NumpyForm.__new__(NumpyForm)
        o._inner_shape = list(js.get("inner_shape", []))
        o._itemsize = js["itemsize"]
        o._format = js["format"]
        o._primitive = js.get("primitive")
        return fin(o)
    if cls == "EmptyArray":
        return fin(EmptyForm.__new__(EmptyForm))
    if cls == "RecordArray":
        o = RecordForm.__new__(RecordForm)
        cs = js["contents"]
        if isinstance(cs, list):
            o._recordlookup = None
            o._contents = [_form_from_obj(c) for c in cs]
        else:
            pairs = cs.items()
            o._recordlookup = [k for k, _ in pairs]
            o._contents = [_form_from_obj(c) for _, c in pairs]
        return fin(o)
    if cls.startswith("ListOffsetArray"):
        o = ListOffsetForm.__new__(ListOffsetForm); o._offsets = js["offsets"]; o._content = _form_from_obj(js["content"]); return fin(o)
    if cls.startswith("ListArray"):
        o = ListForm.__new__(ListForm); o._starts = js["starts"]; o._stops = js["stops"]; o._content = _form_from_obj(js["content"]); return fin(o)
    if cls == "RegularArray":
        o = RegularForm.__new__(RegularForm); o._content = _form_from_obj(js["content"]); o._size = js["size"]; return fin(o)
    if cls.startswith("IndexedOptionArray"):
        o = IndexedOptionForm.__new__(IndexedOptionForm); o._index = js["index"]; o._content = _form_from_obj(js["content"]); return fin(o)
    if cls.startswith("IndexedArray"):
        o = IndexedForm.__new__(IndexedForm); o._index = js["index"]; o._content = _form_from_obj(js["content"]); return fin(o)
    if cls == "ByteMaskedArray":
        o = ByteMaskedForm.__new__(ByteMaskedForm); o._mask = js["mask"]; o._content = _form_from_obj(js["content"]); o._valid_when = js["valid_when"]; return fin(o)
    if cls == "BitMaskedArray":
        o = BitMaskedForm.__new__(BitMaskedForm); o._mask = js["mask"]; o._content = _form_from_obj(js["content"])
        o._valid_when = js["valid_when"]; o._lsb_order = js["lsb_order"]; return fin(o)
    if cls == "UnmaskedArray":
        o = UnmaskedForm.__new__(UnmaskedForm); o._content = _form_from_obj(js["content"]); return fin(o)
    if cls.startswith("UnionArray"):
        o = UnionForm.__new__(UnionForm); o._tags = js["tags"]; o._index = js["index"]
        o._contents = [_form_from_obj(c) for c in js["contents"]]; return fin(o)
    if cls == "VirtualArray":
        o = VirtualForm.__new__(VirtualForm)
        o._form = None if js.get("form") is None else _form_from_obj(js["form"])
        o._has_length = js["has_length"]
        return fin(o)
    raise core.DriverProtocolError("unknown form class " + str(cls))


def _plain(x):
    if isinstance(x, _OrderedPairs):
        return dict((k, _plain(v)) for k, v in x.items())
    if isinstance(x, list):
        return [_plain(v) for v in x]
    return x
