(** Structure operations applied at an axis: num, local_index, pad_none (rpad /
    rpad_and_clip), combinations.  Model [*_g] acts on a list node's buffers (the
    meaning of the kernel pipeline the C++ runs there); spec [*_f] acts on one list value. *)
From AwkV Require Export AtAxis.

Definition lens_of (b : list (Z * Z)) : list Z := map (fun ab : Z * Z => snd ab - fst ab) b.
Definition repeatZ {A} (x : A) (n : Z) : list A := repeat x (Z.to_nat n).

(* ---- num ---- *)
Definition num_f (_ : ty) (l : list value) : res value := Ok (VNum (DZ (zlen l))).
Definition num_g (_ : option akind) (c : content) : res content :=
  do bc <- list_bounds c; Ok (np64 (lens_of (fst bc))).
Definition num_model (axis : Z) (c : content) : res content := model_ax num_g (Ok (np64 [])) true c axis.
Definition num_spec (axis : Z) (t : ty) (vs : list value) : res (list value) := spec_ax num_f true (fun _ => true) true t axis vs.

(* ---- local_index ---- *)
Definition localindex_f (_ : ty) (l : list value) : res value :=
  Ok (VList (map (fun i => VNum (DZ i)) (iota (zlen l)))).
Definition localindex_g (_ : option akind) (c : content) : res content :=
  do bc <- list_bounds c;
  let lens := lens_of (fst bc) in
  Ok (ListOffset I64 (offsets_from 0 lens) (np64 (concat (map iota lens)))).
Definition localindex_model (axis : Z) (c : content) : res content :=
  model_ax localindex_g (Ok (np64 [])) true c axis.
Definition localindex_spec (axis : Z) (t : ty) (vs : list value) : res (list value) :=
  spec_ax localindex_f true (fun _ => true) true t axis vs.

(* ---- pad_none ---- *)
Definition rpad_f (target : Z) (_ : ty) (l : list value) : res value :=
  Ok (VList (l ++ repeatZ VNone (target - zlen l))).
Definition rpadclip_f (target : Z) (_ : ty) (l : list value) : res value :=
  Ok (VList (take target (l ++ repeatZ VNone (target - zlen l)))).

Definition pad_index (clip : bool) (target : Z) (ab : Z * Z) : list Z :=
  let (a, b) := ab in
  let ix := range a b ++ repeatZ (-1) (target - (b - a)) in
  if clip then take target ix else ix.
Definition rpad_g (target : Z) (_ : option akind) (c : content) : res content :=
  do bc <- list_bounds c;
  let ixs := map (pad_index false target) (fst bc) in
  Ok (ListOffset I64 (offsets_from 0 (map zlen ixs)) (IndexedOption I64 (concat ixs) (snd bc))).
Definition rpadclip_g (target : Z) (_ : option akind) (c : content) : res content :=
  do bc <- list_bounds c;
  let ixs := map (pad_index true target) (fst bc) in
  Ok (Regular (IndexedOption I64 (concat ixs) (snd bc)) target (zlen ixs)).
Definition rpad_model (target axis : Z) (c : content) : res content :=
  model_ax (rpad_g target) (Err EValue) true c axis.
Definition rpad_spec (target axis : Z) (t : ty) (vs : list value) : res (list value) :=
  spec_ax (rpad_f target) false (fun _ => true) true t axis vs.
Definition rpadclip_model (target axis : Z) (c : content) : res content :=
  if target <? 0 then Err EValue else model_ax (rpadclip_g target) (Err EValue) true c axis.
Definition rpadclip_spec (target axis : Z) (t : ty) (vs : list value) : res (list value) :=
  if target <? 0 then Err EValue else spec_ax (rpadclip_f target) false (fun _ => true) true t axis vs.

(* ---- combinations ---- *)
(* itertools.combinations / combinations_with_replacement *)
Fixpoint combs {A} (n : nat) (l : list A) : list (list A) :=
  match n with
  | O => [[]]
  | S k =>
      (fix go (l : list A) : list (list A) :=
         match l with
         | [] => []
         | x :: xs => map (cons x) (combs k xs) ++ go xs
         end) l
  end.
Fixpoint combs_r {A} (n : nat) (l : list A) : list (list A) :=
  match n with
  | O => [[]]
  | S k =>
      (fix go (l : list A) : list (list A) :=
         match l with
         | [] => []
         | x :: xs => map (cons x) (combs_r k (x :: xs)) ++ go xs
         end) l
  end.
Definition combos {A} (repl : bool) (n : Z) (l : list A) : list (list A) :=
  if repl then combs_r (Z.to_nat n) l else combs (Z.to_nat n) l.

Definition comb_f (n : Z) (repl : bool) (_ : ty) (l : list value) : res value :=
  Ok (VList (map VTup (combos repl n l))).

(* transpose a list of n-tuples of positions into n index columns *)
Fixpoint columns (n : nat) (tuples : list (list Z)) : list (list Z) :=
  match n with
  | O => []
  | S k => map (fun t => hd 0 t) tuples :: columns k (map (@tl Z) tuples)
  end.
Definition comb_g (n : Z) (repl : bool) (_ : option akind) (c : content) : res content :=
  do bc <- list_bounds c;
  let per_list := map (fun ab : Z * Z => combos repl n (range (fst ab) (snd ab))) (fst bc) in
  let cols := columns (Z.to_nat n) (concat per_list) in
  Ok (ListOffset I64 (offsets_from 0 (map zlen per_list))
        (Record (map (fun col => Indexed I64 col (snd bc)) cols) None (zlen (concat per_list)))).
Definition comb_model (n : Z) (repl : bool) (axis : Z) (c : content) : res content :=
  if n <? 1 then Err EValue else model_ax (comb_g n repl) (Ok Empty) false c axis.
Definition comb_spec (n : Z) (repl : bool) (axis : Z) (t : ty) (vs : list value) : res (list value) :=
  if n <? 1 then Err EValue else spec_ax (comb_f n repl) true (fun _ => true) false t axis vs.
