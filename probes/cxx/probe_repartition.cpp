#include <iostream>
#include "awkward/Index.h"
#include "awkward/array/NumpyArray.h"
#include "awkward/partition/IrregularlyPartitionedArray.h"
using namespace awkward;
Index64 mk(std::vector<int64_t> v){ Index64 out((int64_t)v.size()); for(size_t i=0;i<v.size();i++) out.setitem_at_nowrap((int64_t)i,v[i]); return out;}
int main(){
  ContentPtr a = std::make_shared<NumpyArray>(mk({1,2,3}));
  IrregularlyPartitionedArray p({a}, {3});
  try {
    auto q = p.repartition({3,3});
    std::cout << q->tostring() << std::endl;
  } catch (std::exception& e) { std::cout << "EXC " << e.what() << std::endl; }
  return 0;
}
