(** C17b, extended printing/re-parsing round trip, stage 3a: the extended reference parser [type_parse_x]
    (parameters on every type class, categorical[type=T]), the fragment [printable_x], computed examples,
    and the counter-examples showing what must stay outside because the PRINTER loses the information. *)
From Coq Require Import ZArith List Bool Lia ZifyBool String.
From AwkV Require Import Base Layout.
From AwkTypes Require Import Json Forms TypeStr Proofs_Json Proofs_Parse Proofs_C17b_ParseX_Json Proofs_C17b_ParseX_Defs.
Import ListNotations.
Open Scope Z_scope.
Ltac Zify.zify_post_hook ::= Z.to_euclidean_division_equations.

Definition w_categorical : bytes := Eval vm_compute in bytes_of_string "categorical"%string.
Definition w_struct : bytes := Eval vm_compute in bytes_of_string "struct"%string.
Definition w_tuple : bytes := Eval vm_compute in bytes_of_string "tuple"%string.
Definition p_type_eq : bytes := Eval vm_compute in bytes_of_string "type="%string.
Definition p_comma_lbr : bytes := Eval vm_compute in bytes_of_string ", ["%string.

(* parameters={...} "]" *)
Definition params_close (s : bytes) : res (params * bytes) :=
  do pr <- params_parse s;
  match snd pr with
  | c :: r => if c =? 93 then Ok (fst pr, r) else Err EValue
  | [] => Err EValue
  end.
(* ", " parameters={...} "]" *)
Definition comma_params_close (s : bytes) : res (params * bytes) :=
  match strip_prefix p_comma s with Some s1 => params_close s1 | None => Err EValue end.

Definition starts_params (s : bytes) : bool :=
  match strip_prefix p_parameters_eq s with Some _ => true | None => false end.

(* "k" (", " "k")* "]" *)
Fixpoint parse_keys (fuel : nat) (s : bytes) : res (list bytes * bytes) :=
  match fuel with
  | O => Err EFuel
  | S fuel' =>
      do kr <- unquote s;
      match snd kr with
      | c :: r =>
          if c =? 93 then Ok ([fst kr], r)
          else match strip_prefix p_comma (snd kr) with
               | Some rest => do lr <- parse_keys fuel' rest; Ok (fst kr :: fst lr, snd lr)
               | None => Err EValue
               end
      | [] => Err EValue
      end
  end.
Definition parse_keyitems (fuel : nat) (s : bytes) : res (list bytes * bytes) :=
  match s with
  | c :: r => if c =? 93 then Ok ([], r) else parse_keys fuel s
  | [] => Err EValue
  end.

Section ParseX.
  Variable sub : bytes -> res (rty * bytes).

  (* T (", " T)* then "]" or ", parameters={...}]"; no parameters is reported as [] *)
  Fixpoint parse_listp (fuel : nat) (s : bytes) : res ((list rty * params) * bytes) :=
    match fuel with
    | O => Err EFuel
    | S fuel' =>
        do tr <- sub s;
        match snd tr with
        | c' :: r' =>
            if c' =? 93 then Ok (([fst tr], []), r')
            else match strip_prefix p_comma (snd tr) with
                 | Some rest =>
                     if starts_params rest
                     then do pr <- params_close rest; Ok (([fst tr], fst pr), snd pr)
                     else do lr <- parse_listp fuel' rest; Ok ((fst tr :: fst (fst lr), snd (fst lr)), snd lr)
                 | None => Err EValue
                 end
        | [] => Err EValue
        end
    end.
  Definition parse_itemsp (fuel : nat) (s : bytes) : res ((list rty * params) * bytes) :=
    match s with
    | c :: r => if c =? 93 then Ok (([], []), r) else parse_listp fuel s
    | [] => Err EValue
    end.

  (* after "[": var * T, parameters={...}]   or   N * T, parameters={...}] *)
  Definition lbracket_branch (r : bytes) : res (rty * bytes) :=
    match strip_prefix p_var_star r with
    | Some r1 =>
        do tr <- sub r1; do pr <- comma_params_close (snd tr); Ok (RList (fst pr) [] (fst tr), snd pr)
    | None =>
        let (ds, rest) := span is_digit r in
        match ds with
        | [] => Err EValue
        | _ =>
            match strip_prefix p_star rest with
            | Some r1 =>
                do tr <- sub r1; do pr <- comma_params_close (snd tr);
                Ok (RReg (fst pr) [] (Z_of_digits ds) (fst tr), snd pr)
            | None => Err EValue
            end
        end
    end.

  (* after "w[" *)
  Definition bracket_branchx (fuel : nat) (w rest1 : bytes) : res (rty * bytes) :=
    if bytes_eqb w w_option then
      do tr <- sub rest1;
      match snd tr with
      | c :: rest2 =>
          if c =? 93 then (if is_listlike (fst tr) then Ok (ROpt [] [] (fst tr), rest2) else Err EValue)
          else do pr <- comma_params_close (snd tr); Ok (ROpt (fst pr) [] (fst tr), snd pr)
      | [] => Err EValue
      end
    else if bytes_eqb w w_union then
      do lr <- parse_itemsp fuel rest1; Ok (RUnion (snd (fst lr)) [] (fst (fst lr)), snd lr)
    else if bytes_eqb w w_categorical then
      match strip_prefix p_type_eq rest1 with
      | Some r1 =>
          do tr <- sub r1;
          match snd tr with
          | c :: r2 =>
              if c =? 93
              then Ok (rty_set_params (pset k_categorical (JBool true) (rty_params (fst tr))) (fst tr), r2)
              else Err EValue
          | [] => Err EValue
          end
      | None => Err EValue
      end
    else if bytes_eqb w w_struct then
      match rest1 with
      | c :: r1 =>
          if c =? 91 then
            do kr <- parse_keyitems fuel r1;
            match strip_prefix p_comma_lbr (snd kr) with
            | Some r2 =>
                do lr <- parse_items sub fuel 93 r2; do pr <- comma_params_close (snd lr);
                Ok (RRec (fst pr) [] (Some (fst kr)) (fst lr), snd pr)
            | None => Err EValue
            end
          else Err EValue
      | [] => Err EValue
      end
    else if bytes_eqb w w_tuple then
      match rest1 with
      | c :: r1 =>
          if c =? 91 then
            do lr <- parse_items sub fuel 93 r1; do pr <- comma_params_close (snd lr);
            Ok (RRec (fst pr) [] None (fst lr), snd pr)
          else Err EValue
      | [] => Err EValue
      end
    else if bytes_eqb w n_unknown then
      do pr <- params_close rest1; Ok (RUnk (fst pr) [], snd pr)
    else match prim_of_name w with
         | Some dt => do pr <- params_close rest1; Ok (RNum (fst pr) [] dt, snd pr)
         | None => bracket_branch sub fuel w rest1       (* Name[...] as in the parameter-free parser *)
         end.

  Definition word_branchx (fuel : nat) (w rest : bytes) : res (rty * bytes) :=
    match rest with
    | c1 :: rest1 => if c1 =? 91 then bracket_branchx fuel w rest1 else plain_word sub w rest
    | [] => plain_word sub w rest
    end.
End ParseX.

Fixpoint parse_tyx (fuel : nat) (s : bytes) {struct fuel} : res (rty * bytes) :=
  match fuel with
  | O => Err EFuel
  | S fuel' =>
      let sub := parse_tyx fuel' in
      match s with
      | [] => Err EValue
      | c :: r =>
          if c =? 63 then opt_branch sub r                   (* ?T *)
          else if c =? 123 then brace_branch sub fuel' r     (* {"k": T, ...} *)
          else if c =? 40 then paren_branch sub fuel' r      (* (T, ...) *)
          else if c =? 91 then lbracket_branch sub r         (* [var * T, parameters=...]  [N * T, parameters=...] *)
          else if is_digit c then num_branch sub s           (* N * T *)
          else if is_alpha_ c then let (w, rest) := span is_alnum_ s in word_branchx sub fuel' w rest
          else Err EValue
      end
  end.

Definition type_parse_x (s : bytes) : res rty :=
  do tr <- parse_tyx (2 * S (length s)) s;
  match snd tr with [] => Ok (fst tr) | _ => Err EValue end.

(* ---------------------------------------------------------------- the fragment *)
Definition rty_ts (t : rty) : bytes :=
  match t with
  | RNum _ s _ | RUnk _ s | RList _ s _ | RReg _ s _ _ | ROpt _ s _ | RRec _ s _ _ | RUnion _ s _ => s
  end.

(* a record printed as Name[...]: as in [printable] *)
Definition named_ok (p : params) (ks : option (list bytes)) (l : list rty) : bool :=
  match p with
  | [(k, JStr w)] =>
      bytes_eqb k k_record && is_name w && negb (existsb (bytes_eqb w) reserved_words) &&
      match ks, l with None, [] => false | _, _ => true end
  | _ => false
  end.

(* [printable], plus: any parameters (sorted map, byte-string keys, values in [json_ok], __categorical__ only
   with the value true) on any node without a typestr; the four hardcoded types possibly categorical.
   Still excluded: typestrs other than the four hardcoded ones; a record whose only parameter is
   __record__ = a reserved word or a name with a NUL inside; named empty tuples; negative regular sizes;
   a union without contents but with parameters to show. *)
Fixpoint printable_x (t : rty) {struct t} : bool :=
  pvals_ok (rty_params t) &&
  (hardcoded (rty_set_params (shown (rty_params t)) t) ||
   match t with
   | RNum _ [] dt => negb (fdtype_eqb dt FNotPrimitive)
   | RUnk _ [] => true
   | RList _ [] t' => printable_x t'
   | RReg _ [] n t' => (0 <=? n) && printable_x t'
   | ROpt _ [] t' => printable_x t'
   | RUnion p [] l =>
       forallb printable_x l && match shown p, l with _ :: _, [] => false | _, _ => true end
   | RRec p [] ks l =>
       forallb printable_x l &&
       match ks with
       | Some ks => Nat.eqb (length ks) (length l) && forallb key_ok ks
       | None => true
       end &&
       match record_name p with Some _ => named_ok p ks l | None => true end
   | _ => false
   end).

(* ---------------------------------------------------------------- computed examples *)
Definition px_list : rty :=
  RList [(k_array, JStr s_string); ([122], JArr [JInt 1; JNull; JObj [([97], JBool true)]])] [] (RNum [] [] (FD DInt64)).
Example px_list_text :
  type_tostring px_list = bytes_of_string "[var * int64, parameters={""__array__"": ""string"", ""z"": [1,null,{""a"":true}]}]"%string.
Proof. vm_compute. reflexivity. Qed.

Definition pa : params := [([97], JInt (-3))].
Definition pb : params := [([98], JObj [([120], JArr [JStr [34]])])].
Definition pcat (p : params) : params := pset k_categorical (JBool true) p.

(* every new production: parameters inside union inside option inside categorical, regular, struct, tuple,
   primitive, unknown, option of a non-list with parameters, categorical string *)
Definition px_example : rty :=
  ROpt (pcat pa) []
    (RUnion pb []
       [RReg pa [] 3 (RNum pb [] (FD DInt64));
        RList pa [] (RUnk pb []);
        RRec pa [] (Some [[107]; [108]]) [ROpt pb [] (RNum [] [] (FD DBool)); RNum (pcat []) [] (FD DFloat64)];
        RRec pb [] None [RList [] [] (RNum [] [] (FD DUInt8)); RRec [(k_record, JStr [80; 116])] [] (Some [[120]]) [RUnk [] []]];
        RList (pcat [(k_array, JStr s_string)]) p_string t_char;
        RRec [(k_record, JStr (dtype_to_name (FD DInt64)))] [] (Some []) [];
        ROpt [] [] (RReg [] [] 2 (RNum [] [] (FD DInt8)))]).
Example px_example_ok :
  printable_x px_example = true /\ printable px_example = false /\
  type_parse_x (type_tostring px_example) = Ok px_example.
Proof. repeat split; vm_compute; reflexivity. Qed.
