(** C14 — lemmas about the GrowableBuffer model and small list facts. *)
From Coq Require Import ZArith List Bool Lia.
From AwkV Require Import Base Layout.
From AwkBuilder Require Import Builder.
Import ListNotations.
Open Scope Z_scope.

(* ------------------------------------------------------------------ lists *)
Lemma zlen_nonneg {A} (l : list A) : 0 <= zlen l.
Proof. unfold zlen. lia. Qed.
Lemma zlen_app {A} (l m : list A) : zlen (l ++ m) = zlen l + zlen m.
Proof. unfold zlen. rewrite app_length. lia. Qed.
Lemma zlen_cons {A} (x : A) l : zlen (x :: l) = zlen l + 1.
Proof. unfold zlen. cbn [length]. lia. Qed.
Lemma zlen_nil {A} : zlen (@nil A) = 0.
Proof. reflexivity. Qed.
Lemma zlen_map {A B} (f : A -> B) l : zlen (map f l) = zlen l.
Proof. unfold zlen. now rewrite map_length. Qed.
Lemma zlen_repeat {A} (x : A) n : zlen (repeat x n) = Z.of_nat n.
Proof. unfold zlen. now rewrite repeat_length. Qed.
Lemma zlen_fill v n : 0 <= n -> zlen (fill v n) = n.
Proof. intros. unfold fill. rewrite zlen_repeat. lia. Qed.
Lemma zlen_fill_neg v n : n <= 0 -> fill v n = [].
Proof. intros. unfold fill. replace (Z.to_nat n) with O by lia. reflexivity. Qed.

Lemma upd_nth_length {A} (l : list A) i x : length (upd_nth l i x) = length l.
Proof. revert i; induction l as [|h t IH]; intros [|j]; cbn; auto. Qed.

Lemma upd_nth_app {A} (l m : list A) x y : upd_nth (l ++ y :: m) (length l) x = l ++ x :: m.
Proof. induction l as [|h t IH]; cbn; [reflexivity | now rewrite IH]. Qed.

Lemma take_all {A} (l : list A) n : zlen l <= n -> take n l = l.
Proof. intros. unfold take. apply firstn_all2. unfold zlen in *. lia. Qed.
Lemma take_app_l {A} (l m : list A) : take (zlen l) (l ++ m) = l.
Proof.
  unfold take, zlen. rewrite Nat2Z.id. rewrite firstn_app, Nat.sub_diag, firstn_all. cbn. now rewrite app_nil_r.
Qed.
Lemma take_app_exact {A} (l m : list A) n : n = zlen l -> take n (l ++ m) = l.
Proof. intros ->. apply take_app_l. Qed.
Lemma take_length {A} (l : list A) n : 0 <= n <= zlen l -> zlen (take n l) = n.
Proof. intros. unfold take, zlen in *. rewrite firstn_length. lia. Qed.
Lemma drop_app_l {A} (l m : list A) : drop (zlen l) (l ++ m) = m.
Proof.
  unfold drop, zlen. rewrite Nat2Z.id. rewrite skipn_app, Nat.sub_diag, skipn_all. reflexivity.
Qed.
Lemma split_at {A} (l : list A) n : 0 <= n <= zlen l -> l = take n l ++ drop n l /\ zlen (take n l) = n.
Proof. intros. split. unfold take, drop. now rewrite firstn_skipn. now apply take_length. Qed.

(* ------------------------------------------------------------------ GrowableBuffer *)
Definition gbwf (g : gb) : Prop :=
  0 <= glen g /\ glen g <= gres g /\ zlen (gdata g) = gres g /\ 1 <= gres g.

Lemma gb_list_len g : gbwf g -> zlen (gb_list g) = glen g.
Proof. intros (H1 & H2 & H3 & H4). unfold gb_list. apply take_length. lia. Qed.

Lemma gb_make_ok o pre n :
  good_opts o -> zlen pre = n ->
  exists g, gb_make o pre n = Ok g /\ gbwf g /\ gb_list g = pre /\ glen g = n /\ gid g = O.
Proof.
  intros [Hi Hg] Hn. unfold gb_make.
  assert (0 <= n) by (subst; apply zlen_nonneg).
  destruct (n <? 0) eqn:E; [lia|].
  eexists; split; [reflexivity|]. unfold gbwf, gb_list; cbn.
  repeat split; try lia.
  - rewrite zlen_app, zlen_fill; lia.
  - apply take_app_exact. lia.
Qed.

Lemma gb_empty_ok o : good_opts o ->
  exists g, gb_empty o = Ok g /\ gbwf g /\ gb_list g = [] /\ glen g = 0 /\ gid g = O.
Proof. intros. apply gb_make_ok; auto. Qed.
Lemma gb_full_ok o v n : good_opts o -> 0 <= n ->
  exists g, gb_full o v n = Ok g /\ gbwf g /\ gb_list g = fill v n /\ glen g = n /\ gid g = O.
Proof. intros. apply gb_make_ok; auto. now apply zlen_fill. Qed.
Lemma zlen_iota_nat s n : zlen (iota_nat s n) = Z.of_nat n.
Proof. revert s; induction n; intros; cbn [iota_nat]; [reflexivity|]. rewrite zlen_cons, IHn. lia. Qed.
Lemma zlen_iota n : 0 <= n -> zlen (iota n) = n.
Proof. intros. unfold iota. rewrite zlen_iota_nat. lia. Qed.
Lemma gb_arange_ok o n : good_opts o -> 0 <= n ->
  exists g, gb_arange o n = Ok g /\ gbwf g /\ gb_list g = iota n /\ glen g = n /\ gid g = O.
Proof. intros. apply gb_make_ok; auto. now apply zlen_iota. Qed.

Lemma gb_set_reserved_spec o g m :
  gbwf g ->
  let g' := gb_set_reserved o g m in
  gbwf g' /\ gb_list g' = gb_list g /\ glen g' = glen g /\ (gres g < m -> gres g' = m) /\
  (gid g' = gid g \/ gid g' = O).
Proof.
  intros (H1 & H2 & H3 & H4). unfold gb_set_reserved.
  destruct (gres g <? m) eqn:E; cbn.
  - assert (zlen (take (glen g) (gdata g)) = glen g) by (apply take_length; lia).
    unfold gbwf, gb_list; cbn. repeat split; try lia.
    all: try (rewrite zlen_app, zlen_fill; lia).
    all: try (apply take_app_exact; lia).
    all: try (now right).
    all: fail.
  - unfold gbwf. repeat split; auto; try lia.
Qed.

Lemma take_succ_upd {A} (l : list A) n x :
  0 <= n < zlen l -> take (n + 1) (upd_nth l (Z.to_nat n) x) = take n l ++ [x].
Proof.
  intros Hn. destruct (split_at l n) as [Hs Hl]; [lia|].
  destruct (drop n l) as [|y m] eqn:Ed.
  - rewrite app_nil_r in Hs. rewrite <- Hs in Hl. lia.
  - rewrite Hs at 1. replace (Z.to_nat n) with (length (take n l)) by (unfold zlen in Hl; lia).
    rewrite upd_nth_app. replace (take n l ++ x :: m) with ((take n l ++ [x]) ++ m) by now rewrite <- app_assoc.
    apply take_app_exact. rewrite zlen_app, zlen_cons, zlen_nil. lia.
Qed.

Lemma take_upd_below {A} (l : list A) n k x :
  0 <= k <= n -> take k (upd_nth l (Z.to_nat n) x) = take k l.
Proof.
  intros Hk. unfold take.
  assert (forall (l : list A) i j, (j <= i)%nat -> firstn j (upd_nth l i x) = firstn j l) as G.
  { induction l0 as [|h t IH]; intros [|i] [|j] Hle; cbn; auto; try lia. f_equal. apply IH. lia. }
  apply G. lia.
Qed.

Lemma gb_append_ok o g x :
  good_opts o -> gbwf g ->
  exists g', gb_append o g x = Ok g' /\ gbwf g' /\ gb_list g' = gb_list g ++ [x] /\ glen g' = glen g + 1 /\
             (gid g' = gid g \/ gid g' = O).
Proof.
  intros [Hi Hg] W. unfold gb_append.
  set (g1 := if glen g =? gres g then gb_set_reserved o g (grow o (gres g)) else g).
  assert (gbwf g1 /\ gb_list g1 = gb_list g /\ glen g1 = glen g /\ glen g1 < gres g1 /\ (gid g1 = gid g \/ gid g1 = O))
    as (W1 & L1 & N1 & R1 & I1).
  { subst g1. destruct (glen g =? gres g) eqn:E.
    - destruct (gb_set_reserved_spec o g (grow o (gres g)) W) as (A & B & C & D & F).
      destruct W as (H1 & H2 & H3 & H4). specialize (Hg (gres g) H4).
      apply Z.eqb_eq in E. refine (conj A (conj B (conj C (conj _ F)))). rewrite C, D by lia. lia.
    - apply Z.eqb_neq in E. pose proof W as (H1 & H2 & H3 & H4).
      refine (conj W (conj eq_refl (conj eq_refl (conj _ (or_introl eq_refl))))). lia. }
  destruct W1 as (H1 & H2 & H3 & H4).
  replace ((0 <=? glen g1) && (glen g1 <? gres g1)) with true by (symmetry; apply andb_true_iff; split; lia).
  eexists; split; [reflexivity|]. unfold gbwf, gb_list in *; cbn.
  repeat split; try lia.
  all: try (unfold zlen in *; rewrite upd_nth_length; lia).
  all: try (rewrite take_succ_upd by lia; now rewrite L1).
  all: try exact I1.
Qed.

Lemma gb_extend_ok o xs : forall g,
  good_opts o -> gbwf g ->
  exists g', gb_extend o g xs = Ok g' /\ gbwf g' /\ gb_list g' = gb_list g ++ xs /\ glen g' = glen g + zlen xs.
Proof.
  induction xs as [|x t IH]; intros g Ho W; cbn [gb_extend].
  - exists g. rewrite app_nil_r, zlen_nil. refine (conj eq_refl (conj W (conj eq_refl _))). lia.
  - destruct (gb_append_ok o g x Ho W) as (g1 & E1 & W1 & L1 & N1 & _). rewrite E1. cbn [bind].
    destruct (IH g1 Ho W1) as (g2 & E2 & W2 & L2 & N2). exists g2. rewrite E2.
    refine (conj eq_refl (conj W2 (conj _ _))).
    + rewrite L2, L1, <- app_assoc. reflexivity.
    + rewrite N2, N1, zlen_cons. lia.
Qed.

Lemma gb_convert_ok o g :
  good_opts o -> gbwf g ->
  exists g', gb_convert o g = Ok g' /\ gbwf g' /\ gb_list g' = gb_list g /\ glen g' = glen g /\ gid g' = O.
Proof.
  intros [Hi Hg] (H1 & H2 & H3 & H4). unfold gb_convert.
  destruct (gres g <? 0) eqn:E; [lia|].
  assert (zlen (take (glen g) (gdata g)) = glen g) by (apply take_length; lia).
  eexists; split; [reflexivity|]. unfold gbwf, gb_list; cbn. repeat split; try lia.
  - rewrite zlen_app, zlen_fill; lia.
  - apply take_app_exact. lia.
Qed.

(* the physical half: an append never writes below the length it started from, whatever the options *)
Lemma gb_append_prefix o g x g' :
  gb_append o g x = Ok g' -> 0 <= glen g <= zlen (gdata g) ->
  gid g' = gid g -> forall k, 0 <= k <= glen g -> take k (gdata g') = take k (gdata g).
Proof.
  unfold gb_append. intros H Hl Hid k Hk.
  set (g1 := if glen g =? gres g then gb_set_reserved o g (grow o (gres g)) else g) in *.
  destruct ((0 <=? glen g1) && (glen g1 <? gres g1)) eqn:E; [|discriminate].
  inversion H; subst g'; clear H. cbn in *.
  assert (glen g1 = glen g /\ take k (gdata g1) = take k (gdata g)) as [N1 T1].
  { subst g1. destruct (glen g =? gres g); [|auto]. unfold gb_set_reserved.
    destruct (gres g <? grow o (gres g)); [|auto]. cbn. split; [reflexivity|].
    unfold take. rewrite firstn_app.
    assert (length (firstn (Z.to_nat (glen g)) (gdata g)) = Z.to_nat (glen g)) as L.
    { rewrite firstn_length. unfold zlen in Hl. lia. }
    rewrite L. replace (Z.to_nat k - Z.to_nat (glen g))%nat with O by lia. cbn. rewrite app_nil_r.
    rewrite firstn_firstn. f_equal. lia. }
  rewrite take_upd_below by lia. exact T1.
Qed.
