(** C17b: how exact [printable_x] is.  [printable_x t] splits into a structural part [pstruct t] and the
    record-spelling part [names_ok t] (key counts; a record the printer spells Name[...] has a proper name).
    Everything [type_parse_x] returns on a byte string satisfies [pstruct]; [names_ok] is what it does not check
    (see image_not_printable_x_refuted in Proofs_C17b_ParseX_Agree.v). *)
From Coq Require Import ZArith List Bool Lia.
From AwkV Require Import Base Layout.
From AwkTypes Require Import Json Forms TypeStr Proofs_Json Proofs_Parse Proofs_C17b_Exact
  Proofs_C17b_ParseX_Json Proofs_C17b_ParseX_Defs Proofs_C17b_ParseX_Ty Proofs_C17b_ParseX Proofs_C17b_ParseX_Img.
Import ListNotations.
Open Scope Z_scope.

Fixpoint pstruct (t : rty) {struct t} : bool :=
  pvals_ok (rty_params t) &&
  (hardcoded (rty_set_params (shown (rty_params t)) t) ||
   match t with
   | RNum _ [] dt => negb (fdtype_eqb dt FNotPrimitive)
   | RUnk _ [] => true
   | RList _ [] t' => pstruct t'
   | RReg _ [] n t' => (0 <=? n) && pstruct t'
   | ROpt _ [] t' => pstruct t'
   | RUnion p [] l => forallb pstruct l && match shown p, l with _ :: _, [] => false | _, _ => true end
   | RRec p [] ks l => forallb pstruct l && match ks with Some ks => forallb key_ok ks | None => true end
   | _ => false
   end).

Fixpoint names_ok (t : rty) {struct t} : bool :=
  match t with
  | RNum _ _ _ | RUnk _ _ => true
  | RList _ _ t' | RReg _ _ _ t' | ROpt _ _ t' => names_ok t'
  | RUnion _ _ l => forallb names_ok l
  | RRec p _ ks l =>
      forallb names_ok l &&
      match ks with Some ks => Nat.eqb (length ks) (length l) | None => true end &&
      match record_name p with Some _ => named_ok p ks l | None => true end
  end.

Lemma forallb_and2 {A} (f g h : A -> bool) l :
  Forall (fun x => f x = true -> g x = true -> h x = true) l -> forallb f l = true -> forallb g l = true -> forallb h l = true.
Proof.
  induction 1 as [|x l Hx Hl IH]; [reflexivity|]. simpl. intros H1 H2.
  apply andb_true_iff in H1 as [A1 A2]. apply andb_true_iff in H2 as [B1 B2]. rewrite (Hx A1 B1), (IH A2 B2). reflexivity.
Qed.

Theorem pstruct_names_printable_x t : pstruct t = true -> names_ok t = true -> printable_x t = true.
Proof.
  induction t as [p s dt|p s|p s t' IH|p s n t' IH|p s t' IH|p s ks l IH|p s l IH] using rty_ind';
    intros Hs Hn; cbn [pstruct printable_x rty_params names_ok] in *; apply andb_true_iff in Hs as [Hpv Hm];
    rewrite Hpv; cbn [andb]; apply orb_true_iff in Hm as [Hm|Hm]; try (rewrite Hm; reflexivity);
    apply orb_true_iff; right; (destruct s; [|discriminate Hm]); try exact Hm; try (exact (IH Hm Hn)).
  - apply andb_true_iff in Hm as [Hn0 Hm]. rewrite Hn0, (IH Hm Hn). reflexivity.
  - apply andb_true_iff in Hm as [Hl Hk]. apply andb_true_iff in Hn as [Hn Hname]. apply andb_true_iff in Hn as [Hnl Hlen].
    rewrite (forallb_and2 _ _ _ l IH Hl Hnl), Hname. destruct ks as [ks|]; [rewrite Hlen, Hk|]; reflexivity.
  - apply andb_true_iff in Hm as [Hl Hne]. rewrite (forallb_and2 _ _ _ l IH Hl Hn), Hne. reflexivity.
Qed.

(* ---------------------------------------------------------------- inserting __categorical__ into a sorted map *)
Lemma bytes_ltb_total a : forall b, bytes_ltb a b = false -> bytes_ltb b a = false -> a = b.
Proof.
  induction a as [|x a IH]; intros [|y b] H1 H2; simpl in *; try discriminate; [reflexivity|].
  destruct (x <? y) eqn:E1; [discriminate|]. destruct (y <? x) eqn:E2; [discriminate|].
  apply Z.ltb_ge in E1, E2. assert (x = y) by lia. subst. f_equal. apply IH; assumption.
Qed.

Lemma In_pset {V} k (v : V) p x : In x (pset k v p) -> x = (k, v) \/ In x p.
Proof.
  induction p as [|[k' v'] r IH]; simpl; [intros [<-|[]]; auto|].
  destruct (bytes_ltb k k'); [simpl; intros [<-|H]; auto|].
  destruct (bytes_ltb k' k); simpl; [intros [<-|H]; [auto|destruct (IH H); auto]|intros [<-|H]; auto].
Qed.

Lemma psorted_pset {V} k (v : V) p : psorted p = true -> psorted (pset k v p) = true.
Proof.
  induction p as [|[k' v'] r IH]; intros Hs; [reflexivity|].
  destruct (psorted_cons k' v' r Hs) as [Hs' Hlt]. cbn [pset].
  destruct (bytes_ltb k k') eqn:E1.
  - apply psorted_cons_intro; [exact Hs|]. intros k2 v2 [Heq|Hin]; [inversion Heq; subst; exact E1|].
    eapply bytes_ltb_trans; [exact E1|eapply Hlt, Hin].
  - destruct (bytes_ltb k' k) eqn:E2.
    + apply psorted_cons_intro; [apply IH, Hs'|]. intros k2 v2 Hin. apply In_pset in Hin as [Heq|Hin];
        [inversion Heq; subst; exact E2|eapply Hlt, Hin].
    + pose proof (bytes_ltb_total _ _ E1 E2). subst k'. apply psorted_cons_intro; [exact Hs'|exact Hlt].
Qed.

Lemma shown_pset v p : shown (pset k_categorical v p) = shown p.
Proof.
  induction p as [|[k' v'] r IH]; [reflexivity|]. cbn [pset].
  destruct (bytes_ltb k_categorical k') eqn:E1; [reflexivity|].
  destruct (bytes_ltb k' k_categorical) eqn:E2.
  - unfold shown in *. cbn [filter]. rewrite IH. reflexivity.
  - pose proof (bytes_ltb_total _ _ E1 E2). subst k'. reflexivity.
Qed.

Lemma pvals_pset_cat p : pvals_ok p = true -> pvals_ok (pset k_categorical (JBool true) p) = true.
Proof.
  unfold pvals_ok. intros H. apply andb_true_iff in H as [Hs Hv]. rewrite (psorted_pset _ _ p Hs). cbn [andb].
  apply forallb_forall. intros x Hx. apply In_pset in Hx as [->|Hx]; [reflexivity|].
  rewrite forallb_forall in Hv. exact (Hv x Hx).
Qed.

Lemma pstruct_cat t : pstruct t = true -> pstruct (rty_set_params (pset k_categorical (JBool true) (rty_params t)) t) = true.
Proof.
  intros H.
  destruct t as [p s dt|p s|p s t'|p s n t'|p s t'|p s ks l|p s l]; cbn [pstruct rty_params rty_set_params] in H |- *;
    apply andb_true_iff in H as [Hpv Hm]; rewrite (pvals_pset_cat p Hpv), shown_pset; exact Hm.
Qed.

(* ---------------------------------------------------------------- images of the list parsers *)
Definition imgx (sub : bytes -> res (rty * bytes)) : Prop :=
  forall s t r, sub s = Ok (t, r) -> key_ok s = true -> pstruct t = true /\ key_ok r = true.

Section ImageX.
  Variable sub : bytes -> res (rty * bytes).
  Hypothesis Hsub : imgx sub.

  Lemma parse_list_imgx close : forall fuel s l r,
    parse_list sub fuel close s = Ok (l, r) -> key_ok s = true -> forallb pstruct l = true /\ key_ok r = true /\ l <> [].
  Proof.
    induction fuel as [|fuel IH]; intros s l r H Hk; [discriminate|]. cbn [parse_list] in H.
    destruct (sub s) as [[t r1]|e] eqn:E; [|discriminate]. cbn [bind fst snd] in H.
    destruct (Hsub _ _ _ E Hk) as [Ht Hr1]. destruct r1 as [|c' r']; [discriminate|].
    destruct (c' =? close).
    - inversion H; subst. simpl. rewrite Ht. repeat split; [exact (key_ok_tail _ _ Hr1)|discriminate].
    - destruct (strip_prefix p_comma (c' :: r')) as [rest|] eqn:Es; [|discriminate].
      pose proof (strip_prefix_key_ok _ _ _ Es Hr1) as Hrest.
      destruct (parse_list sub fuel close rest) as [[l' r2]|e] eqn:El; [|discriminate].
      cbn [bind fst snd] in H. inversion H; subst.
      destruct (IH _ _ _ El Hrest) as (Hl' & Hr2 & _). simpl. rewrite Ht, Hl'. repeat split; [exact Hr2|discriminate].
  Qed.

  Lemma parse_items_imgx close fuel s l r :
    parse_items sub fuel close s = Ok (l, r) -> key_ok s = true -> forallb pstruct l = true /\ key_ok r = true.
  Proof.
    unfold parse_items. destruct s as [|c s']; [discriminate|]. intros H Hk. destruct (c =? close).
    - inversion H; subst. split; [reflexivity|exact (key_ok_tail _ _ Hk)].
    - destruct (parse_list_imgx _ _ _ _ _ H Hk) as (H1 & H2 & _). split; assumption.
  Qed.

  Lemma parse_fields_imgx close : forall fuel s l r,
    parse_fields sub fuel close s = Ok (l, r) -> key_ok s = true ->
    forallb pstruct (map snd l) = true /\ forallb key_ok (map fst l) = true /\ key_ok r = true.
  Proof.
    induction fuel as [|fuel IH]; intros s l r H Hk; [discriminate|]. cbn [parse_fields] in H.
    destruct (unquote s) as [[k r0]|e] eqn:Eq; [|discriminate]. cbn [bind fst snd] in H.
    destruct (unquote_key_ok _ _ _ Eq Hk) as [Hkey Hr0].
    destruct (strip_prefix p_colon r0) as [s1|] eqn:Ec; [|discriminate].
    pose proof (strip_prefix_key_ok _ _ _ Ec Hr0) as Hs1.
    destruct (sub s1) as [[t r1]|e] eqn:E; [|discriminate]. cbn [bind fst snd] in H.
    destruct (Hsub _ _ _ E Hs1) as [Ht Hr1]. destruct r1 as [|c' r']; [discriminate|].
    destruct (c' =? close).
    - inversion H; subst. simpl. rewrite Ht, Hkey. repeat split. exact (key_ok_tail _ _ Hr1).
    - destruct (strip_prefix p_comma (c' :: r')) as [rest|] eqn:Es; [|discriminate].
      pose proof (strip_prefix_key_ok _ _ _ Es Hr1) as Hrest.
      destruct (parse_fields sub fuel close rest) as [[l' r2]|e] eqn:El; [|discriminate].
      cbn [bind fst snd] in H. inversion H; subst.
      destruct (IH _ _ _ El Hrest) as (Hl' & Hk' & Hr2). simpl. rewrite Ht, Hkey, Hl', Hk'. repeat split. exact Hr2.
  Qed.

  Lemma parse_fielditems_imgx close fuel s l r :
    parse_fielditems sub fuel close s = Ok (l, r) -> key_ok s = true ->
    forallb pstruct (map snd l) = true /\ forallb key_ok (map fst l) = true /\ key_ok r = true.
  Proof.
    unfold parse_fielditems. destruct s as [|c s']; [discriminate|]. intros H Hk. destruct (c =? close).
    - inversion H; subst. repeat split. exact (key_ok_tail _ _ Hk).
    - exact (parse_fields_imgx _ _ _ _ _ H Hk).
  Qed.

  Lemma params_close_img s q r : params_close s = Ok (q, r) -> key_ok s = true -> params_ok q = true /\ key_ok r = true.
  Proof.
    unfold params_close. intros H Hk. destruct (params_parse s) as [[q' r']|e] eqn:E; [|discriminate]. cbn [bind fst snd] in H.
    destruct (params_parse_img _ _ _ E Hk) as [Hq Hr']. destruct r' as [|c r'']; [discriminate|].
    destruct (c =? 93); [|discriminate]. inversion H; subst. split; [exact Hq|exact (key_ok_tail _ _ Hr')].
  Qed.

  Lemma comma_params_close_img s q r :
    comma_params_close s = Ok (q, r) -> key_ok s = true -> params_ok q = true /\ key_ok r = true.
  Proof.
    unfold comma_params_close. intros H Hk. destruct (strip_prefix p_comma s) as [s1|] eqn:Es; [|discriminate].
    exact (params_close_img _ _ _ H (strip_prefix_key_ok _ _ _ Es Hk)).
  Qed.

  Lemma parse_listp_imgx : forall fuel s l q r,
    parse_listp sub fuel s = Ok ((l, q), r) -> key_ok s = true ->
    forallb pstruct l = true /\ key_ok r = true /\ l <> [] /\ (q = [] \/ params_ok q = true).
  Proof.
    induction fuel as [|fuel IH]; intros s l q r H Hk; [discriminate|]. cbn [parse_listp] in H.
    destruct (sub s) as [[t r1]|e] eqn:E; [|discriminate]. cbn [bind fst snd] in H.
    destruct (Hsub _ _ _ E Hk) as [Ht Hr1]. destruct r1 as [|c' r']; [discriminate|].
    destruct (c' =? 93).
    - inversion H; subst. simpl. rewrite Ht. repeat split; [exact (key_ok_tail _ _ Hr1)|discriminate|left; reflexivity].
    - destruct (strip_prefix p_comma (c' :: r')) as [rest|] eqn:Es; [|discriminate].
      pose proof (strip_prefix_key_ok _ _ _ Es Hr1) as Hrest.
      destruct (starts_params rest).
      + destruct (params_close rest) as [[q' r2]|e] eqn:Ep; [|discriminate]. cbn [bind fst snd] in H. inversion H; subst.
        destruct (params_close_img _ _ _ Ep Hrest) as [Hq Hr2]. simpl. rewrite Ht.
        repeat split; [exact Hr2|discriminate|right; exact Hq].
      + destruct (parse_listp sub fuel rest) as [[[l' q'] r2]|e] eqn:El; [|discriminate].
        cbn [bind fst snd] in H. inversion H; subst.
        destruct (IH _ _ _ _ El Hrest) as (Hl' & Hr2 & _ & Hq). simpl. rewrite Ht, Hl'.
        repeat split; [exact Hr2|discriminate|exact Hq].
  Qed.
End ImageX.

Lemma parse_keys_img : forall fuel s ks r, parse_keys fuel s = Ok (ks, r) -> key_ok s = true ->
  forallb key_ok ks = true /\ key_ok r = true.
Proof.
  induction fuel as [|fuel IH]; intros s ks r H Hk; [discriminate|]. cbn [parse_keys] in H.
  destruct (unquote s) as [[k r0]|e] eqn:Eq; [|discriminate]. cbn [bind fst snd] in H.
  destruct (unquote_key_ok _ _ _ Eq Hk) as [Hkey Hr0]. destruct r0 as [|c r']; [discriminate|].
  destruct (c =? 93).
  - inversion H; subst. simpl. rewrite Hkey. split; [reflexivity|exact (key_ok_tail _ _ Hr0)].
  - destruct (strip_prefix p_comma (c :: r')) as [rest|] eqn:Es; [|discriminate].
    pose proof (strip_prefix_key_ok _ _ _ Es Hr0) as Hrest.
    destruct (parse_keys fuel rest) as [[ks' r2]|e] eqn:El; [|discriminate]. cbn [bind fst snd] in H. inversion H; subst.
    destruct (IH _ _ _ El Hrest) as [Hk' Hr2]. simpl. rewrite Hkey, Hk'. split; [reflexivity|exact Hr2].
Qed.

Lemma parse_keyitems_img fuel s ks r : parse_keyitems fuel s = Ok (ks, r) -> key_ok s = true ->
  forallb key_ok ks = true /\ key_ok r = true.
Proof.
  unfold parse_keyitems. destruct s as [|c s']; [discriminate|]. intros H Hk. destruct (c =? 93).
  - inversion H; subst. split; [reflexivity|exact (key_ok_tail _ _ Hk)].
  - exact (parse_keys_img _ _ _ _ H Hk).
Qed.

(* ---------------------------------------------------------------- the image of the extended parser *)
Lemma params_ok_pvals q : params_ok q = true -> pvals_ok q = true.
Proof.
  unfold params_ok, pvals_ok. intros H. apply andb_true_iff in H as [H Hv]. apply andb_true_iff in H as [H Hc].
  apply andb_true_iff in H as [_ Hs]. rewrite Hs. cbn [andb]. apply forallb_forall. intros x Hx.
  rewrite forallb_forall in Hv, Hc. rewrite (Hv x Hx). cbn [andb]. specialize (Hc x Hx).
  unfold not_cat in Hc. unfold catval. apply negb_true_iff in Hc. rewrite Hc. reflexivity.
Qed.

Lemma pvals_named w : key_ok w = true -> pvals_ok [(k_record, JStr w)] = true.
Proof. intros H. unfold pvals_ok, pval_ok, catval. cbn [psorted forallb fst snd json_ok]. rewrite H. reflexivity. Qed.

Ltac ps_node Hpv := cbn [pstruct rty_params]; rewrite Hpv; cbn [andb]; apply orb_true_iff; right.
Ltac ps_node0 := cbn [pstruct rty_params]; change (pvals_ok []) with true; cbn [andb]; apply orb_true_iff; right.

Theorem parse_tyx_img : forall fuel, imgx (parse_tyx fuel).
Proof.
  induction fuel as [|fuel IH]; intros s t r H Hk; [discriminate|].
  destruct s as [|c s']; [discriminate|]. cbn [parse_tyx] in H. pose proof (key_ok_tail _ _ Hk) as Hk'.
  destruct (c =? 63).
  { unfold opt_branch in H. destruct (parse_tyx fuel s') as [[t1 r1]|e] eqn:E; [|discriminate]. cbn [bind fst snd] in H.
    destruct (is_listlike t1); [discriminate|]. inversion H; subst. destruct (IH _ _ _ E Hk') as [Ht Hr].
    split; [|exact Hr]. ps_node0. exact Ht. }
  destruct (c =? 123).
  { unfold brace_branch in H. destruct (parse_fielditems (parse_tyx fuel) fuel 125 s') as [[l r1]|e] eqn:E; [|discriminate].
    cbn [bind fst snd] in H. inversion H; subst.
    destruct (parse_fielditems_imgx _ IH _ _ _ _ _ E Hk') as (H1 & H2 & H3). split; [|exact H3].
    ps_node0. rewrite H1, H2. reflexivity. }
  destruct (c =? 40).
  { unfold paren_branch in H. destruct (parse_items (parse_tyx fuel) fuel 41 s') as [[l r1]|e] eqn:E; [|discriminate].
    cbn [bind fst snd] in H. inversion H; subst.
    destruct (parse_items_imgx _ IH _ _ _ _ _ E Hk') as (H1 & H2). split; [|exact H2]. ps_node0. rewrite H1. reflexivity. }
  destruct (c =? 91).
  { unfold lbracket_branch in H. destruct (strip_prefix p_var_star s') as [r1|] eqn:Ev.
    - pose proof (strip_prefix_key_ok _ _ _ Ev Hk') as Hr1.
      destruct (parse_tyx fuel r1) as [[t1 r2]|e] eqn:E; [|discriminate]. cbn [bind fst snd] in H.
      destruct (IH _ _ _ E Hr1) as [Ht Hr2].
      destruct (comma_params_close r2) as [[q r3]|e] eqn:Ep; [|discriminate]. cbn [bind fst snd] in H. inversion H; subst.
      destruct (comma_params_close_img _ _ _ Ep Hr2) as [Hq Hr3]. split; [|exact Hr3].
      ps_node (params_ok_pvals _ Hq). exact Ht.
    - destruct (span is_digit s') as [ds rest] eqn:Es.
      destruct (span_key_ok _ _ _ _ Es Hk') as [_ Hrest]. destruct (span_spec _ _ _ _ Es) as [_ Hds].
      destruct ds as [|d ds']; [discriminate|].
      destruct (strip_prefix p_star rest) as [r1|] eqn:Ep1; [|discriminate].
      pose proof (strip_prefix_key_ok _ _ _ Ep1 Hrest) as Hr1.
      destruct (parse_tyx fuel r1) as [[t1 r2]|e] eqn:E; [|discriminate]. cbn [bind fst snd] in H.
      destruct (IH _ _ _ E Hr1) as [Ht Hr2].
      destruct (comma_params_close r2) as [[q r3]|e] eqn:Ep; [|discriminate]. cbn [bind fst snd] in H. inversion H; subst.
      destruct (comma_params_close_img _ _ _ Ep Hr2) as [Hq Hr3]. split; [|exact Hr3].
      ps_node (params_ok_pvals _ Hq). rewrite Ht.
      replace (0 <=? Z_of_digits (d :: ds')) with true by (symmetry; apply Z.leb_le, Z_of_digits_nonneg, Hds). reflexivity. }
  destruct (is_digit c) eqn:Ed.
  { unfold num_branch in H. destruct (span is_digit (c :: s')) as [ds rest] eqn:Es.
    destruct (span_key_ok _ _ _ _ Es Hk) as [_ Hrest]. destruct (span_spec _ _ _ _ Es) as [_ Hds].
    destruct (strip_prefix p_star rest) as [rest'|] eqn:Ep; [|discriminate].
    pose proof (strip_prefix_key_ok _ _ _ Ep Hrest) as Hrest'.
    destruct (parse_tyx fuel rest') as [[t1 r1]|e] eqn:E; [|discriminate]. cbn [bind fst snd] in H. inversion H; subst.
    destruct (IH _ _ _ E Hrest') as [Ht Hr]. split; [|exact Hr]. ps_node0. rewrite Ht.
    replace (0 <=? Z_of_digits ds) with true by (symmetry; apply Z.leb_le, Z_of_digits_nonneg, Hds). reflexivity. }
  destruct (is_alpha_ c) eqn:Ea; [|discriminate].
  destruct (span is_alnum_ (c :: s')) as [w rest] eqn:Es.
  destruct (span_key_ok _ _ _ _ Es Hk) as [Hw Hrest].
  assert (Hplain : forall rest0, key_ok rest0 = true -> plain_word (parse_tyx fuel) w rest0 = Ok (t, r) ->
                     pstruct t = true /\ key_ok r = true).
  { intros rest0 Hrest0 Hp. unfold plain_word in Hp.
    destruct (bytes_eqb w w_var).
    { destruct (strip_prefix p_star rest0) as [rest'|] eqn:Ep; [|discriminate].
      pose proof (strip_prefix_key_ok _ _ _ Ep Hrest0) as Hrest'.
      destruct (parse_tyx fuel rest') as [[t1 r1]|e] eqn:E; [|discriminate]. cbn [bind fst snd] in Hp. inversion Hp; subst.
      destruct (IH _ _ _ E Hrest') as [Ht Hr]. split; [|exact Hr]. ps_node0. exact Ht. }
    destruct (bytes_eqb w p_string); [inversion Hp; subst; split; [reflexivity|exact Hrest0]|].
    destruct (bytes_eqb w p_bytes); [inversion Hp; subst; split; [reflexivity|exact Hrest0]|].
    destruct (bytes_eqb w p_char); [inversion Hp; subst; split; [reflexivity|exact Hrest0]|].
    destruct (bytes_eqb w p_byte); [inversion Hp; subst; split; [reflexivity|exact Hrest0]|].
    destruct (bytes_eqb w n_unknown); [inversion Hp; subst; split; [reflexivity|exact Hrest0]|].
    destruct (prim_of_name w) as [dt|] eqn:Epn; [|discriminate]. inversion Hp; subst.
    split; [|exact Hrest0]. ps_node0. rewrite (prim_of_name_prim _ _ Epn). reflexivity. }
  unfold word_branchx in H. destruct rest as [|c1 rest1]; [exact (Hplain [] eq_refl H)|].
  destruct (c1 =? 91); [|exact (Hplain _ Hrest H)].
  pose proof (key_ok_tail _ _ Hrest) as Hrest1.
  unfold bracket_branchx in H.
  destruct (bytes_eqb w w_option) eqn:Eo.
  { destruct (parse_tyx fuel rest1) as [[t1 r1]|e] eqn:E; [|discriminate]. cbn [bind fst snd] in H.
    destruct (IH _ _ _ E Hrest1) as [Ht Hr]. destruct r1 as [|c2 rest2]; [discriminate|]. destruct (c2 =? 93).
    - destruct (is_listlike t1); [|discriminate]. inversion H; subst. split; [|exact (key_ok_tail _ _ Hr)]. ps_node0. exact Ht.
    - destruct (comma_params_close (c2 :: rest2)) as [[q r3]|e] eqn:Ep; [|discriminate]. cbn [bind fst snd] in H. inversion H; subst.
      destruct (comma_params_close_img _ _ _ Ep Hr) as [Hq Hr3]. split; [|exact Hr3].
      ps_node (params_ok_pvals _ Hq). exact Ht. }
  destruct (bytes_eqb w w_union) eqn:Eu.
  { destruct (parse_itemsp (parse_tyx fuel) fuel rest1) as [[[l q] r1]|e] eqn:E; [|discriminate].
    cbn [bind fst snd] in H. inversion H; subst.
    unfold parse_itemsp in E. destruct rest1 as [|c2 r2]; [discriminate|]. destruct (c2 =? 93).
    - inversion E; subst. split; [reflexivity|exact (key_ok_tail _ _ Hrest1)].
    - destruct (parse_listp_imgx _ IH _ _ _ _ _ E Hrest1) as (Hl & Hr & Hne & Hq). split; [|exact Hr].
      assert (Hpv : pvals_ok q = true) by (destruct Hq as [->|Hq]; [reflexivity|exact (params_ok_pvals _ Hq)]).
      ps_node Hpv. rewrite Hl. destruct l; [congruence|]. destruct (shown q); reflexivity. }
  destruct (bytes_eqb w w_categorical).
  { destruct (strip_prefix p_type_eq rest1) as [r1|] eqn:Et; [|discriminate].
    pose proof (strip_prefix_key_ok _ _ _ Et Hrest1) as Hr1.
    destruct (parse_tyx fuel r1) as [[t1 r2]|e] eqn:E; [|discriminate]. cbn [bind fst snd] in H.
    destruct (IH _ _ _ E Hr1) as [Ht Hr2]. destruct r2 as [|c2 r3]; [discriminate|]. destruct (c2 =? 93); [|discriminate].
    inversion H; subst. split; [exact (pstruct_cat _ Ht)|exact (key_ok_tail _ _ Hr2)]. }
  destruct (bytes_eqb w w_struct).
  { destruct rest1 as [|c2 r1]; [discriminate|]. destruct (c2 =? 91); [|discriminate].
    pose proof (key_ok_tail _ _ Hrest1) as Hr1.
    destruct (parse_keyitems fuel r1) as [[ks r2]|e] eqn:Eks; [|discriminate]. cbn [bind fst snd] in H.
    destruct (parse_keyitems_img _ _ _ _ Eks Hr1) as [Hks Hr2].
    destruct (strip_prefix p_comma_lbr r2) as [r3|] eqn:Ec; [|discriminate].
    pose proof (strip_prefix_key_ok _ _ _ Ec Hr2) as Hr3.
    destruct (parse_items (parse_tyx fuel) fuel 93 r3) as [[l r4]|e] eqn:El; [|discriminate]. cbn [bind fst snd] in H.
    destruct (parse_items_imgx _ IH _ _ _ _ _ El Hr3) as [Hl Hr4].
    destruct (comma_params_close r4) as [[q r5]|e] eqn:Ep; [|discriminate]. cbn [bind fst snd] in H. inversion H; subst.
    destruct (comma_params_close_img _ _ _ Ep Hr4) as [Hq Hr5]. split; [|exact Hr5].
    ps_node (params_ok_pvals _ Hq). rewrite Hl, Hks. reflexivity. }
  destruct (bytes_eqb w w_tuple).
  { destruct rest1 as [|c2 r1]; [discriminate|]. destruct (c2 =? 91); [|discriminate].
    pose proof (key_ok_tail _ _ Hrest1) as Hr1.
    destruct (parse_items (parse_tyx fuel) fuel 93 r1) as [[l r4]|e] eqn:El; [|discriminate]. cbn [bind fst snd] in H.
    destruct (parse_items_imgx _ IH _ _ _ _ _ El Hr1) as [Hl Hr4].
    destruct (comma_params_close r4) as [[q r5]|e] eqn:Ep; [|discriminate]. cbn [bind fst snd] in H. inversion H; subst.
    destruct (comma_params_close_img _ _ _ Ep Hr4) as [Hq Hr5]. split; [|exact Hr5].
    ps_node (params_ok_pvals _ Hq). rewrite Hl. reflexivity. }
  destruct (bytes_eqb w n_unknown).
  { destruct (params_close rest1) as [[q r5]|e] eqn:Ep; [|discriminate]. cbn [bind fst snd] in H. inversion H; subst.
    destruct (params_close_img _ _ _ Ep Hrest1) as [Hq Hr5]. split; [|exact Hr5].
    ps_node (params_ok_pvals _ Hq). reflexivity. }
  destruct (prim_of_name w) as [dt|] eqn:Epn.
  { destruct (params_close rest1) as [[q r5]|e] eqn:Ep; [|discriminate]. cbn [bind fst snd] in H. inversion H; subst.
    destruct (params_close_img _ _ _ Ep Hrest1) as [Hq Hr5]. split; [|exact Hr5].
    ps_node (params_ok_pvals _ Hq). rewrite (prim_of_name_prim _ _ Epn). reflexivity. }
  unfold bracket_branch in H. rewrite Eo, Eu in H.
  destruct (existsb (bytes_eqb w) reserved_words); [discriminate|].
  pose proof (pvals_named w Hw) as Hpv.
  destruct rest1 as [|c2 rest2]; [discriminate|].
  destruct (c2 =? 34).
  { destruct (parse_fields (parse_tyx fuel) fuel 93 (c2 :: rest2)) as [[l r1]|e] eqn:E; [|discriminate].
    cbn [bind fst snd] in H. inversion H; subst.
    destruct (parse_fields_imgx _ IH _ _ _ _ _ E Hrest1) as (H1 & H2 & H3). split; [|exact H3].
    ps_node Hpv. rewrite H1, H2. reflexivity. }
  destruct (c2 =? 93).
  { inversion H; subst. split; [|exact (key_ok_tail _ _ Hrest1)]. ps_node Hpv. reflexivity. }
  destruct (parse_list (parse_tyx fuel) fuel 93 (c2 :: rest2)) as [[l r1]|e] eqn:E; [|discriminate].
  cbn [bind fst snd] in H. inversion H; subst.
  destruct (parse_list_imgx _ IH _ _ _ _ _ E Hrest1) as (H1 & H2 & H3). split; [|exact H2].
  ps_node Hpv. rewrite H1. reflexivity.
Qed.

(* everything the extended parser returns on a byte string has the structure of the fragment ... *)
Theorem type_parse_x_img s t : key_ok s = true -> type_parse_x s = Ok t -> pstruct t = true.
Proof.
  unfold type_parse_x. intros Hk H.
  destruct (parse_tyx (2 * S (length s)) s) as [[t' r]|e] eqn:E; [|discriminate]. cbn [bind fst snd] in H.
  destruct r; [|discriminate]. inversion H; subst. exact (proj1 (parse_tyx_img _ _ _ _ E Hk)).
Qed.

(* ... so whenever its records are spelled consistently it lies in the fragment and parses back from its own text *)
Theorem type_parse_x_exact s t : key_ok s = true -> type_parse_x s = Ok t -> names_ok t = true ->
  printable_x t = true /\ type_parse_x (type_tostring t) = Ok t.
Proof.
  intros Hk H Hn. pose proof (pstruct_names_printable_x t (type_parse_x_img s t Hk H) Hn) as Hp.
  split; [exact Hp|exact (type_print_parse_roundtrip_x t Hp)].
Qed.

(* ---------------------------------------------------------------- the split is exact *)
Lemma forallb_imp2 {A} (f g h : A -> bool) l :
  Forall (fun x => f x = true -> g x = true /\ h x = true) l -> forallb f l = true ->
  forallb g l = true /\ forallb h l = true.
Proof.
  induction 1 as [|x l Hx Hl IH]; [split; reflexivity|]. simpl. intros H.
  apply andb_true_iff in H as [A1 A2]. destruct (Hx A1) as [B1 B2]. destruct (IH A2) as [C1 C2].
  rewrite B1, B2, C1, C2. split; reflexivity.
Qed.

Theorem printable_x_split t : printable_x t = true -> pstruct t = true /\ names_ok t = true.
Proof.
  induction t as [p s dt|p s|p s t' IH|p s n t' IH|p s t' IH|p s ks l IH|p s l IH] using rty_ind';
    intros H; cbn [pstruct printable_x rty_params names_ok] in *; apply andb_true_iff in H as [Hpv Hm];
    rewrite Hpv; cbn [andb]; apply orb_true_iff in Hm as [Hm|Hm];
    try (rewrite Hm; split; [reflexivity|]; try reflexivity;
         destruct (hardcoded_cases _ Hm) as [E|[E|[E|E]]]; inversion E; reflexivity);
    (destruct s; [|discriminate Hm]).
  - split; [rewrite Hm; apply orb_true_r|reflexivity].
  - destruct (IH Hm) as [H1 H2]. split; [rewrite H1; apply orb_true_r|exact H2].
  - apply andb_true_iff in Hm as [Hn Hm]. destruct (IH Hm) as [H1 H2]. split; [rewrite Hn, H1; apply orb_true_r|exact H2].
  - destruct (IH Hm) as [H1 H2]. split; [rewrite H1; apply orb_true_r|exact H2].
  - apply andb_true_iff in Hm as [Hm Hname]. apply andb_true_iff in Hm as [Hl Hks].
    destruct (forallb_imp2 _ _ _ l IH Hl) as [H1 H2]. rewrite H1, H2, Hname.
    destruct ks as [ks|]; [apply andb_true_iff in Hks as [Hlen Hk]; rewrite Hlen, Hk|]; (split; [apply orb_true_r|reflexivity]).
  - apply andb_true_iff in Hm as [Hl Hne]. destruct (forallb_imp2 _ _ _ l IH Hl) as [H1 H2].
    split; [rewrite H1, Hne; apply orb_true_r|exact H2].
Qed.

Theorem printable_x_iff t : printable_x t = true <-> pstruct t = true /\ names_ok t = true.
Proof. split; [apply printable_x_split|intros [H1 H2]; apply pstruct_names_printable_x; assumption]. Qed.

(* the fragment is exactly the set of consistently spelled types that come back from their own text *)
Theorem printable_x_exact t : key_ok (type_tostring t) = true ->
  (printable_x t = true <-> type_parse_x (type_tostring t) = Ok t /\ names_ok t = true).
Proof.
  intros Hk. split.
  - intros H. split; [exact (type_print_parse_roundtrip_x t H)|exact (proj2 (printable_x_split t H))].
  - intros [H Hn]. exact (proj1 (type_parse_x_exact _ t Hk H Hn)).
Qed.

(* names_ok cannot be dropped: a type with pstruct, outside printable_x, that no text brings back as itself *)
Example names_ok_needed_refuted :
  let t := RRec [(k_record, JStr w_union)] [] None [RNum [] [] (FD DInt64)] in
  pstruct t = true /\ names_ok t = false /\ printable_x t = false /\
  rmap (fun u => rty_params u) (type_parse_x (type_tostring t)) = Ok [].
Proof. cbv zeta. repeat split; vm_compute; reflexivity. Qed.
