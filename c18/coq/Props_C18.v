(** C18 property theorems (statements only; proofs are in Proofs_C18.v). *)
From Coq Require Import ZArith List Bool.
From AwkV Require Import Base.
From AwkVirt Require Import Virtual Partition Proofs_C18.
Import ListNotations.
Open Scope Z_scope.

(** (a) after any history of array()/peek/length/form calls and cache events (evict one, evict all, break; also
    in the middle of array()), under any cache mode, every entry present in the cache is an output of its
    generator that passed generate_and_check *)
Theorem cache_coherent :
  forall (A D : Type) (shape_ok : D -> A -> bool) (gen : nat -> nat -> outcome A) (info : nat -> vinfo D)
         (m : cmode) (h : list step),
    coherent A D shape_ok gen info (run A D shape_ok gen info h (init A m)).
Proof. exact cache_coherent_lemma. Qed.
Print Assumptions cache_coherent.

Theorem cache_coherent_from :
  forall (A D : Type) (shape_ok : D -> A -> bool) (gen : nat -> nat -> outcome A) (info : nat -> vinfo D)
         (h : list step) (s : state A),
    coherent A D shape_ok gen info s -> coherent A D shape_ok gen info (run A D shape_ok gen info h s).
Proof. exact run_coherent. Qed.
Print Assumptions cache_coherent_from.

(** (b) with a deterministic generator, every successful operation on the virtual array returns the
    operation on the generator's payload, whatever happened before *)
Theorem virtual_transparent :
  forall (A D : Type) (shape_ok : D -> A -> bool) (gen : nat -> nat -> outcome A) (info : nat -> vinfo D)
         (B : Type) (f : A -> B) (m : cmode) (h : list step) (k : nat) (mid : list event) (a0 : A) (b : B),
    deterministic A D shape_ok gen info k a0 ->
    fst (apply A D shape_ok gen info f k mid (run A D shape_ok gen info h (init A m))) = Ok b ->
    b = f a0.
Proof. exact virtual_transparent_lemma. Qed.
Print Assumptions virtual_transparent.

Theorem peek_transparent :
  forall (A D : Type) (shape_ok : D -> A -> bool) (gen : nat -> nat -> outcome A) (info : nat -> vinfo D)
         (m : cmode) (h : list step) (k : nat) (a0 a : A),
    deterministic A D shape_ok gen info k a0 ->
    peek_array A D info k (run A D shape_ok gen info h (init A m)) = Some a -> a = a0.
Proof. exact peek_transparent_lemma. Qed.
Print Assumptions peek_transparent.

(** (c) the invocation counter of generator k' moves only when the step makes an array() call for k'
    (length()/form() make none when the length/form is declared or inferred) and that call misses the cache;
    then it moves by exactly one *)
Theorem generator_called_lazily :
  forall (A D : Type) (shape_ok : D -> A -> bool) (gen : nat -> nat -> outcome A) (info : nat -> vinfo D)
         (st : step) (s : state A) (k' : nat),
    st_count A (exec A D shape_ok gen info st s) k' =
    match materialises A D info st s with
    | Some k => if Nat.eqb k' k && miss A D info s k then S (st_count A s k') else st_count A s k'
    | None => st_count A s k'
    end.
Proof. exact generator_called_lazily_lemma. Qed.
Print Assumptions generator_called_lazily.

Theorem declared_queries_are_free :
  forall (A D : Type) (shape_ok : D -> A -> bool) (gen : nat -> nat -> outcome A) (info : nat -> vinfo D)
         (k : nat) (mid : list event) (s : state A),
    (vi_has_length D (info k) = true ->
       length_q A D shape_ok gen info k mid s = (Ok (FromDecl (vi_decl D (info k))), s)) /\
    (vi_has_form D (info k) = true ->
       form_q A D shape_ok gen info k mid s = (Ok (FromDecl (vi_decl D (info k))), s)) /\
    (forall k', st_count A (exec A D shape_ok gen info (SPeek k) s) k' = st_count A s k') /\
    (forall e k', st_count A (exec A D shape_ok gen info (SEvent e) s) k' = st_count A s k').
Proof. exact declared_queries_are_free_lemma. Qed.
Print Assumptions declared_queries_are_free.

(** (d) a payload that fails the length/form test: array() is an error and the cache is unchanged *)
Theorem mismatch_errors :
  forall (A D : Type) (shape_ok : D -> A -> bool) (gen : nat -> nat -> outcome A) (info : nat -> vinfo D)
         (s : state A) (k : nat) (mid : list event) (a : A),
    miss A D info s k = true ->
    gen k (st_count A s k) = GOk a -> shape_ok (vi_decl D (info k)) a = false ->
    fst (fst (array A D shape_ok gen info k mid s)) = Err EValue /\
    st_cache A (snd (array A D shape_ok gen info k mid s)) = st_cache A s /\
    st_mode A (snd (array A D shape_ok gen info k mid s)) = st_mode A s.
Proof. exact mismatch_errors_lemma. Qed.
Print Assumptions mismatch_errors.

(** (e) after a failing generation (exception or mismatch) the cache is as before, nothing is visible for
    that key, and the next conforming generation is what array() returns (and stores) *)
Theorem no_partial_after_failure :
  forall (A D : Type) (shape_ok : D -> A -> bool) (gen : nat -> nat -> outcome A) (info : nat -> vinfo D)
         (s : state A) (k : nat) (mid : list event),
    miss A D info s k = true -> fails_now A D shape_ok gen info s k ->
    let s' := snd (array A D shape_ok gen info k mid s) in
    fst (fst (array A D shape_ok gen info k mid s)) = Err EValue /\
    st_cache A s' = st_cache A s /\
    miss A D info s' k = true /\
    peek_array A D info k s' = None /\
    (forall mid' a, gen k (st_count A s' k) = GOk a -> shape_ok (vi_decl D (info k)) a = true ->
       fst (fst (array A D shape_ok gen info k mid' s')) = Ok a /\
       (vi_has_cache D (info k) = true -> st_mode A (apply_events A mid' s') = Live ->
          cache_get A (snd (array A D shape_ok gen info k mid' s')) k = Some a)).
Proof. exact no_partial_after_failure_lemma. Qed.
Print Assumptions no_partial_after_failure.

(** (f1) partitionid_index_at returns (p, j) exactly when j is the offset of position i inside partition p
    (an empty partition holds no position, so it is never returned) *)
Theorem partition_index_spec :
  forall (A : Type) (pa : parr A) (i p j : Z),
    wf_parr A pa -> 0 <= i < zlen (concat (pa_parts pa)) ->
    (partitionid_index_at (pa_stops pa) i = (p, j) <-> located A (pa_parts pa) p j i).
Proof. exact partition_index_spec_lemma. Qed.
Print Assumptions partition_index_spec.

Theorem getitem_at_concat :
  forall (A : Type) (pa : parr A) (i : Z), wf_parr A pa ->
    let n := zlen (concat (pa_parts pa)) in
    getitem_at A pa i =
    if (- n <=? i) && (i <? n) then get (concat (pa_parts pa)) (if i <? 0 then i + n else i)
    else Err EValue.
Proof. exact getitem_at_concat_lemma. Qed.
Print Assumptions getitem_at_concat.

(** (f2) a (step 1) range of a partitioned array is that slice of the concatenation *)
Theorem partition_range_is_slice_of_concat :
  forall (A : Type) (pa : parr A) (a b : Z),
    wf_parr A pa -> 0 <= a <= b -> b <= zlen (concat (pa_parts pa)) ->
    rmap (fun p => concat (pa_parts p)) (getitem_range_nowrap A pa a b 1) = slice (concat (pa_parts pa)) a b.
Proof. exact partition_range_is_slice_of_concat_lemma. Qed.
Print Assumptions partition_range_is_slice_of_concat.

(* with Python's start/stop conventions (None, negative, out of range), and the result is again well formed *)
Theorem partition_range_python :
  forall (A : Type) (pa : parr A) (start stop : option Z),
    wf_parr A pa ->
    let n := zlen (concat (pa_parts pa)) in
    let a := fst (regularize start stop true n) in
    let b := snd (regularize start stop true n) in
    exists pa', getitem_range A pa start stop (Some 1) = Ok pa' /\ wf_parr A pa' /\
                concat (pa_parts pa') = take (b - a) (drop a (concat (pa_parts pa))).
Proof. exact partition_range_lemma. Qed.
Print Assumptions partition_range_python.

(** (f3) REFUTED for the code as pinned (model variant fixed = false): a well-formed array and a legal target for
    which the loop reads partitions_[numpartitions], whatever the fuel *)
Theorem repartition_refuted :
  exists (pa : parr Z) (stops' : list Z),
    wf_parr Z pa /\ monotone stops' /\ last stops' 0 = zlen (concat (pa_parts pa)) /\
    repartition Z false (repartition_fuel Z pa) pa stops' = Err EOob /\
    (forall extra, repartition Z false (repartition_fuel Z pa + extra) pa stops' = Err EOob).
Proof. exact repartition_refuted_lemma. Qed.
Print Assumptions repartition_refuted.

(** (f3') with the guard of the fix: commit (fixed = true, the current tree): no out-of-bounds access, the stated fuel
    suffices *)
Theorem repartition_in_bounds :
  forall (A : Type) (pa : parr A) (stops' : list Z),
    wf_parr A pa -> monotone stops' -> last stops' 0 = zlen (concat (pa_parts pa)) ->
    exists pa', repartition A true (repartition_fuel A pa) pa stops' = Ok pa'.
Proof. exact repartition_in_bounds_lemma. Qed.
Print Assumptions repartition_in_bounds.

(** (f4) with the guard: the result has the requested stops, is well formed, and concatenates to the same
    list *)
Theorem repartition_preserves_concat :
  forall (A : Type) (pa : parr A) (stops' : list Z),
    wf_parr A pa -> monotone stops' -> last stops' 0 = zlen (concat (pa_parts pa)) ->
    exists pa', repartition A true (repartition_fuel A pa) pa stops' = Ok pa' /\
                wf_parr A pa' /\ pa_stops pa' = stops' /\
                concat (pa_parts pa') = concat (pa_parts pa).
Proof. exact repartition_fixed_lemma. Qed.
Print Assumptions repartition_preserves_concat.

(* the pinned code is correct whenever no target partition is empty *)
Theorem repartition_pinned_strict :
  forall (A : Type) (pa : parr A) (stops' : list Z),
    wf_parr A pa -> strictly_monotone stops' -> last stops' 0 = zlen (concat (pa_parts pa)) ->
    exists pa', repartition A false (repartition_fuel A pa) pa stops' = Ok pa' /\
                wf_parr A pa' /\ pa_stops pa' = stops' /\
                concat (pa_parts pa') = concat (pa_parts pa).
Proof. exact repartition_pinned_strict_lemma. Qed.
Print Assumptions repartition_pinned_strict.
