import sys, types
class Any(type):
    def __getattr__(cls, n): 
        if n.startswith('__'): raise AttributeError(n)
        return Fake
class Fake(metaclass=Any):
    def __init__(self,*a,**k): pass
    def __call__(self,*a,**k): return Fake()
    def __getattr__(self,n):
        if n.startswith('__'): raise AttributeError(n)
        return Fake()
class Mod(types.ModuleType):
    def __getattr__(self, n):
        if n=='__version__': return '1.4.0'
        if n.startswith('__'): raise AttributeError(n)
        if n=='startup': return lambda: None
        t = type(n,(Fake,),{})
        setattr(self,n,t); return t
sys.modules['awkward._ext']=Mod('awkward._ext')
pr = types.ModuleType('pkg_resources')
pr.resource_filename = lambda pkg, name: '/tmp/scr/'+name
sys.modules['pkg_resources']=pr
sys.path.insert(0,'/repo/src')
import awkward as ak
print(ak.__file__, ak.__version__)
