(** C02 property theorems: the value of a layout does not depend on which of the interchangeable
    encodings represents it (proofs in Proofs_C09.v; per-operation layout-independence corollaries
    of the refinement theorems are added in Proofs_C02.v when present). *)
From AwkV Require Import Layout Carry Proofs_C09.

Theorem byte_mask_encoding_irrelevant : forall m vw c vs,
  to_list c = Ok vs ->
  to_list (ByteMasked m vw c) =
  to_list (IndexedOption I64
             (map (fun im : Z * Z => let (i, b) := im in if Bool.eqb (negb (b =? 0)) vw then i else -1)
                  (zip (iota (zlen m)) m)) c).
Proof. exact bytemasked_as_indexedoption. Qed.
Print Assumptions byte_mask_encoding_irrelevant.

Theorem negative_index_encoding_irrelevant : forall w ix c vs,
  to_list c = Ok vs ->
  to_list (IndexedOption w ix c) = to_list (IndexedOption I64 (map (fun i => if i <? 0 then -1 else i) ix) c).
Proof. exact indexedoption_normalised. Qed.
Print Assumptions negative_index_encoding_irrelevant.

Theorem unmasked_encoding_irrelevant : forall c vs,
  to_list c = Ok vs -> zlen vs = clen c ->
  to_list (Unmasked c) = to_list (IndexedOption I64 (iota (clen c)) c).
Proof. exact unmasked_as_indexedoption. Qed.
Print Assumptions unmasked_encoding_irrelevant.
