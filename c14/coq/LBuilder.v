(** C14 (Form-driven half) — what a Form-driven LayoutBuilder session must return.
    MODEL ONLY: no proofs in this file.

    Subject: awkward::LayoutBuilder of /repo (include/awkward/layoutbuilder/*.h, src/libawkward/layoutbuilder/*.cpp,
    1.4.0).  The C++ compiles the Form into an AwkwardForth program (one word per Form node) and feeds every user
    command to a ForthMachine32 as a command code on the stack (+ the datum in a one-item input buffer); the Forth
    program is a typed, deterministic traversal of the Form:

      NumpyForm        one command whose code is the code of the dtype, else `halt` (error)
                       -- only boolean / int64 / float64 (/ complex) have a user command, so only bool, int64 and
                          float64 leaves can ever receive data
      ListOffsetForm   begin_list, then items until end_list
                       (with __array__ = string / bytestring over uint8: one `string` / `bytestring` command)
      RegularForm      `size` items, NO brackets
      RecordForm       one item per field, in field order, NO brackets
      IndexedForm      the item (the index counts up)
      IndexedOptionForm  null or the item
      UnionForm        tag t, then an item of alternative t
      Byte/BitMasked/UnmaskedForm   specified here as: null or the item (Unmasked: the item)

    [lb_item f cmds] consumes one element of form [f] from the front of the command list.  [lb_run f cmds] is what a
    snapshot taken after the commands [cmds] (snapshots removed) must show:
      LOk vs        the commands are exactly the completed elements vs
      LPartial vs   the commands end inside an element; vs are the completed elements before it
      LErr e        some command does not fit the Form at its position (e = EValue); no later snapshot may return a
                    value without an error having been raised.  (e = EFuel: out of fuel; the fuel is the number of commands and every element
                    consumes at least one, not proved.)
      LUnspec       the session leaves the specified fragment, i.e. it reaches a point where the C++ does not check
                    the command (or is not usable at all); nothing is claimed from that command on.

    Where the C++ does not check (read off the code; each is [PUnspec] below):
      * begin_list / end_list that arrive where a NumpyForm leaf is expected: NumpyArrayBuilder::begin_list/end_list
        are no-ops on the C++ side and never reach the Forth machine (silently ignored);
      * a command other than `tag` where a UnionForm expects its tag: the Forth word is `20 = if ... then` without an
        else branch (silently dropped);
      * `string`/`bytestring` on a uint8 leaf (appends every byte as one item), the empty string on any leaf or where
        a list must begin (no byte, hence no command, reaches the machine), a `bytestring` on a string form and vice versa (the encoding is not looked at),
        begin_list on a string form (building a string by hand);
      * `index` on an IndexedForm (the "categorical" feature: chooses the index by hand);
      * an EmptyForm below any other node (its word is a comment; `null`/`tag` are taken as list items): [cons_in];
      * ListForm (the constructor always raises: its Forth source has a typo: s-quote without the following blank), RecordForm without
        fields (the generated source is cut in the wrong place), RegularForm of size <= 0 (elements that consume no
        command), keys and contents of different lengths, strings whose content is not a uint8 leaf: [constructible];
      * integers outside int64, bytes outside 0..255. *)
From Coq Require Import ZArith List Bool.
From AwkV Require Import Base Layout Types Typing.
Import ListNotations.
Open Scope Z_scope.

(* ------------------------------------------------------------------ forms and commands *)
Inductive lform :=
| LNumpy (dt : dtype)
| LEmpty
| LListOffset (w : width) (str : option bool) (c : lform)   (* str = Some isstr: __array__ = string / bytestring *)
| LList (w : width) (c : lform)
| LRegular (size : Z) (c : lform)
| LIndexed (w : width) (c : lform)
| LIndexedOption (w : width) (c : lform)
| LByteMasked (valid_when : bool) (c : lform)
| LBitMasked (valid_when lsb : bool) (c : lform)
| LUnmasked (c : lform)
| LUnion (w : width) (cs : list lform)
| LRecord (keys : option (list name)) (cs : list lform).

(* the public mutators of LayoutBuilder (1.4.0) *)
Inductive lbcmd :=
| KNull
| KBool (b : bool)
| KInt (z : Z)
| KReal (d : datum)
| KStr (isstr : bool) (s : list Z)      (* string (true) / bytestring (false) *)
| KBegin
| KEnd
| KTag (t : Z)
| KIndex (i : Z).

Inductive pres (A : Type) :=
| POk (a : A) (rest : list lbcmd)
| PMore                      (* the commands ended inside the element *)
| PErr (e : err)
| PUnspec.
Arguments POk {A} _ _.
Arguments PMore {A}.
Arguments PErr {A} _.
Arguments PUnspec {A}.

Inductive lbres :=
| LOk (vs : list value)
| LPartial (vs : list value)
| LErr (e : err)
| LUnspec.

Definition in_int64 (z : Z) : bool := (-9223372036854775808 <=? z) && (z <=? 9223372036854775807).
Definition is_byte (z : Z) : bool := (0 <=? z) && (z <=? 255).

(* ------------------------------------------------------------------ combinators *)
Section Comb.
  Variable p : list lbcmd -> pres value.

  (* items until end_list; every item consumes at least one command, so [fuel = S (length cmds)] suffices *)
  Fixpoint many (fuel : nat) (cmds : list lbcmd) : pres (list value) :=
    match fuel with
    | O => PErr EFuel
    | S k =>
        match cmds with
        | [] => PMore
        | KEnd :: rest => POk [] rest
        | _ :: _ =>
            match p cmds with
            | POk v rest =>
                match many k rest with
                | POk vs rest' => POk (v :: vs) rest'
                | PMore => PMore
                | PErr e => PErr e
                | PUnspec => PUnspec
                end
            | PMore => PMore
            | PErr e => PErr e
            | PUnspec => PUnspec
            end
        end
    end.

  (* exactly n items *)
  Fixpoint rep (n : nat) (cmds : list lbcmd) : pres (list value) :=
    match n with
    | O => POk [] cmds
    | S k =>
        match p cmds with
        | POk v rest =>
            match rep k rest with
            | POk vs rest' => POk (v :: vs) rest'
            | PMore => PMore
            | PErr e => PErr e
            | PUnspec => PUnspec
            end
        | PMore => PMore
        | PErr e => PErr e
        | PUnspec => PUnspec
        end
    end.
End Comb.

(* a leaf: the one command that fits, the misfits that the Forth word reports, the ones nothing checks *)
Definition leaf (dt : dtype) (c : lbcmd) (rest : list lbcmd) : pres value :=
  match c with
  | KBegin | KEnd => PUnspec
  | KStr _ s => match dt, s with DUInt8, _ => PUnspec | _, [] => PUnspec | _, _ => PErr EValue end
  | KBool b => match dt with DBool => POk (VBool b) rest | _ => PErr EValue end
  | KInt z => match dt with
              | DInt64 => if in_int64 z then POk (VNum (DZ z)) rest else PUnspec
              | _ => PErr EValue end
  | KReal d => match dt with DFloat64 => POk (VNum d) rest | _ => PErr EValue end
  | KNull | KTag _ | KIndex _ => PErr EValue
  end.

(* ------------------------------------------------------------------ one element *)
Fixpoint lb_item (f : lform) (cmds : list lbcmd) {struct f} : pres value :=
  match cmds with
  | [] => PMore
  | c :: rest =>
  match f with
  | LNumpy dt => leaf dt c rest
  | LEmpty => match c with KNull | KTag _ | KIndex _ => PUnspec | _ => PErr EValue end
  | LListOffset _ None f' =>
      match c with
      | KBegin =>
          match many (lb_item f') (S (length rest)) rest with
          | POk vs rest' => POk (VList vs) rest'
          | PMore => PMore
          | PErr e => PErr e
          | PUnspec => PUnspec
          end
      | KStr _ [] => PUnspec
      | _ => PErr EValue
      end
  | LListOffset _ (Some isstr) _ =>
      match c with
      | KStr i s => if Bool.eqb i isstr && forallb is_byte s then POk (VStr isstr s) rest else PUnspec
      | KBegin => PUnspec
      | _ => PErr EValue
      end
  | LList _ _ => PUnspec
  | LRegular n f' =>
      match rep (lb_item f') (Z.to_nat n) cmds with
      | POk vs rest' => POk (VList vs) rest'
      | PMore => PMore
      | PErr e => PErr e
      | PUnspec => PUnspec
      end
  | LIndexed _ f' => match c with KIndex _ => PUnspec | _ => lb_item f' cmds end
  | LIndexedOption _ f' | LByteMasked _ f' | LBitMasked _ _ f' =>
      match c with KNull => POk VNone rest | _ => lb_item f' cmds end
  | LUnmasked f' => lb_item f' cmds
  | LUnion _ cs =>
      match c with
      | KTag t =>
          if t <? 0 then PErr EValue else
          (fix sel (cs : list lform) (n : nat) {struct cs} : pres value :=
             match cs, n with
             | [], _ => PErr EValue
             | f0 :: _, O => lb_item f0 rest
             | _ :: cs', S n' => sel cs' n'
             end) cs (Z.to_nat t)
      | _ => PUnspec
      end
  | LRecord keys cs =>
      match
        (fix flds (cs : list lform) (cmds : list lbcmd) {struct cs} : pres (list value) :=
           match cs with
           | [] => POk [] cmds
           | f0 :: cs' =>
               match lb_item f0 cmds with
               | POk v r =>
                   match flds cs' r with
                   | POk vs r' => POk (v :: vs) r'
                   | PMore => PMore
                   | PErr e => PErr e
                   | PUnspec => PUnspec
                   end
               | PMore => PMore
               | PErr e => PErr e
               | PUnspec => PUnspec
               end
           end) cs cmds
      with
      | POk vs rest' =>
          POk (match keys with Some ks => VRec (combine ks vs) | None => VTup vs end) rest'
      | PMore => PMore
      | PErr e => PErr e
      | PUnspec => PUnspec
      end
  end
  end.

(* ------------------------------------------------------------------ forms the builder can be made from / used with *)
Fixpoint cons_in (f : lform) : bool :=
  match f with
  | LNumpy _ => true
  | LEmpty => false           (* below another node its Forth word is a comment: nothing is checked *)
  | LListOffset _ None c => cons_in c
  | LListOffset _ (Some _) c => match c with LNumpy DUInt8 => true | _ => false end
  | LList _ _ => false
  | LRegular n c => (1 <=? n) && cons_in c
  | LIndexed _ c | LUnmasked c | LByteMasked _ c | LBitMasked _ _ c => cons_in c
  | LIndexedOption w c => match w with U32 => false | _ => cons_in c end
  | LUnion _ cs => negb (match cs with [] => true | _ => false end) && forallb cons_in cs
  | LRecord keys cs =>
      negb (match cs with [] => true | _ => false end) && forallb cons_in cs &&
      match keys with Some ks => Nat.eqb (length ks) (length cs) | None => true end
  end.
Definition constructible (f : lform) : bool :=
  match f with LEmpty => true | _ => cons_in f end.

(* ------------------------------------------------------------------ the session *)
Fixpoint top (p : list lbcmd -> pres value) (fuel : nat) (cmds : list lbcmd) : lbres :=
  match cmds with
  | [] => LOk []
  | _ :: _ =>
      match fuel with
      | O => LErr EFuel
      | S k =>
          match p cmds with
          | POk v rest =>
              match top p k rest with
              | LOk vs => LOk (v :: vs)
              | LPartial vs => LPartial (v :: vs)
              | LErr e => LErr e
              | LUnspec => LUnspec
              end
          | PMore => LPartial []
          | PErr e => LErr e
          | PUnspec => LUnspec
          end
      end
  end.

Definition lb_run (f : lform) (cmds : list lbcmd) : lbres :=
  if constructible f then top (lb_item f) (length cmds) cmds else LUnspec.

(* ------------------------------------------------------------------ type of the form *)
Fixpoint form_ty (f : lform) : ty :=
  match f with
  | LNumpy dt => TNum dt
  | LEmpty => TUnk
  | LListOffset _ s c => TList None s (form_ty c)
  | LList _ c => TList None None (form_ty c)
  | LRegular n c => TList (Some n) None (form_ty c)
  | LIndexed _ c => form_ty c
  | LIndexedOption _ c | LByteMasked _ c | LBitMasked _ _ c | LUnmasked c => TOpt (form_ty c)
  | LUnion _ cs => TUnion (map form_ty cs)
  | LRecord keys cs => TRec keys (map form_ty cs)
  end.

(* ------------------------------------------------------------------ conforming values and their encoding *)
Fixpoint conf (f : lform) (v : value) {struct f} : bool :=
  match f with
  | LNumpy DBool => match v with VBool _ => true | _ => false end
  | LNumpy DInt64 => match v with VNum (DZ z) => in_int64 z | _ => false end
  | LNumpy DFloat64 => match v with VNum _ => true | _ => false end
  | LNumpy _ => false
  | LEmpty => false
  | LListOffset _ None c => match v with VList l => forallb (conf c) l | _ => false end
  | LListOffset _ (Some isstr) c =>
      match c, v with
      | LNumpy DUInt8, VStr i s => Bool.eqb i isstr && forallb is_byte s
      | _, _ => false
      end
  | LList _ _ => false
  | LRegular n c =>
      match v with VList l => (1 <=? n) && (zlen l =? n) && forallb (conf c) l | _ => false end
  | LIndexed _ c | LUnmasked c => conf c v
  | LIndexedOption _ c | LByteMasked _ c | LBitMasked _ _ c =>
      match v with VNone => true | _ => conf c v end
  | LUnion _ cs =>
      (fix ex (cs : list lform) : bool :=
         match cs with [] => false | f0 :: cs' => conf f0 v || ex cs' end) cs
  | LRecord keys cs =>
      let all2 :=
        (fix go (cs : list lform) (vs : list value) {struct cs} : bool :=
           match cs, vs with
           | [], [] => true
           | f0 :: cs', v0 :: vs' => conf f0 v0 && go cs' vs'
           | _, _ => false
           end) in
      negb (match cs with [] => true | _ => false end) &&
      match keys, v with
      | Some ks, VRec fs => list_eqb name_eqb (map fst fs) ks && all2 cs (map snd fs)
      | None, VTup vs => all2 cs vs
      | _, _ => false
      end
  end.

Fixpoint enc (f : lform) (v : value) {struct f} : list lbcmd :=
  match f with
  | LNumpy dt =>
      match v with
      | VBool b => [KBool b]
      | VNum d => match dt, d with DInt64, DZ z => [KInt z] | _, _ => [KReal d] end
      | _ => []
      end
  | LEmpty => []
  | LListOffset _ None c =>
      match v with VList l => KBegin :: flat_map (enc c) l ++ [KEnd] | _ => [] end
  | LListOffset _ (Some _) _ => match v with VStr i s => [KStr i s] | _ => [] end
  | LList _ _ => []
  | LRegular _ c => match v with VList l => flat_map (enc c) l | _ => [] end
  | LIndexed _ c | LUnmasked c => enc c v
  | LIndexedOption _ c | LByteMasked _ c | LBitMasked _ _ c =>
      match v with VNone => [KNull] | _ => enc c v end
  | LUnion _ cs =>
      (fix pick (cs : list lform) (t : Z) : list lbcmd :=
         match cs with
         | [] => []
         | f0 :: cs' => if conf f0 v then KTag t :: enc f0 v else pick cs' (t + 1)
         end) cs 0
  | LRecord keys cs =>
      let vs := match v with VRec fs => map snd fs | VTup vs => vs | _ => [] end in
      (fix go (cs : list lform) (vs : list value) {struct cs} : list lbcmd :=
         match cs, vs with
         | f0 :: cs', v0 :: vs' => enc f0 v0 ++ go cs' vs'
         | _, _ => []
         end) cs vs
  end.

(* the commands an element of form f may start with (for a form in the specified fragment) *)
Fixpoint first_ok (f : lform) (c : lbcmd) {struct f} : bool :=
  match f with
  | LNumpy DBool => match c with KBool _ => true | _ => false end
  | LNumpy DInt64 => match c with KInt _ => true | _ => false end
  | LNumpy DFloat64 => match c with KReal _ => true | _ => false end
  | LNumpy _ => false
  | LEmpty => false
  | LListOffset _ None _ => match c with KBegin => true | _ => false end
  | LListOffset _ (Some _) _ => match c with KStr _ _ => true | _ => false end
  | LList _ _ => false
  | LRegular _ c' | LIndexed _ c' | LUnmasked c' => first_ok c' c
  | LIndexedOption _ c' | LByteMasked _ c' | LBitMasked _ _ c' =>
      match c with KNull => true | _ => first_ok c' c end
  | LUnion _ _ => match c with KTag _ => true | _ => false end
  | LRecord _ cs => match cs with f0 :: _ => first_ok f0 c | [] => false end
  end.

(* `null` is decided by the OUTERMOST option node that can take it: below an option node no element may begin with
   null (otherwise the encoding of e.g. a record whose first field is None would be read back as a missing record;
   the C++ behaves the same way: the Forth word of IndexedOptionForm tests for `null` first) *)
Fixpoint unambiguous (f : lform) : bool :=
  match f with
  | LNumpy _ | LEmpty => true
  | LListOffset _ _ c | LList _ c | LRegular _ c | LIndexed _ c | LUnmasked c => unambiguous c
  | LIndexedOption _ c | LByteMasked _ c | LBitMasked _ _ c => negb (first_ok c KNull) && unambiguous c
  | LUnion _ cs | LRecord _ cs => forallb unambiguous cs
  end.

Definition conforms (f : lform) (vs : list value) : Prop :=
  constructible f = true /\ unambiguous f = true /\ forallb (conf f) vs = true.
Definition lb_encode (f : lform) (vs : list value) : list lbcmd := flat_map (enc f) vs.

