(** C17 proofs, part 5: a printable type survives printing and re-parsing. *)
From Coq Require Import ZArith List Bool Lia DecimalZ DecimalPos.
From AwkV Require Import Base Layout.
From AwkTypes Require Import Json Forms TypeStr Proofs_Json.
Import ListNotations.
Open Scope Z_scope.

(* ---------------------------------------------------------------- what may follow a type in the printed language *)
Definition follow_ok (rest : bytes) : Prop :=
  match rest with
  | [] => True
  | c :: _ => c = 44 \/ c = 93 \/ c = 125 \/ c = 41
  end.

Lemma follow_not_alnum rest : follow_ok rest -> match rest with [] => True | c :: _ => is_alnum_ c = false end.
Proof. destruct rest as [|c r]; [auto|]. intros [->|[->|[->| ->]]]; reflexivity. Qed.
Lemma follow_not_bracket rest : follow_ok rest -> match rest with [] => True | c :: _ => (c =? 91) = false end.
Proof. destruct rest as [|c r]; [auto|]. intros [->|[->|[->| ->]]]; reflexivity. Qed.

(* ---------------------------------------------------------------- lexing *)
Lemma span_word (f : Z -> bool) (w rest : bytes) :
  forallb f w = true -> match rest with [] => True | c :: _ => f c = false end ->
  span f (w ++ rest) = (w, rest).
Proof.
  induction w as [|c w IH]; intros Hw Hr; simpl.
  - destruct rest as [|c r]; [reflexivity|]. simpl. rewrite Hr. reflexivity.
  - simpl in Hw. apply andb_true_iff in Hw as [H1 H2]. rewrite H1, (IH H2 Hr). reflexivity.
Qed.

Lemma strip_prefix_app p s : strip_prefix p (p ++ s) = Some s.
Proof. induction p as [|x p IH]; simpl; [reflexivity|]. rewrite Z.eqb_refl. exact IH. Qed.

Lemma alpha_tests c : is_alpha_ c = true ->
  (c =? 63) = false /\ (c =? 123) = false /\ (c =? 40) = false /\ is_digit c = false /\ is_alnum_ c = true.
Proof.
  unfold is_alpha_, is_digit, is_alnum_, is_alpha_. intros H.
  repeat split; try (apply Z.eqb_neq; intros ->; discriminate H).
  - destruct ((48 <=? c) && (c <=? 57)) eqn:E; [|reflexivity]. exfalso.
    apply andb_true_iff in E as [E1 E2]. apply Z.leb_le in E1, E2.
    apply orb_true_iff in H as [H|H]; [apply orb_true_iff in H as [H|H]|];
      try (apply andb_true_iff in H as [H1 H2]; apply Z.leb_le in H1, H2; lia).
    apply Z.eqb_eq in H. lia.
  - rewrite H. reflexivity.
Qed.

(* ---------------------------------------------------------------- numbers *)
Definition digits_acc (ds : bytes) (acc : Z) : Z := fold_left (fun a d => a * 10 + (d - 48)) ds acc.

Lemma digits_acc_pos u : forall p, digits_acc (uint_digits u) (Zpos p) = Zpos (Pos.of_uint_acc u p).
Proof.
  unfold digits_acc.
  induction u as [|u IH|u IH|u IH|u IH|u IH|u IH|u IH|u IH|u IH|u IH]; intros p;
    cbn [uint_digits fold_left Pos.of_uint_acc]; [reflexivity| | | | | | | | | |];
    rewrite <- IH; f_equal; rewrite ?Pos2Z.inj_add, Pos2Z.inj_mul; lia.
Qed.

Lemma digits_acc_zero u : digits_acc (uint_digits u) 0 = Z.of_N (Pos.of_uint u).
Proof.
  induction u as [|u IH|u IH|u IH|u IH|u IH|u IH|u IH|u IH|u IH|u IH];
    cbn [uint_digits Pos.of_uint]; [reflexivity|exact IH| | | | | | | | |];
    unfold digits_acc; cbn [fold_left]; cbn [Z.of_N];
    match goal with |- fold_left _ _ ?a = Z.pos (Pos.of_uint_acc _ ?k) =>
      replace a with (Zpos k) by reflexivity; exact (digits_acc_pos u k) end.
Qed.

Lemma Z_of_digits_dec n : 0 <= n -> exists u, dec_of_Z n = uint_digits u /\ u <> Decimal.Nil /\ Z_of_digits (uint_digits u) = n.
Proof.
  intros Hn. unfold dec_of_Z. pose proof (DecimalZ.of_to n) as Hot.
  destruct n as [|p|p]; simpl Z.to_int in *.
  - exists (Decimal.D0 Decimal.Nil). split; [reflexivity|]. split; [discriminate|reflexivity].
  - exists (Pos.to_uint p). split; [reflexivity|]. split; [apply DecimalPos.Unsigned.to_uint_nonnil|].
    unfold Z_of_digits. fold (digits_acc (uint_digits (Pos.to_uint p)) 0). rewrite digits_acc_zero.
    simpl in Hot. unfold Z.of_uint in Hot. exact Hot.
  - lia.
Qed.

Lemma uint_digits_digits u : forallb is_digit (uint_digits u) = true.
Proof. induction u; simpl; auto. Qed.

Lemma uint_digits_head u : u <> Decimal.Nil -> exists c r, uint_digits u = c :: r /\ is_digit c = true.
Proof. destruct u; intros H; try congruence; simpl; eexists; eexists; split; reflexivity. Qed.

(* ---------------------------------------------------------------- quoted keys *)
Lemma unhex_hexdigit n : 0 <= n < 16 -> unhex (hexdigit n) = Some n.
Proof.
  intros H. assert (n = 0 \/ n = 1 \/ n = 2 \/ n = 3 \/ n = 4 \/ n = 5 \/ n = 6 \/ n = 7 \/ n = 8 \/ n = 9 \/
                    n = 10 \/ n = 11 \/ n = 12 \/ n = 13 \/ n = 14 \/ n = 15) as Hc by lia.
  repeat (destruct Hc as [->|Hc]; [reflexivity|]). subst. reflexivity.
Qed.

Lemma unquote_esc fuel e x r :
  (e = 34 /\ x = 34) \/ (e = 92 /\ x = 92) \/ (e = 98 /\ x = 8) \/ (e = 102 /\ x = 12) \/
  (e = 110 /\ x = 10) \/ (e = 114 /\ x = 13) \/ (e = 116 /\ x = 9) ->
  unquote_body (S fuel) (92 :: e :: r) = do xr <- unquote_body fuel r; Ok (x :: fst xr, snd xr).
Proof. intros [[-> ->]|[[-> ->]|[[-> ->]|[[-> ->]|[[-> ->]|[[-> ->]|[-> ->]]]]]]]; reflexivity. Qed.

Lemma unquote_lit fuel c r : (c =? 34) = false -> (c =? 92) = false -> (c <? 32) = false ->
  unquote_body (S fuel) (c :: r) = do xr <- unquote_body fuel r; Ok (c :: fst xr, snd xr).
Proof. intros H1 H2 H3. cbn [unquote_body]. rewrite H1, H2, H3. reflexivity. Qed.

Lemma unquote_body_quote k : forall fuel rest,
  key_ok k = true -> (length k < fuel)%nat ->
  unquote_body fuel (flat_map escape_char k ++ 34 :: rest) = Ok (k, rest).
Proof.
  induction k as [|c k IH]; intros fuel rest Hk Hf.
  - destruct fuel; [inversion Hf|]. reflexivity.
  - destruct fuel as [|fuel]; [inversion Hf|].
    simpl in Hk. apply andb_true_iff in Hk as [Hc Hk]. apply andb_true_iff in Hc as [Hc0 Hc1].
    apply Z.leb_le in Hc0, Hc1. simpl in Hf.
    assert (Hrec : unquote_body fuel (flat_map escape_char k ++ 34 :: rest) = Ok (k, rest)) by (apply IH; [exact Hk|lia]).
    cbn [flat_map]. rewrite <- app_assoc.
    assert (Hesc : escape_char c =
                   if c =? 34 then [92; 34] else if c =? 92 then [92; 92] else if c =? 8 then [92; 98]
                   else if c =? 12 then [92; 102] else if c =? 10 then [92; 110] else if c =? 13 then [92; 114]
                   else if c =? 9 then [92; 116]
                   else if c <? 32 then [92; 117; 48; 48; hexdigit (c / 16); hexdigit (c mod 16)] else [c]) by reflexivity.
    rewrite Hesc. clear Hesc.
    destruct (c =? 34) eqn:E34.
    { apply Z.eqb_eq in E34. subst c. cbn [app]. rewrite (unquote_esc fuel _ 34) by tauto. rewrite Hrec. reflexivity. }
    destruct (c =? 92) eqn:E92.
    { apply Z.eqb_eq in E92. subst c. cbn [app]. rewrite (unquote_esc fuel _ 92) by tauto. rewrite Hrec. reflexivity. }
    destruct (c =? 8) eqn:E8.
    { apply Z.eqb_eq in E8. subst c. cbn [app]. rewrite (unquote_esc fuel _ 8) by tauto. rewrite Hrec. reflexivity. }
    destruct (c =? 12) eqn:E12.
    { apply Z.eqb_eq in E12. subst c. cbn [app]. rewrite (unquote_esc fuel _ 12) by tauto. rewrite Hrec. reflexivity. }
    destruct (c =? 10) eqn:E10.
    { apply Z.eqb_eq in E10. subst c. cbn [app]. rewrite (unquote_esc fuel _ 10) by tauto. rewrite Hrec. reflexivity. }
    destruct (c =? 13) eqn:E13.
    { apply Z.eqb_eq in E13. subst c. cbn [app]. rewrite (unquote_esc fuel _ 13) by tauto. rewrite Hrec. reflexivity. }
    destruct (c =? 9) eqn:E9.
    { apply Z.eqb_eq in E9. subst c. cbn [app]. rewrite (unquote_esc fuel _ 9) by tauto. rewrite Hrec. reflexivity. }
    destruct (c <? 32) eqn:E32.
    + apply Z.ltb_lt in E32. cbn [app].
      change (unquote_body (S fuel) (92 :: 117 :: 48 :: 48 :: hexdigit (c / 16) :: hexdigit (c mod 16) :: flat_map escape_char k ++ 34 :: rest))
        with (match unhex (hexdigit (c / 16)), unhex (hexdigit (c mod 16)) with
              | Some a, Some b =>
                  if a * 16 + b <? 32
                  then do xr <- unquote_body fuel (flat_map escape_char k ++ 34 :: rest); Ok (a * 16 + b :: fst xr, snd xr)
                  else Err EValue
              | _, _ => Err EValue
              end).
      rewrite (unhex_hexdigit (c / 16)) by (split; [apply Z.div_pos; lia|apply Z.div_lt_upper_bound; lia]).
      rewrite (unhex_hexdigit (c mod 16)) by (apply Z.mod_pos_bound; lia).
      replace (c / 16 * 16 + c mod 16) with c by (rewrite Z.mul_comm; apply Z.div_mod; lia).
      replace (c <? 32) with true by (symmetry; apply Z.ltb_lt; exact E32).
      rewrite Hrec. reflexivity.
    + cbn [app]. rewrite (unquote_lit fuel c _ E34 E92 E32), Hrec. reflexivity.
Qed.

Lemma unquote_quote k rest : key_ok k = true -> unquote (quote k ++ rest) = Ok (k, rest).
Proof.
  intros Hk. unfold quote. cbn [app unquote]. rewrite Z.eqb_refl. rewrite <- app_assoc. cbn [app].
  apply unquote_body_quote; [exact Hk|].
  rewrite app_length. simpl length.
  assert (length k <= length (flat_map escape_char k))%nat.
  { clear. induction k as [|c k IH]; simpl; [lia|]. rewrite app_length.
    assert (1 <= length (escape_char c))%nat.
    { unfold escape_char. repeat match goal with |- context [if ?b then _ else _] => destruct b end; simpl; lia. }
    lia. }
  lia.
Qed.

(* ---------------------------------------------------------------- sizes *)
Fixpoint rty_size (t : rty) : nat :=
  match t with
  | RNum _ _ _ | RUnk _ _ => 1
  | RList _ _ t' | RReg _ _ _ t' | ROpt _ _ t' => S (rty_size t')
  | RRec _ _ _ l | RUnion _ _ l => S (fold_right (fun t n => (rty_size t + n)%nat) O l)
  end.

Lemma rty_size_pos t : (1 <= rty_size t)%nat.
Proof. destruct t; simpl; lia. Qed.

Lemma size_sum_ge l : (length l <= fold_right (fun t n => (rty_size t + n)%nat) O l)%nat /\
                      forall t, In t l -> (rty_size t <= fold_right (fun t n => (rty_size t + n)%nat) O l)%nat.
Proof.
  induction l as [|x l [IH1 IH2]]; simpl; [split; [lia|intros t []]|].
  pose proof (rty_size_pos x). split; [lia|]. intros t [<-|Hin]; [lia|]. specialize (IH2 t Hin). lia.
Qed.

Section RtyInd.
  Variable P : rty -> Prop.
  Hypothesis HNum : forall p s dt, P (RNum p s dt).
  Hypothesis HUnk : forall p s, P (RUnk p s).
  Hypothesis HList : forall p s t, P t -> P (RList p s t).
  Hypothesis HReg : forall p s n t, P t -> P (RReg p s n t).
  Hypothesis HOpt : forall p s t, P t -> P (ROpt p s t).
  Hypothesis HRec : forall p s ks l, Forall P l -> P (RRec p s ks l).
  Hypothesis HUnion : forall p s l, Forall P l -> P (RUnion p s l).
  Fixpoint rty_ind' (t : rty) : P t :=
    match t with
    | RNum p s dt => HNum p s dt
    | RUnk p s => HUnk p s
    | RList p s t' => HList p s t' (rty_ind' t')
    | RReg p s n t' => HReg p s n t' (rty_ind' t')
    | ROpt p s t' => HOpt p s t' (rty_ind' t')
    | RRec p s ks l => HRec p s ks l ((fix G (l : list rty) : Forall P l :=
                                        match l with [] => Forall_nil P | x :: xs => Forall_cons x (rty_ind' x) (G xs) end) l)
    | RUnion p s l => HUnion p s l ((fix G (l : list rty) : Forall P l :=
                                      match l with [] => Forall_nil P | x :: xs => Forall_cons x (rty_ind' x) (G xs) end) l)
    end.
End RtyInd.

(* ---------------------------------------------------------------- lists of types *)
Definition head_ok (s : bytes) : Prop :=
  exists c r, s = c :: r /\ (c =? 93) = false /\ (c =? 41) = false /\ (c =? 125) = false /\ (c =? 34) = false.

Definition parses (sub : bytes -> res (rty * bytes)) (t : rty) : Prop :=
  forall rest, follow_ok rest -> sub (type_tostring t ++ rest) = Ok (t, rest).

Lemma close_cases close : close = 93 \/ close = 41 \/ close = 125 ->
  (44 =? close) = false /\ follow_ok [close].
Proof. intros [->|[->| ->]]; split; try reflexivity; simpl; auto. Qed.

Lemma sep_concat_cons2 (sep p q : bytes) r : sep_concat sep (p :: q :: r) = p ++ sep ++ sep_concat sep (q :: r).
Proof. reflexivity. Qed.

Lemma parse_list_ok sub close : close = 93 \/ close = 41 \/ close = 125 ->
  forall l fuel rest, l <> [] -> Forall (parses sub) l -> (length l <= fuel)%nat ->
  parse_list sub fuel close (sep_concat p_comma (map type_tostring l) ++ close :: rest) = Ok (l, rest).
Proof.
  intros Hc. destruct (close_cases close Hc) as [H44 _].
  induction l as [|t l IH]; intros fuel rest Hne HF Hf; [congruence|].
  inversion HF as [|? ? Ht HF']; subst. destruct fuel as [|fuel]; [simpl in Hf; lia|].
  destruct l as [|t2 l].
  - cbn [map sep_concat parse_list]. rewrite (Ht (close :: rest)).
    + cbn [bind snd fst]. rewrite Z.eqb_refl. reflexivity.
    + simpl. destruct Hc as [->|[->| ->]]; auto.
  - cbn [map]. rewrite sep_concat_cons2.
    change (map type_tostring (t2 :: l)) with (type_tostring t2 :: map type_tostring l) in IH.
    rewrite <- !app_assoc. cbn [parse_list].
    rewrite (Ht (p_comma ++ sep_concat p_comma (type_tostring t2 :: map type_tostring l) ++ close :: rest)) by (simpl; auto).
    cbn [bind snd fst]. change (p_comma ++ ?x) with (44 :: 32 :: x). cbv iota beta.
    rewrite H44. change (44 :: 32 :: ?x) with (p_comma ++ x). rewrite strip_prefix_app.
    rewrite (IH fuel rest); [reflexivity|discriminate|exact HF'|simpl in *; lia].
Qed.

Lemma sep_concat_head (sep : bytes) (parts : list bytes) p :
  (exists c r, p = c :: r) -> exists r, sep_concat sep (p :: parts) ++ [] = hd 0 p :: r.
Proof.
  intros (c & r & ->). destruct parts; simpl; eexists; reflexivity.
Qed.

Lemma parse_items_ok sub close : close = 93 \/ close = 41 \/ close = 125 ->
  forall l fuel rest, Forall (parses sub) l -> Forall (fun t => head_ok (type_tostring t)) l -> (length l <= fuel)%nat ->
  parse_items sub fuel close (sep_concat p_comma (map type_tostring l) ++ close :: rest) = Ok (l, rest).
Proof.
  intros Hc l fuel rest HF HH Hf. destruct l as [|t l].
  - simpl. rewrite Z.eqb_refl. reflexivity.
  - unfold parse_items.
    inversion HH as [|? ? (c & r & Hs & H93 & H41 & H125 & H34) _]; subst.
    assert (Hhead : exists r', sep_concat p_comma (map type_tostring (t :: l)) ++ close :: rest = c :: r').
    { cbn [map]. destruct (map type_tostring l); cbn [sep_concat]; rewrite Hs; eexists; reflexivity. }
    destruct Hhead as (r' & Hr'). rewrite Hr'.
    assert (Hcc : (c =? close) = false) by (destruct Hc as [->|[->| ->]]; assumption).
    rewrite Hcc. rewrite <- Hr'. apply parse_list_ok; auto. discriminate.
Qed.

(* fields: "key": T *)
Lemma keyed_map ks l : length ks = length l ->
  keyed ks (map type_tostring l) = map (fun kt => quote (fst kt) ++ p_colon ++ type_tostring (snd kt)) (zip ks l).
Proof.
  revert l. induction ks as [|k ks IH]; intros [|t l] H; simpl in *; try discriminate; [reflexivity|].
  f_equal. apply IH. lia.
Qed.

Lemma parse_fields_ok sub close : close = 93 \/ close = 125 ->
  forall kts fuel rest, kts <> [] -> Forall (fun kt => parses sub (snd kt)) kts ->
  forallb key_ok (map fst kts) = true -> (length kts <= fuel)%nat ->
  parse_fields sub fuel close
    (sep_concat p_comma (map (fun kt : bytes * rty => quote (fst kt) ++ p_colon ++ type_tostring (snd kt)) kts) ++ close :: rest)
  = Ok (kts, rest).
Proof.
  intros Hc. assert (H44 : (44 =? close) = false) by (destruct Hc as [->| ->]; reflexivity).
  induction kts as [|[k t] kts IH]; intros fuel rest Hne HF Hk Hf; [congruence|].
  inversion HF as [|? ? Ht HF']; subst. simpl in Ht. simpl in Hk. apply andb_true_iff in Hk as [Hk1 Hk2].
  destruct fuel as [|fuel]; [simpl in Hf; lia|].
  destruct kts as [|kt2 kts].
  - cbn [map sep_concat fst snd]. rewrite <- !app_assoc. cbn [parse_fields].
    rewrite (unquote_quote k _ Hk1). cbn [bind snd fst]. rewrite strip_prefix_app.
    rewrite (Ht (close :: rest)) by (simpl; destruct Hc as [->| ->]; auto).
    cbn [bind snd fst]. rewrite Z.eqb_refl. reflexivity.
  - cbn [map]. rewrite sep_concat_cons2. cbn [fst snd]. rewrite <- !app_assoc. cbn [parse_fields].
    rewrite (unquote_quote k _ Hk1). cbn [bind snd fst]. rewrite strip_prefix_app.
    rewrite Ht by (simpl; auto).
    cbn [bind snd fst]. change (p_comma ++ ?x) with (44 :: 32 :: x). cbv iota beta.
    rewrite H44. change (44 :: 32 :: ?x) with (p_comma ++ x). rewrite strip_prefix_app.
    change ((quote (fst kt2) ++ p_colon ++ type_tostring (snd kt2)) :: map (fun kt : bytes * rty => quote (fst kt) ++ p_colon ++ type_tostring (snd kt)) kts)
      with (map (fun kt : bytes * rty => quote (fst kt) ++ p_colon ++ type_tostring (snd kt)) (kt2 :: kts)).
    rewrite (IH fuel rest); [reflexivity|discriminate|exact HF'|exact Hk2|simpl in *; lia].
Qed.

Lemma quote_head k : exists r, quote k = 34 :: r.
Proof. unfold quote. eexists. reflexivity. Qed.

Lemma parse_fielditems_ok sub close : close = 93 \/ close = 125 ->
  forall kts fuel rest, Forall (fun kt => parses sub (snd kt)) kts ->
  forallb key_ok (map fst kts) = true -> (length kts <= fuel)%nat ->
  parse_fielditems sub fuel close
    (sep_concat p_comma (map (fun kt : bytes * rty => quote (fst kt) ++ p_colon ++ type_tostring (snd kt)) kts) ++ close :: rest)
  = Ok (kts, rest).
Proof.
  intros Hc kts fuel rest HF Hk Hf. destruct kts as [|[k t] kts].
  - simpl. rewrite Z.eqb_refl. reflexivity.
  - unfold parse_fielditems.
    assert (Hhead : exists r', sep_concat p_comma (map (fun kt : bytes * rty => quote (fst kt) ++ p_colon ++ type_tostring (snd kt)) ((k, t) :: kts)) ++ close :: rest = 34 :: r').
    { cbn [map fst snd]. destruct (map _ kts); cbn [sep_concat]; unfold quote; cbn [app]; eexists; reflexivity. }
    destruct Hhead as (r' & Hr'). rewrite Hr'.
    assert (Hcc : (34 =? close) = false) by (destruct Hc as [->| ->]; reflexivity).
    rewrite Hcc. rewrite <- Hr'. apply parse_fields_ok; auto. discriminate.
Qed.

Lemma zip_fst_snd (ks : list bytes) (l : list rty) : length ks = length l ->
  map fst (zip ks l) = ks /\ map snd (zip ks l) = l.
Proof.
  revert l. induction ks as [|k ks IH]; intros [|t l] H; simpl in *; try discriminate; [split; reflexivity|].
  destruct (IH l ltac:(lia)) as [E1 E2]. rewrite E1, E2. split; reflexivity.
Qed.

(* ---------------------------------------------------------------- what the printer prints for the fragment *)
Lemma print_num dt : type_tostring (RNum [] [] dt) = dtype_to_name dt.
Proof. reflexivity. Qed.
Lemma print_unk : type_tostring (RUnk [] []) = n_unknown.
Proof. reflexivity. Qed.
Lemma print_list t : type_tostring (RList [] [] t) = w_var ++ p_star ++ type_tostring t.
Proof. reflexivity. Qed.
Lemma print_reg n t : type_tostring (RReg [] [] n t) = dec_of_Z n ++ p_star ++ type_tostring t.
Proof. reflexivity. Qed.
Lemma print_opt t : type_tostring (ROpt [] [] t) =
  if is_listlike t then w_option ++ 91 :: type_tostring t ++ [93] else 63 :: type_tostring t.
Proof. cbn [type_tostring]. destruct (is_listlike t); reflexivity. Qed.
Lemma print_union l : type_tostring (RUnion [] [] l) = w_union ++ 91 :: sep_concat p_comma (map type_tostring l) ++ [93].
Proof. cbn [type_tostring]. reflexivity. Qed.
Lemma print_rec ks l : type_tostring (RRec [] [] (Some ks) l) = 123 :: sep_concat p_comma (keyed ks (map type_tostring l)) ++ [125].
Proof. reflexivity. Qed.
Lemma print_tuple l : type_tostring (RRec [] [] None l) = 40 :: sep_concat p_comma (map type_tostring l) ++ [41].
Proof. reflexivity. Qed.

Lemma is_name_alnum w : is_name w = true ->
  exists c w', w = c :: w' /\ is_alpha_ c = true /\ forallb is_alnum_ w = true /\ nonul w = true.
Proof.
  destruct w as [|c w']; [discriminate|]. simpl. intros H. apply andb_true_iff in H as [H1 H2].
  exists c, w'. split; [reflexivity|]. split; [exact H1|].
  destruct (alpha_tests c H1) as (_ & _ & _ & _ & Ha). split.
  - simpl. rewrite Ha. exact H2.
  - assert (Hz : forall x, is_alnum_ x = true -> negb (x =? 0) = true).
    { intros x Hx. destruct (x =? 0) eqn:E; [|reflexivity]. apply Z.eqb_eq in E. subst. discriminate Hx. }
    simpl. rewrite (Hz c Ha). simpl. apply forallb_forall. intros x Hx. rewrite forallb_forall in H2. apply Hz, H2, Hx.
Qed.

Lemma existsb_app_false {A} (f : A -> bool) l1 l2 : existsb f (l1 ++ l2) = false -> existsb f l1 = false.
Proof. rewrite existsb_app. intros H. apply orb_false_iff in H. tauto. Qed.

Lemma reserved_split : exists rest, reserved_words = datashape_keywords ++ rest.
Proof. eexists. reflexivity. Qed.

Lemma print_named w ks l : is_name w = true -> existsb (bytes_eqb w) reserved_words = false ->
  type_tostring (RRec (@cons (bytes * json) (@pair bytes json k_record (JStr w)) nil) [] ks l) =
  w ++ 91 :: sep_concat p_comma (match ks with Some ks => keyed ks (map type_tostring l) | None => map type_tostring l end) ++ [93].
Proof.
  intros Hn Hr. destruct (is_name_alnum w Hn) as (c & w' & Hw & Hc & Hall & Hnul).
  cbn [type_tostring]. unfold record_name.
  rewrite (cstr_nonul w Hnul), bytes_eqb_refl, Hn.
  destruct reserved_split as (rest & Hrs). rewrite Hrs in Hr. rewrite (existsb_app_false _ _ _ Hr).
  reflexivity.
Qed.

Lemma hardcoded_cases t : hardcoded t = true -> t = t_string \/ t = t_bytes \/ t = t_char \/ t = t_byte.
Proof.
  unfold hardcoded. destruct t as [p s dt|p s|p s t'|p s n t'|p s t'|p s ks l|p s l]; try discriminate.
  - destruct p as [|[k [| | | |v| |]] [|]]; try discriminate. destruct dt as [[]| | | | | | | |]; try discriminate.
    intros H. apply andb_true_iff in H as [H1 H2]. apply bytes_eqb_eq in H1. subst k.
    apply orb_true_iff in H2 as [H2|H2]; apply andb_true_iff in H2 as [Ha Hb];
      apply bytes_eqb_eq in Ha, Hb; subst; auto.
  - destruct p as [|[k [| | | |v| |]] [|]]; try discriminate.
    destruct t' as [p' s' dt'| | | | | |]; try discriminate.
    destruct p' as [|[k' [| | | |v'| |]] [|]]; try discriminate. destruct dt' as [[]| | | | | | | |]; try discriminate.
    intros H. apply andb_true_iff in H as [H1 H2]. apply andb_true_iff in H1 as [Hk Hk'].
    apply bytes_eqb_eq in Hk, Hk'. subst k k'.
    apply orb_true_iff in H2 as [H2|H2];
      repeat (apply andb_true_iff in H2 as [H2 ?]);
      repeat match goal with H : bytes_eqb _ _ = true |- _ => apply bytes_eqb_eq in H end; subst; auto.
Qed.

(* ---------------------------------------------------------------- one step of the parser *)
Lemma parse_ty_word fuel w rest :
  (exists c w', w = c :: w' /\ is_alpha_ c = true) -> forallb is_alnum_ w = true ->
  match rest with [] => True | c :: _ => is_alnum_ c = false end ->
  parse_ty (S fuel) (w ++ rest) = word_branch (parse_ty fuel) fuel w rest.
Proof.
  intros (c & w' & -> & Hc) Hall Hrest.
  destruct (alpha_tests c Hc) as (H63 & H123 & H40 & Hd & _).
  change ((c :: w') ++ rest) with (c :: (w' ++ rest)). cbn [parse_ty].
  rewrite H63, H123, H40, Hd, Hc.
  change (c :: w' ++ rest) with ((c :: w') ++ rest). rewrite (span_word is_alnum_ _ _ Hall Hrest). reflexivity.
Qed.

Lemma word_branch_plain sub fuel w rest :
  match rest with [] => True | c :: _ => (c =? 91) = false end ->
  word_branch sub fuel w rest = plain_word sub w rest.
Proof. unfold word_branch. destruct rest as [|c r]; [reflexivity|]. intros ->. reflexivity. Qed.

Lemma digit_tests c : is_digit c = true -> (c =? 63) = false /\ (c =? 123) = false /\ (c =? 40) = false.
Proof.
  unfold is_digit. intros H. apply andb_true_iff in H as [H1 H2]. apply Z.leb_le in H1, H2.
  repeat split; apply Z.eqb_neq; lia.
Qed.

Lemma parse_ty_num fuel ds rest :
  (exists c ds', ds = c :: ds' /\ is_digit c = true) ->
  parse_ty (S fuel) (ds ++ rest) = num_branch (parse_ty fuel) (ds ++ rest).
Proof.
  intros (c & ds' & -> & Hc). destruct (digit_tests c Hc) as (H63 & H123 & H40).
  change ((c :: ds') ++ rest) with (c :: (ds' ++ rest)). cbn [parse_ty]. rewrite H63, H123, H40, Hc. reflexivity.
Qed.

Lemma literal_word_plain fuel w rest :
  (exists c w', w = c :: w' /\ is_alpha_ c = true) -> forallb is_alnum_ w = true -> follow_ok rest ->
  parse_ty (S fuel) (w ++ rest) = plain_word (parse_ty fuel) w rest.
Proof.
  intros Hw Hall Hf. rewrite (parse_ty_word fuel w rest Hw Hall (follow_not_alnum rest Hf)).
  apply word_branch_plain, follow_not_bracket, Hf.
Qed.

(* ---------------------------------------------------------------- first byte of a printed type *)
Lemma head_ok_alpha c r : is_alpha_ c = true -> head_ok (c :: r).
Proof.
  intros H. exists c, r. split; [reflexivity|].
  unfold is_alpha_ in H.
  assert (Hr : (97 <= c <= 122) \/ (65 <= c <= 90) \/ c = 95).
  { apply orb_true_iff in H as [H|H]; [apply orb_true_iff in H as [H|H]|].
    - apply andb_true_iff in H as [H1 H2]. apply Z.leb_le in H1, H2. lia.
    - apply andb_true_iff in H as [H1 H2]. apply Z.leb_le in H1, H2. lia.
    - apply Z.eqb_eq in H. lia. }
  repeat split; apply Z.eqb_neq; lia.
Qed.

Lemma head_ok_printable t : printable t = true -> head_ok (type_tostring t).
Proof.
  intros H. destruct t as [p s dt|p s|p s t'|p s n t'|p s t'|p s ks l|p s l]; cbn [printable] in H;
    apply orb_true_iff in H as [H|H];
    try (destruct (hardcoded_cases _ H) as [->|[->|[->| ->]]]; apply head_ok_alpha; reflexivity).
  - destruct p; [|discriminate]. destruct s; [|discriminate]. rewrite print_num.
    destruct dt as [[]| | | | | | | |]; try discriminate H; apply head_ok_alpha; reflexivity.
  - destruct p; [|discriminate]. destruct s; [|discriminate]. apply head_ok_alpha. reflexivity.
  - destruct p; [|discriminate]. destruct s; [|discriminate]. rewrite print_list. apply head_ok_alpha. reflexivity.
  - destruct p; [|discriminate]. destruct s; [|discriminate]. rewrite print_reg.
    apply andb_true_iff in H as [Hn _]. apply Z.leb_le in Hn.
    destruct (Z_of_digits_dec n Hn) as (u & Hu & Hnil & _). rewrite Hu.
    destruct (uint_digits_head u Hnil) as (c & r & Hcr & Hd). rewrite Hcr.
    exists c, (r ++ p_star ++ type_tostring t'). split; [reflexivity|].
    unfold is_digit in Hd. apply andb_true_iff in Hd as [H1 H2]. apply Z.leb_le in H1, H2.
    repeat split; apply Z.eqb_neq; lia.
  - destruct p; [|discriminate]. destruct s; [|discriminate]. rewrite print_opt.
    destruct (is_listlike t'); [apply head_ok_alpha; reflexivity|].
    exists 63, (type_tostring t'). repeat split; reflexivity.
  - destruct s; [|destruct p; discriminate H].
    destruct p as [|[k v] p'].
    + destruct ks as [ks|]; [rewrite print_rec|rewrite print_tuple]; eexists; eexists; repeat split; reflexivity.
    + apply andb_true_iff in H as [_ H].
      destruct v as [| | | |w| |]; try discriminate H. destruct p'; [|discriminate H].
      apply andb_true_iff in H as [H Hks]. apply andb_true_iff in H as [H Hres]. apply andb_true_iff in H as [Hk Hn].
      apply bytes_eqb_eq in Hk. subst k. apply negb_true_iff in Hres.
      rewrite (print_named w ks l Hn Hres).
      destruct (is_name_alnum w Hn) as (c & w' & -> & Hc & _). apply head_ok_alpha. exact Hc.
  - destruct p; [|discriminate]. destruct s; [|discriminate]. rewrite print_union. apply head_ok_alpha. reflexivity.
Qed.

(* ---------------------------------------------------------------- the round trip *)
Definition pp (t : rty) : Prop :=
  printable t = true -> forall fuel rest, (rty_size t <= fuel)%nat -> follow_ok rest ->
  parse_ty fuel (type_tostring t ++ rest) = Ok (t, rest).

Lemma hardcoded_pp t : hardcoded t = true -> forall fuel rest, (1 <= fuel)%nat -> follow_ok rest ->
  parse_ty fuel (type_tostring t ++ rest) = Ok (t, rest).
Proof.
  intros H fuel rest Hf Hr. destruct fuel as [|fuel]; [lia|].
  destruct (hardcoded_cases t H) as [->|[->|[->| ->]]].
  - change (type_tostring t_string) with p_string.
    rewrite literal_word_plain; [reflexivity|eexists; eexists; split; reflexivity|reflexivity|exact Hr].
  - change (type_tostring t_bytes) with p_bytes.
    rewrite literal_word_plain; [reflexivity|eexists; eexists; split; reflexivity|reflexivity|exact Hr].
  - change (type_tostring t_char) with p_char.
    rewrite literal_word_plain; [reflexivity|eexists; eexists; split; reflexivity|reflexivity|exact Hr].
  - change (type_tostring t_byte) with p_byte.
    rewrite literal_word_plain; [reflexivity|eexists; eexists; split; reflexivity|reflexivity|exact Hr].
Qed.

Lemma parses_of_pp fuel l :
  Forall pp l -> forallb printable l = true ->
  (fold_right (fun t n => (rty_size t + n)%nat) O l <= fuel)%nat ->
  Forall (parses (parse_ty fuel)) l /\ Forall (fun t => head_ok (type_tostring t)) l /\ (length l <= fuel)%nat.
Proof.
  intros HF Hp Hs. destruct (size_sum_ge l) as [Hlen Hsz].
  split; [|split; [|lia]].
  - apply Forall_forall. intros t Ht rest Hr. rewrite Forall_forall in HF. rewrite forallb_forall in Hp.
    apply (HF t Ht (Hp t Ht)); [specialize (Hsz t Ht); lia|exact Hr].
  - apply Forall_forall. intros t Ht. rewrite forallb_forall in Hp. apply head_ok_printable, Hp, Ht.
Qed.

Theorem parse_print_all t : pp t.
Proof.
  induction t as [p s dt|p s|p s t' IH|p s n t' IH|p s t' IH|p s ks l IH|p s l IH] using rty_ind';
    intros Hp fuel rest Hf Hr; cbn [printable] in Hp;
    apply orb_true_iff in Hp as [Hp|Hp];
    try (apply hardcoded_pp; [exact Hp|pose proof (rty_size_pos (RNum p s dt)); simpl in *; lia|exact Hr]);
    try (apply hardcoded_pp; [exact Hp|simpl in *; lia|exact Hr]).
  - (* primitive *)
    destruct p; [|discriminate]. destruct s; [|discriminate]. rewrite print_num.
    destruct fuel as [|fuel]; [simpl in Hf; lia|].
    destruct dt as [[]| | | | | | | |]; try discriminate Hp;
      (rewrite literal_word_plain; [reflexivity|eexists; eexists; split; reflexivity|reflexivity|exact Hr]).
  - (* unknown *)
    destruct p; [|discriminate]. destruct s; [|discriminate]. rewrite print_unk.
    destruct fuel as [|fuel]; [simpl in Hf; lia|].
    rewrite literal_word_plain; [reflexivity|eexists; eexists; split; reflexivity|reflexivity|exact Hr].
  - (* var * T *)
    destruct p; [|discriminate]. destruct s; [|discriminate]. rewrite print_list.
    destruct fuel as [|fuel]; [simpl in Hf; lia|]. simpl in Hf.
    rewrite <- !app_assoc.
    rewrite parse_ty_word; [|eexists; eexists; split; reflexivity|reflexivity|reflexivity].
    rewrite word_branch_plain by reflexivity.
    unfold plain_word. change (bytes_eqb w_var w_var) with true. cbv iota. rewrite strip_prefix_app.
    rewrite (IH Hp fuel rest) by (try lia; exact Hr). reflexivity.
  - (* N * T *)
    destruct p; [|discriminate]. destruct s; [|discriminate]. rewrite print_reg.
    apply andb_true_iff in Hp as [Hn Hp]. apply Z.leb_le in Hn.
    destruct fuel as [|fuel]; [simpl in Hf; lia|]. simpl in Hf.
    destruct (Z_of_digits_dec n Hn) as (u & Hu & Hnil & Hval). rewrite Hu.
    destruct (uint_digits_head u Hnil) as (c & r & Hcr & Hd).
    rewrite <- !app_assoc.
    rewrite parse_ty_num by (exists c, r; split; [exact Hcr|exact Hd]).
    unfold num_branch. rewrite (span_word is_digit _ _ (uint_digits_digits u)) by reflexivity.
    rewrite strip_prefix_app. rewrite (IH Hp fuel rest) by (try lia; exact Hr).
    cbn [bind fst snd]. rewrite Hval. reflexivity.
  - (* option *)
    destruct p; [|discriminate]. destruct s; [|discriminate]. rewrite print_opt.
    destruct fuel as [|fuel]; [simpl in Hf; lia|]. simpl in Hf.
    destruct (is_listlike t') eqn:El.
    + rewrite <- !app_assoc. cbn [app].
      rewrite parse_ty_word; [|eexists; eexists; split; reflexivity|reflexivity|reflexivity].
      unfold word_branch. change (91 =? 91) with true. cbv iota.
      unfold bracket_branch. change (bytes_eqb w_option w_option) with true. cbv iota.
      rewrite <- app_assoc. cbn [app].
      rewrite (IH Hp fuel (93 :: rest)) by (try lia; simpl; auto).
      cbn [bind fst snd]. change (93 =? 93) with true. cbv iota. rewrite El. reflexivity.
    + change (parse_ty (S fuel) ((63 :: type_tostring t') ++ rest))
        with (opt_branch (parse_ty fuel) (type_tostring t' ++ rest)).
      unfold opt_branch. rewrite (IH Hp fuel rest) by (try lia; exact Hr).
      cbn [bind fst snd]. rewrite El. reflexivity.
  - (* records and tuples *)
    destruct s; [|destruct p; discriminate Hp].
    destruct fuel as [|fuel]; [simpl in Hf; lia|]. simpl in Hf.
    apply andb_true_iff in Hp as [Hp Hpar]. apply andb_true_iff in Hp as [Hpl Hks].
    destruct (parses_of_pp fuel l IH Hpl ltac:(lia)) as (Hparses & Hheads & Hlen).
    destruct p as [|[k v] p'].
    + destruct ks as [ks|].
      * apply andb_true_iff in Hks as [Hl Hkeys]. apply Nat.eqb_eq in Hl.
        rewrite print_rec, (keyed_map ks l Hl).
        change (parse_ty (S fuel) ((123 :: ?x) ++ rest)) with (brace_branch (parse_ty fuel) fuel (x ++ rest)).
        unfold brace_branch. rewrite <- app_assoc. cbn [app].
        destruct (zip_fst_snd ks l Hl) as [E1 E2].
        rewrite (parse_fielditems_ok (parse_ty fuel) 125 (or_intror eq_refl) (zip ks l) fuel rest).
        -- cbn [bind fst snd]. rewrite E1, E2. reflexivity.
        -- apply Forall_forall. intros [k0 t0] Hin. simpl. rewrite Forall_forall in Hparses. apply Hparses.
           rewrite <- E2. apply (in_map snd _ _ Hin).
        -- rewrite E1. exact Hkeys.
        -- assert (length (zip ks l) = length l) by (rewrite <- E2 at 2; rewrite map_length; reflexivity). lia.
      * rewrite print_tuple.
        change (parse_ty (S fuel) ((40 :: ?x) ++ rest)) with (paren_branch (parse_ty fuel) fuel (x ++ rest)).
        unfold paren_branch. rewrite <- app_assoc. cbn [app].
        rewrite (parse_items_ok (parse_ty fuel) 41 (or_intror (or_introl eq_refl)) l fuel rest Hparses Hheads Hlen).
        reflexivity.
    + (* named *)
      destruct v as [| | | |w| |]; try discriminate Hpar. destruct p'; [|discriminate Hpar].
      apply andb_true_iff in Hpar as [Hpar Hempty]. apply andb_true_iff in Hpar as [Hpar Hres].
      apply andb_true_iff in Hpar as [Hk Hn].
      apply bytes_eqb_eq in Hk. subst k. apply negb_true_iff in Hres.
      rewrite (print_named w ks l Hn Hres).
      destruct (is_name_alnum w Hn) as (c & w' & Hw & Hc & Hall & _).
      rewrite <- !app_assoc. cbn [app]. rewrite <- ?app_assoc. cbn [app].
      rewrite parse_ty_word; [|exists c, w'; split; [exact Hw|exact Hc]|exact Hall|reflexivity].
      unfold word_branch. change (91 =? 91) with true. cbv iota.
      unfold bracket_branch.
      assert (Hno : bytes_eqb w w_option = false /\ bytes_eqb w w_union = false).
      { assert (Hall' : forall x, In x reserved_words -> bytes_eqb w x = false).
        { intros x Hx. destruct (bytes_eqb w x) eqn:E; [|reflexivity].
          assert (existsb (bytes_eqb w) reserved_words = true) by (apply existsb_exists; exists x; auto). congruence. }
        split; apply Hall'; vm_compute; tauto. }
      destruct Hno as [Ho Hu]. rewrite Ho, Hu, Hres.
      destruct ks as [ks|].
      * apply andb_true_iff in Hks as [Hl Hkeys]. apply Nat.eqb_eq in Hl.
        rewrite (keyed_map ks l Hl). destruct (zip_fst_snd ks l Hl) as [E1 E2].
        destruct (zip ks l) as [|[k0 t0] kts] eqn:Ez.
        -- simpl in E1, E2. subst ks l. cbn [map sep_concat app]. change (93 =? 34) with false. change (93 =? 93) with true. reflexivity.
        -- assert (Hhead : exists r', sep_concat p_comma (map (fun kt : bytes * rty => quote (fst kt) ++ p_colon ++ type_tostring (snd kt)) ((k0, t0) :: kts)) ++ 93 :: rest = 34 :: r').
           { cbn [map fst snd]. destruct (map _ kts); cbn [sep_concat]; unfold quote; cbn [app]; eexists; reflexivity. }
           destruct Hhead as (r' & Hr'). rewrite Hr'. change (34 =? 34) with true. cbv iota. rewrite <- Hr'.
           rewrite (parse_fields_ok (parse_ty fuel) 93 (or_introl eq_refl) ((k0, t0) :: kts) fuel rest).
           ++ cbn [bind fst snd]. rewrite E1, E2. reflexivity.
           ++ discriminate.
           ++ apply Forall_forall. intros [k1 t1] Hin. simpl. rewrite Forall_forall in Hparses. apply Hparses.
              rewrite <- E2. apply (in_map snd _ _ Hin).
           ++ rewrite E1. exact Hkeys.
           ++ assert (length ((k0, t0) :: kts) = length l) by (rewrite <- E2; rewrite map_length; reflexivity). lia.
      * destruct l as [|t0 l0]; [discriminate Hempty|].
        inversion Hheads as [|? ? (c0 & r0 & Hs0 & H93 & H41 & H125 & H34) _]; subst.
        assert (Hhead : exists r', sep_concat p_comma (map type_tostring (t0 :: l0)) ++ 93 :: rest = c0 :: r').
        { cbn [map]. destruct (map type_tostring l0); cbn [sep_concat]; rewrite Hs0; eexists; reflexivity. }
        destruct Hhead as (r' & Hr'). rewrite Hr'. rewrite H34, H93. rewrite <- Hr'.
        rewrite (parse_list_ok (parse_ty fuel) 93 (or_introl eq_refl) (t0 :: l0) fuel rest); [reflexivity|discriminate|exact Hparses|exact Hlen].
  - (* union *)
    destruct p; [|discriminate]. destruct s; [|discriminate]. rewrite print_union.
    destruct fuel as [|fuel]; [simpl in Hf; lia|]. simpl in Hf.
    destruct (parses_of_pp fuel l IH Hp ltac:(lia)) as (Hparses & Hheads & Hlen).
    rewrite <- !app_assoc. cbn [app].
    rewrite parse_ty_word; [|eexists; eexists; split; reflexivity|reflexivity|reflexivity].
    unfold word_branch. change (91 =? 91) with true. cbv iota.
    unfold bracket_branch. change (bytes_eqb w_union w_option) with false. change (bytes_eqb w_union w_union) with true. cbv iota.
    rewrite <- app_assoc. cbn [app].
    rewrite (parse_items_ok (parse_ty fuel) 93 (or_introl eq_refl) l fuel rest Hparses Hheads Hlen). reflexivity.
Qed.

(* ---------------------------------------------------------------- enough fuel: a printed type is at least as long as it is big *)
Lemma sep_concat_length (sep : bytes) (parts : list bytes) :
  (fold_right (fun p n => (length p + n)%nat) O parts <= length (sep_concat sep parts))%nat.
Proof.
  induction parts as [|p parts IH]; [simpl; lia|].
  destruct parts as [|q parts]; [simpl; lia|].
  rewrite sep_concat_cons2. rewrite !app_length. simpl fold_right in *. lia.
Qed.

Lemma sum_sizes_le (l : list rty) :
  Forall (fun t => printable t = true -> (rty_size t <= length (type_tostring t))%nat) l ->
  forallb printable l = true ->
  (fold_right (fun t n => (rty_size t + n)%nat) O l <=
   fold_right (fun p n => (length p + n)%nat) O (map type_tostring l))%nat.
Proof.
  induction 1 as [|t l Ht Hl IH]; intros Hp; simpl; [lia|].
  simpl in Hp. apply andb_true_iff in Hp as [H1 H2]. specialize (Ht H1). specialize (IH H2). lia.
Qed.

Lemma keyed_lengths ks (l : list rty) : length ks = length l ->
  (fold_right (fun p n => (length p + n)%nat) O (map type_tostring l) <=
   fold_right (fun p n => (length p + n)%nat) O (keyed ks (map type_tostring l)))%nat.
Proof.
  revert l. induction ks as [|k ks IH]; intros [|t l] H; try discriminate H; [simpl; lia|].
  assert (Hl : length ks = length l) by (simpl in H; lia).
  specialize (IH l Hl). cbn [map keyed fold_right]. rewrite !app_length.
  remember (fold_right (fun p n => (length p + n)%nat) O (map type_tostring l)) as a.
  remember (fold_right (fun p n => (length p + n)%nat) O (keyed ks (map type_tostring l))) as b.
  lia.
Qed.

Lemma size_le_print t : printable t = true -> (rty_size t <= length (type_tostring t))%nat.
Proof.
  induction t as [p s dt|p s|p s t' IH|p s n t' IH|p s t' IH|p s ks l IH|p s l IH] using rty_ind';
    intros Hp; cbn [printable] in Hp; apply orb_true_iff in Hp as [Hp|Hp];
    try (destruct (hardcoded_cases _ Hp) as [E|[E|[E|E]]]; rewrite E; vm_compute; lia).
  - destruct p; [|discriminate]. destruct s; [|discriminate]. rewrite print_num.
    destruct dt as [[]| | | | | | | |]; try discriminate Hp; vm_compute; lia.
  - destruct p; [|discriminate]. destruct s; [|discriminate]. vm_compute. lia.
  - destruct p; [|discriminate]. destruct s; [|discriminate]. rewrite print_list, !app_length.
    specialize (IH Hp). simpl rty_size. change (length w_var) with 3%nat. change (length p_star) with 3%nat. lia.
  - destruct p; [|discriminate]. destruct s; [|discriminate]. rewrite print_reg, !app_length.
    apply andb_true_iff in Hp as [_ Hp]. specialize (IH Hp). simpl rty_size. change (length p_star) with 3%nat. lia.
  - destruct p; [|discriminate]. destruct s; [|discriminate]. rewrite print_opt. specialize (IH Hp).
    destruct (is_listlike t'); simpl rty_size.
    + rewrite app_length. change (length w_option) with 6%nat. cbn [length]. rewrite app_length. cbn [length]. lia.
    + cbn [length]. lia.
  - destruct s; [|destruct p; discriminate Hp].
    apply andb_true_iff in Hp as [Hp Hpar]. apply andb_true_iff in Hp as [Hpl Hks].
    pose proof (sum_sizes_le l IH Hpl) as Hsum. simpl rty_size.
    destruct p as [|[k v] p'].
    + destruct ks as [ks|].
      * apply andb_true_iff in Hks as [Hl _]. apply Nat.eqb_eq in Hl.
        rewrite print_rec. cbn [length]. rewrite app_length. cbn [length].
        pose proof (sep_concat_length p_comma (keyed ks (map type_tostring l))).
        pose proof (keyed_lengths ks l Hl). lia.
      * rewrite print_tuple. cbn [length]. rewrite app_length. cbn [length].
        pose proof (sep_concat_length p_comma (map type_tostring l)). lia.
    + destruct v as [| | | |w| |]; try discriminate Hpar. destruct p'; [|discriminate Hpar].
      apply andb_true_iff in Hpar as [Hpar _]. apply andb_true_iff in Hpar as [Hpar Hres].
      apply andb_true_iff in Hpar as [Hk Hn]. apply bytes_eqb_eq in Hk. subst k. apply negb_true_iff in Hres.
      rewrite (print_named w ks l Hn Hres). rewrite app_length. cbn [length]. rewrite app_length. cbn [length].
      destruct ks as [ks|].
      * apply andb_true_iff in Hks as [Hl _]. apply Nat.eqb_eq in Hl.
        pose proof (sep_concat_length p_comma (keyed ks (map type_tostring l))).
        pose proof (keyed_lengths ks l Hl). lia.
      * pose proof (sep_concat_length p_comma (map type_tostring l)). lia.
  - destruct p; [|discriminate]. destruct s; [|discriminate]. rewrite print_union.
    pose proof (sum_sizes_le l IH Hp) as Hsum. simpl rty_size.
    rewrite app_length. change (length w_union) with 5%nat. cbn [length]. rewrite app_length. cbn [length].
    pose proof (sep_concat_length p_comma (map type_tostring l)). lia.
Qed.

Theorem type_print_parse_roundtrip_thm t : printable t = true -> type_parse (type_tostring t) = Ok t.
Proof.
  intros Hp. unfold type_parse.
  rewrite <- (app_nil_r (type_tostring t)) at 2.
  rewrite (parse_print_all t Hp (S (length (type_tostring t))) []).
  - reflexivity.
  - pose proof (size_le_print t Hp). lia.
  - exact I.
Qed.
