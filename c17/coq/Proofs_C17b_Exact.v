(** C17 proofs, part 6: the fragment [printable] is EXACTLY the set of types on which the printer and the reference
    parser [type_parse] agree: everything the parser returns is printable (so a type outside the fragment never
    comes back), the parser result re-prints to a string that parses to the same type, the printer is injective on
    the fragment, and witnesses that each excluded shape really fails (with the open finding it corresponds to). *)
From Coq Require Import ZArith List Bool Lia.
From AwkV Require Import Base Layout.
From AwkTypes Require Import Json Forms TypeStr Proofs_Json Proofs_Parse.
Import ListNotations.
Open Scope Z_scope.

(* ---------------------------------------------------------------- byte strings stay byte strings *)
Definition byte_ok (c : Z) : bool := (0 <=? c) && (c <=? 255).
Lemma key_ok_unfold k : key_ok k = forallb byte_ok k.
Proof. reflexivity. Qed.
Lemma key_ok_cons c k : key_ok (c :: k) = byte_ok c && key_ok k.
Proof. reflexivity. Qed.
Lemma key_ok_app a b : key_ok (a ++ b) = key_ok a && key_ok b.
Proof. unfold key_ok. apply forallb_app. Qed.

Lemma span_spec (f : Z -> bool) s : forall a b, span f s = (a, b) -> s = a ++ b /\ forallb f a = true.
Proof.
  induction s as [|c r IH]; intros a b H; simpl in H.
  - inversion H. split; reflexivity.
  - destruct (f c) eqn:E.
    + destruct (span f r) as [a' b'] eqn:Es. inversion H; subst. destruct (IH a' b eq_refl) as [-> Hf].
      split; [reflexivity|]. simpl. rewrite E. exact Hf.
    + inversion H. split; reflexivity.
Qed.

Lemma span_key_ok (f : Z -> bool) s a b : span f s = (a, b) -> key_ok s = true -> key_ok a = true /\ key_ok b = true.
Proof.
  intros H Hk. destruct (span_spec f s a b H) as [-> _]. rewrite key_ok_app in Hk. apply andb_true_iff in Hk. exact Hk.
Qed.

Lemma strip_prefix_key_ok p : forall s r, strip_prefix p s = Some r -> key_ok s = true -> key_ok r = true.
Proof.
  induction p as [|x p IH]; intros s r H Hk; simpl in H.
  - inversion H. subst. exact Hk.
  - destruct s as [|y s]; [discriminate|]. destruct (x =? y); [|discriminate].
    rewrite key_ok_cons in Hk. apply andb_true_iff in Hk as [_ Hk]. exact (IH s r H Hk).
Qed.

Lemma unhex_range c a : unhex c = Some a -> 0 <= a < 16.
Proof.
  unfold unhex, is_digit. destruct ((48 <=? c) && (c <=? 57)) eqn:E.
  - intros H. inversion H. apply andb_true_iff in E as [E1 E2]. apply Z.leb_le in E1, E2. lia.
  - destruct ((65 <=? c) && (c <=? 70)) eqn:E'; [|discriminate].
    intros H. inversion H. apply andb_true_iff in E' as [E1 E2]. apply Z.leb_le in E1, E2. lia.
Qed.

Lemma byte_ok_of x : 0 <= x <= 255 -> byte_ok x = true.
Proof. intros H. unfold byte_ok. apply andb_true_iff. split; apply Z.leb_le; lia. Qed.

Lemma unquote_body_key_ok fuel : forall s k r,
  unquote_body fuel s = Ok (k, r) -> key_ok s = true -> key_ok k = true /\ key_ok r = true.
Proof.
  induction fuel as [|fuel IH]; intros s k r H Hk; [discriminate|].
  destruct s as [|c s]; [discriminate|]. cbn [unquote_body] in H.
  rewrite key_ok_cons in Hk. apply andb_true_iff in Hk as [Hc Hk].
  assert (Hcont : forall x s', byte_ok x = true -> key_ok s' = true ->
            (do xr <- unquote_body fuel s'; Ok (x :: fst xr, snd xr)) = Ok (k, r) -> key_ok k = true /\ key_ok r = true).
  { intros x s' Hx Hs' Hb. destruct (unquote_body fuel s') as [[k' r']|e] eqn:E; [|discriminate].
    cbn [bind fst snd] in Hb. inversion Hb; subst. destruct (IH s' k' r E Hs') as [H1 H2].
    rewrite key_ok_cons, Hx, H1. split; [reflexivity|exact H2]. }
  destruct (c =? 34).
  { inversion H; subst. split; [reflexivity|exact Hk]. }
  destruct (c =? 92).
  { destruct s as [|e s1]; [discriminate|]. rewrite key_ok_cons in Hk. apply andb_true_iff in Hk as [_ Hk1].
    destruct (e =? 34); [exact (Hcont 34 _ eq_refl Hk1 H)|].
    destruct (e =? 92); [exact (Hcont 92 _ eq_refl Hk1 H)|].
    destruct (e =? 98); [exact (Hcont 8 _ eq_refl Hk1 H)|].
    destruct (e =? 102); [exact (Hcont 12 _ eq_refl Hk1 H)|].
    destruct (e =? 110); [exact (Hcont 10 _ eq_refl Hk1 H)|].
    destruct (e =? 114); [exact (Hcont 13 _ eq_refl Hk1 H)|].
    destruct (e =? 116); [exact (Hcont 9 _ eq_refl Hk1 H)|].
    destruct (e =? 117); [|discriminate].
    destruct s1 as [|z1 [|z2 [|h [|l r2]]]]; try discriminate.
    destruct ((z1 =? 48) && (z2 =? 48)); [|discriminate].
    destruct (unhex h) as [a|] eqn:Ea; [|discriminate]. destruct (unhex l) as [b|] eqn:Eb; [|discriminate].
    destruct (a * 16 + b <? 32) eqn:E32; [|discriminate].
    apply unhex_range in Ea, Eb. apply Z.ltb_lt in E32.
    repeat (rewrite key_ok_cons in Hk1; apply andb_true_iff in Hk1 as [_ Hk1]).
    refine (Hcont _ _ _ Hk1 H). apply byte_ok_of. lia. }
  destruct (c <? 32); [discriminate|]. exact (Hcont _ _ Hc Hk H).
Qed.

Lemma unquote_key_ok s k r : unquote s = Ok (k, r) -> key_ok s = true -> key_ok k = true /\ key_ok r = true.
Proof.
  unfold unquote. destruct s as [|c s]; [discriminate|]. destruct (c =? 34); [|discriminate].
  intros H Hk. rewrite key_ok_cons in Hk. apply andb_true_iff in Hk as [_ Hk].
  exact (unquote_body_key_ok _ _ _ _ H Hk).
Qed.

(* ---------------------------------------------------------------- what a sub-parser guarantees *)
Definition img (sub : bytes -> res (rty * bytes)) : Prop :=
  forall s t r, sub s = Ok (t, r) -> key_ok s = true -> printable t = true /\ key_ok r = true.

Lemma res_pair {A B} (x : A * B) : x = (fst x, snd x).
Proof. destruct x; reflexivity. Qed.

Section Image.
  Variable sub : bytes -> res (rty * bytes).
  Hypothesis Hsub : img sub.

  Lemma parse_list_img close : forall fuel s l r,
    parse_list sub fuel close s = Ok (l, r) -> key_ok s = true ->
    forallb printable l = true /\ key_ok r = true /\ l <> [].
  Proof.
    induction fuel as [|fuel IH]; intros s l r H Hk; [discriminate|]. cbn [parse_list] in H.
    destruct (sub s) as [[t r1]|e] eqn:E; [|discriminate]. cbn [bind fst snd] in H.
    destruct (Hsub _ _ _ E Hk) as [Ht Hr1].
    destruct r1 as [|c' r']; [discriminate|].
    destruct (c' =? close).
    - inversion H; subst. rewrite key_ok_cons in Hr1. apply andb_true_iff in Hr1 as [_ Hr1].
      simpl. rewrite Ht. repeat split; [exact Hr1|discriminate].
    - destruct (strip_prefix p_comma (c' :: r')) as [rest|] eqn:Es; [|discriminate].
      pose proof (strip_prefix_key_ok _ _ _ Es Hr1) as Hrest.
      destruct (parse_list sub fuel close rest) as [[l' r2]|e] eqn:El; [|discriminate].
      cbn [bind fst snd] in H. inversion H; subst.
      destruct (IH _ _ _ El Hrest) as (Hl' & Hr2 & _). simpl. rewrite Ht, Hl'. repeat split; [exact Hr2|discriminate].
  Qed.

  Lemma parse_items_img close fuel s l r :
    parse_items sub fuel close s = Ok (l, r) -> key_ok s = true -> forallb printable l = true /\ key_ok r = true.
  Proof.
    unfold parse_items. destruct s as [|c s']; [discriminate|]. intros H Hk. destruct (c =? close).
    - inversion H; subst. rewrite key_ok_cons in Hk. apply andb_true_iff in Hk as [_ Hk]. split; [reflexivity|exact Hk].
    - destruct (parse_list_img _ _ _ _ _ H Hk) as (H1 & H2 & _). split; assumption.
  Qed.

  Lemma parse_fields_img close : forall fuel s l r,
    parse_fields sub fuel close s = Ok (l, r) -> key_ok s = true ->
    forallb printable (map snd l) = true /\ forallb key_ok (map fst l) = true /\ key_ok r = true.
  Proof.
    induction fuel as [|fuel IH]; intros s l r H Hk; [discriminate|]. cbn [parse_fields] in H.
    destruct (unquote s) as [[k r0]|e] eqn:Eq; [|discriminate]. cbn [bind fst snd] in H.
    destruct (unquote_key_ok _ _ _ Eq Hk) as [Hkk Hr0].
    destruct (strip_prefix p_colon r0) as [s1|] eqn:Ec; [|discriminate].
    pose proof (strip_prefix_key_ok _ _ _ Ec Hr0) as Hs1.
    destruct (sub s1) as [[t r1]|e] eqn:E; [|discriminate]. cbn [bind fst snd] in H.
    destruct (Hsub _ _ _ E Hs1) as [Ht Hr1].
    destruct r1 as [|c' r']; [discriminate|].
    destruct (c' =? close).
    - inversion H; subst. rewrite key_ok_cons in Hr1. apply andb_true_iff in Hr1 as [_ Hr1].
      simpl. rewrite Ht, Hkk. repeat split; exact Hr1.
    - destruct (strip_prefix p_comma (c' :: r')) as [rest|] eqn:Es; [|discriminate].
      pose proof (strip_prefix_key_ok _ _ _ Es Hr1) as Hrest.
      destruct (parse_fields sub fuel close rest) as [[l' r2]|e] eqn:El; [|discriminate].
      cbn [bind fst snd] in H. inversion H; subst.
      destruct (IH _ _ _ El Hrest) as (Hl1 & Hl2 & Hr2). simpl. rewrite Ht, Hkk, Hl1, Hl2. repeat split; exact Hr2.
  Qed.

  Lemma parse_fielditems_img close fuel s l r :
    parse_fielditems sub fuel close s = Ok (l, r) -> key_ok s = true ->
    forallb printable (map snd l) = true /\ forallb key_ok (map fst l) = true /\ key_ok r = true.
  Proof.
    unfold parse_fielditems. destruct s as [|c s']; [discriminate|]. intros H Hk. destruct (c =? close).
    - inversion H; subst. rewrite key_ok_cons in Hk. apply andb_true_iff in Hk as [_ Hk]. repeat split; exact Hk.
    - exact (parse_fields_img _ _ _ _ _ H Hk).
  Qed.
End Image.

Lemma map_fst_snd_len {A B} (l : list (A * B)) : Nat.eqb (length (map fst l)) (length (map snd l)) = true.
Proof. rewrite !map_length. apply Nat.eqb_refl. Qed.

Lemma Z_of_digits_nonneg ds : forallb is_digit ds = true -> 0 <= Z_of_digits ds.
Proof.
  unfold Z_of_digits. assert (G : forall acc, 0 <= acc -> forallb is_digit ds = true ->
                                   0 <= fold_left (fun a d => a * 10 + (d - 48)) ds acc).
  { induction ds as [|d ds IH]; intros acc Ha Hd; simpl; [exact Ha|].
    simpl in Hd. apply andb_true_iff in Hd as [Hd1 Hd2]. apply IH; [|exact Hd2].
    unfold is_digit in Hd1. apply andb_true_iff in Hd1 as [H1 H2]. apply Z.leb_le in H1, H2. lia. }
  apply G. lia.
Qed.

Lemma hardcoded_printable t : hardcoded t = true -> printable t = true.
Proof. intros H. destruct t; cbn [printable]; rewrite H; reflexivity. Qed.

Lemma prim_of_name_prim w dt : prim_of_name w = Some dt -> fdtype_eqb dt FNotPrimitive = false.
Proof.
  unfold prim_of_name. intros H. apply find_some in H as [Hin _].
  unfold primitive_names in Hin. simpl in Hin.
  repeat (destruct Hin as [<-|Hin]; [reflexivity|]). destruct Hin.
Qed.

(* printable of the results the parser builds *)
Lemma printable_list t : printable (RList [] [] t) = printable t.
Proof. reflexivity. Qed.
Lemma printable_reg n t : printable (RReg [] [] n t) = (0 <=? n) && printable t.
Proof. reflexivity. Qed.
Lemma printable_opt t : printable (ROpt [] [] t) = printable t.
Proof. reflexivity. Qed.
Lemma printable_union l : printable (RUnion [] [] l) = forallb printable l.
Proof. reflexivity. Qed.
Lemma printable_rec0 ks l : printable (RRec [] [] ks l) =
  forallb printable l && match ks with Some ks => Nat.eqb (length ks) (length l) && forallb key_ok ks | None => true end && true.
Proof. reflexivity. Qed.
Lemma printable_named w ks l : printable (RRec [(k_record, JStr w)] [] ks l) =
  forallb printable l && match ks with Some ks => Nat.eqb (length ks) (length l) && forallb key_ok ks | None => true end &&
  (bytes_eqb k_record k_record && is_name w && negb (existsb (bytes_eqb w) reserved_words) &&
   match ks, l with None, [] => false | _, _ => true end).
Proof. reflexivity. Qed.

Lemma span_alpha_name c r w rest : is_alpha_ c = true -> span is_alnum_ (c :: r) = (w, rest) -> is_name w = true.
Proof.
  intros Hc H. destruct (alpha_tests c Hc) as (_ & _ & _ & _ & Ha). cbn [span] in H. rewrite Ha in H.
  destruct (span is_alnum_ r) as [a b] eqn:Es. inversion H; subst.
  destruct (span_spec _ _ _ _ Es) as [_ Hall]. simpl. rewrite Hc, Hall. reflexivity.
Qed.

Theorem parse_ty_img : forall fuel, img (parse_ty fuel).
Proof.
  induction fuel as [|fuel IH]; intros s t r H Hk; [discriminate|].
  destruct s as [|c s']; [discriminate|]. cbn [parse_ty] in H.
  assert (Hk' : key_ok s' = true) by (rewrite key_ok_cons in Hk; apply andb_true_iff in Hk; tauto).
  destruct (c =? 63).
  { unfold opt_branch in H. destruct (parse_ty fuel s') as [[t1 r1]|e] eqn:E; [|discriminate]. cbn [bind fst snd] in H.
    destruct (is_listlike t1); [discriminate|]. inversion H; subst. rewrite printable_opt. exact (IH _ _ _ E Hk'). }
  destruct (c =? 123).
  { unfold brace_branch in H. destruct (parse_fielditems (parse_ty fuel) fuel 125 s') as [[l r1]|e] eqn:E; [|discriminate].
    cbn [bind fst snd] in H. inversion H; subst.
    destruct (parse_fielditems_img _ IH _ _ _ _ _ E Hk') as (H1 & H2 & H3).
    rewrite printable_rec0, H1, H2, map_fst_snd_len. split; [reflexivity|exact H3]. }
  destruct (c =? 40).
  { unfold paren_branch in H. destruct (parse_items (parse_ty fuel) fuel 41 s') as [[l r1]|e] eqn:E; [|discriminate].
    cbn [bind fst snd] in H. inversion H; subst.
    destruct (parse_items_img _ IH _ _ _ _ _ E Hk') as (H1 & H2).
    rewrite printable_rec0, H1. split; [reflexivity|exact H2]. }
  destruct (is_digit c) eqn:Ed.
  { unfold num_branch in H. destruct (span is_digit (c :: s')) as [ds rest] eqn:Es.
    destruct (span_key_ok _ _ _ _ Es Hk) as [_ Hrest]. destruct (span_spec _ _ _ _ Es) as [_ Hds].
    destruct (strip_prefix p_star rest) as [rest'|] eqn:Ep; [|discriminate].
    pose proof (strip_prefix_key_ok _ _ _ Ep Hrest) as Hrest'.
    destruct (parse_ty fuel rest') as [[t1 r1]|e] eqn:E; [|discriminate]. cbn [bind fst snd] in H. inversion H; subst.
    destruct (IH _ _ _ E Hrest') as [Ht Hr]. rewrite printable_reg, Ht.
    replace (0 <=? Z_of_digits ds) with true by (symmetry; apply Z.leb_le, Z_of_digits_nonneg, Hds).
    split; [reflexivity|exact Hr]. }
  destruct (is_alpha_ c) eqn:Ea; [|discriminate].
  destruct (span is_alnum_ (c :: s')) as [w rest] eqn:Es.
  destruct (span_key_ok _ _ _ _ Es Hk) as [Hw Hrest].
  pose proof (span_alpha_name _ _ _ _ Ea Es) as Hname.
  assert (Hplain : forall rest0, key_ok rest0 = true -> plain_word (parse_ty fuel) w rest0 = Ok (t, r) ->
                     printable t = true /\ key_ok r = true).
  { intros rest0 Hrest0 Hp. unfold plain_word in Hp.
    destruct (bytes_eqb w w_var).
    { destruct (strip_prefix p_star rest0) as [rest'|] eqn:Ep; [|discriminate].
      pose proof (strip_prefix_key_ok _ _ _ Ep Hrest0) as Hrest'.
      destruct (parse_ty fuel rest') as [[t1 r1]|e] eqn:E; [|discriminate]. cbn [bind fst snd] in Hp. inversion Hp; subst.
      rewrite printable_list. exact (IH _ _ _ E Hrest'). }
    destruct (bytes_eqb w p_string); [inversion Hp; subst; split; [reflexivity|exact Hrest0]|].
    destruct (bytes_eqb w p_bytes); [inversion Hp; subst; split; [reflexivity|exact Hrest0]|].
    destruct (bytes_eqb w p_char); [inversion Hp; subst; split; [reflexivity|exact Hrest0]|].
    destruct (bytes_eqb w p_byte); [inversion Hp; subst; split; [reflexivity|exact Hrest0]|].
    destruct (bytes_eqb w n_unknown); [inversion Hp; subst; split; [reflexivity|exact Hrest0]|].
    destruct (prim_of_name w) as [dt|] eqn:Epn; [|discriminate]. inversion Hp; subst.
    split; [|exact Hrest0]. cbn [printable hardcoded orb]. rewrite (prim_of_name_prim _ _ Epn). reflexivity. }
  unfold word_branch in H. destruct rest as [|c1 rest1]; [exact (Hplain [] eq_refl H)|].
  destruct (c1 =? 91); [|exact (Hplain _ Hrest H)].
  assert (Hrest1 : key_ok rest1 = true) by (rewrite key_ok_cons in Hrest; apply andb_true_iff in Hrest; tauto).
  unfold bracket_branch in H.
  destruct (bytes_eqb w w_option).
  { destruct (parse_ty fuel rest1) as [[t1 r1]|e] eqn:E; [|discriminate]. cbn [bind fst snd] in H.
    destruct r1 as [|c2 rest2]; [discriminate|]. destruct (c2 =? 93); [|discriminate].
    destruct (is_listlike t1); [|discriminate]. inversion H; subst.
    destruct (IH _ _ _ E Hrest1) as [Ht Hr]. rewrite printable_opt, Ht.
    rewrite key_ok_cons in Hr. apply andb_true_iff in Hr as [_ Hr]. split; [reflexivity|exact Hr]. }
  destruct (bytes_eqb w w_union).
  { destruct (parse_items (parse_ty fuel) fuel 93 rest1) as [[l r1]|e] eqn:E; [|discriminate].
    cbn [bind fst snd] in H. inversion H; subst.
    destruct (parse_items_img _ IH _ _ _ _ _ E Hrest1) as (H1 & H2). rewrite printable_union. split; assumption. }
  destruct (existsb (bytes_eqb w) reserved_words) eqn:Eres; [discriminate|].
  destruct rest1 as [|c2 rest2]; [discriminate|].
  destruct (c2 =? 34).
  { destruct (parse_fields (parse_ty fuel) fuel 93 (c2 :: rest2)) as [[l r1]|e] eqn:E; [|discriminate].
    cbn [bind fst snd] in H. inversion H; subst.
    destruct (parse_fields_img _ IH _ _ _ _ _ E Hrest1) as (H1 & H2 & H3).
    rewrite printable_named, H1, H2, map_fst_snd_len, bytes_eqb_refl, Hname, Eres. split; [reflexivity|exact H3]. }
  destruct (c2 =? 93).
  { inversion H; subst. rewrite printable_named, bytes_eqb_refl, Hname, Eres.
    rewrite key_ok_cons in Hrest1. apply andb_true_iff in Hrest1 as [_ Hrest1]. split; [reflexivity|exact Hrest1]. }
  destruct (parse_list (parse_ty fuel) fuel 93 (c2 :: rest2)) as [[l r1]|e] eqn:E; [|discriminate].
  cbn [bind fst snd] in H. inversion H; subst.
  destruct (parse_list_img _ IH _ _ _ _ _ E Hrest1) as (H1 & H2 & H3).
  rewrite printable_named, H1, bytes_eqb_refl, Hname, Eres.
  split; [|exact H2]. destruct l; [congruence|reflexivity].
Qed.

(* everything the reference parser returns lies in the fragment *)
Theorem type_parse_printable_thm s t : key_ok s = true -> type_parse s = Ok t -> printable t = true.
Proof.
  unfold type_parse. intros Hk H.
  destruct (parse_ty (S (length s)) s) as [[t1 r1]|e] eqn:E; [|discriminate]. cbn [bind fst snd] in H.
  destruct r1; [|discriminate]. inversion H; subst. exact (proj1 (parse_ty_img _ _ _ _ E Hk)).
Qed.

(* the fragment is exact: a type comes back from its own string if and only if it is printable *)
Theorem type_roundtrip_exact_thm t : key_ok (type_tostring t) = true ->
  (type_parse (type_tostring t) = Ok t <-> printable t = true).
Proof.
  intros Hk. split.
  - exact (type_parse_printable_thm _ _ Hk).
  - exact (type_print_parse_roundtrip_thm t).
Qed.

(* a string the parser accepts denotes a type that survives a further print / parse *)
Theorem type_parse_print_parse_thm s t : key_ok s = true -> type_parse s = Ok t -> type_parse (type_tostring t) = Ok t.
Proof. intros Hk H. apply type_print_parse_roundtrip_thm. exact (type_parse_printable_thm s t Hk H). Qed.

(* the printer is injective on the fragment *)
Theorem type_tostring_injective_thm t1 t2 :
  printable t1 = true -> printable t2 = true -> type_tostring t1 = type_tostring t2 -> t1 = t2.
Proof.
  intros H1 H2 E. pose proof (type_print_parse_roundtrip_thm t1 H1) as P1.
  rewrite E, (type_print_parse_roundtrip_thm t2 H2) in P1. inversion P1. reflexivity.
Qed.

(* a type outside the fragment never comes back *)
Theorem not_printable_no_roundtrip_thm t : key_ok (type_tostring t) = true -> printable t = false ->
  type_parse (type_tostring t) <> Ok t.
Proof. intros Hk Hp H. rewrite (type_parse_printable_thm _ _ Hk H) in Hp. discriminate. Qed.
