(** C01 property theorems (proofs in Proofs_C01.v): the index sequences that the slicing
    specification [sg] and model [gn] use for a range item are Python's, and integer
    indexes wrap / fail as Python's do. *)
From AwkV Require Import Layout Ops_Getitem Proofs_C01.
From AwkV Require Import Valid Types Carry Proofs_Lists Proofs_ToList Proofs_Carry.

(* a range selects exactly range applied to slice(start,stop,step).indices(n): the arithmetic
   progression from the clamped start that stays strictly before the clamped stop *)
Theorem range_loop_is_python_slice : forall n start stop step i,
  step <> 0 ->
  let (s, e) := py_bounds n start stop step in
  In i (py_indices n start stop step) <->
  (exists k, 0 <= k /\ i = s + k * step /\ (if 0 <? step then i < e else e < i)).
Proof. exact py_indices_spec. Qed.
Print Assumptions range_loop_is_python_slice.

(* ... visited in order, without repetition *)
Theorem range_is_progression : forall n start stop step,
  py_indices n start stop step =
  let (s, e) := py_bounds n start stop step in map (fun k => s + k * step) (iota (py_count s e step)).
Proof. exact py_indices_progression. Qed.
Print Assumptions range_is_progression.

(* ... and never addresses a non-existing element, whatever the bounds (overshooting, negative, None) *)
Theorem range_never_out_of_bounds : forall n start stop step i,
  0 <= n -> step <> 0 -> In i (py_indices n start stop step) -> 0 <= i < n.
Proof. exact py_indices_in_range. Qed.
Print Assumptions range_never_out_of_bounds.

Theorem range_bounds_are_clamped : forall n start stop step,
  0 <= n -> step <> 0 ->
  let (s, e) := py_bounds n start stop step in
  if 0 <? step then 0 <= s <= n /\ 0 <= e <= n else -1 <= s <= n - 1 /\ -1 <= e <= n - 1.
Proof. exact py_bounds_in_range. Qed.
Print Assumptions range_bounds_are_clamped.

Theorem full_range_selects_everything : forall n, 0 <= n -> py_indices n None None 1 = iota n.
Proof. exact full_slice_is_identity. Qed.
Print Assumptions full_range_selects_everything.

(* an integer index i selects element i (or i+n when negative) and is an error exactly outside [-n, n) *)
Theorem integer_index_wraps : forall n i j,
  wrap_at n i = Ok j <-> ((0 <= i < n /\ j = i) \/ (- n <= i < 0 /\ j = i + n)).
Proof. exact wrap_at_spec. Qed.
Print Assumptions integer_index_wraps.

Theorem out_of_range_is_error : forall n i, (exists j, wrap_at n i = Ok j) <-> - n <= i < n.
Proof. exact wrap_at_error. Qed.
Print Assumptions out_of_range_is_error.

(* carry (the gather that every slicing step of the model and of the C++ goes through) selects
   exactly the indexed elements, for every node class *)
Theorem carry_selects_indexed_elements : forall c vs ix,
  Valid None c -> to_list c = Ok vs -> Forall (fun i => 0 <= i < clen c) ix ->
  exists c', carry c ix = Ok c' /\ to_list c' = mapM (get vs) ix /\ clen c' = zlen ix.
Proof. exact carry_spec. Qed.
Print Assumptions carry_selects_indexed_elements.

Theorem range_slice_is_list_slice : forall c vs a b,
  Valid None c -> to_list c = Ok vs -> 0 <= a -> a <= b -> b <= clen c ->
  exists c', crange c a b = Ok c' /\ to_list c' = slice vs a b /\ clen c' = b - a.
Proof. exact crange_spec. Qed.
Print Assumptions range_slice_is_list_slice.

(* ------------------------------------------------------------------------------------------------
   Slicing: the layout-level model [getitem_model] refines the value-level specification
   [getitem_spec] (proofs in Proofs_Getitem.v .. Proofs_Getitem9.v).
   Fragment [gfrag]: 1-d NumpyArray leaves, EmptyArray, ListOffsetArray / ListArray / RegularArray at any
   depth (any width, any offset origin), IndexedArray, the four option encodings, RecordArray, parameter
   nodes without __array__ (no unions, no strings, no n-d leaves); a record directly under an
   IndexedArray / option node has no IndexedArray / option field ([rec_fields_ok], part of [gfrag]).
   Items [item_ok]: integer, range (any bounds / step, also out of range and negative), newaxis, ellipsis,
   field name, list of field names — any number of them in any order.
   [slice_ok items c]: no positional item (and no ellipsis that still has to skip levels) arrives at a
   record (computed on the type; vacuous on record-free layouts, [getitem_refines_spec_norecords]).
   [fuel_ok items c]: the fixed fuel [items_fuel items] covers the stated cost ([cost_m], [cost_s]); always
   true without ellipsis, and with one ellipsis on layouts of depth <= 5; it cannot be dropped
   (Example getitem_ellipsis_fuel_refuted in Proofs_Getitem7.v: the model runs out of fuel on a valid
   8-level layout where the specification answers).
   ------------------------------------------------------------------------------------------------ *)
From AwkV Require Import AtAxis Proofs_AtAxis Proofs_Getitem Proofs_Getitem2 Proofs_Getitem3 Proofs_Getitem4
                         Proofs_Getitem5 Proofs_Getitem6 Proofs_Getitem7 Proofs_Getitem8 Proofs_Getitem9.

(* values AND error status *)
Theorem getitem_refines_spec_partial : forall items c vs,
  forallb item_ok items = true -> Valid None c -> gfrag c = true -> to_list c = Ok vs ->
  slice_ok items c = true -> fuel_ok items c = true ->
  obs (getitem_model items c) = getitem_spec items (type_of c) vs.
Proof. exact Proofs_Getitem7.getitem_refines_spec_partial. Qed.
Print Assumptions getitem_refines_spec_partial.

(* the out-of-fuel (and out-of-bounds) outcomes are impossible under the stated fuel, on both sides *)
Theorem getitem_never_out_of_fuel : forall items c vs,
  forallb item_ok items = true -> Valid None c -> gfrag c = true -> to_list c = Ok vs ->
  slice_ok items c = true -> fuel_ok items c = true ->
  obs (getitem_model items c) <> Err EFuel /\ getitem_spec items (type_of c) vs <> Err EFuel /\
  obs (getitem_model items c) <> Err EOob /\ getitem_spec items (type_of c) vs <> Err EOob.
Proof. exact Proofs_Getitem7.getitem_never_out_of_fuel. Qed.
Print Assumptions getitem_never_out_of_fuel.

(* the answer does not depend on the fuel: any fuels covering the cost give the same observation *)
Theorem getitem_fuel_independent : forall items c vs fm fs,
  forallb item_ok items = true -> Valid None c -> gfrag c = true -> to_list c = Ok vs -> slice_ok items c = true ->
  (cost_m (adepth c) items <= fm)%nat -> (cost_s (adepth c) items <= fs)%nat ->
  obs (gn fm (Regular c (clen c) 1) items None) =
  obs_spec (sg fs None (Some (zlen vs)) (type_of c) [Some vs] items None) /\
  obs (gn fm (Regular c (clen c) 1) items None) <> Err EFuel /\
  obs (gn fm (Regular c (clen c) 1) items None) <> Err EOob.
Proof. exact Proofs_Getitem7.getitem_fuel. Qed.
Print Assumptions getitem_fuel_independent.

Theorem getitem_fuel_enough_without_ellipsis : forall items c, nell items = O -> fuel_ok items c = true.
Proof. exact fuel_ok_no_ellipsis. Qed.
Print Assumptions getitem_fuel_enough_without_ellipsis.
Theorem getitem_fuel_enough_shallow : forall items c,
  (nell items <= 1)%nat -> tdepth (type_of c) <= 5 -> fuel_ok items c = true.
Proof. exact fuel_ok_shallow. Qed.
Print Assumptions getitem_fuel_enough_shallow.

(* on record-free layouts the side condition disappears *)
Theorem getitem_refines_spec_norecords : forall items c vs,
  forallb item_ok items = true -> Valid None c -> gfrag c = true -> norec (type_of c) = true -> to_list c = Ok vs ->
  fuel_ok items c = true ->
  obs (getitem_model items c) = getitem_spec items (type_of c) vs.
Proof. exact Proofs_Getitem7.getitem_refines_spec_norecords. Qed.
Print Assumptions getitem_refines_spec_norecords.

(* projecting a field on the layout is projecting it on the type and on every value (error = no such field);
   the projected layout is valid and stays in the fragment *)
Theorem field_projection_refines : forall k c xs,
  Valid None c -> gfrag c = true -> to_list c = Ok xs ->
  match field_content k c with
  | Ok f => proj_ty k (type_of c) = Ok (type_of f) /\
            (exists ys, mapM (proj_v k (type_of c)) xs = Ok ys /\ to_list f = Ok ys) /\
            Valid None f /\ gfrag f = true
  | Err e => e = EValue /\ proj_ty k (type_of c) = Err EValue
  end.
Proof. exact field_content_spec. Qed.
Print Assumptions field_projection_refines.

Theorem fields_projection_refines : forall ks c xs,
  Valid None c -> gfrag c = true -> to_list c = Ok xs ->
  match fields_content ks c with
  | Ok f => projs_ty ks (type_of c) = Ok (type_of f) /\
            (exists ys, mapM (projs_v ks (type_of c)) xs = Ok ys /\ to_list f = Ok ys) /\
            Valid None f /\ gfrag f = true
  | Err e => e = EValue /\ projs_ty ks (type_of c) = Err EValue
  end.
Proof. exact fields_content_spec. Qed.
Print Assumptions fields_projection_refines.

(* at the layout level: a field item may be moved in front of the positional items (integers, ranges) that
   precede it — slicing then projecting = projecting then slicing *)
Theorem field_commutes_with_positional : forall pre k post c vs,
  forallb basic_item pre = true -> forallb item_ok post = true ->
  Valid None c -> gfrag c = true -> to_list c = Ok vs -> has_field k c = true ->
  slice_ok (pre ++ IField k :: post) c = true -> fuel_ok (pre ++ IField k :: post) c = true ->
  obs (getitem_model (pre ++ IField k :: post) c) = obs (getitem_model (IField k :: pre ++ post) c).
Proof. exact Proofs_Getitem8.field_commutes_with_positional. Qed.
Print Assumptions field_commutes_with_positional.

(* one integer array alone, on EVERY valid layout (no fragment restriction): a[ix] gathers the elements ix;
   negative indexes wrap, an out-of-range index is an error *)
Theorem getitem_array_alone : forall ix c vs,
  Valid None c -> to_list c = Ok vs ->
  obs (getitem_model [IArray ix] c) = getitem_spec [IArray ix] (type_of c) vs.
Proof. exact Proofs_Getitem9.getitem_array_alone. Qed.
Print Assumptions getitem_array_alone.
From AwkV Require Import Ops_GetitemAdv Proofs_GetitemAdv.
(* ------------------------------------------------------------------------------------------------
   Array-like slice items (Ops_GetitemAdv.v; value-level specification [getitem_adv_spec], proofs in
   Proofs_GetitemAdv.v, Examples on the documented arrays of ak.Array.__getitem__ there: ex_missing_index,
   ex_missing_mask, ex_jagged, ex_jagged_mask, ex_jagged_none, ex_jagged_none_above, ex_jagged_out_of_range,
   ex_jagged_wrong_length, ex_nd_array, ex_nd_array_below_range, ex_nd_array_rank3_then_range, ex_boolean_array,
   ex_jagged_below_range_then_field).
   ------------------------------------------------------------------------------------------------ *)
(* an index array with missing values, alone: the result has the length of the index, None exactly at the None positions,
   elsewhere the element the integer selects (negative = from the end) *)
Theorem missing_index_none_exactly : forall topopt ix t vs r,
  getitem_adv_spec [] (AIdx 1 topopt (JInts ix)) [] t vs = Ok r ->
  exists l, r = VList l /\ zlen l = zlen ix /\
  forall k o, get ix k = Ok o ->
    match o with
    | None => get l k = Ok VNone
    | Some i => exists p, wrap_at (zlen vs) i = Ok p /\ get l k = get vs p /\ exists e, get vs p = Ok e
    end.
Proof. exact Proofs_GetitemAdv.missing_index_none_exactly_. Qed.
Print Assumptions missing_index_none_exactly.
(* ... and the non-missing part is the selection by the plain integer array of the EXISTING specification *)
Theorem missing_index_is_integer_selection : forall topopt ix t vs r,
  getitem_adv_spec [] (AIdx 1 topopt (JInts ix)) [] t vs = Ok r ->
  exists l, r = VList l /\ getitem_spec [IArray (somes ix)] t vs = Ok [VList (at_somes ix l)].
Proof. exact Proofs_GetitemAdv.missing_index_is_integer_selection_. Qed.
Print Assumptions missing_index_is_integer_selection.
(* an out-of-range position anywhere in the index: an error, never data *)
Theorem missing_index_out_of_range_errors : forall topopt ix t vs i,
  In (Some i) ix -> ~ (- zlen vs <= i < zlen vs) ->
  forall r, getitem_adv_spec [] (AIdx 1 topopt (JInts ix)) [] t vs <> Ok r.
Proof. exact Proofs_GetitemAdv.missing_index_out_of_range_errors_. Qed.
Print Assumptions missing_index_out_of_range_errors.
(* a jagged index, alone: one entry per list of the array (else no result); entry i of the result depends on entry i of the index
   and on list i of the array only: None for a None entry or a missing list, otherwise the same selection one level down *)
Theorem jagged_level_by_level : forall depth topopt subs t vs r,
  getitem_adv_spec [] (AIdx depth topopt (JLists subs)) [] t vs = Ok r ->
  exists l, r = VList l /\ zlen l = zlen subs /\ zlen subs = zlen vs /\
  forall i oj e, get subs i = Ok oj -> get vs i = Ok e ->
    match oj with
    | None => get l i = Ok VNone
    | Some j' =>
        match e with
        | VList l1 => exists r1, jag_apply Ok j' l1 = Ok r1 /\ get l i = Ok (VList r1)
        | VNone => get l i = Ok VNone
        | _ => False
        end
    end.
Proof. exact Proofs_GetitemAdv.jagged_level_by_level_. Qed.
Print Assumptions jagged_level_by_level.
(* len(result[i]) = len(index[i]) *)
Theorem jagged_lengths : forall depth topopt subs t vs r i ix l1,
  getitem_adv_spec [] (AIdx depth topopt (JLists subs)) [] t vs = Ok r ->
  get subs i = Ok (Some (JInts ix)) -> get vs i = Ok (VList l1) ->
  exists l r1, r = VList l /\ zlen l = zlen vs /\ get l i = Ok (VList r1) /\ zlen r1 = zlen ix.
Proof. exact Proofs_GetitemAdv.jagged_lengths_. Qed.
Print Assumptions jagged_lengths.
(* every element of result[i] is None or an element of the SAME list x[i] *)
Theorem jagged_members : forall depth topopt subs t vs r i ix l1,
  getitem_adv_spec [] (AIdx depth topopt (JLists subs)) [] t vs = Ok r ->
  get subs i = Ok (Some (JInts ix)) -> get vs i = Ok (VList l1) ->
  exists l r1, r = VList l /\ get l i = Ok (VList r1) /\ forall v, In v r1 -> v = VNone \/ In v l1.
Proof. exact Proofs_GetitemAdv.jagged_members_. Qed.
Print Assumptions jagged_members.
(* an index out of range for the list it addresses: an error, never data *)
Theorem jagged_out_of_range_errors : forall depth topopt subs t vs i ix l1 p,
  get subs i = Ok (Some (JInts ix)) -> get vs i = Ok (VList l1) ->
  In (Some p) ix -> ~ (- zlen l1 <= p < zlen l1) ->
  forall r, getitem_adv_spec [] (AIdx depth topopt (JLists subs)) [] t vs <> Ok r.
Proof. exact Proofs_GetitemAdv.jagged_out_of_range_errors_. Qed.
Print Assumptions jagged_out_of_range_errors.
(* an index with another number of lists than the array: an error, never data *)
Theorem jagged_length_mismatch_errors : forall depth topopt subs t vs,
  zlen subs <> zlen vs ->
  forall r, getitem_adv_spec [] (AIdx depth topopt (JLists subs)) [] t vs <> Ok r.
Proof. exact Proofs_GetitemAdv.jagged_length_mismatch_errors_. Qed.
Print Assumptions jagged_length_mismatch_errors.
(* an n-d integer array (below leading ranges, followed by further items) = the EXISTING specification applied to the raveled
   1-d array, the dimension of that array regrouped by the shape *)
Theorem nd_array_is_flat_then_reshape : forall pre shape data post t vs,
  forallb is_range pre = true -> existsb is_array post = false -> at_after_basic false post = false ->
  shape_ok shape (zlen data) = true ->
  getitem_adv_spec pre (ANd shape data) post t vs =
  do r <- getitem_spec (pre ++ IArray data :: post) t vs;
  match r with [v] => reshape_at (length pre) shape v | _ => Err EOob end.
Proof. exact Proofs_GetitemAdv.nd_array_is_flat_then_reshape_. Qed.
Print Assumptions nd_array_is_flat_then_reshape.
(* alone: gather, then nest by the shape *)
Theorem nd_array_alone : forall shape data t vs,
  shape_ok shape (zlen data) = true ->
  getitem_adv_spec [] (ANd shape data) [] t vs =
  do xs <- mapM (fun i => at_spec i vs) data; Ok (shape_nest shape xs).
Proof. exact Proofs_GetitemAdv.nd_array_alone_. Qed.
Print Assumptions nd_array_alone.
(* the result has the shape of the index (then whatever the elements are), and read back in row-major order it is the
   selection by the raveled 1-d array as the existing specification defines it *)
Theorem nd_array_shape : forall shape data t vs r,
  getitem_adv_spec [] (ANd shape data) [] t vs = Ok r ->
  has_shape shape r /\
  exists xs, mapM (fun i => at_spec i vs) data = Ok xs /\ ravel_value (length shape) r = xs /\
             getitem_spec [IArray data] t vs = Ok [VList xs].
Proof. exact Proofs_GetitemAdv.nd_array_shape_. Qed.
Print Assumptions nd_array_shape.
(* an out-of-range entry: an error, never data *)
Theorem nd_array_out_of_range_errors : forall shape data t vs i,
  In i data -> ~ (- zlen vs <= i < zlen vs) ->
  forall r, getitem_adv_spec [] (ANd shape data) [] t vs <> Ok r.
Proof. exact Proofs_GetitemAdv.nd_array_out_of_range_errors_. Qed.
Print Assumptions nd_array_out_of_range_errors.
(* a 1-d boolean array of the length of the array = the integer array of its true positions (existing specification) *)
Theorem boolean_array_is_nonzero : forall bits t vs,
  zlen bits = zlen vs ->
  getitem_adv_spec [] (ABool [zlen vs] bits) [] t vs =
  do r <- getitem_spec [IArray (true_positions bits)] t vs; match r with [v] => Ok v | _ => Err EOob end.
Proof. exact Proofs_GetitemAdv.boolean_array_is_nonzero_. Qed.
Print Assumptions boolean_array_is_nonzero.
(* a mask (deepest level of a jagged boolean index) without missing values, of the length of the list it filters:
   the elements at the true positions, in order *)
Theorem mask_is_true_positions : forall bits l,
  zlen bits = zlen l ->
  jag_apply Ok (JBools (map Some bits)) l = mapM (get l) (true_positions bits).
Proof. exact Proofs_GetitemAdv.mask_is_true_positions_. Qed.
Print Assumptions mask_is_true_positions.
