(** C12 (memory safety half): all modelled operations in one statement (parts: Proofs_Safety .. Proofs_Safety5). *)
From Coq Require Import ZArith List Bool Lia ZifyBool.
From AwkV Require Import Base Layout LayoutInd Valid Types AtAxis Carry Ops_Struct Ops_Flatten Ops_Option
                         Ops_Reduce Ops_Sort Ops_Getitem Ops_Fields
                         Proofs_Lists Proofs_ToList Proofs_Carry Proofs_AtAxis Proofs_AtAxisOps Proofs_C12
                         Proofs_Reduce Proofs_SortRef2 Proofs_Closure6
                         Proofs_Safety Proofs_Safety2 Proofs_Safety3 Proofs_Safety4 Proofs_Safety5.
From AwkV Require Import Proofs_Getitem3 Proofs_Getitem7.
Import ListNotations.
Open Scope Z_scope.

(* the wide slicing theorem, with the [item_ok] of Proofs_Getitem7 (same definition) *)
Theorem getitem_never_out_of_bounds_wide : forall items c,
  forallb Proofs_Getitem7.item_ok items = true -> Valid None c -> nostr c = true -> gi_frag c = true ->
  getitem_model items c <> Err EOob.
Proof. exact Proofs_Safety4.getitem_never_out_of_bounds_wide. Qed.

Lemma clean_of {A} (r : res A) : r <> Err EOob /\ r <> Err EFuel -> clean r.
Proof. apply clean_iff. Qed.

(* Every modelled operation, on a valid layout that has a value: the run ends in a result or in the ordinary refusal
   [Err EValue] -- never in an out-of-extent access [Err EOob], never out of fuel [Err EFuel].
   The only provisos: reducers need finite leaf data ([fin]: the model does not cover NaN / inf); [sort_model] uses
   [Err EFuel] to decline legal non-innermost axes ([sort_modelled]); slicing is covered for all item kinds on the fragment [good] (valid, no strings, option / indexed nodes not nested;
   integer arrays of one common length: never [Err EOob]) and, without integer arrays, on [gfrag] under the side
   conditions of the refinement theorem (never [Err EFuel] either); a single integer array on every valid layout. *)
Theorem memory_safety_of_modelled_operations : forall c vs,
  Valid None c -> to_list c = Ok vs ->
  (forall axis, clean (num_model axis c)) /\
  (forall axis, clean (localindex_model axis c)) /\
  (forall target axis, clean (rpad_model target axis c)) /\
  (forall target axis, clean (rpadclip_model target axis c)) /\
  (forall n repl axis, clean (comb_model n repl axis c)) /\
  (forall axis, clean (flatten_model axis c)) /\
  (forall value, clean (fillna_model value c)) /\
  (forall k, clean (field_content k c)) /\
  (forall ks, clean (fields_content ks c)) /\
  (forall k what, clean (setfield_model k c what)) /\
  (forall r axis mask keepdims, fin c = true -> clean (reduce_model r axis mask keepdims c)) /\
  (forall asc argsort axis, sort_model asc argsort axis c <> Err EOob /\
                            (sort_modelled asc argsort axis c = true -> sort_model asc argsort axis c <> Err EFuel)) /\
  (forall ix, clean (getitem_model [IArray ix] c)) /\
  (forall L items, arrays_len L items = true -> nostr c = true -> gi_frag c = true -> getitem_model items c <> Err EOob) /\
  (forall items, forallb item_ok items = true -> gfrag c = true -> slice_ok items c = true -> fuel_ok items c = true ->
                 clean (getitem_model items c)) /\
  (forall ix, Forall (fun i => 0 <= i < clen c) ix -> exists c', carry c ix = Ok c') /\
  (forall a b, 0 <= a -> a <= b -> b <= clen c -> exists c', crange c a b = Ok c').
Proof.
  intros c vs HV Hl. pose proof (at_axis_ops_clean_any_layout c) as (A1 & A2 & A3 & A4 & A5).
  repeat match goal with |- _ /\ _ => split end; auto.
  - intros axis. apply clean_of. eapply flatten_never_out_of_bounds; eassumption.
  - intros value. apply clean_of. apply fillna_never_out_of_bounds, HV.
  - intros k. apply clean_of. eapply field_never_out_of_bounds; eassumption.
  - intros ks. apply clean_of. apply fields_never_out_of_bounds, HV.
  - intros k what. apply setfield_clean_any_layout.
  - intros r axis mask keepdims Hf. apply clean_of. eapply reduce_never_out_of_bounds_partial; eassumption.
  - intros asc argsort axis. eapply sort_never_out_of_bounds; eassumption.
  - intros ix. apply clean_of. eapply getitem_array_never_out_of_bounds; eassumption.
  - intros L items Hi Hs Hg. apply (getitem_never_out_of_bounds_arrays L); assumption.
  - intros items Hi Hg Hs Hf. apply clean_of. eapply getitem_never_out_of_bounds_partial; eassumption.
  - intros ix Hix. eapply carry_no_oob; eassumption.
  - intros a b Ha Hab Hb. eapply crange_never_out_of_bounds; eassumption.
Qed.

Example memory_safety_ex :
  let c := ListOffset I64 [0; 2; 3]
             (ByteMasked [1; 0; 1] true
                (Record [ListA I32 [0; 4; 1] [1; 4; 3] (Numpy DInt64 [3] [DZ 3; DZ 1; DZ 2]);
                         Numpy DFloat64 [3; 2] [DZ 1; DZ 2; DZ 3; DZ 4; DZ 5; DZ 6]] (Some [[120]; [121]]) 3)) in
  valid_b c = true /\ fin c = true /\ nostr c = true /\ gi_frag c = true /\
  to_list c = Ok [VList [VRec [([120], VList [VNum (DZ 3)]); ([121], VList [VNum (DZ 1); VNum (DZ 2)])]; VNone];
                  VList [VRec [([120], VList [VNum (DZ 1); VNum (DZ 2)]); ([121], VList [VNum (DZ 5); VNum (DZ 6)])]]] /\
  obs (num_model 1 c) = Ok [VNum (DZ 2); VNum (DZ 1)] /\
  obs (reduce_model RSum (-1) false false c)
  = Ok [VList [VRec [([120], VNum (DZ 3)); ([121], VNum (DZ 3))]; VNone]; VList [VRec [([120], VNum (DZ 3)); ([121], VNum (DZ 11))]]] /\
  obs (flatten_model 1 c)
  = Ok [VRec [([120], VList [VNum (DZ 3)]); ([121], VList [VNum (DZ 1); VNum (DZ 2)])]; VNone;
        VRec [([120], VList [VNum (DZ 1); VNum (DZ 2)]); ([121], VList [VNum (DZ 5); VNum (DZ 6)])]] /\
  obs (getitem_model [IAt (-1); IAt 0; IField [121]; IAt 1] c) = Ok [VNum (DZ 6)] /\
  sort_model true false (-1) c = Err EValue.
Proof. vm_compute. repeat split. Qed.
