(** Extraction of the executable model (ExtrOcamlBasic only; Z stays inductive). *)
From Coq Require Import Extraction ExtrOcamlBasic.
From AwkV Require Import Layout Valid Types AtAxis Ops_Struct Carry Ops_Flatten Ops_Option Ops_Reduce Ops_Sort Ops_SortAxes Ops_Getitem Ops_Fields Ops_GetitemAdv.
Extraction Language OCaml.
Extraction "model.ml" Z.add Z.mul Z.sub Z.div Z.modulo Z.eqb Z.ltb Z.leb Z.of_nat Z.to_nat Z.opp
  to_list value_eqb valid_b clen type_of has_union minmax
  num_model num_spec localindex_model localindex_spec rpad_model rpad_spec rpadclip_model rpadclip_spec flatten_model flatten_spec carry comb_model comb_spec fillna_model fillna_spec reduce_model reduce_spec resolve_axis sort_model sort_spec getitem_model getitem_spec setfield_model setfield_spec getitem_adv_spec jag_of_value sort_axes_model sort_model_all.
