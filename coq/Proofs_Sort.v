(** Insertion sort used by the sort/argsort model and spec: sortedness, permutation,
    stability, for any strict weak order [before]; and the kernel comparator
    (NaN first in both directions) is such an order. *)
From AwkV Require Import Layout Ops_Sort.
From Coq Require Import Permutation Sorting.Sorted ZifyBool.

Section Generic.
  Variable A : Type.
  Variable before : A -> A -> bool.
  Hypothesis irrefl : forall x, before x x = false.
  Hypothesis trans : forall x y z, before x y = true -> before y z = true -> before x z = true.
  (* incomparability is transitive (strict weak order) *)
  Hypothesis incomp_trans : forall x y z,
      before x y = false -> before y x = false -> before y z = false -> before z y = false ->
      before x z = false /\ before z x = false.

  Definition le (x y : A) : Prop := before y x = false.   (* x may stand before y *)

  Lemma insert_perm x l : Permutation (insert_by before x l) (x :: l).
  Proof.
    induction l as [|y ys IH]; cbn.
    - reflexivity.
    - destruct (before x y); [reflexivity|].
      rewrite IH. apply perm_swap.
  Qed.

  Lemma fold_insert_perm l acc :
    Permutation (fold_left (fun acc x => insert_by before x acc) l acc) (acc ++ l).
  Proof.
    revert acc. induction l as [|x xs IH]; intros acc; cbn.
    - rewrite app_nil_r. reflexivity.
    - rewrite IH. rewrite insert_perm.
      change (x :: acc) with ([x] ++ acc).
      rewrite (Permutation_app_comm [x] acc), <- app_assoc. reflexivity.
  Qed.

  Theorem sort_by_perm l : Permutation (sort_by before l) l.
  Proof. unfold sort_by. rewrite fold_insert_perm. reflexivity. Qed.

  (* asymmetry follows from irreflexivity + transitivity *)
  Lemma asym x y : before x y = true -> before y x = false.
  Proof.
    intros H. destruct (before y x) eqn:E; auto.
    pose proof (trans _ _ _ H E) as C. rewrite irrefl in C. discriminate.
  Qed.

  (* [le] is transitive *)
  Lemma le_trans x y z : le x y -> le y z -> le x z.
  Proof.
    unfold le. intros Hxy Hyz.
    destruct (before z x) eqn:Ezx; auto. exfalso.
    (* z < x.  Compare x and y. *)
    destruct (before x y) eqn:Exy.
    - (* z < x < y -> z < y, contradiction with le y z *)
      pose proof (trans _ _ _ Ezx Exy) as C. congruence.
    - (* x ~ y *)
      destruct (before y z) eqn:Eyz.
      + (* y < z < x -> y < x contradiction *)
        pose proof (trans _ _ _ Eyz Ezx) as C. congruence.
      + (* x ~ y, y ~ z -> x ~ z *)
        destruct (incomp_trans x y z Exy Hxy Eyz Hyz) as [_ C]. congruence.
  Qed.

  Lemma insert_sorted x l :
    StronglySorted le l -> StronglySorted le (insert_by before x l).
  Proof.
    induction l as [|y ys IH]; intros Hs; cbn.
    - constructor; constructor.
    - inversion Hs as [|? ? Hys Hy]; subst.
      destruct (before x y) eqn:E.
      + constructor; [exact Hs|].
        constructor.
        * unfold le. apply asym. exact E.
        * rewrite Forall_forall in *. intros z Hz.
          apply le_trans with y; [unfold le; apply asym; exact E | apply Hy; exact Hz].
      + constructor; [apply IH; exact Hys|].
        rewrite Forall_forall in *. intros z Hz.
        apply (Permutation_in _ (insert_perm x ys)) in Hz. destruct Hz as [<- | Hz].
        * exact E.
        * apply Hy; exact Hz.
  Qed.

  Lemma fold_insert_sorted l acc :
    StronglySorted le acc ->
    StronglySorted le (fold_left (fun acc x => insert_by before x acc) l acc).
  Proof.
    revert acc. induction l as [|x xs IH]; intros acc Hs; cbn; auto.
    apply IH. apply insert_sorted. exact Hs.
  Qed.

  Theorem sort_by_sorted l : StronglySorted le (sort_by before l).
  Proof. apply fold_insert_sorted. constructor. Qed.

  (** Stability: the elements equivalent to any given [a] appear in their original order. *)
  Definition equivb (a x : A) : bool := negb (before a x) && negb (before x a).

  Lemma equiv_before_l a x y : equivb a x = true -> before x y = before a y.
  Proof.
    unfold equivb. rewrite andb_true_iff, !negb_true_iff. intros [H1 H2].
    destruct (before a y) eqn:Eay; destruct (before x y) eqn:Exy; auto.
    - (* a < y, not x < y *)
      destruct (before y x) eqn:Eyx.
      + pose proof (trans _ _ _ Eay Eyx). congruence.
      + destruct (incomp_trans a x y H1 H2 Exy Eyx). congruence.
    - (* x < y, not a < y *)
      destruct (before y a) eqn:Eya.
      + pose proof (trans _ _ _ Exy Eya). congruence.
      + destruct (incomp_trans x a y H2 H1 Eay Eya). congruence.
  Qed.

  Lemma insert_filter_equiv a x l :
    StronglySorted le l ->
    filter (equivb a) (insert_by before x l) =
    if equivb a x then filter (equivb a) l ++ [x] else filter (equivb a) l.
  Proof.
    induction l as [|y ys IH]; intros Hs; cbn.
    - destruct (equivb a x); reflexivity.
    - inversion Hs as [|? ? Hys Hy]; subst.
      destruct (before x y) eqn:E; cbn.
      + (* x goes first: then no element of (y::ys) is equivalent to a when x is *)
        destruct (equivb a x) eqn:Eax.
        * assert (Hnone : filter (equivb a) (y :: ys) = []).
          { assert (Hall : forall z, In z (y :: ys) -> equivb a z = false).
            { intros z Hz.
              assert (Hxz : before x z = true).
              { destruct Hz as [<- | Hz]; auto.
                rewrite Forall_forall in Hy. specialize (Hy z Hz). unfold le in Hy.
                destruct (before x z) eqn:Exz; auto. exfalso.
                (* x < y, not z < y, not x < z *)
                destruct (before z x) eqn:Ezx.
                - pose proof (trans _ _ _ Ezx E). congruence.
                - destruct (before y z) eqn:Eyz.
                  + pose proof (trans _ _ _ E Eyz). congruence.
                  + destruct (incomp_trans x z y Exz Ezx Hy Eyz). congruence. }
              destruct (equivb a z) eqn:Eaz; auto.
              rewrite (equiv_before_l a x z Eax) in Hxz.
              unfold equivb in Eaz. rewrite Hxz in Eaz. discriminate. }
            clear -Hall. induction (y :: ys) as [|z zs IHz]; cbn; auto.
            rewrite (Hall z (or_introl eq_refl)). apply IHz. intros w Hw. apply Hall. right; auto. }
          cbn in Hnone. rewrite Hnone. reflexivity.
        * reflexivity.
      + rewrite (IH Hys).
        destruct (equivb a y); destruct (equivb a x); reflexivity.
  Qed.

  Lemma fold_insert_filter a l acc :
    StronglySorted le acc ->
    filter (equivb a) (fold_left (fun acc x => insert_by before x acc) l acc) =
    filter (equivb a) acc ++ filter (equivb a) l.
  Proof.
    revert acc. induction l as [|x xs IH]; intros acc Hs; cbn.
    - rewrite app_nil_r. reflexivity.
    - rewrite IH by (apply insert_sorted; exact Hs).
      rewrite (insert_filter_equiv a x acc Hs).
      destruct (equivb a x); [rewrite <- app_assoc|]; reflexivity.
  Qed.

  Theorem sort_by_stable a l : filter (equivb a) (sort_by before l) = filter (equivb a) l.
  Proof. unfold sort_by. rewrite fold_insert_filter by constructor. reflexivity. Qed.
End Generic.

(** The kernel comparator on numeric keys. *)
Definition drank (d : datum) : Z * Z :=
  match d with DNaN => (0, 0) | DInf true => (1, 0) | DZ z => (2, z) | DInf false => (3, 0) end.
Definition lexlt (a b : Z * Z) : bool := (fst a <? fst b) || ((fst a =? fst b) && (snd a <? snd b)).

Lemma datum_lt_rank a b : datum_lt a b = lexlt (drank a) (drank b).
Proof. destruct a as [x| |[]], b as [y| |[]]; cbn; try reflexivity; unfold lexlt; cbn; lia. Qed.

Lemma lexlt_irrefl a : lexlt a a = false.
Proof. unfold lexlt. lia. Qed.
Lemma lexlt_trans a b c : lexlt a b = true -> lexlt b c = true -> lexlt a c = true.
Proof. unfold lexlt. lia. Qed.
Lemma lexlt_incomp a b : lexlt a b = false -> lexlt b a = false -> a = b.
Proof. unfold lexlt. destruct a, b; cbn. intros. f_equal; lia. Qed.

Definition num_before (asc : bool) (a b : datum) : bool := key_before asc (KNum a) (KNum b).

(* descending order: NaN still first, the rest reversed *)
Definition drank_desc (d : datum) : Z * Z :=
  match d with DNaN => (0, 0) | DInf false => (1, 0) | DZ z => (2, - z) | DInf true => (3, 0) end.

Lemma num_before_rank asc a b :
  num_before asc a b = lexlt (if asc then drank a else drank_desc a) (if asc then drank b else drank_desc b).
Proof.
  unfold num_before, key_before. destruct asc.
  - cbn. apply datum_lt_rank.
  - destruct a as [x| |[]], b as [y| |[]]; cbn; try reflexivity; unfold lexlt; cbn; lia.
Qed.

Lemma num_before_irrefl asc a : num_before asc a a = false.
Proof. rewrite num_before_rank. apply lexlt_irrefl. Qed.
Lemma num_before_trans asc a b c :
  num_before asc a b = true -> num_before asc b c = true -> num_before asc a c = true.
Proof. rewrite !num_before_rank. apply lexlt_trans. Qed.
Lemma num_before_incomp asc x y z :
  num_before asc x y = false -> num_before asc y x = false ->
  num_before asc y z = false -> num_before asc z y = false ->
  num_before asc x z = false /\ num_before asc z x = false.
Proof.
  rewrite !num_before_rank. intros H1 H2 H3 H4.
  rewrite (lexlt_incomp _ _ H1 H2), (lexlt_incomp _ _ H3 H4). split; apply lexlt_irrefl.
Qed.

(* NaN comes first whatever the direction *)
Lemma nan_first asc d : num_before asc d DNaN = false.
Proof. unfold num_before, key_before. destruct asc, d as [x| |[]]; reflexivity. Qed.
Lemma nan_before_numbers asc z : num_before asc DNaN (DZ z) = true.
Proof. destruct asc; reflexivity. Qed.
