"""dev helper: python3 /verif/c16/tools/dev.py N [seed] [op]  -- run N generated cases, print grouped findings"""
import sys, random, collections, time
sys.path.insert(0, '/verif/harness')
import common as C
import props.c16 as M
n = int(sys.argv[1]); seed = int(sys.argv[2]) if len(sys.argv) > 2 else 1
only = sys.argv[3] if len(sys.argv) > 3 else None
rng = random.Random(seed)
cs = [M.gen_case(rng, i, 'quick') for i in range(n)]
if only:
    cs = [c for c in cs if c.op == only]
t = time.time()
s = M.run(cs, 'quick', rng)
print('time %.1f' % (time.time() - t), s['verdicts'], s['extra'])
print(s['corr_obligations'])
for f in s['findings']:
    print('-----', f['kind'], f['obl'], f['signature'])
    print(f['what'][:500])
    for l in f['case_lines'][:6]:
        print('   ', l[:1500])
