(** C04 property theorems (proofs in Proofs_C04.v, Proofs_C04_Model1..6.v).  Model: Broadcast.v (transcription of
    _util.apply and of the C++ normalisers); specification: BroadcastSpec.v. *)
From AwkBroadcast Require Import Broadcast Proofs_C04 Proofs_C04_Model1 Proofs_C04_Model2 Proofs_C04_Model5 Proofs_C04_Model6.
From AwkBroadcast Require Import Proofs_C04_Scal1 Proofs_C04_Scal2 Proofs_C04_Scal3 Proofs_C04_Probes Proofs_C04_Opt1 Proofs_C04_Opt2.

(* (d) a missing value in any argument gives a missing result there *)
Theorem none_propagates : forall op ar fuel args,
  rpad args = args -> existsb badT (map fst args) = false -> none_in args = true ->
  spec_v op ar (S fuel) args = Ok VNone.
Proof. exact none_propagates_step. Qed.
Print Assumptions none_propagates.

(* (e) lists of different lengths at the same position raise an error *)
Theorem length_mismatch_errors : forall op ar fuel args t l n,
  rpad args = args -> existsb badT (map fst args) = false -> existsb is_optT (map fst args) = false ->
  list_target args = Ok n ->
  In (t, VList l) args -> is_listT t = true -> sizeT t <> Some 1 -> zlen l <> n ->
  spec_v op ar (S fuel) args = Err EValue.
Proof. exact length_mismatch_step. Qed.
Print Assumptions length_mismatch_errors.

(* (c) a scalar behaves as the length-1 array of that scalar, which broadcasts *)
Theorem scalar_broadcasts : forall op ar fuel X a,
  is_listT (fst X) = true -> is_leafT (fst a) = true ->
  spec_v op ar fuel [X; a] = spec_v op ar fuel [X; pad1 a].
Proof. exact scalar_is_length1_array. Qed.
Print Assumptions scalar_broadcasts.

(* (f) the result has the list structure the type-level pass announces, and that is as deep as the deepest argument *)
Theorem spec_result_has_deepest_structure : forall op fuel args rt r,
  spec_t op false fuel (map fst args) = Ok rt -> spec_v op false fuel args = Ok r ->
  has_shape rt r = true /\ rdepth rt = maxdepth (map fst args).
Proof. exact (fun op fuel args rt r Ht Hv => conj (spec_shape op fuel args rt r Ht Hv) (spec_t_depth op false fuel _ rt Ht)). Qed.
Print Assumptions spec_result_has_deepest_structure.

(* ---- model = specification (refinement), two array inputs of the fragment [jag]: 1-d integer NumpyArray leaves under
   ListOffsetArray / ListArray (any index width, offset origin, gaps, unreachable data) and IndexedOptionArray (not directly
   inside another one).  [agrees m s]: s = Ok vs -> m = Ok vs;  s = Err e -> e = EValue and m = Err EValue (values AND
   error status; no out-of-fuel on either side).  [obs r] = to_list of the layout the model returns.
   [model_fuel_bound c1 c2] = number of nodes of c1 + number of nodes of c2 (every call of apply removes a node). ---- *)

(* (a,b) apply on two arrays = the specification on the two arrays as variable-length lists (equal lengths required) *)
Theorem model_refines_spec : forall op fuel c1 c2 vs1 vs2,
  jag c1 = true -> jag c2 = true -> to_list c1 = Ok vs1 -> to_list c2 = Ok vs2 ->
  (model_fuel_bound c1 c2 <= fuel)%nat ->
  agrees (obs (Broadcast.apply op None fuel [MC c1; MC c2]))
         (unlist (spec_v op false (S fuel) [arr_arg c1 vs1; arr_arg c2 vs2])).
Proof. exact model_refines_spec_lemma. Qed.
Print Assumptions model_refines_spec.

(* the same on the model's own result: when the specification refuses, the model's computation itself fails with a value
   error (it never returns an ill-formed layout); when it gives values, the model returns a layout with these values *)
Theorem model_refines_spec_strong : forall op fuel c1 c2 vs1 vs2,
  jag c1 = true -> jag c2 = true -> to_list c1 = Ok vs1 -> to_list c2 = Ok vs2 ->
  (model_fuel_bound c1 c2 <= fuel)%nat ->
  agrees_c (Broadcast.apply op None fuel [MC c1; MC c2])
           (unlist (spec_v op false (S fuel) [arr_arg c1 vs1; arr_arg c2 vs2])).
Proof. exact model_refines_spec_strong_lemma. Qed.
Print Assumptions model_refines_spec_strong.

Theorem model_never_out_of_fuel : forall op fuel c1 c2 vs1 vs2,
  jag c1 = true -> jag c2 = true -> to_list c1 = Ok vs1 -> to_list c2 = Ok vs2 ->
  (model_fuel_bound c1 c2 <= fuel)%nat ->
  obs (Broadcast.apply op None fuel [MC c1; MC c2]) <> Err EFuel /\
  unlist (spec_v op false (S fuel) [arr_arg c1 vs1; arr_arg c2 vs2]) <> Err EFuel.
Proof. exact model_never_out_of_fuel_lemma. Qed.
Print Assumptions model_never_out_of_fuel.

(* the entry points: broadcast_and_apply (broadcast_pack, apply, broadcast_unpack) = spec_broadcast (type-level pass and
   element-level pass on the packed arrays; a length-1 array is repeated).
   PARTIAL: hypothesis [size1_vs_size0 c1 c2 = false] added (not: lengths 1 and 0, unless both are 1-d NumpyArrays).
   Without it the statement is false (Proofs_C04_Model6.broadcast_refines_spec_refuted: [[1,2]] + empty array of lists;
   known finding regular-size1-to-size0): apply's all-RegularArray branch does not repeat a size-1 dimension to size 0. *)
Theorem broadcast_refines_spec_partial : forall op fuel c1 c2 vs1 vs2,
  jag c1 = true -> jag c2 = true -> to_list c1 = Ok vs1 -> to_list c2 = Ok vs2 ->
  (S (model_fuel_bound c1 c2) <= fuel)%nat ->
  size1_vs_size0 c1 c2 = false ->
  agrees (obs (broadcast_and_apply op None fuel [MC c1; MC c2]))
         (spec_broadcast op false fuel [SArr (type_of c1) vs1; SArr (type_of c2) vs2]).
Proof. exact broadcast_refines_spec_partial_lemma. Qed.
Print Assumptions broadcast_refines_spec_partial.

(* ... and on the excluded inputs they always differ in the same way: the model refuses, the specification returns [] *)
Theorem size1_vs_size0_differs : forall op fuel c1 c2 vs1 vs2,
  jag c1 = true -> jag c2 = true -> to_list c1 = Ok vs1 -> to_list c2 = Ok vs2 ->
  (S (model_fuel_bound c1 c2) <= fuel)%nat ->
  size1_vs_size0 c1 c2 = true ->
  broadcast_and_apply op None fuel [MC c1; MC c2] = Err EValue /\
  spec_broadcast op false fuel [SArr (type_of c1) vs1; SArr (type_of c2) vs2] = Ok [].
Proof. exact size1_vs_size0_differs_lemma. Qed.
Print Assumptions size1_vs_size0_differs.

(* ---- beyond two arrays: ONE array of the fragment [jag] and ANY NUMBER of Python scalars at any positions
   (x + 1, 100 - x, np.clip(x, lo, hi): three inputs).  [ins pre c post] = scalars, the array, scalars (model inputs);
   [ssc] / [sinp] = a scalar as an argument of the specification; [sc_ok]: a boolean scalar is 0 or 1. ---- *)

(* apply on the array as a variable-length list and the scalars = the specification (values AND error status) *)
Theorem scalars_refine_spec : forall op fuel pre post c vs,
  forallb sc_ok pre = true -> forallb sc_ok post = true -> jag c = true -> to_list c = Ok vs -> (csize c <= fuel)%nat ->
  agrees (obs (Broadcast.apply op None fuel (ins pre c post)))
         (unlist (spec_v op false (S fuel) (map ssc pre ++ arr_arg c vs :: map ssc post))).
Proof. exact scalars_refine_spec_lemma. Qed.
Print Assumptions scalars_refine_spec.

Theorem scalars_refine_spec_strong : forall op fuel pre post c vs,
  forallb sc_ok pre = true -> forallb sc_ok post = true -> jag c = true -> to_list c = Ok vs -> (csize c <= fuel)%nat ->
  agrees_c (Broadcast.apply op None fuel (ins pre c post))
           (unlist (spec_v op false (S fuel) (map ssc pre ++ arr_arg c vs :: map ssc post))).
Proof. exact scalars_refine_spec_strong_lemma. Qed.
Print Assumptions scalars_refine_spec_strong.

(* the entry points.  PARTIAL — excluded: more than one array input together with scalars; arrays outside [jag]
   (RegularArray, ByteMasked/BitMasked/UnmaskedArray, records, unions); boolean scalars not encoded as 0/1
   (Proofs_C04_Scal3.scalar_bool_encoding_refuted: an artefact of the pair encoding, not of the code). *)
Theorem broadcast_scalars_refines_spec_partial : forall op fuel pre post c vs,
  forallb sc_ok pre = true -> forallb sc_ok post = true -> jag c = true -> to_list c = Ok vs -> (S (csize c) <= fuel)%nat ->
  agrees (obs (broadcast_and_apply op None fuel (ins pre c post)))
         (spec_broadcast op false fuel (map sinp pre ++ SArr (type_of c) vs :: map sinp post)).
Proof. exact broadcast_scalars_refines_spec_partial_lemma. Qed.
Print Assumptions broadcast_scalars_refines_spec_partial.

Theorem broadcast_scalars_never_out_of_fuel : forall op fuel pre post c vs,
  forallb sc_ok pre = true -> forallb sc_ok post = true -> jag c = true -> to_list c = Ok vs -> (S (csize c) <= fuel)%nat ->
  obs (broadcast_and_apply op None fuel (ins pre c post)) <> Err EFuel /\
  spec_broadcast op false fuel (map sinp pre ++ SArr (type_of c) vs :: map sinp post) <> Err EFuel.
Proof. exact broadcast_scalars_never_out_of_fuel_lemma. Qed.
Print Assumptions broadcast_scalars_never_out_of_fuel.

(* ---- the other option encodings (ByteMaskedArray both polarities, BitMaskedArray, UnmaskedArray, IndexedOptionArray) as the
   TOP node of an input, over a non-option layout of [jag]: fragment [jagO]; [osize] = number of calls of apply.
   PARTIAL — excluded: such nodes BELOW the top node (inner levels; sample agreements in
   Proofs_C04_Probes.option_encodings_test), more than two arrays, the entry point broadcast_and_apply (pack/unpack slice the
   option node itself). ---- *)
Theorem option_encodings_refine_spec_partial : forall op fuel c1 c2 vs1 vs2,
  jagO c1 = true -> jagO c2 = true -> to_list c1 = Ok vs1 -> to_list c2 = Ok vs2 ->
  (osize c1 + osize c2 <= fuel)%nat ->
  agrees (obs (Broadcast.apply op None fuel [MC c1; MC c2]))
         (unlist (spec_v op false (S fuel) [arr_arg c1 vs1; arr_arg c2 vs2])).
Proof. exact option_encodings_refine_spec_lemma. Qed.
Print Assumptions option_encodings_refine_spec_partial.

Theorem option_encodings_refine_spec_strong_partial : forall op fuel c1 c2 vs1 vs2,
  jagO c1 = true -> jagO c2 = true -> to_list c1 = Ok vs1 -> to_list c2 = Ok vs2 ->
  (osize c1 + osize c2 <= fuel)%nat ->
  agrees_c (Broadcast.apply op None fuel [MC c1; MC c2])
           (unlist (spec_v op false (S fuel) [arr_arg c1 vs1; arr_arg c2 vs2])).
Proof. exact option_encodings_refine_spec_partial_lemma. Qed.
Print Assumptions option_encodings_refine_spec_strong_partial.

(* one array of [jagO] and any number of scalars *)
Theorem option_encodings_scalars_refine_spec_partial : forall op fuel pre post c vs,
  forallb sc_ok pre = true -> forallb sc_ok post = true -> jagO c = true -> to_list c = Ok vs -> (osize c <= fuel)%nat ->
  agrees (obs (Broadcast.apply op None fuel (ins pre c post)))
         (unlist (spec_v op false (S fuel) (map ssc pre ++ arr_arg c vs :: map ssc post))).
Proof. exact option_encodings_scalars_refine_spec_lemma. Qed.
Print Assumptions option_encodings_scalars_refine_spec_partial.

(* ---- RegularArray levels: NOT proved; two shapes on which the faithful model (= the code) departs from the specification,
   to be excluded by any future fragment predicate (both are registered open findings) ---- *)
Theorem regular_level_no_left_broadcast_refuted :
  both2 UAdd rl (np [10; 20]) =
  (Err EValue, Ok [VList [VList (iz [11]); VList (iz [12; 13])]; VList [VList []; VList (iz [24])]]).
Proof. exact Proofs_C04_Probes.regular_level_no_left_broadcast_refuted. Qed.
Print Assumptions regular_level_no_left_broadcast_refuted.

Theorem regular_inner_size1_vs_size0_refuted :
  both2 UAdd (Regular (ListOffset I64 [0] (np [])) 0 2) (Regular (ListOffset I64 [0; 1; 2] (np [5; 6])) 1 2) =
  (Err EValue, Ok [VList []; VList []]).
Proof. exact Proofs_C04_Probes.regular_inner_size1_vs_size0_refuted. Qed.
Print Assumptions regular_inner_size1_vs_size0_refuted.
