(** C11 property theorems (statements only; proofs are in Proofs_C11.v). *)
From AwkV Require Import Layout Valid Proofs_C11.
From AwkV Require Import Types Proofs_Lists Proofs_ToList.

(* The model of validityerror (checks in the C++ order) accepts exactly the layouts
   satisfying the declarative documented rules. *)
Theorem validity_exact : forall c, valid_b c = true <-> Valid None c.
Proof. exact (fun c => validity_exact_gen c None). Qed.
Print Assumptions validity_exact.

(* a layout obeying the documented rules always has a value (no failure, no out-of-bounds read),
   provided the character buffers of its strings are usable (validity, like the C++ check, does
   not look below a string node) *)
Theorem valid_layouts_have_a_value : forall c p, Valid p c -> chars_ok c = true -> exists vs, to_list c = Ok vs.
Proof. exact valid_to_list_total_partial. Qed.
Print Assumptions valid_layouts_have_a_value.

Theorem value_length_is_layout_length : forall c p vs, Valid p c -> to_list c = Ok vs -> zlen vs = clen c.
Proof. exact to_list_length. Qed.
Print Assumptions value_length_is_layout_length.
