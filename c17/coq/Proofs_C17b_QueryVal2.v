(** C17b, queries part 7: key(i) / fieldindex(k) of a valid layout name the i-th field of every record of its value. *)
From Coq Require Import ZArith List Bool Lia String.
From AwkV Require Import Base Layout LayoutInd Valid Types Proofs_Lists Proofs_C11.
From AwkTypes Require Import Json Forms TypeStr Typing Proofs_Depth Proofs_Types Proofs_Typing Proofs_Json Proofs_Parse
                             Proofs_C17b_Query Proofs_C17b_QueryLaws Proofs_C17b_QueryVal.
Import ListNotations.
Open Scope Z_scope.

(* every record found in v after peeling lists and missing values has k as the name of its i-th field
   (a tuple: i is a position and k its decimal string) *)
Fixpoint value_field_at (i : Z) (k : bytes) (v : value) {struct v} : bool :=
  match v with
  | VList l => forallb (value_field_at i k) l
  | VRec fs => match get (map fst fs) i with Ok k' => name_eqb k' k | Err _ => false end
  | VTup vs => (0 <=? i) && (i <? zlen vs) && bytes_eqb k (dec_of_Z i)
  | _ => true
  end.

Lemma keys_ok_field_at ks i k v : get ks i = Ok k -> value_keys_ok ks v = true -> value_field_at i k v = true.
Proof.
  intros Hg. induction v as [d|b0|j s| |l IH|fs IH|vs IH] using value_ind'; cbn [value_keys_ok value_field_at]; auto.
  - intros H. apply forallb_forall. intros x Hx. rewrite forallb_forall in H. rewrite Forall_forall in IH. auto.
  - intros H. apply list_name_eqb_eq in H. subst ks. unfold name, bytes in *. rewrite Hg. apply name_eqb_refl.
  - intros H. apply list_name_eqb_eq in H. subst ks. pose proof (get_range _ _ _ Hg) as Hr.
    unfold tuple_keys, zlen in Hr. rewrite map_length, iota_nat_length' in Hr.
    rewrite get_tuple_keys in Hg by lia. inversion Hg; subst.
    apply andb_true_iff. split; [apply andb_true_iff; split; [apply Z.leb_le|apply Z.ltb_lt; unfold zlen]; lia|apply bytes_eqb_refl].
Qed.

Theorem key_names_value_field c vs i k :
  Valid None c -> to_list c = Ok vs -> union_free_path c = true -> c_rec_wf c = true ->
  0 <= i -> c_key c i = Ok k -> Forall (fun v => value_field_at i k v = true) vs.
Proof.
  intros HV Hl Hp Hwf Hi Hk.
  destruct (key_is_keys_entry (form_of c) Hwf (c_keys c) i k (keys_agree c None None) Hi) as [H1 _].
  unfold form_of in H1. rewrite key_agree in H1. specialize (H1 Hk).
  eapply Forall_impl; [|exact (queries_agree_with_value c vs HV Hl Hp)].
  intros v (K1 & _). exact (keys_ok_field_at _ _ _ _ H1 K1).
Qed.

Lemma index_of_ge k l : forall i0 j, index_of k l i0 = Some j -> i0 <= j.
Proof.
  induction l as [|a l IH]; intros i0 j H; cbn [index_of] in H; [discriminate|].
  destruct (bytes_eqb a k); [inversion H; lia|]. specialize (IH _ _ H). lia.
Qed.

Lemma util_fieldindex_nonneg ks k n i : util_fieldindex ks k n = Ok i -> 0 <= i.
Proof.
  unfold util_fieldindex. destruct (match ks with Some l => index_of k l 0 | None => None end) as [j|] eqn:E.
  - intros H. inversion H; subst. destruct ks as [l|]; [|discriminate]. exact (index_of_ge k l 0 i E).
  - destruct (stoi k) as [| |out]; try discriminate. destruct ((0 <=? out) && (out <? n)) eqn:Er; [|discriminate].
    intros H. inversion H; subst. apply andb_true_iff in Er as [Er _]. apply Z.leb_le in Er. exact Er.
Qed.

Lemma c_fieldindex_nonneg c k : forall i, c_fieldindex c k = Ok i -> 0 <= i.
Proof.
  induction c using content_ind'; intros i; cbn [c_fieldindex]; try discriminate; auto.
  apply util_fieldindex_nonneg.
Qed.

(* fieldindex(k) = i for a listed key k: the i-th field of every record is k *)
Theorem fieldindex_names_value_field c vs k :
  Valid None c -> to_list c = Ok vs -> union_free_path c = true -> c_rec_wf c = true -> c_record_path c = true ->
  In k (c_keys c) ->
  exists i, c_fieldindex c k = Ok i /\ Forall (fun v => value_field_at i k v = true) vs.
Proof.
  intros HV Hl Hp Hwf Hrp Hin. destruct (c_keys_have_key c Hwf k Hin) as [_ H2]. destruct (H2 Hrp) as (i & Hi & Hk).
  exists i. split; [exact Hi|].
  exact (key_names_value_field c vs i k HV Hl Hp Hwf (c_fieldindex_nonneg c k i Hi) Hk).
Qed.

Example fieldindex_names_value_field_example :
  exists vs i, to_list ex_reg = Ok vs /\ c_fieldindex ex_reg [98] = Ok i /\ i = 1 /\
               Forall (fun v => value_field_at i [98] v = true) vs.
Proof.
  destruct (fieldindex_names_value_field ex_reg _ [98] ex_reg_valid eq_refl eq_refl eq_refl eq_refl) as (i & Hi & HF).
  - right. left. reflexivity.
  - eexists. exists i. split; [reflexivity|]. split; [exact Hi|]. split; [|exact HF].
    vm_compute in Hi. inversion Hi. reflexivity.
Qed.

(* ================================================================== purelist_depth with unions: exact as long as no
   union on the way has alternatives of different depths (the case in which purelist_depth answers -1 there) *)
Fixpoint ty_pdepth_u (t : ty) : Z :=
  match t with
  | TList _ None t' => ty_pdepth_u t' + 1
  | TOpt t' => ty_pdepth_u t'
  | TUnion ts =>
      match map ty_pdepth_u ts with
      | [] => -1
      | d0 :: rest => if forallb (Z.eqb d0) rest then d0 else -1
      end
  | _ => 1
  end.

Fixpoint ty_consistent (t : ty) : bool :=
  match t with
  | TList _ None t' | TOpt t' => ty_consistent t'
  | TUnion ts => forallb ty_consistent ts && negb (ty_pdepth_u (TUnion ts) =? -1)
  | _ => true
  end.

Lemma union_depth_all ds d : match ds with [] => -1 | d0 :: rest => if forallb (Z.eqb d0) rest then d0 else -1 end = d ->
  d <> -1 -> forall x, In x ds -> x = d.
Proof.
  destruct ds as [|d0 rest]; [intros <- H; congruence|]. destruct (forallb (Z.eqb d0) rest) eqn:E; [|intros <- H; congruence].
  intros <- _ x [<-|Hx]; [reflexivity|]. rewrite forallb_forall in E. symmetry. apply Z.eqb_eq, E, Hx.
Qed.

Lemma typed_depth_exact_u t : forall v, has_typeb t v = true -> ty_consistent t = true ->
  list_depth_exact (ty_pdepth_u t) v = true.
Proof.
  induction t as [dt| |sz str t IH|t IH|ks ts IH|ts IH] using ty_ind'; intros v Hv Hc.
  - destruct v; cbn [has_typeb] in Hv; try discriminate; reflexivity.
  - discriminate.
  - destruct str as [isstr|].
    + destruct v; cbn [has_typeb] in Hv; try discriminate. reflexivity.
    + destruct v as [| | | |l| |]; cbn [has_typeb] in Hv; try discriminate.
      apply andb_true_iff in Hv as [Hl _]. cbn [ty_pdepth_u list_depth_exact ty_consistent] in *.
      replace (ty_pdepth_u t + 1 - 1) with (ty_pdepth_u t) by lia.
      apply forallb_forall. intros x Hx. rewrite forallb_forall in Hl. auto.
  - cbn [ty_pdepth_u ty_consistent] in *. destruct v; cbn [has_typeb] in Hv; auto.
  - destruct ks as [ks|]; destruct v as [| | | |l|fs|vs]; cbn [has_typeb] in Hv; try discriminate; reflexivity.
  - cbn [has_typeb] in Hv. apply ex_union in Hv as (t & Hin & Ht). rewrite Forall_forall in IH.
    cbn [ty_consistent] in Hc. apply andb_true_iff in Hc as [Hall Hne]. apply negb_true_iff in Hne. apply Z.eqb_neq in Hne.
    rewrite forallb_forall in Hall.
    assert (Hd : ty_pdepth_u t = ty_pdepth_u (TUnion ts)).
    { apply (union_depth_all (map ty_pdepth_u ts) _ eq_refl Hne). apply in_map, Hin. }
    rewrite <- Hd. auto.
Qed.

Lemma numpy_ty_pdepth_u dt dims : ty_pdepth_u (numpy_ty dt dims) = zlen dims + 1.
Proof. induction dims as [|d ds IH]; cbn [numpy_ty ty_pdepth_u]; [reflexivity|]. rewrite IH, zlen_cons. lia. Qed.

Lemma forallb_map_eq {A} (f g : A -> Z) d (l : list A) : (forall x, In x l -> f x = g x) ->
  forallb (Z.eqb d) (map f l) = forallb (Z.eqb d) (map g l).
Proof. intros H. induction l as [|a l IH]; [reflexivity|]. cbn [map forallb]. rewrite (H a (or_introl eq_refl)), IH; auto. intros x Hx. apply H. right. exact Hx. Qed.

(* every valid layout: the layout's purelist_depth is that of its type, unions included *)
Lemma content_pdepth_type_u c : forall p, Valid p c -> c_purelist_depth p c = ty_pdepth_u (type_of_p p c).
Proof.
  induction c as [dt shape data| |w o c IHc|w s e c IHc|c size zl IHc|w ix c IHc|w ix c IHc|m vw c IHc
                 |m vw lsb n c IHc|c IHc|w t ix cs IHcs|cs ks n IHcs|arr rn c IHc] using content_ind';
    intros p HV; inversion HV; subst; cbn [c_purelist_depth type_of_p ty_pdepth_u]; eauto.
  - destruct shape as [|n dims]; [congruence|]. cbn [tl]. rewrite numpy_ty_pdepth_u, zlen_cons. reflexivity.
  - match goal with Hp : ParamOk p _, Hs : is_strk p = false -> _ |- _ =>
      destruct p as [[]|]; simpl in Hp; try contradiction; try reflexivity;
      cbn [strflag is_string_kind]; f_equal; eapply IHc; apply Hs; reflexivity end.
  - match goal with Hp : ParamOk p _, Hs : is_strk p = false -> _ |- _ =>
      destruct p as [[]|]; simpl in Hp; try contradiction; try reflexivity;
      cbn [strflag is_string_kind]; f_equal; eapply IHc; apply Hs; reflexivity end.
  - match goal with Hp : ParamOk p _, Hs : is_strk p = false -> _ |- _ =>
      destruct p as [[]|]; simpl in Hp; try contradiction; try reflexivity;
      cbn [strflag is_string_kind]; f_equal; eapply IHc; apply Hs; reflexivity end.
  - rewrite map_map.
    assert (Hm : map (c_purelist_depth None) cs = map (fun x => ty_pdepth_u (type_of_p None x)) cs).
    { apply map_ext_in. intros x Hx. rewrite Forall_forall in IHcs.
      match goal with HF : Forall (Valid None) cs |- _ => rewrite Forall_forall in HF; auto end. }
    rewrite Hm. reflexivity.
Qed.

Definition depth_consistent (c : content) : bool := ty_consistent (type_of c).

Theorem purelist_depth_exact_with_unions c vs : Valid None c -> to_list c = Ok vs -> depth_consistent c = true ->
  Forall (fun v => list_depth_exact (c_purelist_depth None c) v = true) vs.
Proof.
  intros HV Hl Hc. rewrite (content_pdepth_type_u c None HV).
  eapply Forall_impl; [|exact (to_list_typed_thm c vs HV Hl)]. intros v Hv. exact (typed_depth_exact_u _ v Hv Hc).
Qed.

(* [[{x: 5, y: 6}], [[7]] ... : a union of a record and a list, below a list: every leaf / record at depth 2 *)
Definition ex_udepth2 : content :=
  ListOffset I64 [0; 2; 2]
    (Union I64 [0; 1] [0; 0] [Record [Numpy DInt64 [1] [DZ 5]] (Some [[120]]) 1;
                              IndexedOption I64 [0] (Numpy DInt64 [1] [DZ 7])]).
Example purelist_depth_exact_with_unions_example :
  depth_consistent ex_udepth2 = true /\ depth_consistent ex_udepth = false /\ c_purelist_depth None ex_udepth2 = 2 /\
  exists vs, to_list ex_udepth2 = Ok vs /\ Forall (fun v => list_depth_exact 2 v = true) vs.
Proof.
  split; [reflexivity|]. split; [reflexivity|]. split; [reflexivity|]. eexists. split; [vm_compute; reflexivity|].
  apply (purelist_depth_exact_with_unions ex_udepth2); [apply (validity_exact_gen ex_udepth2 None); vm_compute; reflexivity|vm_compute; reflexivity|reflexivity].
Qed.
