(** C17b, soundness of the item list (converse of the cover theorem): a value that matches one of the items listed
    for a valid array has the array's item type, up to the two things an item does not record: the regular size
    of a list item, and the string unit (the characters presented as a list of numbers). *)
From Coq Require Import ZArith List Bool Lia ZifyBool String.
From AwkV Require Import Base Layout LayoutInd Valid Types Carry Proofs_Lists Proofs_ToList Proofs_C11.
From AwkTypes Require Import Json Forms TypeStr Typing Proofs_Depth Proofs_Types Proofs_Typing Examples_C17
                             Proofs_C17b_Elem.
Import ListNotations.
Open Scope Z_scope.
Ltac Zify.zify_post_hook ::= Z.to_euclidean_division_equations.

Lemma pfind_pset_record n (p : params) : pfind k_array (pset k_record (JStr n) p) = pfind k_array p.
Proof.
  induction p as [|[k v] p IH]; [reflexivity|].
  cbn [pset]. destruct (bytes_ltb k_record k) eqn:E1.
  - reflexivity.
  - destruct (bytes_ltb k k_record) eqn:E2.
    + cbn [pfind]. rewrite IH. reflexivity.
    + cbn [pfind]. destruct (bytes_eqb k k_array) eqn:E3.
      * exfalso. apply bytes_eqb_eq in E3. subst k. vm_compute in E2. discriminate.
      * change (bytes_eqb k_record k_array) with false. cbv iota. reflexivity.
Qed.

(* the leaf type of a valid layout never carries __array__ (char / byte leaves live only inside string nodes,
   whose type is a list type) *)
Lemma no_char_param ts c : forall p r pp sx dx,
  Valid p c -> type_of_form ts (form_of_p p r c) = Ok (RNum pp sx dx) -> pfind k_array pp = None.
Proof.
  induction c as [ | | | | | | | | | | w t ix cs HF | cs ks n HF | ] using content_ind'; intros p r pp sx dx HV H;
    inversion HV; subst; cbn [form_of_p type_of_form] in H;
    try (apply bind_Ok in H as (t0 & _ & H); discriminate H); try discriminate H.
  - (* Numpy *)
    match goal with Hp : ParamOk p _ |- _ => pose proof (ParamOk_nonlist _ _ Hp eq_refl) as -> end.
    destruct (tl shape); cbn [fold_right] in H; [|discriminate H]. inversion H; subst. destruct r; reflexivity.
  - (* Indexed *)
    match goal with Hp : ParamOk p _ |- _ => pose proof (ParamOk_nonlist _ _ Hp eq_refl) as -> end.
    apply bind_Ok in H as (t0 & Ht0 & H).
    match goal with Hv : Valid None c |- _ => pose proof (fun pp sx dx => IHc None None pp sx dx Hv) as IH end.
    rewrite Ht0 in IH. unfold meta_of in H. cbn [m_params] in H. rewrite params_of_none_r in H.
    destruct r as [n|].
    + destruct t0; try (destruct (rty_params _); discriminate H).
      cbn [rty_params] in H. pose proof (IH _ _ _ eq_refl) as Hp0.
      destruct p as [|kv op]; cbn [rty_set_params] in H;
        apply (f_equal (fun r => match r with Ok (RNum q _ _) => pfind k_array q | _ => None end)) in H;
        cbv beta iota in H; rewrite <- H.
      * reflexivity.
      * unfold categorical_fix, param_is_str. cbn [pfind]. rewrite rec_neq_arr.
        cbn [fold_left fst snd]. rewrite rec_neq_arr. unfold setparameter. rewrite pfind_pset_record. exact Hp0.
    + destruct (rty_params t0); rewrite H in IH; exact (IH _ _ _ eq_refl).
  - (* Par *)
    cbn [por] in H. eapply IHc; eassumption.
Qed.

(* what an item does not record: the regular size of a list item; the string unit (an item of an array of strings
   is the char leaf type, which the characters presented as a list of numbers match as well) *)
Fixpoint relax (t : ty) {struct t} : ty :=
  match t with
  | TList _ None t' => TList None None t'
  | TList _ (Some b) t' => TUnion [TList None (Some b) t'; TList None None t']
  | TOpt t' => TOpt (relax t')
  | TUnion ts => TUnion (map relax ts)
  | _ => t
  end.

Definition sound (ts : typestrs) (p : option akind) (r : option name) (c : content) : Prop :=
  forall l v, item_types ts (form_of_p p r c) = Ok l -> some_item_matches l v = true ->
              has_typeb (relax (type_of_p p c)) v = true.

Lemma param_is_str_none pp x : pfind k_array pp = None -> param_is_str pp k_array x = false.
Proof. unfold param_is_str. intros ->. reflexivity. Qed.

Lemma sound_list ts p c0 cc sz :
  ParamOk p c0 -> list_content c0 = Some cc -> (is_strk p = false -> Valid None cc) ->
  forall l v, (do t <- type_of_form ts (form_of_p None None cc); Ok [TypeStr.IArray t]) = Ok l ->
              some_item_matches l v = true -> has_typeb (relax (TList sz (strflag p) (type_of_p None cc))) v = true.
Proof.
  intros Hp Hlc HV l v Hl Hm. destruct (is_strk p) eqn:Es.
  - destruct p as [[]|]; try discriminate Es; cbn [ParamOk] in Hp; destruct Hp as (cc' & rn & n & d & Hcc & ->);
      rewrite Hlc in Hcc; inversion Hcc; subst cc; cbn [form_of_p por type_of_form meta_of m_params bind] in Hl;
      inversion Hl; subst l; unfold some_item_matches in Hm; cbn [existsb item_matches] in Hm;
      rewrite orb_false_r in Hm; cbn [strflag type_of_p tl numpy_ty relax has_typeb];
      destruct v; try discriminate Hm.
    + destruct isstr; [reflexivity|]. destruct rn; discriminate Hm.
    + cbn [erase] in Hm. cbn [has_typeb] in Hm |- *. rewrite Hm. reflexivity.
    + destruct isstr; [destruct rn; discriminate Hm|reflexivity].
    + cbn [erase] in Hm. cbn [has_typeb] in Hm |- *. rewrite Hm. reflexivity.
  - specialize (HV eq_refl). rewrite (ParamOk_nostr p c0 Hp Es).
    destruct (rerase_inv _ _ _ (type_of_form_of_gen ts cc None None HV)) as (t & Ht & He).
    rewrite Ht in Hl. cbn [bind] in Hl. inversion Hl; subst l. unfold some_item_matches in Hm.
    cbn [existsb item_matches] in Hm. rewrite orb_false_r in Hm. cbn [strflag relax has_typeb].
    destruct v; try discriminate Hm.
    + (* a string unit cannot match: the content's leaf type carries no __array__ *)
      destruct t; try discriminate Hm. destruct dt as [[]| | | | | | | |]; try discriminate Hm.
      rewrite (param_is_str_none _ _ (no_char_param ts cc None None _ _ _ HV Ht)) in Hm. discriminate Hm.
    + rewrite He in Hm. rewrite Hm. reflexivity.
Qed.

Lemma sound_opt l v t :
  (forall v, some_item_matches l v = true -> has_typeb (relax t) v = true) ->
  some_item_matches (INone :: l) v = true -> has_typeb (relax (TOpt t)) v = true.
Proof.
  intros H Hm. unfold some_item_matches in *. cbn [existsb item_matches] in Hm. cbn [relax has_typeb].
  destruct v; try reflexivity; cbn [orb] in Hm; exact (H _ Hm).
Qed.

Lemma sound_union ts (cs : list content) :
  Forall (sound ts None None) cs ->
  forall ll v, mapM_id (map (item_types ts) (map (form_of_p None None) cs)) = Ok ll ->
    some_item_matches (concat ll) v = true -> has_typeb (relax (TUnion (map (type_of_p None) cs))) v = true.
Proof.
  induction 1 as [|c cs Hc _ IH]; intros ll v Hll Hm.
  - inversion Hll; subst. discriminate Hm.
  - cbn [map mapM_id] in Hll. apply bind_Ok in Hll as (l & Hl & Hll). apply bind_Ok in Hll as (ll' & Hll' & Hll).
    inversion Hll; subst ll. cbn [concat] in Hm. rewrite some_item_matches_app in Hm.
    cbn [map relax has_typeb]. apply orb_true_iff in Hm as [Hm|Hm].
    + rewrite (Hc l v Hl Hm). reflexivity.
    + specialize (IH ll' v Hll' Hm). cbn [relax has_typeb] in IH. rewrite IH. apply orb_true_r.
Qed.

Theorem item_types_sound ts c : forall p r, Valid p c -> sound ts p r c.
Proof.
  induction c as [ | | | | | | | | | | w t ix cs HF | cs ks n HF | ] using content_ind'; intros p r HV; inversion HV; subst;
    unfold sound; intros l v Hl Hm.
  - (* Numpy *)
    match goal with Hp : ParamOk p _ |- _ => pose proof (ParamOk_nonlist _ _ Hp eq_refl) as -> end.
    destruct shape as [|n [|d rest]]; [congruence| |].
    + cbn [form_of_p tl item_types] in Hl. inversion Hl; subst l. unfold some_item_matches in Hm.
      cbn [existsb item_matches] in Hm. rewrite orb_false_r in Hm. exact Hm.
    + cbn [form_of_p tl item_types type_of_form bind] in Hl. inversion Hl; subst l. unfold some_item_matches in Hm.
      cbn [existsb item_matches] in Hm. rewrite orb_false_r in Hm.
      cbn [type_of_p tl numpy_ty relax has_typeb]. destruct v; try discriminate Hm.
      * destruct rest; cbn [fold_right] in Hm; [|discriminate Hm].
        destruct dt; try discriminate Hm. destruct r, isstr; discriminate Hm.
      * rewrite erase_numpy_fold in Hm. rewrite Hm. reflexivity.
  - (* Empty *)
    inversion Hl; subst. discriminate Hm.
  - cbn [form_of_p item_types type_of_p] in *. eapply sound_list; [eassumption|reflexivity|assumption|exact Hl|exact Hm].
  - cbn [form_of_p item_types type_of_p] in *. eapply sound_list; [eassumption|reflexivity|assumption|exact Hl|exact Hm].
  - cbn [form_of_p item_types type_of_p] in *. eapply sound_list; [eassumption|reflexivity|assumption|exact Hl|exact Hm].
  - (* Indexed *)
    match goal with Hv : Valid None c |- _ => exact (IHc None None Hv l v Hl Hm) end.
  - cbn [form_of_p item_types type_of_p] in *. apply bind_Ok in Hl as (l0 & Hl0 & Hl). inversion Hl; subst l.
    match goal with Hv : Valid None c |- _ => exact (sound_opt l0 v _ (fun v' => IHc None None Hv l0 v' Hl0) Hm) end.
  - cbn [form_of_p item_types type_of_p] in *. apply bind_Ok in Hl as (l0 & Hl0 & Hl). inversion Hl; subst l.
    match goal with Hv : Valid None c |- _ => exact (sound_opt l0 v _ (fun v' => IHc None None Hv l0 v' Hl0) Hm) end.
  - cbn [form_of_p item_types type_of_p] in *. apply bind_Ok in Hl as (l0 & Hl0 & Hl). inversion Hl; subst l.
    match goal with Hv : Valid None c |- _ => exact (sound_opt l0 v _ (fun v' => IHc None None Hv l0 v' Hl0) Hm) end.
  - cbn [form_of_p item_types type_of_p] in *. apply bind_Ok in Hl as (l0 & Hl0 & Hl). inversion Hl; subst l.
    match goal with Hv : Valid None c |- _ => exact (sound_opt l0 v _ (fun v' => IHc None None Hv l0 v' Hl0) Hm) end.
  - (* Union *)
    cbn [form_of_p item_types type_of_p] in *. apply bind_Ok in Hl as (ll & Hll & Hl). inversion Hl; subst l.
    apply (sound_union ts cs) with (ll := ll); [|exact Hll|exact Hm].
    match goal with HVs : Forall (Valid None) cs |- _ =>
      eapply Forall_impl2; [|exact HF|exact HVs]; intros x Hx Hv; apply (Hx None None Hv) end.
  - (* Record *)
    destruct (rerase_inv _ _ _ (type_of_form_of_gen ts (Record cs ks n) p r HV)) as (t & Ht & He).
    cbn [form_of_p] in Ht. cbn [form_of_p item_types] in Hl. rewrite Ht in Hl. cbn [bind] in Hl. inversion Hl; subst l.
    unfold some_item_matches in Hm. cbn [existsb item_matches] in Hm. rewrite orb_false_r in Hm. rewrite He in Hm.
    cbn [type_of_p relax] in *. destruct v; try discriminate Hm; exact Hm.
  - (* Par *)
    cbn [form_of_p type_of_p por] in *. eapply IHc; eassumption.
Qed.

(* relax only forgets: a typed value also has the relaxed type *)
(* the two directions together, on a valid array *)
Theorem items_sound_thm ts c l v :
  Valid None c -> item_types ts (form_of c) = Ok l -> existsb (fun it => item_matches it v) l = true ->
  has_typeb (relax (type_of c)) v = true.
Proof. intros HV Hl Hm. exact (item_types_sound ts c None None HV l v Hl Hm). Qed.

Example ex_relax :
  relax (type_of ex_layout) = type_of ex_layout /\
  relax (TList (Some 3) None (TNum DInt64)) = TList None None (TNum DInt64) /\
  has_typeb (relax (TList (Some 3) None (TNum DInt64))) (VList [VNum (DZ 1)]) = true /\
  has_typeb (relax (TList None (Some true) (TNum DUInt8))) (VStr false [1]) = false.
Proof. vm_compute. repeat split. Qed.

(* [relax] only forgets: a typed value also has the relaxed type; so on a valid array
   has_type (type_of c) v  ==>  v matches an item  ==>  has_type (relax (type_of c)) v *)
Lemma relax_weakens : forall t v, has_typeb t v = true -> has_typeb (relax t) v = true.
Proof.
  fix IH 1. intros t v H. destruct t as [dt | | sz str t | t | ks ts | ts]; cbn [relax]; try exact H.
  - destruct str as [b|].
    + destruct v; try discriminate H. cbn [has_typeb] in *. apply andb_true_iff in H as [H1 _]. rewrite H1. reflexivity.
    + destruct v; try discriminate H. cbn [has_typeb] in *. apply andb_true_iff in H as [H1 _]. rewrite H1. reflexivity.
  - destruct v; try reflexivity; cbn [has_typeb] in *; apply IH; exact H.
  - cbn [has_typeb] in *. induction ts as [|t0 ts IHts]; [exact H|].
    cbn [map]. apply orb_true_iff in H as [H|H].
    + rewrite (IH t0 v H). reflexivity.
    + rewrite (IHts H). apply orb_true_r.
Qed.

Theorem items_sandwich_thm ts c v :
  Valid None c ->
  exists l, item_types ts (form_of c) = Ok l /\
    (has_typeb (type_of c) v = true -> existsb (fun it => item_matches it v) l = true) /\
    (existsb (fun it => item_matches it v) l = true -> has_typeb (relax (type_of c)) v = true).
Proof.
  intros HV. destruct (item_types_cover ts c None None HV) as (l & Hl & Hc). exists l. split; [exact Hl|].
  split; [exact (Hc v)|]. intros Hm. exact (item_types_sound ts c None None HV l v Hl Hm).
Qed.
