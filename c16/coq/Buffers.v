(** C16 model: to_buffers / from_buffers (convert.py), NumPy and Arrow conversions.  MODEL ONLY (no proofs).

    to_buffers is split in two layers that the Python code interleaves:
      [to_ftree]  layout -> tree of buffers (what [fill] puts into the container, incl. the range-slice
                  [layout[k]] = getitem_range_nowrap(0, len) applied to the fields of a keyed RecordArray)
      [label]     pre-order numbering "node{id}" of the tree, one container entry per index / data attribute
    and from_buffers likewise:
      [relabel]   form + container -> tree of buffers (container look-ups)
      [of_ftree]  tree of buffers + expected length -> layout, lengths recomputed exactly as _form_to_layout does.
    [fixed] = false is the code of the pinned tree: a child is asked for what the first [length] entries of its
    parent need while the parent is rebuilt from its whole buffers.  *)
From Coq Require Import ZArith List Bool Lia.
From AwkV Require Export Base Layout Valid Types AtAxis.
Import ListNotations.
Open Scope Z_scope.

(* ------------------------------------------------------------------------------------------ trees of buffers *)
Inductive ftree :=
| TNumpy (dt : dtype) (inner : list Z) (data : list datum)
| TEmpty
| TListOffset (w : width) (offsets : list Z) (t : ftree)
| TList (w : width) (starts stops : list Z) (t : ftree)
| TRegular (t : ftree) (size : Z)
| TIndexed (w : width) (index : list Z) (t : ftree)
| TIndexedOption (w : width) (index : list Z) (t : ftree)
| TByteMasked (mask : list Z) (valid_when : bool) (t : ftree)
| TBitMasked (mask : list Z) (valid_when lsb : bool) (t : ftree)
| TUnmasked (t : ftree)
| TUnion (w : width) (tags index : list Z) (ts : list ftree)
| TRecord (ts : list ftree) (keys : option (list name))
| TPar (arr : option akind) (rn : option name) (t : ftree).

(* the eight bits of one mask byte, in array order *)
Definition byte_bits (lsb : bool) (b : Z) : list Z :=
  map (fun k => if Z.testbit b (if lsb then k else 7 - k) then 1 else 0) (iota 8).
Definition unpack_bits (lsb : bool) (m : list Z) : list Z := flat_map (byte_bits lsb) m.

Definition trim {A} (t : option Z) (l : list A) : list A :=
  match t with None => l | Some k => take k l end.
Definition trim1 {A} (t : option Z) (l : list A) : list A :=      (* offsets: one more *)
  match t with None => l | Some k => take (k + 1) l end.
Definition tmul (t : option Z) (size : Z) : option Z :=
  match t with None => None | Some k => Some (k * size) end.

(* [to_ftree c t]: the buffers [fill] emits for c (t = None) or for c.getitem_range_nowrap(0, k) (t = Some k) *)
Fixpoint to_ftree (c : content) (t : option Z) {struct c} : ftree :=
  match c with
  | Numpy dt shape data =>
      let n := match shape with [] => 0 | n :: _ => n end in
      let inner := tl shape in
      let rows := match t with None => n | Some k => k end in
      TNumpy dt inner (take (rows * prodZ inner) data)
  | Empty => TEmpty
  | ListOffset w o c' => TListOffset w (trim1 t o) (to_ftree c' None)
  | ListA w s e c' => TList w (trim t s) (trim t e) (to_ftree c' None)
  | Regular c' size _ => TRegular (to_ftree c' (tmul t size)) size
  | Indexed w ix c' => TIndexed w (trim t ix) (to_ftree c' None)
  | IndexedOption w ix c' => TIndexedOption w (trim t ix) (to_ftree c' None)
  | ByteMasked m vw c' => TByteMasked (trim t m) vw (to_ftree c' t)
  | BitMasked m vw lsb n c' =>
      match t with
      | None => TBitMasked m vw lsb (to_ftree c' None)
      | Some k =>        (* BitMaskedArray::getitem_range_nowrap = toByteMaskedArray()->getitem_range_nowrap *)
          TByteMasked (take k (take n (unpack_bits lsb m))) vw (to_ftree c' t)
      end
  | Unmasked c' => TUnmasked (to_ftree c' t)
  | Union w tg ix cs =>
      TUnion w (trim t tg) (trim t ix)
        ((fix all (l : list content) : list ftree :=
            match l with [] => [] | x :: xs => to_ftree x None :: all xs end) cs)
  | Record cs ks n =>
      (* tuple: fill(x) for x in layout.contents;  keyed: fill(layout[k]) = contents range-sliced to the length *)
      (* RecordArray::getitem_range_nowrap(0, k) is the array itself when k = length: the fields stay whole *)
      let t' := match ks with
                | None => match t with Some k => if k =? n then None else Some k | None => None end
                | Some _ => Some (match t with None => n | Some k => k end)
                end in
      TRecord ((fix all (l : list content) : list ftree :=
                  match l with [] => [] | x :: xs => to_ftree x t' :: all xs end) cs) ks
  | Par a r c' => TPar a r (to_ftree c' t)
  end.

Definition top_len (c : content) : Z := clen c.

(* ------------------------------------------------------------------------------------------ lengths recomputed *)
Definition zmaxl (l : list Z) : Z := fold_right Z.max 0 l.         (* only used on non-empty lists or with base 0 *)
Definition max_or0 (l : list Z) : Z :=
  match l with [] => 0 | x :: xs => fold_right Z.max x xs end.
Definition last_z (l : list Z) : res Z := get l (zlen l - 1).
Definition min_list (d : Z) (l : list Z) : Z := fold_right Z.min d l.

(* stops of the non-empty lists among the first [len] *)
Definition live_stops (s e : list Z) : list Z :=
  map snd (filter (fun ab : Z * Z => negb (fst ab =? snd ab)) (zip s e)).
(* index values of the entries tagged i *)
Definition mine (tags ix : list Z) (i : Z) : list Z :=
  map snd (filter (fun ti : Z * Z => fst ti =? i) (zip tags ix)).

(* [fixed]: children are asked for what the WHOLE rebuilt parent indexes (proposed fix); false: the pinned code *)
Fixpoint of_ftree (fixed : bool) (t : ftree) (len : Z) {struct t} : res content :=
  match t with
  | TNumpy dt inner data =>
      let isz := prodZ inner in
      if isz =? 0 then
        (* zero-size items: NumPy cannot infer the leading dimension, the given length is used *)
        match data with [] => Ok (Numpy dt (len :: inner) []) | _ => Err EValue end
      else if existsb (fun d => d <? 0) inner then Err EValue
      else if zlen data / isz <? len then Err EValue            (* "buffer is too short for NumpyArray" *)
      else if negb (zlen data mod isz =? 0) then Err EValue      (* reshape(-1, inner) impossible *)
      else Ok (Numpy dt ((zlen data / isz) :: inner) data)
  | TEmpty => if len =? 0 then Ok Empty else Err EValue
  | TListOffset w o t' =>
      if zlen o - 1 <? len then Err EValue else
      do last <- last_z o;                                      (* offsets[-1] *)
      do c <- of_ftree fixed t' last;
      Ok (ListOffset w o c)
  | TList w s e t' =>
      if zlen s <? len then Err EValue else
      if zlen e <? len then Err EValue else
      let k := if fixed then zlen s else len in
      do c <- of_ftree fixed t' (max_or0 (live_stops (take k s) (take k e)));
      if zlen e <? zlen s then Err EValue else                  (* ListArray constructor *)
      Ok (ListA w s e c)
  | TRegular t' size =>
      do c <- of_ftree fixed t' (len * size);
      if size <? 0 then Err EValue else Ok (Regular c size len)
  | TIndexed w ix t' =>
      if zlen ix <? len then Err EValue else
      do c <- of_ftree fixed t' (match ix with [] => 0 | _ => max_or0 ix + 1 end);
      Ok (Indexed w ix c)
  | TIndexedOption w ix t' =>
      if zlen ix <? len then Err EValue else
      do c <- of_ftree fixed t' (match ix with [] => 0 | _ => Z.max 0 (max_or0 ix + 1) end);
      Ok (IndexedOption w ix c)
  | TByteMasked m vw t' =>
      if zlen m <? len then Err EValue else
      do c <- of_ftree fixed t' (if fixed then zlen m else len);
      if clen c <? zlen m then Err EValue else                  (* ByteMaskedArray constructor *)
      Ok (ByteMasked m vw c)
  | TBitMasked m vw lsb t' =>
      do c <- of_ftree fixed t' len;
      if zlen m * 8 <? len then Err EValue else
      if clen c <? len then Err EValue else                     (* BitMaskedArray constructor *)
      Ok (BitMasked m vw lsb len c)
  | TUnmasked t' => do c <- of_ftree fixed t' len; Ok (Unmasked c)
  | TUnion w tg ix ts =>
      if zlen tg <? len then Err EValue else
      if zlen ix <? len then Err EValue else
      let k := if fixed then zlen tg else len in
      let tg' := take k tg in
      let ix' := take k ix in
      do cs <- (fix all (l : list ftree) (i : Z) : res (list content) :=
                  match l with
                  | [] => Ok []
                  | x :: xs =>
                      do c <- of_ftree fixed x (match mine tg' ix' i with [] => 0 | l' => max_or0 l' + 1 end);
                      do cs <- all xs (i + 1);
                      Ok (c :: cs)
                  end) ts 0;
      if zlen ix <? zlen tg then Err EValue else                (* UnionArray constructor *)
      Ok (Union w tg ix cs)
  | TRecord ts ks =>
      do cs <- (fix all (l : list ftree) : res (list content) :=
                  match l with
                  | [] => Ok []
                  | x :: xs => do c <- of_ftree fixed x len; do cs <- all xs; Ok (c :: cs)
                  end) ts;
      match cs with
      | [] => if len <? 0 then Err EValue else Ok (Record [] ks len)
      | c0 :: rest =>
          if min_list (clen c0) (map clen rest) <? len then Err EValue    (* "RecordArray length mismatch" *)
          else if len <? 0 then Err EValue
          else Ok (Record cs ks len)
      end
  | TPar a r t' => do c <- of_ftree fixed t' len; Ok (Par a r c)
  end.

(* ------------------------------------------------------------------------------------------ forms, keys, containers *)
Inductive attr := AOffsets | AStarts | AStops | AIndex | AMask | ATags | AData.
Inductive buf := BIdx (l : list Z) | BData (dt : dtype) (l : list datum).
Definition key := (Z * attr)%type.
Definition container := list (key * buf).

Inductive form :=
| FNumpy (dt : dtype) (inner : list Z) (fk : Z)
| FEmpty (fk : Z)
| FListOffset (w : width) (f : form) (fk : Z)
| FList (w : width) (f : form) (fk : Z)
| FRegular (f : form) (size : Z) (fk : Z)
| FIndexed (w : width) (f : form) (fk : Z)
| FIndexedOption (w : width) (f : form) (fk : Z)
| FByteMasked (f : form) (valid_when : bool) (fk : Z)
| FBitMasked (f : form) (valid_when lsb : bool) (fk : Z)
| FUnmasked (f : form) (fk : Z)
| FUnion (w : width) (fs : list form) (fk : Z)
| FRecord (fs : list form) (keys : option (list name)) (fk : Z)
| FPar (arr : option akind) (rn : option name) (f : form).

Definition attr_eqb (a b : attr) : bool :=
  match a, b with
  | AOffsets, AOffsets | AStarts, AStarts | AStops, AStops | AIndex, AIndex
  | AMask, AMask | ATags, ATags | AData, AData => true
  | _, _ => false
  end.
Definition key_eqb (a b : key) : bool := (fst a =? fst b) && attr_eqb (snd a) (snd b).

Fixpoint lookup (k : key) (ct : container) : res buf :=
  match ct with
  | [] => Err EOob                                    (* KeyError *)
  | (k', b) :: rest => if key_eqb k k' then Ok b else lookup k rest
  end.
Definition lookup_idx (k : key) (ct : container) : res (list Z) :=
  do b <- lookup k ct; match b with BIdx l => Ok l | BData _ _ => Err EValue end.
Definition dtype_eqb (a b : dtype) : bool :=
  match a, b with
  | DBool, DBool | DInt8, DInt8 | DInt16, DInt16 | DInt32, DInt32 | DInt64, DInt64
  | DUInt8, DUInt8 | DUInt16, DUInt16 | DUInt32, DUInt32 | DUInt64, DUInt64
  | DFloat32, DFloat32 | DFloat64, DFloat64 => true
  | _, _ => false
  end.
Definition lookup_data (dt : dtype) (k : key) (ct : container) : res (list datum) :=
  do b <- lookup k ct;
  match b with BData dt' l => if dtype_eqb dt dt' then Ok l else Err EValue | BIdx _ => Err EValue end.

(* [label t k]: form, entries, next free id.  Every node takes one id in pre-order (key_index is drawn before the
   children are visited), also the nodes without buffers; parameters do not take an id (they sit on the node) *)
Fixpoint label (t : ftree) (k : Z) {struct t} : form * container * Z :=
  match t with
  | TNumpy dt inner data => (FNumpy dt inner k, [((k, AData), BData dt data)], k + 1)
  | TEmpty => (FEmpty k, [((k, AData), BData DFloat64 [])], k + 1)
  | TListOffset w o t' =>
      let '(f, ct, k') := label t' (k + 1) in
      (FListOffset w f k, ((k, AOffsets), BIdx o) :: ct, k')
  | TList w s e t' =>
      let '(f, ct, k') := label t' (k + 1) in
      (FList w f k, ((k, AStarts), BIdx s) :: ((k, AStops), BIdx e) :: ct, k')
  | TRegular t' size =>
      let '(f, ct, k') := label t' (k + 1) in (FRegular f size k, ct, k')
  | TIndexed w ix t' =>
      let '(f, ct, k') := label t' (k + 1) in (FIndexed w f k, ((k, AIndex), BIdx ix) :: ct, k')
  | TIndexedOption w ix t' =>
      let '(f, ct, k') := label t' (k + 1) in (FIndexedOption w f k, ((k, AIndex), BIdx ix) :: ct, k')
  | TByteMasked m vw t' =>
      let '(f, ct, k') := label t' (k + 1) in (FByteMasked f vw k, ((k, AMask), BIdx m) :: ct, k')
  | TBitMasked m vw lsb t' =>
      let '(f, ct, k') := label t' (k + 1) in (FBitMasked f vw lsb k, ((k, AMask), BIdx m) :: ct, k')
  | TUnmasked t' =>
      let '(f, ct, k') := label t' (k + 1) in (FUnmasked f k, ct, k')
  | TUnion w tg ix ts =>
      let '(fs, ct, k') :=
        (fix all (l : list ftree) (j : Z) : list form * container * Z :=
           match l with
           | [] => ([], [], j)
           | x :: xs =>
               let '(f, ct1, j1) := label x j in
               let '(fs, ct2, j2) := all xs j1 in
               (f :: fs, ct1 ++ ct2, j2)
           end) ts (k + 1) in
      (FUnion w fs k, ((k, ATags), BIdx tg) :: ((k, AIndex), BIdx ix) :: ct, k')
  | TRecord ts ks =>
      let '(fs, ct, k') :=
        (fix all (l : list ftree) (j : Z) : list form * container * Z :=
           match l with
           | [] => ([], [], j)
           | x :: xs =>
               let '(f, ct1, j1) := label x j in
               let '(fs, ct2, j2) := all xs j1 in
               (f :: fs, ct1 ++ ct2, j2)
           end) ts (k + 1) in
      (FRecord fs ks k, ct, k')
  | TPar a r t' =>
      let '(f, ct, k') := label t' k in (FPar a r f, ct, k')
  end.

Fixpoint relabel (f : form) (ct : container) {struct f} : res ftree :=
  match f with
  | FNumpy dt inner fk => do d <- lookup_data dt (fk, AData) ct; Ok (TNumpy dt inner d)
  | FEmpty _ => Ok TEmpty
  | FListOffset w f' fk =>
      do o <- lookup_idx (fk, AOffsets) ct; do t <- relabel f' ct; Ok (TListOffset w o t)
  | FList w f' fk =>
      do s <- lookup_idx (fk, AStarts) ct; do e <- lookup_idx (fk, AStops) ct;
      do t <- relabel f' ct; Ok (TList w s e t)
  | FRegular f' size _ => do t <- relabel f' ct; Ok (TRegular t size)
  | FIndexed w f' fk => do ix <- lookup_idx (fk, AIndex) ct; do t <- relabel f' ct; Ok (TIndexed w ix t)
  | FIndexedOption w f' fk =>
      do ix <- lookup_idx (fk, AIndex) ct; do t <- relabel f' ct; Ok (TIndexedOption w ix t)
  | FByteMasked f' vw fk => do m <- lookup_idx (fk, AMask) ct; do t <- relabel f' ct; Ok (TByteMasked m vw t)
  | FBitMasked f' vw lsb fk =>
      do m <- lookup_idx (fk, AMask) ct; do t <- relabel f' ct; Ok (TBitMasked m vw lsb t)
  | FUnmasked f' _ => do t <- relabel f' ct; Ok (TUnmasked t)
  | FUnion w fs fk =>
      do tg <- lookup_idx (fk, ATags) ct; do ix <- lookup_idx (fk, AIndex) ct;
      do ts <- (fix all (l : list form) : res (list ftree) :=
                  match l with
                  | [] => Ok []
                  | x :: xs => do t <- relabel x ct; do ts <- all xs; Ok (t :: ts)
                  end) fs;
      Ok (TUnion w tg ix ts)
  | FRecord fs ks _ =>
      do ts <- (fix all (l : list form) : res (list ftree) :=
                  match l with
                  | [] => Ok []
                  | x :: xs => do t <- relabel x ct; do ts <- all xs; Ok (t :: ts)
                  end) fs;
      Ok (TRecord ts ks)
  | FPar a r f' => do t <- relabel f' ct; Ok (TPar a r t)
  end.

(* ------------------------------------------------------------------------------------------ the two operations *)
Definition to_buffers (c : content) : form * Z * container :=
  let '(f, ct, _) := label (to_ftree c None) 0 in (f, clen c, ct).

Definition from_buffers_gen (fixed : bool) (fl : form * Z * container) : res content :=
  let '(f, len, ct) := fl in
  do t <- relabel f ct;
  of_ftree fixed t len.
Definition from_buffers := from_buffers_gen false.

(* the lengths _form_to_layout is called with, per node id (what the harness traces in the implementation) *)
Fixpoint needs (fixed : bool) (t : ftree) (len : Z) (k : Z) {struct t} : list (Z * Z) * Z :=
  match t with
  | TNumpy _ _ _ | TEmpty => ([(k, len)], k + 1)
  | TListOffset _ o t' =>
      let '(l, k') := needs fixed t' (match last_z o with Ok x => x | Err _ => 0 end) (k + 1) in ((k, len) :: l, k')
  | TList _ s e t' =>
      let n := if fixed then zlen s else len in
      let '(l, k') := needs fixed t' (max_or0 (live_stops (take n s) (take n e))) (k + 1) in ((k, len) :: l, k')
  | TRegular t' size => let '(l, k') := needs fixed t' (len * size) (k + 1) in ((k, len) :: l, k')
  | TIndexed _ ix t' =>
      let '(l, k') := needs fixed t' (match ix with [] => 0 | _ => max_or0 ix + 1 end) (k + 1) in ((k, len) :: l, k')
  | TIndexedOption _ ix t' =>
      let '(l, k') := needs fixed t' (match ix with [] => 0 | _ => Z.max 0 (max_or0 ix + 1) end) (k + 1) in
      ((k, len) :: l, k')
  | TByteMasked m _ t' =>
      let '(l, k') := needs fixed t' (if fixed then zlen m else len) (k + 1) in ((k, len) :: l, k')
  | TBitMasked _ _ _ t' | TUnmasked t' => let '(l, k') := needs fixed t' len (k + 1) in ((k, len) :: l, k')
  | TUnion _ tg ix ts =>
      let n := if fixed then zlen tg else len in
      let '(l, k') :=
        (fix all (xs : list ftree) (i j : Z) : list (Z * Z) * Z :=
           match xs with
           | [] => ([], j)
           | x :: rest =>
               let '(l1, j1) := needs fixed x (match mine (take n tg) (take n ix) i with [] => 0 | l' => max_or0 l' + 1 end) j in
               let '(l2, j2) := all rest (i + 1) j1 in (l1 ++ l2, j2)
           end) ts 0 (k + 1) in
      ((k, len) :: l, k')
  | TRecord ts _ =>
      let '(l, k') :=
        (fix all (xs : list ftree) (j : Z) : list (Z * Z) * Z :=
           match xs with
           | [] => ([], j)
           | x :: rest =>
               let '(l1, j1) := needs fixed x len j in
               let '(l2, j2) := all rest j1 in (l1 ++ l2, j2)
           end) ts (k + 1) in
      ((k, len) :: l, k')
  | TPar _ _ t' => needs fixed t' len k
  end.

(* ------------------------------------------------------------------------------------------ NumPy *)
(* an ndarray: dtype, shape, flat row-major data, optional flat mask (true = masked, NumPy's convention) *)
Record ndarr := mk_nd { nd_dt : dtype; nd_shape : list Z; nd_data : list datum; nd_mask : option (list bool) }.

(* ak.from_numpy: n-d NumpyArray, or RegularArray chain; a masked array becomes ByteMaskedArray(valid_when=False),
   with more than one dimension always over RegularArrays of the flattened data *)
Fixpoint regular_chain (dims : list Z) (count : Z) (leaf : content) : content :=
  (* dims = inner dimensions below a level that has [count] rows *)
  match dims with
  | [] => leaf
  | d :: ds => Regular (regular_chain ds (count * d) leaf) d count
  end.
Definition bool_mask (m : list bool) : list Z := map (fun b : bool => if b then 1 else 0) m.
Definition from_numpy_model (regulararray : bool) (x : ndarr) : content :=
  match nd_shape x with
  | [] => Numpy (nd_dt x) [1] (nd_data x)                               (* 0-d: reshape(1) *)
  | n :: dims =>
      match nd_mask x with
      | None =>
          if regulararray then regular_chain dims n (Numpy (nd_dt x) [prodZ (nd_shape x)] (nd_data x))
          else Numpy (nd_dt x) (nd_shape x) (nd_data x)
      | Some m =>
          regular_chain dims n (ByteMasked (bool_mask m) false (Numpy (nd_dt x) [prodZ (nd_shape x)] (nd_data x)))
      end
  end.

(* ak.to_numpy on NumpyArray / RegularArray / option nodes over one-dimensional contents (what from_numpy builds);
   [junk] is what numpy.empty leaves under the mask.  Err EValue also stands for "not modelled" (list nodes go
   through toRegularArray, records through structured arrays, option nodes over n-d contents). *)
Definition junk : datum := DZ 0.
Definition or_mask (a b : list bool) : list bool := map (fun p : bool * bool => fst p || snd p) (zip a b).
Definition blank (miss : list bool) (data : list datum) : list datum :=
  map (fun p : bool * datum => if fst p then junk else snd p) (zip miss data).
Definition no_mask {A} (l : list A) : list bool := map (fun _ => false) l.
Definition any_true (l : list bool) : bool := existsb (fun b : bool => b) l.

(* data, shape [zlen miss], combination of the option node's own mask [miss] with the content's *)
Definition masked_result (allow_missing : bool) (dt : dtype) (miss : list bool) (data : list datum)
           (cmask : option (list bool)) : res ndarr :=
  if any_true miss then
    if allow_missing then
      Ok (mk_nd dt [zlen miss] (blank miss data)
                (Some (or_mask miss (match cmask with Some m => m | None => no_mask data end))))
    else Err EValue                                       (* "cannot convert 'None' values ... allow_missing" *)
  else if allow_missing then
    Ok (mk_nd dt [zlen miss] data (Some (match cmask with Some m => m | None => no_mask data end)))
  else Ok (mk_nd dt [zlen miss] data cmask).

Fixpoint to_numpy_model (allow_missing : bool) (c : content) {struct c} : res ndarr :=
  match c with
  | Numpy dt shape data =>
      match shape with
      | [] => Err EValue
      | _ => if existsb (fun d => d <? 0) shape then Err EValue else
             if zlen data <? prodZ shape then Err EValue
             else Ok (mk_nd dt shape (take (prodZ shape) data) None)
      end
  | Regular c' size zl =>
      do out <- to_numpy_model allow_missing c';
      match nd_shape out with
      | [] => Err EValue
      | head :: tail =>
          if size <? 0 then Err EValue else
          if size =? 0 then                                (* shape = (0, 0) + tail : the length [zl] is lost *)
            Ok (mk_nd (nd_dt out) (0 :: 0 :: tail) [] (match nd_mask out with None => None | Some _ => Some [] end))
          else
            let n := head / size in
            let keep := n * size * prodZ tail in
            Ok (mk_nd (nd_dt out) (n :: size :: tail) (take keep (nd_data out))
                      (match nd_mask out with None => None | Some m => Some (take keep m) end))
      end
  | Unmasked c' =>
      do out <- to_numpy_model allow_missing c';
      if allow_missing then
        Ok (mk_nd (nd_dt out) (nd_shape out) (nd_data out)
                  (Some (match nd_mask out with Some m => m | None => no_mask (nd_data out) end)))
      else Ok out
  | ByteMasked m vw c' =>
      do full <- to_numpy_model allow_missing c';
      match nd_shape full with
      | [n] =>
          if n <? zlen m then Err EValue else
          let miss := map (fun b => negb (Bool.eqb (negb (b =? 0)) vw)) m in
          masked_result allow_missing (nd_dt full) miss (take (zlen m) (nd_data full))
                        (match nd_mask full with None => None | Some fm => Some (take (zlen m) fm) end)
      | _ => Err EValue
      end
  | IndexedOption _ ix c' =>
      do full <- to_numpy_model allow_missing c';
      match nd_shape full with
      | [n] =>
          let miss := map (fun i => i <? 0) ix in
          do data <- mapM (fun i => if i <? 0 then Ok junk else get (nd_data full) i) ix;
          do cmask <- match nd_mask full with
                      | None => Ok None
                      | Some fm => do r <- mapM (fun i => if i <? 0 then Ok false else get fm i) ix; Ok (Some r)
                      end;
          masked_result allow_missing (nd_dt full) miss data cmask
      | _ => Err EValue
      end
  | _ => Err EValue
  end.

(* the nested value of an ndarray (masked elements are None) *)
Definition nd_leaves (x : ndarr) : list value :=
  match nd_mask x with
  | None => map (leaf (nd_dt x)) (nd_data x)
  | Some m => map (fun p : bool * datum => if fst p then VNone else leaf (nd_dt x) (snd p)) (zip m (nd_data x))
  end.
Definition nd_value (x : ndarr) : res (list value) :=
  match nd_shape x with
  | [] => Err EValue
  | n :: dims => nest dims n (nd_leaves x)
  end.

(* equality up to the data under the mask *)
Definition nd_equiv (x y : ndarr) : Prop :=
  nd_shape x = nd_shape y /\ nd_dt x = nd_dt y /\ nd_leaves x = nd_leaves y.

(* ------------------------------------------------------------------------------------------ Arrow *)
(* An Arrow array at the level to_pylist sees it: nested values + validity.  Only the two buffer-level steps of
   to_arrow are modelled: offsets re-based to zero (compact_offsets64 + broadcast_tooffsets64 for ListArray /
   RegularArray) and validity bitmaps (least-significant bit first, padded to whole bytes). *)
Definition rebase (o : list Z) : list Z :=
  match o with [] => [] | o0 :: _ => map (fun x => x - o0) o end.
(* counts -> zero-based offsets (compact_offsets64 of a ListArray: cumulative stop - start; [offsets_from] of AtAxis.v) *)
Definition compact_offsets (s e : list Z) : list Z :=
  offsets_from 0 (map (fun ab : Z * Z => snd ab - fst ab) (zip s e)).

(* pack a byte mask (1 = valid) into an lsb-ordered bitmap, zero padded:
   numpy.packbits(bytemask.reshape(-1, 8)[:, ::-1].reshape(-1)) *)
Fixpoint pack8 (bits : list bool) (k : nat) (w : Z) : Z :=     (* first bit = least significant *)
  match k with
  | O => 0
  | S k' => match bits with
            | [] => 0
            | b :: bs => (if b then w else 0) + pack8 bs k' (2 * w)
            end
  end.
Fixpoint pack_lsb_fuel (fuel : nat) (bits : list bool) : list Z :=
  match fuel with
  | O => []
  | S f => match bits with
           | [] => []
           | _ => pack8 bits 8 1 :: pack_lsb_fuel f (skipn 8 bits)
           end
  end.
Definition pack_lsb (bits : list bool) : list Z := pack_lsb_fuel (length bits) bits.
Definition bitmap_bit (bm : list Z) (i : Z) : res bool :=
  do byte <- get bm (i / 8); Ok (Z.testbit byte (i mod 8)).

(* value-level Arrow array: what to_pylist returns for a list / option node given its children *)
Definition arrow_list (offsets : list Z) (child : list value) : res (list value) :=
  rmap (map VList) (cut child offsets).
Definition arrow_nullable (bitmap : list Z) (n : Z) (child : list value) : res (list value) :=
  mapM (fun i => do b <- bitmap_bit bitmap i; if b : bool then get child i else Ok VNone) (iota n).
