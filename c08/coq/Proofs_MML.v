(** C08: mergemany, option with non-option operands (the first operand decides the class at every level;
    later operands may lack an option level that the first one has). *)
From Coq Require Import ZArith List Bool Lia ZifyBool.
From AwkV Require Import Base Layout LayoutInd Valid Types Carry Proofs_C11.
From AwkMerge Require Import Merge Lemmas_C08 Proofs_C08 Proofs_MM Proofs_Simplify.
Import ListNotations.
Open Scope Z_scope.

Definition is_ixnode (c : content) : bool :=
  match c with
  | Indexed _ _ _ | IndexedOption _ _ _ | ByteMasked _ _ _ | BitMasked _ _ _ _ _ | Unmasked _ => true
  | _ => false
  end.

(* loose skeleton: an indexed / option level of the skeleton may be absent in the layout *)
Fixpoint has_skL (s : sk) (c : content) {struct s} : bool :=
  match s with
  | SNum => has_sk SNum c
  | SList s' =>
      match c with
      | ListOffset _ _ c' | ListA _ _ _ c' => has_skL s' c'
      | Regular c' size _ => negb (size =? 1) && has_skL s' c'
      | _ => false
      end
  | SIx s' =>
      match c with
      | Indexed _ _ c' | IndexedOption _ _ c' | ByteMasked _ _ c' | BitMasked _ _ _ _ c' | Unmasked c' => has_skL s' c'
      | _ => match s' with SIx _ => false | _ => has_skL s' c end
      end
  end.

Lemma has_sk_loose s : forall c, has_sk s c = true -> has_skL s c = true.
Proof.
  induction s as [|s' IH|s' IH]; intros c H; [exact H| |]; destruct c; cbn in H |- *; try discriminate; auto.
  apply andb_true_iff in H. destruct H as [H1 H2]. rewrite H1. cbn. auto.
Qed.

(* every layout of the loose fragment has a strict skeleton of its own *)
Lemma skL_own s : forall c, has_skL s c = true -> exists s0, has_sk s0 c = true.
Proof.
  induction s as [|s' IH|s' IH]; intros c H.
  - exists SNum. exact H.
  - destruct c; cbn in H; try discriminate.
    + destruct (IH _ H) as [s0 H0]. exists (SList s0). exact H0.
    + destruct (IH _ H) as [s0 H0]. exists (SList s0). exact H0.
    + apply andb_true_iff in H. destruct H as [H1 H2]. destruct (IH _ H2) as [s0 H0]. exists (SList s0). cbn. now rewrite H1.
  - destruct c; cbn in H; try (destruct s'; try discriminate; apply IH; exact H);
      destruct (IH _ H) as [s0 H0]; exists (SIx s0); exact H0.
Qed.

Lemma skL_list s' x : has_skL (SList s') x = true ->
  has_skL s' (lv_c x) = true /\ exists s0, has_sk (SList s0) x = true.
Proof.
  intros H. split.
  - destruct x; cbn in H; try discriminate; cbn [lv_c]; auto. apply andb_true_iff in H. tauto.
  - destruct (skL_own _ _ H) as [s0 H0]. destruct x; cbn in H; try discriminate;
      destruct s0; cbn in H0; try discriminate; eexists; exact H0.
Qed.

(* the unified (is-option, index, content) view of an operand at an option level *)
Definition gv_opt (x : content) : bool := if is_ixnode x then iv_opt x else false.
Definition gv_ix (x : content) : list Z := if is_ixnode x then iv_ix x else iota (clen x).
Definition gv_c (x : content) : content := if is_ixnode x then iv_c x else x.
Definition gv_tuple (x : content) : bool * (Z -> list Z) * content :=
  if is_ixnode x then iv_tuple x else (false, fun base => map (fun i => i + base) (iota (clen x)), x).
Definition gv_canon (x : content) : bool * (Z -> list Z) * content :=
  (gv_opt x, fun base => shift_ix base (gv_ix x), gv_c x).

Lemma shift_iota base n : map (fun i => i + base) (iota n) = shift_ix base (iota n).
Proof.
  unfold shift_ix. apply map_ext_in. intros i Hi. apply iota_In in Hi. replace (i <? 0) with false by lia. reflexivity.
Qed.

Lemma fill_index_canon items : forall base,
  fill_index base (map gv_tuple items) = fill_index base (map gv_canon items).
Proof.
  induction items as [|x rest IH]; intros base; cbn [map fill_index]; [reflexivity|].
  unfold gv_tuple, gv_canon, gv_opt, gv_ix, gv_c, iv_tuple. destruct (is_ixnode x); cbn [fill_index].
  - rewrite IH. reflexivity.
  - rewrite shift_iota, IH. reflexivity.
Qed.

Lemma skL_ix s' x :
  has_skL (SIx s') x = true -> tl_ok x -> sk_ok (SIx s') = true ->
  ix_part x = Ok [gv_tuple x] /\ has_skL s' (gv_c x) = true /\ tl_ok (gv_c x) /\
  sem_ix (gv_opt x) (vals (gv_c x)) (gv_ix x) = Ok (vals x) /\ is_union x = false /\
  leaf_dt x = leaf_dt (gv_c x) /\ params x = nopar.
Proof.
  intros H Ht Hok. unfold gv_tuple, gv_opt, gv_ix, gv_c.
  destruct (is_ixnode x) eqn:Eix.
  - assert (Hc : exists s0, has_sk (SIx s0) x = true /\ has_skL s' (iv_c x) = true).
    { destruct (skL_own _ _ H) as [s0 H0].
      assert (H0' : exists s1, has_sk (SIx s1) x = true).
      { destruct x; cbn in Eix; try discriminate; destruct s0; cbn in H0; try discriminate; eexists; exact H0. }
      destruct H0' as [s1 H1]. exists s1. split; [exact H1|].
      destruct (has_sk_SIx_parts _ _ H1 Ht) as (p & HP & _).
      unfold iv_c, iv. rewrite HP.
      destruct (ix_parts_content _ _ HP) as [Hoc _]. unfold opt_content in Hoc.
      destruct x; cbn in Eix; try discriminate; cbn [body] in Hoc; inversion Hoc; subst; cbn in H; exact H. }
    destruct Hc as (s0 & H0 & HL).
    destruct (ix_view _ _ H0 Ht) as (H1 & _ & H3 & H4 & H5 & H6 & H7).
    repeat split; auto.
  - (* a plain operand: every element, in order *)
    assert (Hs' : match s' with SIx _ => False | _ => True end) by (cbn in Hok; destruct s'; try exact I; discriminate).
    assert (HL : has_skL s' x = true).
    { destruct x; cbn in Eix; try discriminate; cbn in H; destruct s'; try contradiction; exact H. }
    destruct (skL_own _ _ HL) as [s0 H0]. destruct (has_sk_nopar _ _ H0) as [Hp Hb].
    assert (Hplain : ix_part x = Ok [(false, fun base => map (fun i => i + base) (iota (clen x)), x)]).
    { unfold ix_part. rewrite Hb. destruct x; cbn in Eix; try discriminate; try reflexivity.
      destruct s0; cbn in H0; discriminate. }
    repeat split; auto.
    + unfold sem_ix. rewrite <- (zlen_vals _ Ht). apply mapM_get_iota.
    + unfold is_union. rewrite Hb. destruct x; try reflexivity. destruct s0; cbn in H0; discriminate.
Qed.

Lemma fill_index_sem_gen (dc : value -> value) (anyopt : bool)
      (fo : content -> bool) (fi : content -> list Z) (fc : content -> content) (items : list content) :
  dc VNone = VNone ->
  Forall (fun x => tl_ok (fc x) /\ (fo x = true -> anyopt = true) /\
                   sem_ix (fo x) (vals (fc x)) (fi x) = Ok (vals x)) items ->
  forall pre,
  sem_ix anyopt (pre ++ concat (map (fun x => map dc (vals (fc x))) items))
         (fill_index (zlen pre) (map (fun x => (fo x, fun base => shift_ix base (fi x), fc x)) items))
  = Ok (concat (map (fun x => map dc (vals x)) items)).
Proof.
  intros HN. induction 1 as [|x rest (Hc & Himp & Hsem) _ IH]; intros pre.
  - reflexivity.
  - cbn [map fill_index concat].
    specialize (IH (pre ++ map dc (vals (fc x)))).
    rewrite zlen_app, zlen_map, (zlen_vals _ Hc) in IH. rewrite <- app_assoc in IH.
    unfold sem_ix in *. rewrite mapM_app. rewrite IH.
    assert (H1 : mapM (fun i => if anyopt
                                then pick_opt (pre ++ map dc (vals (fc x)) ++ concat (map (fun x0 => map dc (vals (fc x0))) rest)) (0 <=? i) i
                                else get (pre ++ map dc (vals (fc x)) ++ concat (map (fun x0 => map dc (vals (fc x0))) rest)) i)
                      (shift_ix (zlen pre) (fi x)) = Ok (map dc (vals x))).
    { unfold shift_ix. rewrite mapM_map.
      apply mapM_ok_Forall2 in Hsem. apply Forall2_mapM.
      induction Hsem as [|j v js vs Hjv _ IH']; cbn; constructor; auto.
      apply (sem_elem_shift dc pre (vals (fc x)) _ (fo x) anyopt j v HN Himp Hjv). }
    rewrite H1. reflexivity.
Qed.

Lemma gv_tuple_fst x : (let '(o, _, _) := gv_tuple x in o) = gv_opt x.
Proof. unfold gv_tuple, gv_opt, iv_tuple. destruct (is_ixnode x); reflexivity. Qed.
Lemma gv_tuple_c x : (let '(_, _, c) := gv_tuple x in c) = gv_c x.
Proof. unfold gv_tuple, gv_c, iv_tuple. destruct (is_ixnode x); reflexivity. Qed.

Theorem mm_skL s : forall f a others,
  (need s <= f)%nat -> others <> [] ->
  has_sk s a = true -> Forall (fun c => has_skL s c = true) others -> Forall tl_ok (a :: others) ->
  sk_ok s = true ->
  exists c, mm f (a :: others) = Ok c /\ has_sk s c = true /\
            to_list c = Ok (concat (map (fun x => map (deep_cast (leaf_dt c)) (vals x)) (a :: others))) /\
            valid_b c = true.
Proof.
  induction s as [|s' IH|s' IH]; intros f a others Hf Hne Ha Hoth Htl Hok.
  - (* numbers: the loose and the strict fragment coincide *)
    destruct (mm_sk SNum f (a :: others)) as (c & H1 & H2 & H3 & H4 & _); auto.
    { destruct others; [congruence|cbn; lia]. }
    exists c. repeat split; auto.
  - (* ---- lists ---- *)
    destruct f as [|f']; [cbn in Hf; lia|]. cbn in Hf. cbn [sk_ok] in Hok.
    destruct others as [|b others]; [congruence|].
    set (cs := a :: b :: others) in *.
    assert (HskL : Forall (fun c => has_skL (SList s') c = true) cs) by (constructor; [apply has_sk_loose; exact Ha|exact Hoth]).
    assert (HV : Forall (fun x => list_parts x = Ok [lv_tuple x] /\ has_skL s' (lv_c x) = true /\ tl_ok (lv_c x) /\
                   length (lv_s x) = length (lv_e x) /\
                   mapM (cut1 (vals (lv_c x))) (zip (lv_s x) (lv_e x)) = Ok (lv_lists x) /\
                   vals x = map VList (lv_lists x) /\ stop_basic x = false /\ leaf_dt x = leaf_dt (lv_c x)) cs).
    { apply Forall_forall. intros x Hx.
      assert (HxL : has_skL (SList s') x = true) by (eapply Forall_forall in HskL; eauto).
      assert (Hxt : tl_ok x) by (eapply Forall_forall in Htl; eauto).
      destruct (skL_list _ _ HxL) as [HcL [s0 H0]].
      destruct (list_view _ _ H0 Hxt) as (H1 & _ & H3 & H4 & H5 & H6 & H7 & H8). repeat split; auto. }
    assert (Hac : has_sk s' (lv_c a) = true) by (destruct (list_view _ _ Ha (Forall_inv Htl)); tauto).
    destruct (IH f' (lv_c a) (map lv_c (b :: others))) as (cm & Hcm & Hskm & Htlm & Hvm); auto.
    { lia. } { discriminate. }
    { apply Forall_forall. intros c Hc. apply in_map_iff in Hc. destruct Hc as (x & <- & Hx).
      eapply Forall_forall in HV; [|right; exact Hx]. tauto. }
    { change (lv_c a :: map lv_c (b :: others)) with (map lv_c cs).
      apply Forall_forall. intros c Hc. apply in_map_iff in Hc. destruct Hc as (x & <- & Hx).
      eapply Forall_forall in HV; eauto. tauto. }
    change (lv_c a :: map lv_c (b :: others)) with (map lv_c cs) in *.
    rewrite map_map in Htlm.
    set (dc := deep_cast (leaf_dt cm)) in *.
    pose proof (fill_lists_sem dc cs) as HF.
    assert (HFpre : Forall (fun x => tl_ok (lv_c x) /\ length (lv_s x) = length (lv_e x) /\
                   mapM (cut1 (vals (lv_c x))) (zip (lv_s x) (lv_e x)) = Ok (lv_lists x)) cs).
    { eapply Forall_impl; [|exact HV]. cbn. tauto. }
    specialize (HF HFpre []). cbn [app] in HF. change (zlen (@nil value)) with 0 in HF.
    destruct (fill_lists 0 (map lv_tuple cs)) as [ss es] eqn:EF. cbn [fst snd] in HF. destruct HF as [HFl HFm].
    exists (ListA I64 ss es cm). split; [|split; [|split]].
    + cbn [mm]. unfold mm_step.
      destruct (has_sk_nopar _ _ Ha) as [Hpa Hba].
      unfold cs at 1. rewrite Hba.
      assert (Hdisp : match a with
                      | ListOffset _ _ _ | ListA _ _ _ _ => True
                      | Regular _ size _ => (size =? 1) = false
                      | _ => False end).
      { destruct a; cbn in Ha; try discriminate; try exact I.
        apply andb_true_iff in Ha. destruct Ha as [Ha _]. apply negb_true_iff in Ha. exact Ha. }
      assert (Hml : mm_list (mm f') a (b :: others) = Ok (ListA I64 ss es cm)).
      { unfold mm_list.
        rewrite split_head_none.
        2:{ inversion HV as [|? ? _ Hrest]; subst. eapply Forall_impl; [|exact Hrest]. cbn. tauto. }
        assert (Hself : self_list a = Ok a).
        { unfold self_list. rewrite Hba. destruct a; try contradiction; try reflexivity. rewrite Hdisp. reflexivity. }
        rewrite Hself. cbn [bind].
        change (a :: b :: others) with cs.
        rewrite (mapM_singletons list_parts lv_tuple cs) by (eapply Forall_impl; [|exact HV]; cbn; tauto).
        cbn [bind]. rewrite concat_singletons.
        rewrite Hpa. rewrite fold_lv_pars.
        rewrite map_map. cbn [lv_tuple].
        change (map (fun x : content => lv_c x) cs) with (map lv_c cs).
        rewrite Hcm. cbn [bind].
        rewrite EF. cbn [finish mkpar nopar]. reflexivity. }
      destruct a; try contradiction; exact Hml.
    + cbn [has_sk]. exact Hskm.
    + cbn [to_list leaf_dt]. rewrite Htlm. cbn [bind]. unfold cut2.
      replace (zlen es <? zlen ss) with false by (unfold zlen; lia).
      fold dc. rewrite HFm. cbn [rmap]. f_equal.
      rewrite map_VList_concat. f_equal. rewrite map_map.
      apply map_ext_in. intros x Hx. eapply Forall_forall in HV; eauto.
      destruct HV as (_ & _ & _ & _ & _ & -> & _).
      unfold dc. rewrite deep_cast_map_VList. reflexivity.
    + unfold valid_b. cbn [validb paramcheck is_strk].
      fold (valid_b cm). rewrite Hvm.
      replace (zlen ss <=? zlen es) with true by (unfold zlen; lia).
      rewrite <- (to_list_len _ _ Htlm).
      rewrite (mapM_ok_forallb _ _ _ _ (cut1_ok_pair _) HFm). reflexivity.
  - (* ---- indexed / option level: later operands may be plain ---- *)
    destruct f as [|f']; [cbn in Hf; lia|]. cbn in Hf.
    destruct others as [|b others]; [congruence|].
    set (cs := a :: b :: others) in *.
    assert (Hs' : match s' with SIx _ => False | _ => True end) by (cbn in Hok; destruct s'; try exact I; discriminate).
    assert (Hok' : sk_ok s' = true) by (cbn in Hok; destruct s'; try exact Hok; discriminate).
    assert (HskL : Forall (fun c => has_skL (SIx s') c = true) cs) by (constructor; [apply has_sk_loose; exact Ha|exact Hoth]).
    assert (HV : Forall (fun x => ix_part x = Ok [gv_tuple x] /\ has_skL s' (gv_c x) = true /\ tl_ok (gv_c x) /\
                   sem_ix (gv_opt x) (vals (gv_c x)) (gv_ix x) = Ok (vals x) /\ is_union x = false /\
                   leaf_dt x = leaf_dt (gv_c x) /\ params x = nopar) cs).
    { apply Forall_forall. intros x Hx. apply (skL_ix s'); auto.
      - eapply Forall_forall in HskL; eauto.
      - eapply Forall_forall in Htl; eauto. }
    assert (Hixa : is_ixnode a = true) by (destruct a; cbn in Ha; try discriminate; reflexivity).
    assert (Hac : has_sk s' (gv_c a) = true).
    { unfold gv_c. rewrite Hixa. destruct (ix_view _ _ Ha (Forall_inv Htl)). tauto. }
    destruct (IH f' (gv_c a) (map gv_c (b :: others))) as (cm & Hcm & Hskm & Htlm & Hvm); auto.
    { lia. } { discriminate. }
    { apply Forall_forall. intros c Hc. apply in_map_iff in Hc. destruct Hc as (x & <- & Hx).
      eapply Forall_forall in HV; [|right; exact Hx]. tauto. }
    { change (gv_c a :: map gv_c (b :: others)) with (map gv_c cs).
      apply Forall_forall. intros c Hc. apply in_map_iff in Hc. destruct Hc as (x & <- & Hx).
      eapply Forall_forall in HV; eauto. tauto. }
    change (gv_c a :: map gv_c (b :: others)) with (map gv_c cs) in *.
    rewrite map_map in Htlm.
    set (dc := deep_cast (leaf_dt cm)) in *.
    set (anyopt := existsb (fun x : bool * (Z -> list Z) * content => let '(o, _, _) := x in o) (map gv_tuple cs)).
    assert (Hany : forall x, In x cs -> gv_opt x = true -> anyopt = true).
    { intros x Hx Ho. unfold anyopt. apply existsb_exists. exists (gv_tuple x). split.
      - apply in_map. exact Hx.
      - rewrite gv_tuple_fst. exact Ho. }
    pose proof (fill_index_sem_gen dc anyopt gv_opt gv_ix gv_c cs (deep_cast_VNone _)) as HF.
    assert (HFpre : Forall (fun x => tl_ok (gv_c x) /\ (gv_opt x = true -> anyopt = true) /\
                   sem_ix (gv_opt x) (vals (gv_c x)) (gv_ix x) = Ok (vals x)) cs).
    { apply Forall_forall. intros x Hx. pose proof Hx as Hx'. eapply Forall_forall in Hx'; [|exact HV].
      cbn in Hx'. repeat split; try tauto. apply Hany. exact Hx. }
    specialize (HF HFpre []). cbn [app] in HF. change (zlen (@nil value)) with 0 in HF.
    fold gv_canon in HF. change (map (fun x => gv_canon x) cs) with (map gv_canon cs) in HF.
    rewrite <- fill_index_canon in HF.
    set (index := fill_index 0 (map gv_tuple cs)) in *.
    exists (if anyopt then IndexedOption I64 index cm else Indexed I64 index cm). split; [|split; [|split]].
    + cbn [mm]. unfold mm_step.
      destruct (has_sk_nopar _ _ Ha) as [Hpa Hba].
      unfold cs at 1. rewrite Hba.
      assert (Hmi : mm_indexed (mm f') a (b :: others)
                    = Ok (if anyopt then IndexedOption I64 index cm else Indexed I64 index cm)).
      { unfold mm_indexed.
        rewrite split_head_none.
        2:{ inversion HV as [|? ? _ Hrest]; subst. eapply Forall_impl; [|exact Hrest]. cbn. tauto. }
        change (a :: b :: others) with cs.
        rewrite (mapM_singletons ix_part gv_tuple cs) by (eapply Forall_impl; [|exact HV]; cbn; tauto).
        cbn [bind]. rewrite concat_singletons.
        rewrite Hpa. rewrite fold_params_nopar by (eapply Forall_impl; [|exact HV]; cbn; tauto).
        rewrite map_map.
        rewrite (map_ext _ gv_c gv_tuple_c).
        rewrite Hcm. cbn [bind].
        fold anyopt. fold index. cbn [finish mkpar nopar]. destruct anyopt; reflexivity. }
      destruct a; cbn in Hixa; try discriminate; exact Hmi.
    + destruct anyopt; cbn [has_sk]; exact Hskm.
    + unfold sem_ix in HF.
      destruct anyopt; cbn [to_list leaf_dt]; rewrite Htlm; cbn [bind]; fold dc; exact HF.
    + pose proof (has_sk_not_optionlike _ _ Hskm Hs') as Hno.
      unfold sem_ix in HF. pose proof (to_list_len _ _ Htlm) as HL. fold dc in HL.
      unfold valid_b. destruct anyopt; cbn [validb paramcheck]; fold (valid_b cm); rewrite Hvm, Hno; cbn [negb andb];
        rewrite !andb_true_r; rewrite <- HL.
      * eapply mapM_ok_forallb; [|exact HF]. cbn. intros i y Hy. unfold pick_opt in Hy.
        match goal with |- (_ <? zlen ?l) = true => pose proof (zlen_nonneg l) end.
        destruct (0 <=? i) eqn:E; [|lia]. apply get_ok in Hy. lia.
      * eapply mapM_ok_forallb; [|exact HF]. cbn. intros i y Hy. apply get_ok in Hy. lia.
Qed.

Theorem mergemany_option_mix_pf : forall s a others,
  others <> [] -> has_sk s a = true -> Forall (fun c => has_skL s c = true) others ->
  Forall (fun c => valid_b c = true) (a :: others) ->
  exists c, mergemany (a :: others) = Ok c /\ has_sk s c = true /\ valid_b c = true /\
            Forall (fun x => to_list x = Ok (vals x)) (a :: others) /\
            to_list c = Ok (concat (map (fun x => map (deep_cast (leaf_dt c)) (vals x)) (a :: others))).
Proof.
  intros s a others Hne Ha Hoth Hv.
  assert (Htl : Forall tl_ok (a :: others)).
  { apply Forall_forall. intros x Hx.
    assert (HL : has_skL s x = true).
    { destruct Hx as [<-|Hx]; [apply has_sk_loose; exact Ha|eapply Forall_forall in Hoth; eauto]. }
    destruct (skL_own _ _ HL) as [s0 H0]. eapply valid_tl_ok_sk; eauto. eapply Forall_forall in Hv; eauto. }
  assert (Hok : sk_ok s = true) by (eapply valid_sk_ok; [exact Ha|exact (Forall_inv Hv)]).
  destruct (mm_skL s (mm_fuel (a :: others)) a others) as (c & Hc & Hs & Ht & Hval); auto.
  { pose proof (need_le_csize _ _ Ha). unfold mm_fuel. cbn [fold_right length]. lia. }
  exists c. repeat split; auto.
  eapply Forall_impl; [|exact Htl]. intros x. apply tl_ok_vals.
Qed.

(* non-vacuity: [[1],None] (option over ListArray of int16) ++ [[2,3]] (plain ListOffset of bool) ++ [None] (byte-masked) *)
Example mergemany_option_mix_example :
  let a := IndexedOption I32 [0; -1] (ListA I64 [0] [1] (Numpy DInt16 [1] [DZ 1])) in
  let b := ListOffset U32 [0; 2] (Numpy DBool [2] [DZ 1; DZ 0]) in
  let c := ByteMasked [0] true (ListOffset I64 [0; 0] (Numpy DInt16 [0] [])) in
  has_sk (SIx (SList SNum)) a = true /\ has_skL (SIx (SList SNum)) b = true /\ has_skL (SIx (SList SNum)) c = true /\
  has_sk (SIx (SList SNum)) b = false /\
  valid_b a = true /\ valid_b b = true /\ valid_b c = true /\
  rmap to_list (mergemany [a; b; c])
  = Ok (Ok [VList [VNum (DZ 1)]; VNone; VList [VNum (DZ 1); VNum (DZ 0)]; VNone]).
Proof. vm_compute. repeat split. Qed.
