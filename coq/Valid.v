(** Validity.  [validb] follows the order of checks of C++ [validityerror]
    (parameter check, node-local checks, recursion).  [Valid] is the declarative
    transcription of the documented structural rules.  No proofs here. *)
From AwkV Require Export Layout.

Fixpoint strip (c : content) : content :=
  match c with Par _ _ c' => strip c' | _ => c end.

(* the family handled by simplify_optiontype: option nodes and IndexedArray *)
Definition optionlike (c : content) : bool :=
  match strip c with
  | Indexed _ _ _ | IndexedOption _ _ _ | ByteMasked _ _ _ | BitMasked _ _ _ _ _ | Unmasked _ => true
  | _ => false
  end.
Definition unionlike (c : content) : bool :=
  match strip c with Union _ _ _ _ => true | _ => false end.

Definition pair_okb (lc : Z) (ab : Z * Z) : bool :=
  let (a, b) := ab in (a =? b) || ((a <=? b) && (0 <=? a) && (b <=? lc)).

(* __array__ = "string"/"bytestring" node: list node directly containing a 1-d uint8
   NumpyArray tagged "char"/"byte" *)
Definition is_chars (k : akind) (c : content) : bool :=
  match c with
  | Par (Some k') _ (Numpy DUInt8 [_] _) =>
      match k, k' with AChar, AChar => true | AByte, AByte => true | _, _ => false end
  | _ => false
  end.
Definition list_content (c : content) : option content :=
  match c with
  | ListOffset _ _ c' | ListA _ _ _ c' | Regular c' _ _ => Some c'
  | _ => None
  end.
Definition paramcheck (p : option akind) (c : content) : bool :=
  match p with
  | None => true
  | Some AString => match list_content c with Some c' => is_chars AChar c' | None => false end
  | Some ABytestring => match list_content c with Some c' => is_chars AByte c' | None => false end
  | Some AChar | Some AByte => false
  | Some ACategorical => false       (* categorical: not modelled (generators never emit it) *)
  end.
Definition is_strk (p : option akind) : bool :=
  match p with Some AString | Some ABytestring => true | _ => false end.

Definition union_okb (lens : list Z) (ti : Z * Z) : bool :=
  let (t, i) := ti in
  (0 <=? t) && (0 <=? i) &&
  match get lens t with Ok lc => i <? lc | Err _ => false end.

Fixpoint validb (p : option akind) (c : content) {struct c} : bool :=
  match c with
  | Par arr _ c' =>
      match p with
      | Some _ => false
      | None => match c' with Par _ _ _ => false | _ => validb arr c' end
      end
  | Numpy _ shape data =>
      paramcheck p c &&
      match shape with [] => false | _ => forallb (fun d => 0 <=? d) shape && (prodZ shape <=? zlen data) end
  | Empty => paramcheck p c
  | ListOffset _ o c' =>
      paramcheck p c && (1 <=? zlen o) && forallb (pair_okb (clen c')) (pairs o) &&
      (if is_strk p then true else validb None c')
  | ListA _ s e c' =>
      paramcheck p c && (zlen s <=? zlen e) && forallb (pair_okb (clen c')) (zip s e) &&
      (if is_strk p then true else validb None c')
  | Regular c' size zl =>
      paramcheck p c && (0 <=? size) && (0 <=? zl) &&
      (if is_strk p then true else validb None c')
  | Indexed _ ix c' =>
      paramcheck p c && forallb (fun i => (0 <=? i) && (i <? clen c')) ix &&
      negb (optionlike c') && validb None c'
  | IndexedOption _ ix c' =>
      paramcheck p c && forallb (fun i => i <? clen c') ix &&
      negb (optionlike c') && validb None c'
  | ByteMasked m _ c' =>
      paramcheck p c && (zlen m <=? clen c') && negb (optionlike c') && validb None c'
  | BitMasked m _ _ n c' =>
      paramcheck p c && (0 <=? n) && (n <=? zlen m * 8) && (n <=? clen c') &&
      negb (optionlike c') && validb None c'
  | Unmasked c' => paramcheck p c && negb (optionlike c') && validb None c'
  | Union _ t ix cs =>
      paramcheck p c && negb (existsb unionlike cs) && (zlen t <=? zlen ix) &&
      forallb (union_okb (map clen cs)) (zip t ix) &&
      (fix all (l : list content) : bool :=
         match l with [] => true | x :: xs => validb None x && all xs end) cs
  | Record cs _ n =>
      paramcheck p c && (0 <=? n) && forallb (fun x => n <=? clen x) cs &&
      (match c with Record _ (Some ks) _ => Nat.eqb (length ks) (length cs) | _ => true end) &&
      (fix all (l : list content) : bool :=
         match l with [] => true | x :: xs => validb None x && all xs end) cs
  end.

Definition valid_b (c : content) : bool := validb None c.

(** Declarative rules. *)
Definition pair_ok (lc : Z) (ab : Z * Z) : Prop :=
  fst ab = snd ab \/ (fst ab <= snd ab /\ 0 <= fst ab /\ snd ab <= lc).

Definition ParamOk (p : option akind) (c : content) : Prop :=
  match p with
  | None => True
  | Some AString => exists c' rn n d, list_content c = Some c' /\ c' = Par (Some AChar) rn (Numpy DUInt8 [n] d)
  | Some ABytestring => exists c' rn n d, list_content c = Some c' /\ c' = Par (Some AByte) rn (Numpy DUInt8 [n] d)
  | _ => False
  end.

Inductive Valid : option akind -> content -> Prop :=
| V_Par arr rn c : (forall a r x, c <> Par a r x) -> Valid arr c -> Valid None (Par arr rn c)
| V_Numpy p dt shape data :
    ParamOk p (Numpy dt shape data) -> shape <> [] -> Forall (fun d => 0 <= d) shape ->
    prodZ shape <= zlen data -> Valid p (Numpy dt shape data)
| V_Empty p : ParamOk p Empty -> Valid p Empty
| V_ListOffset p w o c :
    ParamOk p (ListOffset w o c) -> 1 <= zlen o -> Forall (pair_ok (clen c)) (pairs o) ->
    (is_strk p = false -> Valid None c) -> Valid p (ListOffset w o c)
| V_ListA p w s e c :
    ParamOk p (ListA w s e c) -> zlen s <= zlen e -> Forall (pair_ok (clen c)) (zip s e) ->
    (is_strk p = false -> Valid None c) -> Valid p (ListA w s e c)
| V_Regular p c size zl :
    ParamOk p (Regular c size zl) -> 0 <= size -> 0 <= zl ->
    (is_strk p = false -> Valid None c) -> Valid p (Regular c size zl)
| V_Indexed p w ix c :
    ParamOk p (Indexed w ix c) -> Forall (fun i => 0 <= i < clen c) ix ->
    optionlike c = false -> Valid None c -> Valid p (Indexed w ix c)
| V_IndexedOption p w ix c :
    ParamOk p (IndexedOption w ix c) -> Forall (fun i => i < clen c) ix ->
    optionlike c = false -> Valid None c -> Valid p (IndexedOption w ix c)
| V_ByteMasked p m vw c :
    ParamOk p (ByteMasked m vw c) -> zlen m <= clen c ->
    optionlike c = false -> Valid None c -> Valid p (ByteMasked m vw c)
| V_BitMasked p m vw lsb n c :
    ParamOk p (BitMasked m vw lsb n c) -> 0 <= n -> n <= zlen m * 8 -> n <= clen c ->
    optionlike c = false -> Valid None c -> Valid p (BitMasked m vw lsb n c)
| V_Unmasked p c :
    ParamOk p (Unmasked c) -> optionlike c = false -> Valid None c -> Valid p (Unmasked c)
| V_Union p w t ix cs :
    ParamOk p (Union w t ix cs) -> Forall (fun x => unionlike x = false) cs -> zlen t <= zlen ix ->
    Forall (fun ti : Z * Z => 0 <= fst ti /\ 0 <= snd ti /\
                              exists lc, get (map clen cs) (fst ti) = Ok lc /\ snd ti < lc) (zip t ix) ->
    Forall (Valid None) cs -> Valid p (Union w t ix cs)
| V_Record p cs ks n :
    ParamOk p (Record cs ks n) -> 0 <= n -> Forall (fun x => n <= clen x) cs ->
    (forall k, ks = Some k -> length k = length cs) ->
    Forall (Valid None) cs -> Valid p (Record cs ks n).
