(** C14 — records and tuples: the representation relation [rep b vs] ("the inactive builder [b] is what the
    values [vs] appended at its position have produced"), contexts with tuple / record frames.  Definitions and basic lemmas only.

    [rep] is a GHOST-HISTORY relation: with records the values already stored change when a later record brings a
    new key (an older row reads None there), so "values so far ++ [v]" (Invariant.pushed) is not stable; what is
    stable is the list of Python values received, and what each sub-builder has received is a function of it:
      Option   : the non-None values, in order (OptH)
      List     : the concatenated items (ListH)
      Tuple    : slot j of every tuple
      Record   : field k of every record, None where the record has no k ([fld])
      Union    : an interleaving, alternative [t] receiving the values tagged [t] (UniH).
    The leaves (Unknown / Bool / Int64 / Float64 / String) reuse Invariant.wf and Invariant.bvals. *)
From Coq Require Import ZArith List Bool Lia.
From AwkV Require Import Base Layout.
From AwkBuilder Require Import Builder Spec GbLemmas Invariant StepLemmas.
Import ListNotations.
Open Scope Z_scope.

(* ------------------------------------------------------------------ induction on Python values *)
Section PIndX.
  Variable P : pyval -> Prop.
  Hypothesis HN : P PNone.
  Hypothesis HB : forall b, P (PBool b).
  Hypothesis HI : forall z, P (PInt z).
  Hypothesis HF : forall z, P (PFloat z).
  Hypothesis HS : forall e s, P (PStr e s).
  Hypothesis HL : forall l, Forall P l -> P (PList l).
  Hypothesis HT : forall l, Forall P l -> P (PTup l).
  Hypothesis HR : forall nm fs, Forall (fun kv => P (snd kv)) fs -> P (PRec nm fs).
  Fixpoint pyval_indx (v : pyval) : P v :=
    let go := fix go (l : list pyval) : Forall P l :=
                match l with [] => Forall_nil P | x :: t => Forall_cons x (pyval_indx x) (go t) end in
    match v with
    | PNone => HN
    | PBool b => HB b
    | PInt z => HI z
    | PFloat z => HF z
    | PStr e s => HS e s
    | PList l => HL l (go l)
    | PTup l => HT l (go l)
    | PRec nm fs =>
        HR nm fs ((fix gof (fs : list (name * pyval)) : Forall (fun kv => P (snd kv)) fs :=
                     match fs with
                     | [] => Forall_nil _
                     | kv :: t => Forall_cons kv (pyval_indx (snd kv)) (gof t)
                     end) fs)
    end.
End PIndX.

(* the fragment is Spec.pywf itself: well-formed Python values (distinct dict keys) *)

(* ------------------------------------------------------------------ what the sub-builders have received *)
Definition nonnone (v : pyval) : bool := match v with PNone => false | _ => true end.
Definition atomic (v : pyval) : bool := match v with PList _ | PTup _ | PRec _ _ => false | _ => true end.

Inductive OptH : list Z -> list pyval -> list pyval -> Prop :=
| OptH_nil : OptH [] [] []
| OptH_none ix ws vs : OptH ix ws vs -> OptH (ix ++ [-1]) ws (vs ++ [PNone])
| OptH_some ix ws vs v : OptH ix ws vs -> nonnone v = true -> OptH (ix ++ [zlen ws]) (ws ++ [v]) (vs ++ [v]).

Inductive ListH : list Z -> list pyval -> list pyval -> Prop :=
| ListH_nil : ListH [0] [] []
| ListH_snoc os ws vs l : ListH os ws vs -> ListH (os ++ [zlen ws + zlen l]) (ws ++ l) (vs ++ [PList l]).

Inductive UniH : list Z -> list Z -> list (list pyval) -> list pyval -> Prop :=
| UniH_nil : UniH [] [] [] []
| UniH_alt ts ix vss vs : UniH ts ix vss vs -> UniH ts ix (vss ++ [[]]) vs
| UniH_snoc ts ix pre ws post vs v :
    UniH ts ix (pre ++ ws :: post) vs ->
    UniH (ts ++ [zlen pre]) (ix ++ [zlen ws]) (pre ++ (ws ++ [v]) :: post) (vs ++ [v]).

Definition slot (j : nat) (v : pyval) : pyval := match v with PTup l => nth j l PNone | _ => PNone end.
Definition istup (n : nat) (v : pyval) : bool := match v with PTup l => Nat.eqb (length l) n | _ => false end.

Definition fld (k : name) (v : pyval) : pyval :=
  match v with
  | PRec _ fs => match assoc name_eqb k fs with Some x => x | None => PNone end
  | _ => PNone
  end.
Definition rname (rn : name) (nullp : bool) : option name := if nullp then None else Some rn.
Definition isrec (nm : option name) (v : pyval) : bool :=
  match v with PRec nm' fs => oname_eqb nm' nm && keys_nodup (map fst fs) | _ => false end.
Definition add_key (acc : list name) (k : name) : list name :=
  if existsb (name_eqb k) acc then acc else acc ++ [k].
Definition rkeys (v : pyval) : list name := match v with PRec _ fs => map fst fs | _ => [] end.
(* the keys of the records [vs], in order of first appearance *)
Definition keys_of (vs : list pyval) : list name :=
  fold_left (fun acc v => fold_left add_key (rkeys v) acc) vs [].

(* the structured kinds: one list position, one position per tuple arity, one per record name *)
Inductive skind := SL | ST (n : nat) | SR (nm : option name).
Definition vkind (v : pyval) : option skind :=
  match v with
  | PList _ => Some SL
  | PTup l => Some (ST (length l))
  | PRec nm _ => Some (SR nm)
  | _ => None
  end.
Definition bkind (b : builder) : option skind :=
  match b with
  | BList _ _ _ => Some SL
  | BTuple cs _ _ _ => Some (ST (length cs))
  | BRecord _ _ rn nullp _ _ _ _ => Some (SR (rname rn nullp))
  | _ => None
  end.
Definition altok (b : builder) : bool :=
  match b with BUnknown _ | BOption _ _ | BUnion _ _ _ _ => false | _ => true end.
Definition skinds (cs : list builder) : list skind :=
  flat_map (fun c => match bkind c with Some k => [k] | None => [] end) cs.
Definition alts_ok (cs : list builder) : Prop := forallb altok cs = true /\ NoDup (skinds cs).

Definition leafrep (b : builder) (vs : list pyval) : Prop :=
  wf b /\ forallb atomic vs = true /\ map val_of vs = bvals b.

Fixpoint rep (b : builder) (vs : list pyval) {struct b} : Prop :=
  match b with
  | BUnknown _ | BBool _ | BInt _ | BFloat _ | BString _ _ _ => leafrep b vs
  | BOption idx c => gbwf idx /\ exists ws, OptH (gb_list idx) ws vs /\ rep c ws
  | BList offs c begun => begun = false /\ gbwf offs /\ exists ws, ListH (gb_list offs) ws vs /\ rep c ws
  | BTuple cs len begun ni =>
      begun = false /\ len = zlen vs /\ forallb (istup (length cs)) vs = true /\
      (fix cols (l : list builder) (j : nat) : Prop :=
         match l with [] => True | c :: t => rep c (map (slot j) vs) /\ cols t (S j) end) cs O
  | BRecord cs keys rn nullp len begun ni ntt =>
      begun = false /\ len = zlen vs /\
      forallb (isrec (rname rn nullp)) vs = true /\ keys = keys_of vs /\
      (fix cols (l : list builder) (ks : list name) : Prop :=
         match l, ks with
         | [], [] => True
         | c :: t, k :: kt => rep c (map (fld k) vs) /\ cols t kt
         | _, _ => False
         end) cs keys
  | BUnion tags idx cs cur =>
      cur = -1 /\ gbwf tags /\ gbwf idx /\ alts_ok cs /\
      exists vss, UniH (gb_list tags) (gb_list idx) vss vs /\
      (fix all (l : list builder) (hs : list (list pyval)) : Prop :=
         match l, hs with
         | [], [] => True
         | c :: t, h :: ht => rep c h /\ all t ht
         | _, _ => False
         end) cs vss
  end.

(* the local fixpoints of [rep], named *)
Fixpoint tcols (vs : list pyval) (l : list builder) (j : nat) : Prop :=
  match l with [] => True | c :: t => rep c (map (slot j) vs) /\ tcols vs t (S j) end.
Fixpoint rcols (vs : list pyval) (l : list builder) (ks : list name) : Prop :=
  match l, ks with
  | [], [] => True
  | c :: t, k :: kt => rep c (map (fld k) vs) /\ rcols vs t kt
  | _, _ => False
  end.
Fixpoint ualts (l : list builder) (hs : list (list pyval)) : Prop :=
  match l, hs with
  | [], [] => True
  | c :: t, h :: ht => rep c h /\ ualts t ht
  | _, _ => False
  end.

Lemma rep_tuple cs len begun ni vs :
  rep (BTuple cs len begun ni) vs <->
  begun = false /\ len = zlen vs /\ forallb (istup (length cs)) vs = true /\ tcols vs cs O.
Proof.
  cbn [rep].
  assert (forall t j,
    (fix cols (l : list builder) (j : nat) : Prop :=
       match l with [] => True | c :: t => rep c (map (slot j) vs) /\ cols t (S j) end) t j <-> tcols vs t j) as E.
  { clear. induction t as [|c t IH]; intro j; cbn [tcols]; [tauto|]. rewrite IH. tauto. }
  rewrite E. tauto.
Qed.

Lemma rep_record cs keys rn nullp len begun ni ntt vs :
  rep (BRecord cs keys rn nullp len begun ni ntt) vs <->
  begun = false /\ len = zlen vs /\
  forallb (isrec (rname rn nullp)) vs = true /\ keys = keys_of vs /\ rcols vs cs keys.
Proof.
  cbn [rep].
  assert (forall cs ks,
    (fix cols (l : list builder) (ks : list name) : Prop :=
       match l, ks with
       | [], [] => True
       | c :: t, k :: kt => rep c (map (fld k) vs) /\ cols t kt
       | _, _ => False
       end) cs ks <-> rcols vs cs ks) as E.
  { clear. induction cs as [|c t IH]; intros [|k kt]; cbn [rcols]; try tauto. rewrite IH. tauto. }
  rewrite E. tauto.
Qed.

Lemma rep_union tags idx cs cur vs :
  rep (BUnion tags idx cs cur) vs <->
  cur = -1 /\ gbwf tags /\ gbwf idx /\ alts_ok cs /\
  exists vss, UniH (gb_list tags) (gb_list idx) vss vs /\ ualts cs vss.
Proof.
  cbn [rep].
  assert (forall cs hs,
    (fix all (l : list builder) (hs : list (list pyval)) : Prop :=
       match l, hs with
       | [], [] => True
       | c :: t, h :: ht => rep c h /\ all t ht
       | _, _ => False
       end) cs hs <-> ualts cs hs) as E.
  { clear. induction cs as [|c t IH]; intros [|h ht]; cbn [ualts]; try tauto. }
  split; intros (A & B & C & D & vss & F & G); refine (conj A (conj B (conj C (conj D _)))); exists vss; split; auto;
    now apply E.
Qed.

(* ------------------------------------------------------------------ names *)
Lemma list_eqb_Z_eq (a b : list Z) : list_eqb Z.eqb a b = true <-> a = b.
Proof.
  revert b; induction a as [|x t IH]; intros [|y u]; cbn [list_eqb]; split; intro H; try discriminate; auto.
  - apply andb_true_iff in H. destruct H as [H1 H2]. apply Z.eqb_eq in H1. apply IH in H2. now subst.
  - inversion H; subst. apply andb_true_iff. split; [apply Z.eqb_refl|now apply IH].
Qed.
Lemma name_eqb_eq a b : name_eqb a b = true <-> a = b.
Proof. apply list_eqb_Z_eq. Qed.
Lemma name_eqb_refl a : name_eqb a a = true.
Proof. now apply name_eqb_eq. Qed.
Lemma name_eqb_neq a b : name_eqb a b = false <-> a <> b.
Proof.
  split; intro H.
  - intro E. apply name_eqb_eq in E. congruence.
  - destruct (name_eqb a b) eqn:E; [|reflexivity]. apply name_eqb_eq in E. contradiction.
Qed.
Lemma name_eqb_sym a b : name_eqb a b = name_eqb b a.
Proof.
  destruct (name_eqb a b) eqn:E.
  - apply name_eqb_eq in E. subst. symmetry. apply name_eqb_refl.
  - symmetry. apply name_eqb_neq. apply name_eqb_neq in E. congruence.
Qed.
Lemma oname_eqb_eq a b : oname_eqb a b = true <-> a = b.
Proof.
  destruct a, b; cbn; split; intro H; try discriminate; auto.
  - apply name_eqb_eq in H. now subst.
  - inversion H. apply name_eqb_refl.
Qed.

(* ------------------------------------------------------------------ lengths and activity *)
Lemma OptH_len ix ws vs : OptH ix ws vs -> length ix = length vs.
Proof. induction 1; cbn; rewrite ?app_length; cbn; lia. Qed.
Lemma ListH_len os ws vs : ListH os ws vs -> length os = S (length vs).
Proof. induction 1; cbn; rewrite ?app_length; cbn; lia. Qed.
Lemma UniH_len ts ix vss vs : UniH ts ix vss vs -> length ts = length vs /\ length ix = length vs.
Proof. induction 1; cbn; rewrite ?app_length; cbn; lia. Qed.

Lemma rep_inactive b : forall vs, rep b vs -> active b = false.
Proof.
  induction b using builder_ind'; intros vs R; try reflexivity.
  - destruct R as (_ & ws & _ & R). cbn [active]. eauto.
  - destruct R as (-> & _). reflexivity.
  - destruct R as (-> & _). reflexivity.
  - destruct R as (-> & _). reflexivity.
  - destruct R as (-> & _). reflexivity.
Qed.

Lemma rep_len b vs : rep b vs -> blen b = zlen vs.
Proof.
  destruct b; intro R.
  1-5: destruct R as (W & _ & E); rewrite <- (bvals_len _ W), <- E; apply zlen_map.
  - destruct R as (W & ws & H & _). cbn [blen]. rewrite <- (gb_list_len _ W). apply OptH_len in H. unfold zlen. lia.
  - destruct R as (_ & W & ws & H & _). cbn [blen]. rewrite <- (gb_list_len _ W). apply ListH_len in H. unfold zlen. lia.
  - destruct R as (_ & -> & _). cbn [blen]. pose proof (zlen_nonneg vs).
    replace (zlen vs =? -1) with false by (symmetry; apply Z.eqb_neq; lia). reflexivity.
  - destruct R as (_ & -> & _). cbn [blen]. pose proof (zlen_nonneg vs).
    replace (zlen vs =? -1) with false by (symmetry; apply Z.eqb_neq; lia). reflexivity.
  - destruct R as (_ & W & _ & _ & vss & H & _). cbn [blen]. rewrite <- (gb_list_len _ W). apply UniH_len in H. unfold zlen. lia.
Qed.

(* ------------------------------------------------------------------ contexts with tuple and record frames *)
Inductive xframe :=
| XList (offs : gb)
| XOpt (idx : gb)
| XUni (tags idx : gb) (pre post : list builder)
| XTup (pre post : list builder) (len : Z)
| XRec (pre post : list builder) (keys : list name) (rn : name) (nullp : bool) (len ntt : Z).

Fixpoint xplug (K : list xframe) (b : builder) : builder :=
  match K with
  | [] => b
  | XList offs :: K' => BList offs (xplug K' b) true
  | XOpt idx :: K' => BOption idx (xplug K' b)
  | XUni t i pre post :: K' => BUnion t i (pre ++ xplug K' b :: post) (zlen pre)
  | XTup pre post len :: K' => BTuple (pre ++ xplug K' b :: post) len true (zlen pre)
  | XRec pre post keys rn nullp len ntt :: K' =>
      BRecord (pre ++ xplug K' b :: post) keys rn nullp len true (zlen pre) ntt
  end.

Lemma xplug_app K1 K2 b : xplug (K1 ++ K2) b = xplug K1 (xplug K2 b).
Proof. induction K1 as [|f K IH]; cbn; [reflexivity|]. destruct f; now rewrite IH. Qed.

(* frames whose record / tuple length is a real length (not the internal -1) *)
Definition fok (f : xframe) : Prop :=
  match f with XTup _ _ len => 0 <= len | XRec _ _ _ _ _ len _ => 0 <= len | _ => True end.
(* the innermost frame hands a value-starting command to its (inactive) child and stores what it returns *)
Definition site (f : xframe) : Prop :=
  match f with XList _ | XTup _ _ _ | XRec _ _ _ _ _ _ _ => True | _ => False end.
Definition xokctx (K : list xframe) : Prop :=
  Forall fok K /\ (K = [] \/ exists K' f, K = K' ++ [f] /\ site f).
