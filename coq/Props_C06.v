(** C06 property theorems (statements only; proofs in Proofs_Sort.v / Proofs_C06.v).
    They are about the value-level specification [sort_leaves] (what one list along the sorted
    axis becomes), which the at-axis descent applies independently to every list at that axis;
    the layout-level model [sort_model] and the implementation are tied to it by correspondence. *)
From AwkV Require Import Layout Ops_Sort Proofs_Sort Proofs_C06.
From Coq Require Import Permutation Sorting.Sorted.

(* For a list of numbers with missing values: sort returns the sorted numbers followed by
   the missing values, argsort the positions realising that order followed by the positions
   of the missing values. *)
Theorem sort_result : forall asc argsort l,
  numeric l ->
  sort_leaves asc argsort l =
  Ok (if argsort
      then map (fun jd : Z * datum => VNum (DZ (fst jd))) (sorted_pairs asc l) ++ map (fun j => VNum (DZ j)) (none_pos l)
      else map (fun jd : Z * datum => VNum (snd jd)) (sorted_pairs asc l) ++ map (fun _ => VNone) (none_pos l)).
Proof. exact sort_leaves_numeric. Qed.
Print Assumptions sort_result.

(* ... where the sorted (position, value) pairs are a permutation of the list's own
   non-missing elements (nothing is duplicated, dropped or taken from another list), *)
Theorem sort_permutation : forall asc l, Permutation (sorted_pairs asc l) (nums l).
Proof. exact sorted_pairs_perm. Qed.
Print Assumptions sort_permutation.

(* ... in non-decreasing (non-increasing) order of the kernel's comparator, *)
Theorem sort_sorted : forall asc l,
  StronglySorted (fun a b : Z * datum => num_before asc (snd b) (snd a) = false) (sorted_pairs asc l).
Proof. exact sorted_pairs_sorted. Qed.
Print Assumptions sort_sorted.

(* ... with equal elements in their original relative order (stable), *)
Theorem sort_stable : forall asc a l,
  filter (equivb (Z * datum) (pair_before asc) a) (sorted_pairs asc l) =
  filter (equivb (Z * datum) (pair_before asc) a) (nums l).
Proof. exact sorted_pairs_stable. Qed.
Print Assumptions sort_stable.

(* ... and NaN first in both directions. *)
Theorem nan_first_both_directions : forall asc l pre j post,
  sorted_pairs asc l = pre ++ (j, DNaN) :: post -> Forall (fun p : Z * datum => snd p = DNaN) pre.
Proof. exact nan_first_sorted. Qed.
Print Assumptions nan_first_both_directions.

(* The comparator (awkward_sort.cpp: less(l,r) = !isnan(r) && (isnan(l) || l < r)) is a strict weak order. *)
Theorem cmp_strict_weak_order : forall asc,
  (forall a, num_before asc a a = false) /\
  (forall a b c, num_before asc a b = true -> num_before asc b c = true -> num_before asc a c = true) /\
  (forall x y z, num_before asc x y = false -> num_before asc y x = false ->
                 num_before asc y z = false -> num_before asc z y = false ->
                 num_before asc x z = false /\ num_before asc z x = false).
Proof. exact (fun asc => conj (num_before_irrefl asc) (conj (num_before_trans asc) (num_before_incomp asc))). Qed.
Print Assumptions cmp_strict_weak_order.
