(** Types of layouts and the depth queries used to resolve axes. No proofs here. *)
From AwkV Require Export Layout Valid.

Inductive ty :=
| TNum (dt : dtype)
| TUnk
| TList (size : option Z) (str : option bool) (t : ty)   (* var / regular[size]; str = Some isstr for strings *)
| TOpt (t : ty)
| TRec (keys : option (list name)) (ts : list ty)
| TUnion (ts : list ty).

Fixpoint numpy_ty (dt : dtype) (dims : list Z) : ty :=
  match dims with [] => TNum dt | d :: ds => TList (Some d) None (numpy_ty dt ds) end.

Definition strflag (p : option akind) : option bool :=
  match p with Some AString => Some true | Some ABytestring => Some false | _ => None end.

(* [p] = __array__ parameter of the enclosing Par node, if any *)
Fixpoint type_of_p (p : option akind) (c : content) : ty :=
  match c with
  | Numpy dt shape _ => numpy_ty dt (tl shape)
  | Empty => TUnk
  | ListOffset _ _ c' => TList None (strflag p) (type_of_p None c')
  | ListA _ _ _ c' => TList None (strflag p) (type_of_p None c')
  | Regular c' size _ => TList (Some size) (strflag p) (type_of_p None c')
  | Indexed _ _ c' => type_of_p None c'
  | IndexedOption _ _ c' => TOpt (type_of_p None c')
  | ByteMasked _ _ c' => TOpt (type_of_p None c')
  | BitMasked _ _ _ _ c' => TOpt (type_of_p None c')
  | Unmasked c' => TOpt (type_of_p None c')
  | Union _ _ _ cs => TUnion (map (type_of_p None) cs)
  | Record cs ks _ => TRec ks (map (type_of_p None) cs)
  | Par arr _ c' => type_of_p arr c'
  end.
Definition type_of (c : content) : ty := type_of_p None c.

Definition zmin_list (d : Z) (l : list Z) : Z := fold_right Z.min d l.
Definition zmax_list (d : Z) (l : list Z) : Z := fold_right Z.max d l.

(* (min,max) number of list levels, counting the array dimension itself as 1
   (C++ minmax_depth); strings count as leaves *)
Fixpoint minmax (t : ty) : Z * Z :=
  match t with
  | TNum _ | TUnk => (1, 1)
  | TList _ (Some _) _ => (1, 1)
  | TList _ None t' => let (a, b) := minmax t' in (a + 1, b + 1)
  | TOpt t' => minmax t'
  | TRec _ ts =>
      match ts with
      | [] => (0, 0)
      | t0 :: rest =>
          let ms := map minmax ts in
          (zmin_list (fst (minmax t0)) (map fst ms), zmax_list (snd (minmax t0)) (map snd ms))
      end
  | TUnion ts =>
      match ts with
      | [] => (0, 0)
      | t0 :: rest =>
          let ms := map minmax ts in
          (zmin_list (fst (minmax t0)) (map fst ms), zmax_list (snd (minmax t0)) (map snd ms))
      end
  end.

Fixpoint has_union (t : ty) : bool :=
  match t with
  | TNum _ | TUnk => false
  | TList _ _ t' | TOpt t' => has_union t'
  | TRec _ ts => existsb has_union ts
  | TUnion _ => true
  end.

(* Axis resolution.  [d] = number of list levels above the current node (the C++ depth
   counter).  A negative axis counts from the leaves of each branch: it is resolved at the
   first node below which all branches have the same depth.  Returns the absolute
   non-negative axis, or stays negative (mixed depths), or an error. *)
Definition resolve_axis (t : ty) (d axis : Z) : res Z :=
  if 0 <=? axis then Ok axis else
  let (mn, mx) := minmax t in
  if mn =? mx then (if mx + axis <? 0 then Err EValue else Ok (d + mx + axis))
  else if mn + axis =? 0 then Err EValue
  else Ok axis.
