(** C08: mergemany on record / tuple operands: the theorem. *)
From Coq Require Import ZArith List Bool Lia ZifyBool.
From AwkV Require Import Base Layout LayoutInd Valid Types Carry Proofs_C11 Proofs_ToList Proofs_Carry.
From AwkMerge Require Import Merge Lemmas_C08 Proofs_C08 Proofs_MM Proofs_Simplify Proofs_MML Proofs_Concat
  Proofs_MM2 Proofs_MM2t Proofs_MM2b.
Import ListNotations.
Open Scope Z_scope.

Lemma all2_of_nth {A B} (f : A -> B -> bool) da db : forall l m, length l = length m ->
  (forall i, (i < length l)%nat -> f (nth i l da) (nth i m db) = true) -> all2 f l m = true.
Proof.
  induction l as [|x l IH]; destruct m as [|y m]; cbn; intros HL H; try discriminate; [reflexivity|].
  rewrite (H O ltac:(lia)). cbn. apply IH; [lia|]. intros i Hi. apply (H (S i)). lia.
Qed.
Lemma mapM_of_nth {A B} (g : A -> res B) (h : nat -> B) d : forall ms s,
  (forall i, (i < length ms)%nat -> g (nth i ms d) = Ok (h (s + i)%nat)) -> mapM g ms = Ok (map h (seq s (length ms))).
Proof.
  induction ms as [|x ms IH]; intros s H; [reflexivity|]. cbn [mapM length seq map].
  pose proof (H O ltac:(cbn; lia)) as H0. cbn [nth] in H0. rewrite H0. cbn [bind]. rewrite Nat.add_0_r.
  rewrite (IH (S s)); [reflexivity|]. intros i Hi. specialize (H (S i) ltac:(cbn; lia)). rewrite Nat.add_succ_r in H. exact H.
Qed.
Lemma keys_eqb_refl (k : list name) : list_eqb nm_eqb k k = true.
Proof. induction k; cbn; [reflexivity|]. now rewrite nm_eqb_refl. Qed.

Definition tcol (ks : option (list name)) (i : nat) (x : content) : content :=
  match trim (clen x) (colf ks i x) with Ok t => t | Err _ => Empty end.

Lemma record_parts cs ks n : valid_b (Record cs ks n) = true -> tl_ok (Record cs ks n) ->
  0 <= n /\ forall f, In f cs -> valid_b f = true /\ tl_ok f /\ n <= clen f.
Proof.
  intros Hv [vx Ht]. rewrite valid_Record in Hv. apply andb4 in Hv. destruct Hv as (Hv1 & Hv2 & Hv3 & Hv4).
  rewrite to_list_Record' in Ht. apply bind_ok in Ht. destruct Ht as (vss & Hvss & Ht).
  split; [lia|]. intros f Hf. rewrite forallb_forall in Hv2, Hv4. specialize (Hv2 f Hf). specialize (Hv4 f Hf).
  repeat split; auto; [|lia]. destruct (Proofs_Lists.mapM_Ok_In _ _ _ _ Hvss Hf) as (y & Hy & _). eexists; eauto.
Qed.

Lemma tcol_ok ks ss x i :
  hasL (KRec ks ss) x = true -> valid_b x = true -> tl_ok x -> (i < length ss)%nat -> keys_ok ks (length ss) ->
  trim (clen x) (colf ks i x) = Ok (tcol ks i x) /\ hasL (nth i ss (KOld SNum)) (tcol ks i x) = true /\
  valid_b (tcol ks i x) = true /\ trimmable (tcol ks i x) = true /\
  to_list (tcol ks i x) = Ok (take (clen x) (vals (colf ks i x))) /\ clen x <= zlen (vals (colf ks i x)) /\ 0 <= clen x /\
  (forall s, hasS s (colf ks i x) = true -> hasS s (tcol ks i x) = true).
Proof.
  intros HL Hv Ht Hi Hk. destruct (operand_cols _ _ _ _ HL Hv Ht Hi Hk) as (Hc1 & Hc2 & (cs & ks' & len & -> & _)).
  cbn [rfields] in Hc2. destruct (record_parts _ _ _ Hv Ht) as [Hn Hf]. destruct (Hf _ Hc2) as (Hfv & [vf Hft] & Hfl).
  assert (Htr : trimmable (colf ks i (Record cs ks' len)) = true).
  { cbn [hasL] in HL. apply andb_true_iff in HL. destruct HL as [HL _]. rewrite forallb_forall in HL. auto. }
  cbn [clen] in *.
  destruct (trim_spec_all _ len vf Htr Hfv Hft ltac:(lia)) as (c' & H1 & H2 & H3 & _ & (H4 & H5 & H6)).
  unfold tcol. cbn [clen]. rewrite H1. rewrite (vals_ok _ _ Hft).
  pose proof (to_list_len _ _ Hft). repeat split; auto; lia.
Qed.

(* the column loop of RecordArray::mergemany, named *)
Section ColsDef.
  Variables (rec : list content -> res content) (tuple : bool) (nf : nat) (myks : list name) (head : list content) (n : Z).
  Fixpoint cols_loop (i : nat) (l : list content) (kl : list name) {struct l} : res (list content) :=
    match l with
    | [] => Ok []
    | f :: fs =>
        let k := hd [] kl in
        do t0 <- trim n f;
        do rest <- mapM (rec_column tuple nf myks i k) head;
        do m <- rec (t0 :: concat rest);
        do ms <- cols_loop (S i) fs (tl kl);
        Ok (m :: ms)
    end.
End ColsDef.

Lemma hd_skipn {A} (d : A) : forall l i, hd d (skipn i l) = nth i l d.
Proof. induction l as [|x l IH]; intros [|i]; cbn; auto. Qed.
Lemma tl_skipn {A} : forall (l : list A) i, tl (skipn i l) = skipn (S i) l.
Proof.
  intros l i. revert l. induction i as [|i IH]; intros [|x l]; try reflexivity.
  change (skipn (S i) (x :: l)) with (skipn i l). rewrite IH. reflexivity.
Qed.
Lemma skipn_cons_nth {A} (d : A) : forall l i x r, skipn i l = x :: r -> x = nth i l d /\ r = skipn (S i) l /\ (i < length l)%nat.
Proof.
  induction l as [|y l IH]; intros [|i] x r H; cbn in *; try discriminate.
  - inversion H; subst. repeat split; lia.
  - destruct (IH _ _ _ H) as (H1 & H2 & H3). repeat split; auto. lia.
Qed.
Lemma skipn_nth_cons {A} (d : A) : forall l i, (i < length l)%nat -> skipn i l = nth i l d :: skipn (S i) l.
Proof.
  induction l as [|x l IH]; intros [|i] H; cbn in H; try lia; [reflexivity|].
  change (skipn (S i) (x :: l)) with (skipn i l). rewrite (IH i) by lia. reflexivity.
Qed.

Lemma mm_record_unfold rec a cs ks n others :
  mm_record rec a cs ks n others =
  let (head, tail) := split_head stop_basic others in
  let tuple := match ks with None => true | Some _ => false end in
  let myks := match ks with Some k => k | None => [] end in
  do _ <- mapM (fun x => match body x with
                         | Record cs' ks' _ =>
                             match tuple, ks' with
                             | true, None => if Nat.eqb (length cs') (length cs) then Ok tt else Err EValue
                             | false, Some k' => if same_keys myks k' then Ok tt else Err EValue
                             | _, _ => Err EValue
                             end
                         | Empty => Ok tt
                         | _ => Err EValue
                         end) head;
  do merged <- cols_loop rec tuple (length cs) myks head n O cs myks;
  let minlength :=
    match merged with
    | [] => n + sumZ (map clen head)
    | m :: ms => fold_left (fun acc x => Z.min acc (clen x)) ms (clen m)
    end in
  let ps := if tuple then fold_left (fun acc x => merge_pars acc (params x)) head (params a) else params a in
  finish rec (mkpar ps (Record merged ks minlength)) tail.
Proof. reflexivity. Qed.

Section ColsLoop.
  Variables (rec : list content -> res content) (tuple : bool) (myks : list name) (head : list content) (n : Z).
  Variables (m : nat) (fs : list content) (T0 : nat -> content) (TC : nat -> content -> content) (M : nat -> content).
  Hypothesis Hfs : length fs = m.
  Hypothesis HT0 : forall i, (i < m)%nat -> trim n (nth i fs Empty) = Ok (T0 i).
  Hypothesis HTC : forall i x, (i < m)%nat -> In x head -> rec_column tuple m myks i (nth i myks []) x = Ok [TC i x].
  Hypothesis HM : forall i, (i < m)%nat -> rec (T0 i :: map (TC i) head) = Ok (M i).

  Lemma cols_loop_ok : forall k i, (k = m - i)%nat -> (i <= m)%nat ->
    cols_loop rec tuple m myks head n i (skipn i fs) (skipn i myks) = Ok (map M (seq i k)).
  Proof.
    induction k as [|k IH]; intros i Hk Hi.
    - rewrite skipn_all2 by lia. reflexivity.
    - rewrite (skipn_nth_cons Empty fs i) by lia. cbn [cols_loop]. rewrite hd_skipn, HT0 by lia. cbn [bind].
      rewrite (mapM_singletons _ (TC i)).
      2:{ apply Forall_forall. intros x Hx. apply HTC; [lia|exact Hx]. }
      cbn [bind]. rewrite concat_singletons, HM by lia. cbn [bind].
      rewrite tl_skipn, (IH (S i)) by lia. reflexivity.
  Qed.
End ColsLoop.

Lemma need2_nth ss i : (i < length ss)%nat ->
  (need2 (nth i ss (KOld SNum)) <= fold_right (fun x acc => Nat.max (need2 x) acc) O ss)%nat.
Proof.
  revert i. induction ss as [|s ss IH]; intros i Hi; cbn in Hi; [lia|]. cbn [fold_right nth]. destruct i; [lia|].
  specialize (IH i ltac:(lia)). lia.
Qed.

Lemma fold_min_const (ms : list content) t : Forall (fun x => clen x = t) ms -> forall acc, acc = t ->
  fold_left (fun acc x => Z.min acc (clen x)) ms acc = t.
Proof. induction 1 as [|x ms Hx _ IH]; intros acc ->; cbn; [reflexivity|]. apply IH. lia. Qed.

Lemma zlen_concat_clen (g : content -> list value) l :
  (forall x, In x l -> zlen (g x) = clen x) -> zlen (concat (map g l)) = sumZ (map clen l).
Proof.
  induction l as [|x l IH]; intros H; [reflexivity|]. cbn [map concat sumZ fold_right]. fold (sumZ (map clen l)).
  rewrite zlen_app, IH by (intros; apply H; now right). rewrite (H x) by now left. reflexivity.
Qed.

Lemma mm_step_record rec fs ks n others : others <> [] ->
  mm_step rec (Record fs ks n :: others) = mm_record rec (Record fs ks n) fs ks n others.
Proof. destruct others; [congruence|reflexivity]. Qed.

Definition colvals (ks : option (list name)) (i : nat) (x : content) : list value := take (clen x) (vals (colf ks i x)).

Theorem mm_k s : forall f a others,
  (need2 s <= f)%nat -> ok2 s = true -> others <> [] ->
  hasS s a = true -> Forall (fun c => hasL s c = true) (a :: others) ->
  Forall (fun c => valid_b c = true) (a :: others) -> Forall tl_ok (a :: others) ->
  exists c, mm f (a :: others) = Ok c /\ hasS s c = true /\ valid_b c = true /\
            to_list c = Ok (concat (map (fun x => map (dcast (dtree c)) (vals x)) (a :: others))).
Proof.
  induction s as [s'|ks ss IH] using sk2_ind'; intros f a others Hf Hok Hne HaS HL Hv Ht.
  - (* record-free: Proofs_MM.mm_sk *)
    cbn in Hf, Hok, HaS. 
    destruct (mm_sk s' f (a :: others)) as (c & H1 & H2 & H3 & H4 & _); auto.
    { destruct others; [congruence|cbn; lia]. }
    exists c. split; [exact H1|]. split; [exact H2|]. split; [apply H4; exact Hok|].
    rewrite H3. f_equal. f_equal. apply map_ext. intros x. apply map_ext. intros v.
    rewrite (dtree_sk _ _ H2). symmetry. apply dcast_DL.
  - (* records *)
    destruct f as [|f']; [cbn in Hf; lia|]. cbn [need2] in Hf.
    destruct a as [| | | | | | | | | | |fs ksa n|]; cbn [hasS] in HaS; try discriminate.
    apply andb_true_iff in HaS. destruct HaS as [HaS HaA]. apply andb_true_iff in HaS. destruct HaS as [Hke Hkk].
    assert (ksa = ks).
    { destruct ks as [k|], ksa as [k'|]; cbn in Hke; try discriminate; [|reflexivity]. apply keys_eqb_eq in Hke. now subst. }
    subst ksa.
    assert (Hkeys : keys_ok ks (length ss)).
    { destruct ks as [k|]; [|exact I]. apply andb_true_iff in Hkk. destruct Hkk as [Hk1 Hk2]. apply Nat.eqb_eq in Hk2. split; auto. }
    destruct (all2_nth _ _ _ HaA) as [Hlfs HaN].
    set (a := Record fs ks n) in *. set (cs_all := a :: others) in *. set (m := length ss) in *.
    assert (Hx : forall x, In x cs_all -> hasL (KRec ks ss) x = true /\ valid_b x = true /\ tl_ok x).
    { intros x Hx. rewrite Forall_forall in HL, Hv, Ht. auto. }
    set (M := fun i => match mm f' (map (tcol ks i) cs_all) with Ok c => c | Err _ => Empty end).
    assert (Hcolf_a : forall i, (i < m)%nat -> colf ks i a = nth i fs Empty).
    { intros i Hi. unfold colf, a. cbn [rkeys rfields]. destruct ks as [k|]; [|reflexivity].
      destruct Hkeys as [Hk1 Hk2]. rewrite find_field_nth by (auto; lia). reflexivity. }
    assert (Hcol : forall i, (i < m)%nat ->
              mm f' (map (tcol ks i) cs_all) = Ok (M i) /\ hasS (nth i ss (KOld SNum)) (M i) = true /\ valid_b (M i) = true /\
              to_list (M i) = Ok (concat (map (fun x => map (dcast (dtree (M i))) (colvals ks i x)) cs_all))).
    { intros i Hi. rewrite Forall_forall in IH.
      assert (Hin : In (nth i ss (KOld SNum)) ss) by (apply nth_In; exact Hi).
      destruct (IH _ Hin f' (tcol ks i a) (map (tcol ks i) others)) as (c & Hc1 & Hc2 & Hc3 & Hc4).
      - pose proof (need2_nth ss i Hi). lia.
      - cbn [ok2] in Hok. rewrite forallb_forall in Hok. auto.
      - destruct others; [congruence|discriminate].
      - destruct (Hx a (or_introl eq_refl)) as (Ha1 & Ha2 & Ha3).
        destruct (tcol_ok _ _ _ _ Ha1 Ha2 Ha3 Hi Hkeys) as (_ & _ & _ & _ & _ & _ & _ & Hs).
        apply Hs. rewrite Hcolf_a by exact Hi. apply HaN. exact Hi.
      - change (tcol ks i a :: map (tcol ks i) others) with (map (tcol ks i) cs_all).
        apply Forall_forall. intros y Hy. apply in_map_iff in Hy. destruct Hy as (x & <- & Hxin).
        destruct (Hx x Hxin) as (Ha1 & Ha2 & Ha3). destruct (tcol_ok _ _ _ _ Ha1 Ha2 Ha3 Hi Hkeys). tauto.
      - change (tcol ks i a :: map (tcol ks i) others) with (map (tcol ks i) cs_all).
        apply Forall_forall. intros y Hy. apply in_map_iff in Hy. destruct Hy as (x & <- & Hxin).
        destruct (Hx x Hxin) as (Ha1 & Ha2 & Ha3). destruct (tcol_ok _ _ _ _ Ha1 Ha2 Ha3 Hi Hkeys). tauto.
      - change (tcol ks i a :: map (tcol ks i) others) with (map (tcol ks i) cs_all).
        apply Forall_forall. intros y Hy. apply in_map_iff in Hy. destruct Hy as (x & <- & Hxin).
        destruct (Hx x Hxin) as (Ha1 & Ha2 & Ha3).
        destruct (tcol_ok _ _ _ _ Ha1 Ha2 Ha3 Hi Hkeys) as (_ & _ & _ & _ & Htl & _). eexists; exact Htl.
      - change (tcol ks i a :: map (tcol ks i) others) with (map (tcol ks i) cs_all) in *.
        unfold M. rewrite Hc1. repeat split; auto. rewrite Hc4. f_equal. rewrite map_map. f_equal.
        apply map_ext_in. intros x Hxin. destruct (Hx x Hxin) as (Ha1 & Ha2 & Ha3).
        destruct (tcol_ok _ _ _ _ Ha1 Ha2 Ha3 Hi Hkeys) as (_ & _ & _ & _ & Htl & _).
        rewrite (vals_ok _ _ Htl). reflexivity. }
    (* lengths *)
    set (total := sumZ (map clen cs_all)).
    assert (Hclen : forall i x, (i < m)%nat -> In x cs_all -> zlen (colvals ks i x) = clen x /\ 0 <= clen x).
    { intros i x Hi Hxin. destruct (Hx x Hxin) as (Ha1 & Ha2 & Ha3).
      destruct (tcol_ok _ _ _ _ Ha1 Ha2 Ha3 Hi Hkeys) as (_ & _ & _ & _ & _ & Hle & Hnn & _).
      unfold colvals. rewrite Proofs_Lists.zlen_take by lia. lia. }
    assert (HclenM : forall i, (i < m)%nat -> clen (M i) = total).
    { intros i Hi. destruct (Hcol i Hi) as (_ & _ & _ & Htl). rewrite <- (to_list_len _ _ Htl).
      unfold total. apply zlen_concat_clen. intros x Hxin. rewrite zlen_map. apply Hclen; assumption. }
    set (merged := map M (seq 0 m)).
    set (Ts := map dtree merged).
    assert (HTs : forall i, (i < m)%nat -> nth i Ts (DL DBool) = dtree (M i)).
    { intros i Hi. unfold Ts, merged. rewrite map_map.
      rewrite (nth_indep _ (DL DBool) (dtree (M 0%nat))) by (rewrite map_length, seq_length; exact Hi).
      rewrite (map_nth (fun j => dtree (M j)) (seq 0 m) 0%nat i), seq_nth by exact Hi. reflexivity. }
    exists (Record merged ks total).
    assert (Hstop : Forall (fun x => stop_basic x = false) others).
    { apply Forall_forall. intros x Hxin. destruct (Hx x (or_intror Hxin)) as (Ha1 & _).
      destruct x; cbn [hasL] in Ha1; try discriminate. reflexivity. }
    split; [|split; [|split]].
    + (* the computation *)
      cbn [mm]. unfold cs_all, a. rewrite mm_step_record by exact Hne. fold a.
      rewrite mm_record_unfold. rewrite split_head_none by exact Hstop.
      cbv zeta.
      match goal with |- context [mapM ?chk others] => assert (Hchk : exists u, mapM chk others = Ok u) end.
      { apply Proofs_MM.mapM_total. intros x Hxin.
        destruct (Hx x (or_intror Hxin)) as (Ha1 & Ha2 & Ha3).
        destruct x; cbn [hasL] in Ha1; try discriminate. apply andb_true_iff in Ha1. destruct Ha1 as [_ Ha1]. cbn [body].
        destruct ks as [k|], keys as [k'|]; try discriminate.
        - apply andb_true_iff in Ha1. destruct Ha1 as [Ha1 _]. apply andb_true_iff in Ha1. destruct Ha1 as [Ha1 _].
          rewrite Ha1. eauto.
        - destruct (all2_nth _ _ _ Ha1) as [Hl _].
          replace (Nat.eqb (length cs) (length fs)) with true by (symmetry; apply Nat.eqb_eq; lia). eauto. }
      destruct Hchk as [u ->]. cbn [bind].
      assert (Hn_a : clen a = n) by reflexivity.
      rewrite <- (firstn_skipn 0 fs) at 2. cbn [firstn app].
      replace (match ks with Some k => k | None => [] end) with (skipn 0 (match ks with Some k => k | None => [] end)) at 2 by reflexivity.
      replace (length fs) with m by (unfold m; lia).
      rewrite (cols_loop_ok (mm f') _ _ others n m fs (fun i => tcol ks i a) (tcol ks) M) with (k := m); try lia.
      * fold merged. cbn [bind].
        assert (Hmin : match merged with
                       | [] => n + sumZ (map clen others)
                       | m0 :: ms => fold_left (fun acc x => Z.min acc (clen x)) ms (clen m0)
                       end = total).
        { unfold merged, total, cs_all. destruct m as [|m'] eqn:Em.
          - cbn [seq map]. cbn [sumZ fold_right map]. reflexivity.
          - cbn [seq map]. apply fold_min_const; [|apply HclenM; lia].
            apply Forall_forall. intros y Hy. apply in_map_iff in Hy. destruct Hy as (i & <- & Hi). apply in_seq in Hi.
            apply HclenM. lia. }
        rewrite Hmin.
        assert (Hps : (if match ks with Some _ => false | None => true end
                       then fold_left (fun acc x => merge_pars acc (params x)) others (params a) else params a) = nopar).
        { destruct ks; [reflexivity|]. apply fold_params_nopar. apply Forall_forall. intros x Hxin.
          destruct (Hx x (or_intror Hxin)) as (Ha1 & _). destruct x; cbn [hasL] in Ha1; try discriminate. reflexivity. }
        rewrite Hps. reflexivity.
      * intros i Hi. destruct (Hx a (or_introl eq_refl)) as (Ha1 & Ha2 & Ha3).
        destruct (tcol_ok _ _ _ _ Ha1 Ha2 Ha3 Hi Hkeys) as (Htr & _). rewrite Hcolf_a, Hn_a in Htr by exact Hi. exact Htr.
      * intros i x Hi Hxin. destruct (Hx x (or_intror Hxin)) as (Ha1 & Ha2 & Ha3).
        destruct (tcol_ok _ _ _ _ Ha1 Ha2 Ha3 Hi Hkeys) as (Htr & _).
        destruct (operand_cols _ _ _ _ Ha1 Ha2 Ha3 Hi Hkeys) as (_ & _ & (cs' & ks' & len' & -> & Hk')).
        unfold rec_column. cbn [body]. unfold colf in Htr. cbn [rkeys rfields clen] in Htr.
        destruct ks as [k|], ks' as [k'|]; try contradiction.
        -- destruct Hk' as [Hk1 Hk2]. rewrite Hk1. cbn [negb].
           cbn [hasL] in Ha1. apply andb_true_iff in Ha1. destruct Ha1 as [_ Ha1]. apply andb_true_iff in Ha1. destruct Ha1 as [_ Ha1].
           destruct (all2_nth _ _ _ Ha1) as [_ Hnn]. specialize (Hnn i (KOld SNum) [] Hi). cbn beta in Hnn.
           destruct (find_field (nth i k []) k' cs') as [f0|] eqn:E; [|discriminate]. rewrite Htr. reflexivity.
        -- replace (Nat.eqb (length cs') m) with true by (symmetry; apply Nat.eqb_eq; unfold m; lia). cbn [negb].
           rewrite (nth_error_nth' cs' Empty) by (unfold m in Hi; lia). rewrite Htr. reflexivity.
      * intros i Hi. destruct (Hcol i Hi) as (Hc1 & _). exact Hc1.
    + (* shape *)
      cbn [hasS]. apply andb_true_iff. split; [apply andb_true_iff; split|].
      * destruct ks as [k|]; cbn [opt_eqb]; [apply keys_eqb_refl|reflexivity].
      * exact Hkk.
      * apply (all2_of_nth _ (KOld SNum) Empty); [unfold merged; rewrite map_length, seq_length; reflexivity|].
        intros i Hi. unfold merged.
        rewrite (nth_indep _ Empty (M 0%nat)) by (rewrite map_length, seq_length; exact Hi).
        rewrite (map_nth M (seq 0 m) 0%nat i), seq_nth by exact Hi. destruct (Hcol i Hi) as (_ & Hc2 & _). exact Hc2.
    + (* validity *)
      assert (Htot : 0 <= total).
      { unfold total. clear -Hx. induction cs_all as [|x l IHl]; [cbn; lia|]. cbn [map sumZ fold_right]. fold (sumZ (map clen l)).
        assert (0 <= clen x).
        { destruct (Hx x (or_introl eq_refl)) as (Ha1 & Ha2 & Ha3). destruct x; cbn [hasL] in Ha1; try discriminate.
          destruct (record_parts _ _ _ Ha2 Ha3). cbn [clen]. lia. }
        specialize (IHl ltac:(intros; apply Hx; now right)). lia. }
      rewrite valid_Record.
      assert (H1 : forallb (fun x => total <=? clen x) merged = true).
      { apply forallb_forall. intros y Hy. apply in_map_iff in Hy. destruct Hy as (i & <- & Hi). apply in_seq in Hi.
        rewrite HclenM by lia. lia. }
      assert (H2 : forallb valid_b merged = true).
      { apply forallb_forall. intros y Hy. apply in_map_iff in Hy. destruct Hy as (i & <- & Hi). apply in_seq in Hi.
        destruct (Hcol i ltac:(lia)) as (_ & _ & Hc3 & _). exact Hc3. }
      rewrite H1, H2. unfold merged. rewrite map_length, seq_length.
      destruct ks as [k|]; [destruct Hkeys as [_ Hk2]; rewrite Hk2, Nat.eqb_refl|]; lia.
    + (* values *)
      rewrite to_list_Record'.
      change (dtree (Record merged ks total)) with (DR ks Ts).
      set (B := fun (x : content) (i : nat) => map (dcast (nth i Ts (DL DBool))) (colvals ks i x)).
      assert (HV : mapM to_list merged = Ok (map (fun i => concat (map (fun x => B x i) cs_all)) (seq 0 m))).
      { unfold merged. rewrite mapM_map. rewrite <- mapM_Ok. apply mapM_ext. intros i Hi. apply in_seq in Hi.
        destruct (Hcol i ltac:(lia)) as (_ & _ & _ & Hc4). rewrite Hc4. unfold B. rewrite HTs by lia. reflexivity. }
      rewrite HV. cbn [bind].
      destruct (rows_concat ks (seq 0 m) B clen (fun x => map (dcast (DR ks Ts)) (vals x)) cs_all) as [HR HR0].
      { apply Forall_forall. intros x Hxin. destruct (Hx x Hxin) as (Ha1 & Ha2 & Ha3). split; [|split].
        - destruct x; cbn [hasL] in Ha1; try discriminate. destruct (record_parts _ _ _ Ha2 Ha3). cbn [clen]. lia.
        - apply Forall_forall. intros i Hi. apply in_seq in Hi. unfold B. rewrite zlen_map. apply Hclen; [lia|exact Hxin].
        - unfold B, colvals. apply operand_rows; auto. unfold Ts, merged. rewrite !map_length, seq_length. reflexivity. }
      fold total in HR, HR0. replace (total <? 0) with false by lia. exact HR.
Qed.

