(** C17 property theorems (statements only; the proofs are in Proofs_*.v). *)
From Coq Require Import ZArith List Bool.
From AwkV Require Import Base Layout Valid Types Carry.
From AwkV Require Import Ops_Getitem.
From AwkV Require Import Proofs_Fillna.
From AwkTypes Require Import Json Forms TypeStr Typing Proofs_Depth Proofs_Types Proofs_Typing Proofs_Json Proofs_Parse.
From AwkTypes Require Import Proofs_C17b_Exact Proofs_C17b_Witness Proofs_C17b_Array Proofs_C17b_ParseX_Json Proofs_C17b_ParseX_Defs Proofs_C17b_ParseX_Ty Proofs_C17b_ParseX Proofs_C17b_ParseX_Thm Proofs_C17b_ParseX_Array Proofs_C17b_ParseX_Agree Proofs_C17b_ParseX_Img Proofs_C17b_ParseX_Exact Proofs_C17b_ParseX_Bytes Proofs_C17b_FormText Proofs_C17b_ArrayForm Proofs_C17b_Json Proofs_C17b_JsonExamples Proofs_C17b_JsonLoose Proofs_C17b_JsonIn Proofs_C17b_JsonIn2 Proofs_C17b_Elem Proofs_C17b_ElemRange Proofs_C17b_ElemField Proofs_C17b_ElemAt Proofs_C17b_ElemList Proofs_C17b_ElemMore Proofs_C17b_ElemClass Proofs_C17b_ElemSlice Proofs_C17b_ElemForm Proofs_C17b_ElemTight Proofs_C17b_Query Proofs_C17b_QueryLaws Proofs_C17b_QueryVal Proofs_C17b_QueryCons Proofs_C17b_QueryBranch Proofs_C17b_QueryVal2 Lark Proofs_C17b_Lark Proofs_C17b_LarkExamples Proofs_C17b_LarkModes Proofs_C17b_LarkCat Proofs_C17b_LarkParams Proofs_C17b_LarkParamTypes.
Import ListNotations.
Open Scope Z_scope.

(* (a) The type obtained from the form of a valid layout is the layout's type: Form::type on Content::form, with
   any table of typestrs, erased to the core type language (parameters other than string/bytestring dropped), is
   the core [type_of] used by every other property. *)
Theorem type_of_form_of : forall ts c,
  Valid None c -> rmap erase (type_of_form ts (form_of c)) = Ok (type_of c).
Proof. exact (fun ts c H => type_of_form_of_gen ts c None None H). Qed.
Print Assumptions type_of_form_of.

(* (b) Depth, regularity and field queries answered by a layout (the overrides in the Content subclasses) and by
   its form agree, for every layout whose NumpyArray nodes have at least one dimension (in particular every valid one). *)
Theorem depth_queries_agree : forall c, np_ok c = true ->
  f_purelist_depth (form_of c) = Ok (c_purelist_depth None c) /\
  f_minmax_depth (form_of c) = Ok (c_minmax_depth None c) /\
  f_branch_depth (form_of c) = Ok (c_branch_depth None c) /\
  f_purelist_isregular (form_of c) = Ok (c_purelist_isregular c) /\
  f_keys (form_of c) = Ok (c_keys c) /\
  f_numfields (form_of c) = Ok (c_numfields c).
Proof.
  exact (fun c H => conj (purelist_depth_agree c None None H)
                   (conj (minmax_depth_agree c None None H)
                   (conj (branch_depth_agree c None None H)
                   (conj (purelist_isregular_agree c None None)
                   (conj (keys_agree c None None) (numfields_agree c None None)))))).
Qed.
Print Assumptions depth_queries_agree.

Theorem valid_layouts_have_dimensions : forall c, Valid None c -> np_ok c = true.
Proof. exact (fun c H => valid_np_ok c None H). Qed.
Print Assumptions valid_layouts_have_dimensions.

(* (b') ... and they agree with the nested-list value: every number / boolean / string of every element of a valid
   layout sits at a list depth within minmax_depth (None, empty lists and field-less records have no leaves). *)
Theorem minmax_is_value_depth : forall c vs,
  Valid None c -> to_list c = Ok vs ->
  Forall (fun v => leaf_depth_in (fst (c_minmax_depth None c)) (snd (c_minmax_depth None c)) v = true) vs.
Proof. exact minmax_is_value_depth_thm. Qed.
Print Assumptions minmax_is_value_depth.

(* (e) Every element taken out of a valid array has a type consistent with the item type the array's type
   promises -- all node classes. *)
Theorem to_list_typed : forall c vs,
  Valid None c -> to_list c = Ok vs -> Forall (has_type (type_of c)) vs.
Proof. exact to_list_typed_thm. Qed.
Print Assumptions to_list_typed.

(* (f) Gathering by an index (carry), hence range slicing, never changes the type. *)
Theorem carry_preserves_type_thm : forall c ix c', carry c ix = Ok c' -> type_of c' = type_of c.
Proof. exact (fun c ix c' H => carry_preserves_type c None ix c' H). Qed.
Print Assumptions carry_preserves_type_thm.

Theorem getitem_range_preserves_type : forall c a b c', crange c a b = Ok c' -> type_of c' = type_of c.
Proof. exact (fun c a b c' H => carry_preserves_type c None (range a b) c' H). Qed.
Print Assumptions getitem_range_preserves_type.

(* (c) A form of an existing node class (form_wf: parameters as a std::map, index widths of an existing array class,
   NumpyForm fields consistent with its dtype, sizes within int, no NUL in keys) survives Form -> JSON -> Form, in the
   compact and in the verbose rendering, with parameters holding arbitrary JSON values. *)
Theorem form_json_roundtrip : forall f verbose,
  form_wf f = true -> form_fromjson (form_tojson verbose f) = Ok f.
Proof. exact form_json_roundtrip_thm. Qed.
Print Assumptions form_json_roundtrip.

(* (d) A type of the printable fragment (no parameters / typestrs except: the four types the default typestrs
   abbreviate -- string, bytes, char, byte --, and a record name that is a "name" and not a reserved word; regular
   sizes >= 0; keys byte strings; no empty named tuple) survives printing and re-parsing: lists, regular, option
   (both spellings), unions, records, tuples, named records and tuples, all 18 primitive names, unknown. *)
Theorem type_print_parse_roundtrip : forall t,
  printable t = true -> type_parse (type_tostring t) = Ok t.
Proof. exact type_print_parse_roundtrip_thm. Qed.
Print Assumptions type_print_parse_roundtrip.

(* ===================================================================== C17b: exact *)
(* (d1) Everything the reference parser returns lies in the fragment: a string of bytes that parses, parses to a printable type. *)
Theorem type_parse_printable : forall s t, key_ok s = true -> type_parse s = Ok t -> printable t = true.
Proof. exact type_parse_printable_thm. Qed.
Print Assumptions type_parse_printable.

(* (d2) A printable type prints to a string of bytes. *)
Theorem printable_key_ok : forall t, printable t = true -> key_ok (type_tostring t) = true.
Proof. exact printable_key_ok_thm. Qed.
Print Assumptions printable_key_ok.

(* (d3) EXACTNESS of the fragment of (d): a type is printable if and only if it prints to a byte string that the reference
   parser brings back unchanged (witnesses for every excluded shape: Proofs_C17b_Witness.v). *)
Theorem printable_iff_roundtrip : forall t,
  printable t = true <-> (key_ok (type_tostring t) = true /\ type_parse (type_tostring t) = Ok t).
Proof. exact printable_iff_roundtrip_thm. Qed.
Print Assumptions printable_iff_roundtrip.

Theorem type_roundtrip_exact : forall t, key_ok (type_tostring t) = true ->
  (type_parse (type_tostring t) = Ok t <-> printable t = true).
Proof. exact type_roundtrip_exact_thm. Qed.
Print Assumptions type_roundtrip_exact.

(* (d4) A type outside the fragment never comes back. *)
Theorem not_printable_no_roundtrip : forall t, key_ok (type_tostring t) = true -> printable t = false ->
  type_parse (type_tostring t) <> Ok t.
Proof. exact not_printable_no_roundtrip_thm. Qed.
Print Assumptions not_printable_no_roundtrip.

(* (d5) What the parser accepts denotes a type that survives a further print / parse (parse . print . parse = parse). *)
Theorem type_parse_print_parse : forall s t, key_ok s = true -> type_parse s = Ok t -> type_parse (type_tostring t) = Ok t.
Proof. exact type_parse_print_parse_thm. Qed.
Print Assumptions type_parse_print_parse.

(* (d6) The printer is injective on the fragment (outside it is not: tostring_*_not_injective in Proofs_C17b_Witness.v). *)
Theorem type_tostring_injective : forall t1 t2,
  printable t1 = true -> printable t2 = true -> type_tostring t1 = type_tostring t2 -> t1 = t2.
Proof. exact type_tostring_injective_thm. Qed.
Print Assumptions type_tostring_injective.

(* (d7) The round trip for ARRAYS: the type (Form::type of Content::form, default typestrs string/bytes/char/byte) of every
   layout whose parameters are the ones the library sets itself (tp_ok: __array__ = string / bytestring on a list of
   char / byte, char / byte on 1-d uint8, __record__ = a name on a record; non-negative sizes; one byte-string key per
   field) is printable, survives Type::tostring followed by the reference parser, and erases to the layout's core type. *)
Theorem array_type_printable : forall c, tp_ok c = true ->
  exists t, type_of_form default_typestrs (form_of c) = Ok t /\ printable t = true.
Proof. exact array_type_printable_thm. Qed.
Print Assumptions array_type_printable.

Theorem array_type_roundtrip : forall c, Valid None c -> tp_ok c = true ->
  exists t, type_of_form default_typestrs (form_of c) = Ok t /\ type_parse (type_tostring t) = Ok t /\ erase t = type_of c.
Proof. exact array_type_roundtrip_valid_thm. Qed.
Print Assumptions array_type_roundtrip.

(* ===================================================================== C17b: parsex *)
(* ParseX stage 1: the reference JSON parser json_parse inverts the compact printer json_print on the fragment json_ok (strings/keys with bytes 0..255; any integer; JDbl whose text is a number token over digits . e E + - starting with a digit or '-' and containing '.', 'e' or 'E', i.e. every text rj::Writer emits for a finite non-integral double; nested arrays/objects), with any continuation that starts with , ] } or is empty, for any fuel >= json_size. *)
Theorem json_print_parse_x : forall j, json_ok j = true -> forall fuel rest, (json_size j <= fuel)%nat -> jfollow_ok rest ->
  json_parse fuel (json_print j ++ rest) = Ok (j, rest).
Proof. exact json_print_parse. Qed.
Print Assumptions json_print_parse_x.
(* ParseX stage 1: top-level JSON round trip (fuel = text length + 1, nothing may remain). *)
Theorem json_roundtrip_x : forall j, json_ok j = true -> json_parse_top (json_print j) = Ok j.
Proof. exact json_roundtrip. Qed.
Print Assumptions json_roundtrip_x.
(* ParseX stage 2: the text parameters={"k": v, ...} printed by string_parameters is parsed back by params_parse, for every non-empty sorted parameter map without the key __categorical__ (which string_parameters filters out), keys byte strings, values in json_ok; any continuation. params_parse rejects parameters={} (only printed when the single entry is __categorical__ with a value other than true). *)
Theorem string_parameters_parse_x : forall p rest, params_ok p = true ->
  params_parse (string_parameters p ++ rest) = Ok (p, rest).
Proof. exact string_parameters_parse. Qed.
Print Assumptions string_parameters_parse_x.
(* ParseX stage 3: the extended reference parser type_parse_x (parameters in every bracket spelling, categorical[type=T], arbitrary JSON parameter values in json_ok, doubles included) inverts Type::tostring on printable_x: no typestr except the four hardcoded types (possibly categorical), sorted parameter maps with byte-string keys and json_ok values, __categorical__ only with the value true, record names as in printable, regular sizes >= 0, no parameterised empty union. *)
Theorem type_print_parse_roundtrip_x_thm : forall t, printable_x t = true -> type_parse_x (type_tostring t) = Ok t.
Proof. exact type_print_parse_roundtrip_x. Qed.
Print Assumptions type_print_parse_roundtrip_x_thm.
(* ParseX stage 3: the extended fragment contains the fragment of the frozen parser. *)
Theorem printable_x_extends_thm : forall t, printable t = true -> printable_x t = true.
Proof. exact printable_x_extends. Qed.
Print Assumptions printable_x_extends_thm.
(* ParseX stage 4: Type::tostring is injective on printable_x (corollary of the round trip). *)
Theorem type_tostring_injective_x_thm : forall t1 t2, printable_x t1 = true -> printable_x t2 = true ->
  type_tostring t1 = type_tostring t2 -> t1 = t2.
Proof. exact type_tostring_injective_x. Qed.
Print Assumptions type_tostring_injective_x_thm.
(* ParseX arrays: with the empty typestr table, the type (Form::type of Content::form) of every layout passing tpx_ok (Par nodes anywhere: strings, chars, categorical over Indexed/IndexedOption/anything, names on any node; Numpy shapes non-empty with inner dims >= 0, regular sizes >= 0, record keys byte strings one per field, names byte strings; each node's own type passes top_ok: a record printed as Name[...] has a proper non-reserved name and is no empty tuple, a union with parameters has contents) is in printable_x and survives Type::tostring followed by type_parse_x. *)
Theorem array_type_roundtrip_x_thm : forall c, tpx_ok c = true ->
  exists t, type_of_form [] (form_of c) = Ok t /\ printable_x t = true /\ type_parse_x (type_tostring t) = Ok t.
Proof. exact array_type_roundtrip_x. Qed.
Print Assumptions array_type_roundtrip_x_thm.
(* ParseX agreement: the extended reference parser returns the same type as the frozen reference parser wherever the latter succeeds. *)
Theorem type_parse_x_agrees_thm : forall s t, type_parse s = Ok t -> type_parse_x s = Ok t.
Proof. exact type_parse_x_agrees. Qed.
Print Assumptions type_parse_x_agrees_thm.
(* ParseX exactness, JSON layer: every value the reference JSON parser returns on a byte string is in json_ok (so json_ok is exactly the set of values that survive json_print / json_parse_top, up to byte-string texts). *)
Theorem json_parse_top_img_thm : forall s j, key_ok s = true -> json_parse_top s = Ok j -> json_ok j = true.
Proof. exact json_parse_top_img. Qed.
Print Assumptions json_parse_top_img_thm.
(* ParseX exactness, parameters layer: every parameter map params_parse returns on a byte string is in params_ok. *)
Theorem params_parse_img_thm : forall s q r, params_parse s = Ok (q, r) -> key_ok s = true -> params_ok q = true /\ key_ok r = true.
Proof. exact params_parse_img. Qed.
Print Assumptions params_parse_img_thm.
(* ParseX exactness: printable_x splits into the structural part pstruct and the record-spelling part names_ok (key counts; a record the printer spells Name[...] has a proper non-reserved name and is no empty tuple). *)
Theorem printable_x_iff_thm : forall t, printable_x t = true <-> pstruct t = true /\ names_ok t = true.
Proof. exact printable_x_iff. Qed.
Print Assumptions printable_x_iff_thm.
(* ParseX exactness: everything type_parse_x returns on a byte string satisfies pstruct. *)
Theorem type_parse_x_img_thm : forall s t, key_ok s = true -> type_parse_x s = Ok t -> pstruct t = true.
Proof. exact type_parse_x_img. Qed.
Print Assumptions type_parse_x_img_thm.
(* ParseX exactness: printable_x is exactly the set of consistently spelled types (names_ok) that come back from their own text; names_ok cannot be dropped (names_ok_needed_refuted, image_not_printable_x_refuted). *)
Theorem printable_x_exact_thm : forall t, key_ok (type_tostring t) = true ->
  (printable_x t = true <-> type_parse_x (type_tostring t) = Ok t /\ names_ok t = true).
Proof. exact printable_x_exact. Qed.
Print Assumptions printable_x_exact_thm.
(* ParseX bytes: every type of printable_x prints to a byte string (parameters, JSON values incl. negative integers and double texts, record names). *)
Theorem printable_x_key_ok_thm : forall t, printable_x t = true -> key_ok (type_tostring t) = true.
Proof. exact printable_x_key_ok. Qed.
Print Assumptions printable_x_key_ok_thm.
(* ParseX characterisation: printable_x is exactly "prints to a byte string that type_parse_x brings back, with records spelled consistently (names_ok)". *)
Theorem printable_x_characterised_thm : forall t,
  printable_x t = true <->
  key_ok (type_tostring t) = true /\ type_parse_x (type_tostring t) = Ok t /\ names_ok t = true.
Proof. exact printable_x_characterised. Qed.
Print Assumptions printable_x_characterised_thm.

(* ===================================================================== C17b: formtext *)
(* (c1) The JSON of a form whose strings are byte strings and whose parameters hold only doubles printed as a number token with fraction or exponent (form_text_ok) lies in the
   fragment json_ok on which the reference JSON reader inverts rj::Writer's compact text. *)
Theorem form_json_ok : forall f v, form_text_ok f = true -> json_ok (form_tojson v f) = true.
Proof. exact form_json_ok_thm. Qed.
Print Assumptions form_json_ok.

(* (c2) Form -> JSON TEXT -> Form: the round trip of (c) at the level of the text (compact and verbose key sets). *)
Theorem form_text_roundtrip : forall f v, form_wf f = true -> form_text_ok f = true ->
  form_fromtext (form_totext v f) = Ok f.
Proof. exact form_text_roundtrip_thm. Qed.
Print Assumptions form_text_roundtrip.

(* (c3) The text determines the form, across verbosities (false outside form_text_ok: the double text "1" and the integer 1 print alike,
   Proofs_C17b_JsonExamples.form_text_injective_refuted). *)
Theorem form_text_injective : forall f g v w,
  form_wf f = true -> form_text_ok f = true -> form_wf g = true -> form_text_ok g = true ->
  form_totext v f = form_totext w g -> f = g.
Proof. exact form_text_injective_thm. Qed.
Print Assumptions form_text_injective.

(* (c4) The round trip for ARRAYS: the form (Content::form) of every layout whose dimensions and regular sizes fit an int and whose
   record keys / names are NUL-free byte strings (jf_ok) is a form of an existing node class (form_wf) and survives
   Form::tojson / Form::fromjson as a JSON value and as JSON text, compact and verbose; outside: a dimension >= 2^31 (read with
   IsInt()), a NUL in a key (Proofs_C17b_ArrayForm.big_dimension_refuted, nul_key_refuted). *)
Theorem array_form_wf : forall c, jf_ok c = true -> form_wf (form_of c) = true.
Proof. exact array_form_wf_thm. Qed.
Print Assumptions array_form_wf.

Theorem array_form_json_roundtrip : forall c v, jf_ok c = true -> form_fromjson (form_tojson v (form_of c)) = Ok (form_of c).
Proof. exact array_form_json_roundtrip_thm. Qed.
Print Assumptions array_form_json_roundtrip.

Theorem array_form_text_roundtrip : forall c v, jf_ok c = true -> form_fromtext (form_totext v (form_of c)) = Ok (form_of c).
Proof. exact array_form_text_roundtrip_thm. Qed.
Print Assumptions array_form_text_roundtrip.

Theorem array_form_text_injective : forall c d v w, jf_ok c = true -> jf_ok d = true ->
  form_totext v (form_of c) = form_totext w (form_of d) -> form_of c = form_of d.
Proof. exact array_form_text_injective_thm. Qed.
Print Assumptions array_form_text_injective.

(* ===================================================================== C17b: json *)
(* C17b (Form -> JSON -> Form), complete characterisation: for EVERY form, Form::fromjson of Form::tojson either fails (exactly when form_parses is false) or returns form_canon of the form *)
Theorem form_roundtrip_characterised : forall f verbose,
  form_fromjson (form_tojson verbose f) = if form_parses f then Ok (form_canon f) else Err EValue.
Proof. exact form_roundtrip_char. Qed.
Print Assumptions form_roundtrip_characterised.

(* C17b: Form::tojson is injective on well-formed forms, across verbosities *)
Theorem form_json_injective : forall f g v w,
  form_wf f = true -> form_wf g = true -> form_tojson v f = form_tojson w g -> f = g.
Proof. exact form_json_injective_thm. Qed.
Print Assumptions form_json_injective.

(* C17b: verbose and compact JSON of ANY form read back identically (both fail or both give the same form) *)
Theorem form_json_verbose_compact : forall f,
  form_fromjson (form_tojson true f) = form_fromjson (form_tojson false f).
Proof. exact form_json_verbose_compact_thm. Qed.
Print Assumptions form_json_verbose_compact.

(* C17b: exactness of the fragment: a form survives the round trip (either verbosity) iff it is well-formed *)
Theorem form_roundtrip_iff_wf : forall f v, form_fromjson (form_tojson v f) = Ok f <-> form_wf f = true.
Proof. exact form_roundtrip_iff_thm. Qed.
Print Assumptions form_roundtrip_iff_wf.

(* C17b: whatever form comes back from a round trip is well-formed, so a second round trip is the identity *)
Theorem form_roundtrip_idempotent : forall f f' v,
  form_fromjson (form_tojson v f) = Ok f' ->
  form_wf f' = true /\ forall w, form_fromjson (form_tojson w f') = Ok f'.
Proof. exact form_roundtrip_idempotent_thm. Qed.
Print Assumptions form_roundtrip_idempotent.

(* C17b: Form::type commutes with the JSON round trip on well-formed forms, for every typestr table *)
Theorem form_type_commutes_with_fromjson : forall ts f v, form_wf f = true ->
  exists f', form_fromjson (form_tojson v f) = Ok f' /\ type_of_form ts f' = type_of_form ts f.
Proof. exact form_type_commutes_with_fromjson_thm. Qed.
Print Assumptions form_type_commutes_with_fromjson.

(* C17b: widened fragment form_wf_loose (NumpyForm format/itemsize free, e.g. "q" for int64; NUL allowed in form keys): the canonical form comes back; it is well-formed, has the same type and answers all depth/field queries as the original *)
Theorem form_loose_roundtrip : forall ts f v, form_wf_loose f = true ->
  exists f', form_fromjson (form_tojson v f) = Ok f' /\ f' = form_canon f /\ form_wf f' = true /\
    type_of_form ts f' = type_of_form ts f /\
    f_purelist_depth f' = f_purelist_depth f /\
    f_minmax_depth f' = f_minmax_depth f /\
    f_branch_depth f' = f_branch_depth f /\
    f_purelist_isregular f' = f_purelist_isregular f /\
    f_keys f' = f_keys f /\
    f_numfields f' = f_numfields f.
Proof. exact form_loose_roundtrip_thm. Qed.
Print Assumptions form_loose_roundtrip.

(* C17b: the widened fragment contains the well-formed forms *)
Theorem form_wf_loose_contains_wf : forall f, form_wf f = true -> form_wf_loose f = true.
Proof. exact form_wf_is_loose. Qed.
Print Assumptions form_wf_loose_contains_wf.

(* C17b: the canonical form of an accepted form is well-formed (form_canon lands in the fragment) *)
Theorem form_canon_is_wf : forall f, form_parses f = true -> form_wf (form_canon f) = true.
Proof. exact form_canon_wf. Qed.
Print Assumptions form_canon_is_wf.

(* C17b: OPEN FINDING form-roundtrip-noncanonical-format: a NumpyForm given with format "q" for int64 comes back with "l" (both verbosities) *)
Theorem form_noncanonical_format_counterexample : forall v,
  form_fromjson (form_tojson v (FNumpy meta0 [] 8 [113] (FD DInt64))) = Ok (FNumpy meta0 [] 8 [108] (FD DInt64)) /\
  Ok (FNumpy meta0 [] 8 [108] (FD DInt64)) <> Ok (FNumpy meta0 [] 8 [113] (FD DInt64)).
Proof. exact form_noncanonical_format_refuted. Qed.
Print Assumptions form_noncanonical_format_counterexample.

(* C17b (fromjson on arbitrary JSON): every form Form::fromjson returns has std::map parameters (sorted, NUL-free keys), NUL-free form/record keys, as many record keys as contents, int32 sizes/itemsize/inner_shape, and NumpyForm dtype = format_to_dtype format itemsize *)
Theorem form_fromjson_image : forall j f, form_fromjson j = Ok f -> form_img f = true.
Proof. exact form_fromjson_image_thm. Qed.
Print Assumptions form_fromjson_image.

(* C17b: a form returned by fromjson is well-formed exactly when its index widths are those of an existing class and its NumpyForm format/itemsize are canonical for a primitive dtype (shape_ok) *)
Theorem form_fromjson_wf_iff : forall j f, form_fromjson j = Ok f -> (form_wf f = true <-> shape_ok f = true).
Proof. exact form_fromjson_wf_iff_thm. Qed.
Print Assumptions form_fromjson_wf_iff.

(* C17b: fromjson . tojson . fromjson = fromjson holds exactly on shape_ok results *)
Theorem form_fromjson_reprint_iff : forall j f v, form_fromjson j = Ok f ->
  (form_fromjson (form_tojson v f) = Ok f <-> shape_ok f = true).
Proof. exact form_fromjson_reprint_iff_thm. Qed.
Print Assumptions form_fromjson_reprint_iff.

(* C17b (fromjson on arbitrary JSON): two objects agreeing on the first occurrence of every member name fromjson looks up (is_node_key) are read alike *)
Theorem fromjson_node_ext : forall m m',
  (forall k, is_node_key k = true -> jfind k m = jfind k m') -> form_fromjson (JObj m) = form_fromjson (JObj m').
Proof. exact fromjson_node_ext_thm. Qed.
Print Assumptions fromjson_node_ext.

(* C17b: member order of a node is irrelevant when member names are distinct *)
Theorem fromjson_member_order : forall m m', Permutation.Permutation m m' -> NoDup (map fst m) ->
  form_fromjson (JObj m) = form_fromjson (JObj m').
Proof. exact fromjson_member_order_thm. Qed.
Print Assumptions fromjson_member_order.

(* C17b: a member whose name fromjson never looks up is ignored, wherever it stands in the node *)
Theorem fromjson_extra_member : forall m1 m2 k0 v, is_node_key k0 = false ->
  form_fromjson (JObj (m1 ++ (k0, v) :: m2)) = form_fromjson (JObj (m1 ++ m2)).
Proof. exact fromjson_extra_member_thm. Qed.
Print Assumptions fromjson_extra_member.

(* C17b: a repeated member name: every occurrence after the first is ignored *)
Theorem fromjson_duplicate_member : forall m1 m2 k0 v, jfind k0 m1 <> None ->
  form_fromjson (JObj (m1 ++ (k0, v) :: m2)) = form_fromjson (JObj (m1 ++ m2)).
Proof. exact fromjson_duplicate_member_thm. Qed.
Print Assumptions fromjson_duplicate_member.

(* C17b: Index::str2form returns the first of i8,u8,i32,u32,i64 of which the given string is a prefix (strncmp with str.length()): abbreviations and the empty string are accepted *)
Theorem str2form_prefix : forall s,
  str2form s = match find (fun o => is_prefix s (form2str o)) iform_order with Some o => Ok o | None => Err EValue end.
Proof. exact str2form_prefix_thm. Qed.
Print Assumptions str2form_prefix.

(* C17b: the empty index string is accepted as i8 *)
Theorem str2form_empty_string_is_i8 : str2form [] = Ok Fi8.
Proof. exact str2form_empty_string. Qed.
Print Assumptions str2form_empty_string_is_i8.

(* C17b: a class name that fixes the index type returns that type or fails (a conflicting index string is an error) *)
Theorem get_iform_preset_agrees : forall p field m o, get_iform (Some p) field m = Ok o -> o = p.
Proof. exact get_iform_preset. Qed.
Print Assumptions get_iform_preset_agrees.

(* C17b: has_identifier, when present, decides the identities flag (has_identities is not consulted) *)
Theorem has_identifier_wins : forall m b, jfind k_has_identifier m = Some (JBool b) -> get_hid m = Ok b.
Proof. exact get_hid_identifier_wins. Qed.
Print Assumptions has_identifier_wins.

(* C17b: missing has_identifier/has_identities/parameters/form_key default to false / {} / None *)
Theorem fromjson_meta_defaults : forall m,
  jfind k_has_identifier m = None -> jfind k_has_identities m = None -> jfind k_parameters m = None ->
  jfind k_form_key m = None -> get_meta m = Ok meta0.
Proof. exact get_meta_defaults. Qed.
Print Assumptions fromjson_meta_defaults.

(* ===================================================================== C17b: elem *)
(* (e1) getitem_at: the element at any position of a valid array matches (item_matches: None / scalar of the dtype / record of the erased record type / list whose elements all have the erased item type, or string unit over a char resp. byte leaf) one of the item types that item_types lists for the array's form -- all node classes. *)
Theorem getitem_at_type : forall c vs i v ts l,
  Valid None c -> to_list c = Ok vs -> get vs i = Ok v -> item_types ts (form_of c) = Ok l ->
  existsb (fun it => item_matches it v) l = true.
Proof. exact getitem_at_type_thm. Qed.
Print Assumptions getitem_at_type.

(* (e1') the same for all elements at once, with the existence of the item list. *)
Theorem elements_match_items : forall c vs ts,
  Valid None c -> to_list c = Ok vs ->
  exists l, item_types ts (form_of c) = Ok l /\ Forall (fun v => existsb (fun it => item_matches it v) l = true) vs.
Proof. exact elements_match_items_thm. Qed.
Print Assumptions elements_match_items.

(* (e2) item_types never fails on the form of a layout whose NumpyArray nodes have a dimension (in particular every valid layout). *)
Theorem item_types_total : forall ts c, np_ok c = true -> exists l, item_types ts (form_of c) = Ok l.
Proof. exact item_types_total_thm. Qed.
Print Assumptions item_types_total.

(* (e3) an array whose form has no item types (EmptyArray, also below IndexedArray / parameter nodes) has no elements. *)
Theorem no_items_no_elements : forall c vs ts,
  Valid None c -> to_list c = Ok vs -> item_types ts (form_of c) = Ok [] -> vs = [].
Proof. exact no_items_no_elements_thm. Qed.
Print Assumptions no_items_no_elements.

Theorem empty_array_items : forall ts, item_types ts (form_of Empty) = Ok [] /\ to_list Empty = Ok [].
Proof. exact empty_array_items_thm. Qed.
Print Assumptions empty_array_items.

(* (e4) nothing has the unknown type: an array of unknown type has no elements; lists of unknown are all empty; option of unknown holds only None. *)
Theorem unknown_type_no_elements : forall c vs,
  Valid None c -> to_list c = Ok vs -> type_of c = TUnk -> vs = [].
Proof. exact unknown_type_no_elements_thm. Qed.
Print Assumptions unknown_type_no_elements.

Theorem list_of_unknown_all_empty : forall c vs sz,
  Valid None c -> to_list c = Ok vs -> type_of c = TList sz None TUnk -> Forall (fun v => v = VList []) vs.
Proof. exact list_of_unknown_all_empty_thm. Qed.
Print Assumptions list_of_unknown_all_empty.

Theorem option_of_unknown_all_none : forall c vs,
  Valid None c -> to_list c = Ok vs -> type_of c = TOpt TUnk -> Forall (fun v => v = VNone) vs.
Proof. exact option_of_unknown_all_none_thm. Qed.
Print Assumptions option_of_unknown_all_none.

(* (f1) Gathering by an index (carry), hence range slicing, keeps Form::type with ALL parameters (not only the erased core type), for every table of typestrs -- all node classes, no validity needed. *)
Theorem carry_preserves_rtype : forall ts c ix c',
  carry c ix = Ok c' -> type_of_form ts (form_of c') = type_of_form ts (form_of c).
Proof. exact carry_preserves_rtype_thm. Qed.
Print Assumptions carry_preserves_rtype.

Theorem getitem_range_preserves_rtype : forall ts c a b c',
  crange c a b = Ok c' -> type_of_form ts (form_of c') = type_of_form ts (form_of c).
Proof. exact crange_preserves_rtype_thm. Qed.
Print Assumptions getitem_range_preserves_rtype.

(* (f2) ... hence the printed type string is unchanged by range slicing. *)
Theorem getitem_range_preserves_typestring : forall ts c a b c',
  crange c a b = Ok c' ->
  rmap type_tostring (type_of_form ts (form_of c')) = rmap type_tostring (type_of_form ts (form_of c)).
Proof. exact crange_preserves_typestring_thm. Qed.
Print Assumptions getitem_range_preserves_typestring.

(* (f3) ... and so are the item types an element may have. *)
Theorem carry_preserves_item_types : forall ts c ix c',
  carry c ix = Ok c' -> item_types ts (form_of c') = item_types ts (form_of c).
Proof. exact carry_preserves_item_types_thm. Qed.
Print Assumptions carry_preserves_item_types.

(* (f4) The Form itself is kept up to the node classes carry rewrites (form_norm: ListOffsetForm ~ ListForm, BitMaskedForm ~ ByteMaskedForm; parameters, keys, index widths, sizes, inner shapes, dtypes all kept); Form::type and the item types do not see form_norm. Plain equality of forms is false (Proofs_C17b_ElemRange.carry_preserves_form_refuted). *)
Theorem carry_preserves_form : forall c ix c',
  carry c ix = Ok c' -> form_norm (form_of c') = form_norm (form_of c).
Proof. exact (fun c ix c' H => carry_preserves_form_norm c ix c' H None None). Qed.
Print Assumptions carry_preserves_form.

Theorem type_of_form_ignores_norm : forall ts f, type_of_form ts (form_norm f) = type_of_form ts f.
Proof. exact type_of_form_norm. Qed.
Print Assumptions type_of_form_ignores_norm.

Theorem item_types_ignores_norm : forall ts f, item_types ts (form_norm f) = item_types ts f.
Proof. exact item_types_norm. Qed.
Print Assumptions item_types_ignores_norm.

(* (f5) n-d NumpyArray: a range slice keeps the dtype and EVERY inner dimension (zero dimensions included), the leading dimension becomes b - a (also when empty: a[2:2] of a 3x2 array is 0 x 2), the buffer holds exactly (b-a) rows. *)
Theorem crange_numpy_shape : forall dt n dims data a b c',
  a <= b -> crange (Numpy dt (n :: dims) data) a b = Ok c' ->
  exists data', c' = Numpy dt ((b - a) :: dims) data' /\ zlen data' = (b - a) * prodZ dims.
Proof. exact crange_numpy_shape_thm. Qed.
Print Assumptions crange_numpy_shape.

Theorem carry_numpy_shape : forall dt n dims data ix c',
  carry (Numpy dt (n :: dims) data) ix = Ok c' ->
  exists data', c' = Numpy dt (zlen ix :: dims) data' /\ zlen data' = zlen ix * prodZ dims.
Proof. exact carry_numpy_shape_thm. Qed.
Print Assumptions carry_numpy_shape.

Theorem crange_numpy_total : forall dt n dims data a b,
  Valid None (Numpy dt (n :: dims) data) -> 0 <= a -> a <= b -> b <= n ->
  exists data', crange (Numpy dt (n :: dims) data) a b = Ok (Numpy dt ((b - a) :: dims) data') /\
                zlen data' = (b - a) * prodZ dims.
Proof. exact crange_numpy_total_thm. Qed.
Print Assumptions crange_numpy_total.

(* (f6) RegularArray: a range slice keeps the size (size 0 included: the length b - a is then carried by zeros_length). *)
Theorem crange_regular_size : forall c size zl a b c',
  a <= b -> crange (Regular c size zl) a b = Ok c' -> exists c'', c' = Regular c'' size (b - a).
Proof. exact crange_regular_size_thm. Qed.
Print Assumptions crange_regular_size.

(* (f7) The length of a gather is the length of the index for every node class, as soon as no RegularArray size is negative (reg_nonneg; implied by validity). *)
Theorem carry_len : forall c ix c', reg_nonneg c = true -> carry c ix = Ok c' -> clen c' = zlen ix.
Proof. exact carry_len_thm. Qed.
Print Assumptions carry_len.

(* (f8) The length of c[a:b] is b - a whenever the slice exists on a valid layout: every node class. *)
Theorem crange_len : forall c a b c', Valid None c -> a <= b -> crange c a b = Ok c' -> clen c' = b - a.
Proof. exact crange_len_thm. Qed.
Print Assumptions crange_len.

(* (f9) Everything about c[a:b] in one statement: for 0 <= a <= b <= len it exists, is valid, has length b - a, its elements are the slice of the elements and have the ORIGINAL item type; the core type, Form::type with parameters and the item types are unchanged. *)
Theorem range_slice : forall c vs a b,
  Valid None c -> to_list c = Ok vs -> 0 <= a -> a <= b -> b <= clen c ->
  exists c' ws, crange c a b = Ok c' /\ Valid None c' /\ clen c' = b - a /\
    slice vs a b = Ok ws /\ to_list c' = Ok ws /\ Forall (has_type (type_of c)) ws /\
    type_of c' = type_of c /\
    (forall ts, type_of_form ts (form_of c') = type_of_form ts (form_of c)) /\
    (forall ts, item_types ts (form_of c') = item_types ts (form_of c)).
Proof. exact range_slice_thm. Qed.
Print Assumptions range_slice.

(* (g1) array["k"]: the layout produced by field_content has exactly the projected type (through lists, options, IndexedArray, parameter nodes); every node class, no validity needed. *)
Theorem getitem_field_type : forall k c c',
  field_content k c = Ok c' -> proj_ty k (type_of c) = Ok (type_of c').
Proof. exact field_content_type_thm. Qed.
Print Assumptions getitem_field_type.

(* (g2) array[["k1", "k2", ...]] likewise. *)
Theorem getitem_fields_type : forall ks c c',
  fields_content ks c = Ok c' -> projs_ty ks (type_of c) = Ok (type_of c').
Proof. exact fields_content_type_thm. Qed.
Print Assumptions getitem_fields_type.

(* (g3) value level and type level together on a valid array: the result has the projected type and its elements are the projected elements. *)
Theorem getitem_field_typed_values : forall k c vs c',
  Valid None c -> to_list c = Ok vs -> field_content k c = Ok c' ->
  proj_ty k (type_of c) = Ok (type_of c') /\
  exists ws, to_list c' = Ok ws /\ mapM (proj_v k (type_of c)) vs = Ok ws.
Proof. exact getitem_field_type_thm. Qed.
Print Assumptions getitem_field_typed_values.

(* (g4) the projection succeeds exactly when the type has the field; otherwise it is a value error. *)
Theorem getitem_field_iff : forall k c vs,
  Valid None c -> to_list c = Ok vs ->
  match field_content k c with
  | Ok c' => proj_ty k (type_of c) = Ok (type_of c')
  | Err e => e = EValue /\ proj_ty k (type_of c) = Err EValue
  end.
Proof. exact getitem_field_iff_thm. Qed.
Print Assumptions getitem_field_iff.

(* (h1) array[i] in the slicing model (presented as a length-1 array holding the element) is the gather of the wrapped index. *)
Theorem getitem_at_model_is_carry : forall i c,
  getitem_model [Ops_Getitem.IAt i] c = (do j <- wrap_at (clen c) i; carry c [j]).
Proof. exact getitem_at_model_thm. Qed.
Print Assumptions getitem_at_model_is_carry.

(* (h2) ... so it keeps the core type, Form::type with all parameters and the item types, and has length 1. *)
Theorem getitem_at_model_type : forall i c c',
  getitem_model [Ops_Getitem.IAt i] c = Ok c' ->
  type_of c' = type_of c /\
  (forall ts, type_of_form ts (form_of c') = type_of_form ts (form_of c)) /\
  (forall ts, item_types ts (form_of c') = item_types ts (form_of c)) /\
  (reg_nonneg c = true -> clen c' = 1).
Proof. exact getitem_at_model_type_thm. Qed.
Print Assumptions getitem_at_model_type.

(* (h3) on a valid array and -len <= i < len: the result exists, is valid, holds exactly element i (i + len when negative), which has the array's item type and matches one of the item types of the array's form. *)
Theorem getitem_at_model_elem : forall i c vs,
  Valid None c -> to_list c = Ok vs -> - clen c <= i < clen c ->
  exists c' v, getitem_model [Ops_Getitem.IAt i] c = Ok c' /\ Valid None c' /\ to_list c' = Ok [v] /\
    get vs (if i <? 0 then i + clen c else i) = Ok v /\
    has_type (type_of c) v /\ type_of c' = type_of c /\
    forall ts l, item_types ts (form_of c) = Ok l -> existsb (fun it => item_matches it v) l = true.
Proof. exact getitem_at_model_elem_thm. Qed.
Print Assumptions getitem_at_model_elem.

(* (h4) outside [-len, len) it is a value error. *)
Theorem getitem_at_model_oob : forall i c,
  ~ (- clen c <= i < clen c) -> getitem_model [Ops_Getitem.IAt i] c = Err EValue.
Proof. exact getitem_at_model_oob_thm. Qed.
Print Assumptions getitem_at_model_oob.

(* (g5) every element taken out of array["k"] has the item type the field array's type promises (needs no validity of the projected layout); value-level: projecting a typed value gives a value of the projected type. *)
Theorem getitem_field_elements_typed : forall k c vs c',
  Valid None c -> to_list c = Ok vs -> field_content k c = Ok c' ->
  exists ws, to_list c' = Ok ws /\ Forall (has_type (type_of c')) ws.
Proof. exact getitem_field_elements_typed_thm. Qed.
Print Assumptions getitem_field_elements_typed.

Theorem field_projection_typed : forall k t t' v w,
  proj_ty k t = Ok t' -> has_typeb t v = true -> proj_v k t v = Ok w -> has_typeb t' w = true.
Proof. exact proj_v_typed. Qed.
Print Assumptions field_projection_typed.

(* (e5) the element of a list-type array AS AN ARRAY (ListOffsetArray / ListArray / RegularArray): element i is the range slice elem_array c i of the content between the node's bounds; it is valid, its elements are the element's list, and its Form::type with parameters is exactly the IArray item that item_types lists for the array. *)
Theorem list_element_is_array : forall c cc vs i v,
  Valid None c -> list_content c = Some cc -> to_list c = Ok vs -> get vs i = Ok v ->
  exists e l, elem_array c i = Ok e /\ Valid None e /\ to_list e = Ok l /\ v = VList l /\
    type_of e = type_of cc /\
    (forall ts, type_of_form ts (form_of e) = type_of_form ts (form_of cc)) /\
    (forall ts, item_types ts (form_of c) = (do t <- type_of_form ts (form_of e); Ok [IArray t])).
Proof. exact list_element_is_array_thm. Qed.
Print Assumptions list_element_is_array.

(* (e6) the element of an n-d NumpyArray AS AN ARRAY: element i is the i-th block of the buffer with the inner shape (numpy_elem), a (d-1)-dimensional array whose Form::type is exactly the IArray item that item_types lists; zero dimensions included. *)
Theorem numpy_element_is_array : forall dt n d rest data vs i v,
  to_list (Numpy dt (n :: d :: rest) data) = Ok vs -> get vs i = Ok v ->
  exists e l, numpy_elem (Numpy dt (n :: d :: rest) data) i = Ok e /\ to_list e = Ok l /\ v = VList l /\
    type_of e = numpy_ty dt rest /\
    forall ts, item_types ts (form_of (Numpy dt (n :: d :: rest) data)) =
               (do t <- type_of_form ts (form_of e); Ok [IArray t]).
Proof. exact numpy_element_is_array_thm. Qed.
Print Assumptions numpy_element_is_array.

(* (f10) range slicing and integer indexing commute: element i of c[a:b] (negative i from the end) is element a+i (b+i) of c -- same value, typed by c's item type, same Form::type with parameters and same item types for the two results. *)
Theorem range_then_at : forall c vs a b i,
  Valid None c -> to_list c = Ok vs -> 0 <= a -> a <= b -> b <= clen c -> - (b - a) <= i < b - a ->
  exists c' e1 e2 v,
    crange c a b = Ok c' /\
    getitem_model [Ops_Getitem.IAt i] c' = Ok e1 /\
    getitem_model [Ops_Getitem.IAt (if i <? 0 then b + i else a + i)] c = Ok e2 /\
    to_list e1 = Ok [v] /\ to_list e2 = Ok [v] /\
    get vs (if i <? 0 then b + i else a + i) = Ok v /\ has_type (type_of c) v /\
    type_of e1 = type_of e2 /\
    (forall ts, type_of_form ts (form_of e1) = type_of_form ts (form_of e2)) /\
    (forall ts, item_types ts (form_of e1) = item_types ts (form_of e2)).
Proof. exact range_then_at_thm. Qed.
Print Assumptions range_then_at.

(* (e7) a missing value occurs only where the type allows it. *)
Theorem none_only_if_type_allows : forall c vs,
  Valid None c -> to_list c = Ok vs -> has_typeb (type_of c) VNone = false -> ~ In VNone vs.
Proof. exact none_only_if_type_allows_thm. Qed.
Print Assumptions none_only_if_type_allows.

(* (e8) the item list is an over-approximation, not minimal: UnmaskedArray lists INone (its type is an option type) but never yields None when the content's type excludes it (Proofs_C17b_ElemMore.item_types_minimal_refuted, item_types_masked_empty; ex_items_all_hit shows a layout where every listed item is hit). *)
Theorem unmasked_none_never_hit : forall c vs ts,
  np_ok c = true -> to_list (Unmasked c) = Ok vs -> Valid None c -> has_typeb (type_of c) VNone = false ->
  (exists l, item_types ts (form_of (Unmasked c)) = Ok (INone :: l)) /\ ~ In VNone vs.
Proof. exact unmasked_none_never_hit_thm. Qed.
Print Assumptions unmasked_none_never_hit.

(* (e9) option nodes (IndexedOptionArray, ByteMaskedArray, BitMaskedArray, UnmaskedArray): element i is None exactly where the option index is negative, otherwise it is the content's element at that index, typed by the content's type and matching one of the content's items; the node's items are INone plus the content's. *)
Theorem option_element : forall c vs i v,
  is_option_node c = true -> Valid None c -> to_list c = Ok vs -> get vs i = Ok v ->
  exists ix vs0 j, option_index c = Ok (ix, option_content c) /\ get ix i = Ok j /\
    to_list (option_content c) = Ok vs0 /\
    (if j <? 0 then v = VNone
     else get vs0 j = Ok v /\ has_type (type_of (option_content c)) v /\
          forall ts l, item_types ts (form_of (option_content c)) = Ok l -> existsb (fun it => item_matches it v) l = true) /\
    (forall ts, item_types ts (form_of c) = (do l <- item_types ts (form_of (option_content c)); Ok (INone :: l))).
Proof. exact option_element_thm. Qed.
Print Assumptions option_element.

(* (e10) IndexedArray: element i is the content's element index[i]; same type, same items. *)
Theorem indexed_element : forall w ix c0 vs i v,
  Valid None (Indexed w ix c0) -> to_list (Indexed w ix c0) = Ok vs -> get vs i = Ok v ->
  exists j vs0, get ix i = Ok j /\ to_list c0 = Ok vs0 /\ get vs0 j = Ok v /\ has_type (type_of c0) v /\
    type_of (Indexed w ix c0) = type_of c0 /\
    forall ts, item_types ts (form_of (Indexed w ix c0)) = item_types ts (form_of c0).
Proof. exact indexed_element_thm. Qed.
Print Assumptions indexed_element.

(* (e11) UnionArray: element i is element index[i] of the alternative tags[i]; it has THAT alternative's type and matches one of that alternative's items, which are among the union's items. *)
Theorem union_element : forall w t ix cs vs i v,
  Valid None (Union w t ix cs) -> to_list (Union w t ix cs) = Ok vs -> get vs i = Ok v ->
  exists tg j ci vsi, get t i = Ok tg /\ get ix i = Ok j /\ get cs tg = Ok ci /\ Valid None ci /\
    to_list ci = Ok vsi /\ get vsi j = Ok v /\ has_type (type_of ci) v /\
    (forall ts l, item_types ts (form_of ci) = Ok l -> existsb (fun it => item_matches it v) l = true) /\
    (forall ts l lu, item_types ts (form_of ci) = Ok l -> item_types ts (form_of (Union w t ix cs)) = Ok lu -> incl l lu).
Proof. exact union_element_thm. Qed.
Print Assumptions union_element.

(* (e12) RecordArray: element i (0 <= i < length) is the record / tuple of the i-th elements of the fields; the single item is IRecord of the record array's own type. *)
Theorem record_element : forall cs ks n vs i v,
  Valid None (Record cs ks n) -> to_list (Record cs ks n) = Ok vs -> get vs i = Ok v ->
  0 <= i < n /\
  exists ws, mapM (fun c => do col <- to_list c; get col i) cs = Ok ws /\
    v = match ks with Some k => VRec (zip k ws) | None => VTup ws end /\
    has_type (type_of (Record cs ks n)) v /\
    forall ts, item_types ts (form_of (Record cs ks n)) = (do t <- type_of_form ts (form_of (Record cs ks n)); Ok [IRecord t]).
Proof. exact record_element_thm. Qed.
Print Assumptions record_element.

(* (f11) array[start:stop:step] in the slicing model -- any bounds, negative steps included -- is the gather of Python's index sequence, presented as the single element of a one-element list. *)
Theorem getitem_range_model_is_carry : forall s e st c,
  getitem_model [Ops_Getitem.IRange s e st] c =
  if stepof st =? 0 then Err EValue else
  if clen c <? 0 then Err EValue else
  (do r <- carry c (py_indices (clen c) s e (stepof st));
   Ok (ListOffset I64 [0; zlen (py_indices (clen c) s e (stepof st))] r)).
Proof. exact getitem_range_model_thm. Qed.
Print Assumptions getitem_range_model_is_carry.

(* (f12) ... so EVERY Python range slice keeps the core type, Form::type with all parameters and the item types; its length is the number of selected positions. *)
Theorem getitem_range_model_type : forall s e st c c',
  getitem_model [Ops_Getitem.IRange s e st] c = Ok c' ->
  exists r, c' = ListOffset I64 [0; zlen (py_indices (clen c) s e (stepof st))] r /\
    carry c (py_indices (clen c) s e (stepof st)) = Ok r /\
    type_of r = type_of c /\
    (forall ts, type_of_form ts (form_of r) = type_of_form ts (form_of c)) /\
    (forall ts, item_types ts (form_of r) = item_types ts (form_of c)) /\
    (reg_nonneg c = true -> clen r = zlen (py_indices (clen c) s e (stepof st))).
Proof. exact getitem_range_model_type_thm. Qed.
Print Assumptions getitem_range_model_type.

(* (f13) on a valid array every range slice with a non-zero step exists, is valid, holds exactly the selected elements, which have the ORIGINAL item type. *)
Theorem getitem_range_model_total : forall s e st c vs,
  Valid None c -> to_list c = Ok vs -> stepof st <> 0 ->
  exists r ws, getitem_model [Ops_Getitem.IRange s e st] c = Ok (ListOffset I64 [0; zlen (py_indices (clen c) s e (stepof st))] r) /\
    Valid None r /\ to_list r = Ok ws /\ mapM (get vs) (py_indices (clen c) s e (stepof st)) = Ok ws /\
    Forall (has_type (type_of c)) ws /\ type_of r = type_of c /\
    (forall ts, type_of_form ts (form_of r) = type_of_form ts (form_of c)).
Proof. exact getitem_range_model_total_thm. Qed.
Print Assumptions getitem_range_model_total.

(* (g6) array["k"] at the level of Form::type WITH parameters: the result's type is proj_rty k of the array's type -- the field's own type with ALL its parameters and type strings, under list / regular / option constructors with empty parameters (the getitem_field methods drop the parameters of the nodes above the record, and the record's own). Every node class, no validity needed. *)
Theorem getitem_field_rtype : forall ts k c c' t,
  field_content k c = Ok c' -> type_of_form ts (form_of c) = Ok t ->
  exists t', proj_rty k t = Ok t' /\ type_of_form ts (form_of c') = Ok t'.
Proof. exact getitem_field_rtype_thm. Qed.
Print Assumptions getitem_field_rtype.

(* (e13) arrays of strings / bytestrings: every element is a string unit of the right kind; the single item is the uint8 leaf type carrying __array__ = "char" (resp. "byte") and the leaf node's own record name. *)
Theorem string_element : forall k r c0 vs i v,
  is_strk (Some k) = true -> Valid None (Par (Some k) r c0) -> to_list (Par (Some k) r c0) = Ok vs -> get vs i = Ok v ->
  exists s rn, v = VStr (match k with AString => true | _ => false end) s /\
    forall ts, item_types ts (form_of (Par (Some k) r c0)) =
      Ok [IArray (RNum (params_of (Some (char_kind k)) rn) (gettypestr (params_of (Some (char_kind k)) rn) ts) (FD DUInt8))].
Proof. exact string_element_thm. Qed.
Print Assumptions string_element.

(* (g7) array["k"] / array[["k1", ...]] in the slicing model are the layout-level projections (presented as the single element of a one-element regular list), so the result has the projected type -- core type and Form::type with parameters. *)
Theorem getitem_field_model_type : forall k c c2,
  getitem_model [Ops_Getitem.IField k] c = Ok c2 ->
  exists c', c2 = Regular c' (clen c) 1 /\ field_content k c = Ok c' /\ proj_ty k (type_of c) = Ok (type_of c') /\
    forall ts t, type_of_form ts (form_of c) = Ok t ->
      exists t', proj_rty k t = Ok t' /\ type_of_form ts (form_of c') = Ok t'.
Proof. exact getitem_field_model_type_thm. Qed.
Print Assumptions getitem_field_model_type.

Theorem getitem_fields_model_type : forall ks c c2,
  getitem_model [Ops_Getitem.IFields ks] c = Ok c2 ->
  exists c', c2 = Regular c' (clen c) 1 /\ fields_content ks c = Ok c' /\ projs_ty ks (type_of c) = Ok (type_of c').
Proof. exact getitem_fields_model_type_thm. Qed.
Print Assumptions getitem_fields_model_type.

(* (f14) where a gather keeps the Form EXACTLY: no ListOffsetArray / BitMaskedArray among the nodes the gather rebuilds (carry_form_stable: it descends through RegularArray, ByteMaskedArray, UnmaskedArray, record fields and parameter nodes, and stops at ListArray / IndexedArray / IndexedOptionArray / UnionArray / leaves). *)
Theorem carry_preserves_form_exact : forall c ix c',
  carry_form_stable c = true -> carry c ix = Ok c' -> form_of c' = form_of c.
Proof. exact (fun c ix c' Hs H => carry_preserves_form_exact_thm c Hs ix c' H None None). Qed.
Print Assumptions carry_preserves_form_exact.

(* (f15) the result of any gather is in that fragment, so from the second slice on the Form is exactly stable. *)
Theorem second_slice_form_exact : forall c ix c1 ix2 c2,
  carry c ix = Ok c1 -> carry c1 ix2 = Ok c2 -> form_of c2 = form_of c1.
Proof. exact second_slice_form_exact_thm. Qed.
Print Assumptions second_slice_form_exact.

(* (g8) array[["k1", ...]] at the level of Form::type WITH parameters: the result's type is projs_rty ks of the array's type (selected field types kept with all their parameters; the record and the list / option nodes above it rebuilt with empty parameters, as getitem_fields does). *)
Theorem getitem_fields_rtype : forall ts ks c c' t,
  fields_content ks c = Ok c' -> type_of_form ts (form_of c) = Ok t ->
  exists t', projs_rty ks t = Ok t' /\ type_of_form ts (form_of c') = Ok t'.
Proof. exact getitem_fields_rtype_thm. Qed.
Print Assumptions getitem_fields_rtype.

(* (e14) the item list covers the whole item type: EVERY value of the array's item type (not only the actual elements) matches one of the listed items. The converse holds only up to the regular size, which is not part of an item (Proofs_C17b_ElemForm.items_converse_regular_refuted). *)
Theorem items_cover_type : forall ts c,
  Valid None c ->
  exists l, item_types ts (form_of c) = Ok l /\
            forall v, has_type (type_of c) v -> existsb (fun it => item_matches it v) l = true.
Proof. exact items_cover_type_thm. Qed.
Print Assumptions items_cover_type.

(* (e15) soundness of the item list (converse of e14): a value matching one of the items listed for a valid array has the array's item type up to what an item does not record (relax: the regular size of a list item; the string unit, whose item is the char leaf type that the characters as a list of numbers match as well). Together: typed ==> matches an item ==> relax-typed; relax only forgets. *)
Theorem items_sound : forall ts c l v,
  Valid None c -> item_types ts (form_of c) = Ok l -> existsb (fun it => item_matches it v) l = true ->
  has_typeb (relax (type_of c)) v = true.
Proof. exact items_sound_thm. Qed.
Print Assumptions items_sound.

Theorem items_sandwich : forall ts c v,
  Valid None c ->
  exists l, item_types ts (form_of c) = Ok l /\
    (has_typeb (type_of c) v = true -> existsb (fun it => item_matches it v) l = true) /\
    (existsb (fun it => item_matches it v) l = true -> has_typeb (relax (type_of c)) v = true).
Proof. exact items_sandwich_thm. Qed.
Print Assumptions items_sandwich.

Theorem relax_only_forgets : forall t v, has_typeb t v = true -> has_typeb (relax t) v = true.
Proof. exact relax_weakens. Qed.
Print Assumptions relax_only_forgets.

(* (e16) the leaf type of a valid layout never carries __array__: "char" / "byte" leaves live only inside string nodes. *)
Theorem valid_leaf_type_has_no_array_param : forall ts c pp s d,
  Valid None c -> type_of_form ts (form_of c) = Ok (RNum pp s d) -> pfind k_array pp = None.
Proof. exact (fun ts c pp s d H => no_char_param ts c None None pp s d H). Qed.
Print Assumptions valid_leaf_type_has_no_array_param.

(* ===================================================================== C17b: query *)
(* C17b/Query 1: purelist_depth answered by a Form = answered by its Type (t_purelist_depth: the obvious recursion on the type, strings are leaves), all form classes incl. VirtualForm / IndexedForm parameter merging; fragment idx_ok: no IndexedForm node carries __array__ = string / bytestring, and one carrying categorical has its parameters sorted like a std::map (true of every valid layout; needed: purelist_depth_form_type_refuted, depth_form_type_categorical_refuted) *)
Theorem purelist_depth_form_eq_type : forall ts f, idx_ok f = true -> forall t,
  type_of_form ts f = Ok t -> f_purelist_depth f = Ok (t_purelist_depth t).
Proof. exact purelist_depth_form_type. Qed.
Print Assumptions purelist_depth_form_eq_type.

(* C17b/Query 2: minmax_depth Form = Type, same fragment *)
Theorem minmax_depth_form_eq_type : forall ts f, idx_ok f = true -> forall t,
  type_of_form ts f = Ok t -> f_minmax_depth f = Ok (t_minmax_depth t).
Proof. exact minmax_depth_form_type. Qed.
Print Assumptions minmax_depth_form_eq_type.

(* C17b/Query 3: branch_depth Form = Type, same fragment *)
Theorem branch_depth_form_eq_type : forall ts f, idx_ok f = true -> forall t,
  type_of_form ts f = Ok t -> f_branch_depth f = Ok (t_branch_depth t).
Proof. exact branch_depth_form_type. Qed.
Print Assumptions branch_depth_form_eq_type.

(* C17b/Query 4: purelist_isregular Form = Type, every form that has a type (no fragment) *)
Theorem purelist_isregular_form_eq_type : forall ts f t,
  type_of_form ts f = Ok t -> f_purelist_isregular f = Ok (t_purelist_isregular t).
Proof. exact purelist_isregular_form_type. Qed.
Print Assumptions purelist_isregular_form_eq_type.

(* C17b/Query 5: keys / numfields / fieldindex / key / haskey: whatever the Type answers (RecordType via util::*, list / option types delegate; PrimitiveType / UnknownType / UnionType throw) the Form answers the same; every form class, any parameters *)
Theorem field_queries_type_then_form : forall ts f t, type_of_form ts f = Ok t ->
  (forall ks, t_keys t = TOk ks -> f_keys f = Ok ks) /\
  (forall n, t_numfields t = TOk n -> f_numfields f = Ok n) /\
  (forall k i, t_fieldindex t k = TOk i -> f_fieldindex f k = Ok i) /\
  (forall i k, t_key t i = TOk k -> f_key f i = Ok k) /\
  (forall k b0, t_haskey t k = TOk b0 -> f_haskey f k = Ok b0).
Proof. exact field_queries_form_type. Qed.
Print Assumptions field_queries_type_then_form.

(* C17b/Query 6: on a form that reaches a record through list / option / indexed / virtual nodes, Type and Form agree on the five field queries including the exception raised (invalid_argument / out_of_range); off that fragment they differ: field_queries_form_type_refuted (leaf: Form {} / false, Type throws; union: Form common keys, UnionType throws runtime_error FIXME) *)
Theorem field_queries_form_eq_type_exact : forall ts f t,
  type_of_form ts f = Ok t -> f_record_path f = true ->
  t_keys t = tres_of (f_keys f) /\ t_numfields t = tres_of (f_numfields f) /\
  (forall k, t_fieldindex t k = tres_of (f_fieldindex f k)) /\
  (forall i, t_key t i = tres_of (f_key f i)) /\
  (forall k, t_haskey t k = tres_of (f_haskey f k)).
Proof. exact field_queries_form_type_exact. Qed.
Print Assumptions field_queries_form_eq_type_exact.

(* C17b/Query 7: fieldindex / key / haskey answered by a layout = answered by its form (all node classes, any layout) *)
Theorem field_lookup_content_eq_form : forall c,
  (forall k, f_fieldindex (form_of c) k = c_fieldindex c k) /\
  (forall i, f_key (form_of c) i = c_key c i) /\
  (forall k, f_haskey (form_of c) k = c_haskey c k).
Proof. exact (fun c => conj (fieldindex_agree c None None) (conj (key_agree c None None) (haskey_agree c None None))). Qed.
Print Assumptions field_lookup_content_eq_form.

(* C17b/Query 8: Content = Form = Type for a valid layout: the type of its form exists, erases to the core type, and answers the depth / regularity queries like the layout; what it answers to the field queries the layout answers too *)
Theorem queries_content_eq_form_eq_type : forall ts c, Valid None c ->
  exists t, type_of_form ts (form_of c) = Ok t /\ erase t = type_of c /\
    t_purelist_depth t = c_purelist_depth None c /\
    t_minmax_depth t = c_minmax_depth None c /\
    t_branch_depth t = c_branch_depth None c /\
    t_purelist_isregular t = c_purelist_isregular c /\
    (forall ks, t_keys t = TOk ks -> c_keys c = ks) /\
    (forall n, t_numfields t = TOk n -> c_numfields c = n) /\
    (forall k i, t_fieldindex t k = TOk i -> c_fieldindex c k = Ok i) /\
    (forall i k, t_key t i = TOk k -> c_key c i = Ok k) /\
    (forall k b0, t_haskey t k = TOk b0 -> c_haskey c k = Ok b0).
Proof. exact queries_content_form_type. Qed.
Print Assumptions queries_content_eq_form_eq_type.

(* C17b/Query 9: util::fieldindex / key / haskey on a record lookup: a listed key is found at its first occurrence, key() maps back, haskey holds -- also with duplicate keys *)
Theorem record_key_of_fieldindex : forall ks k n, In k ks -> zlen ks = n ->
  exists i, util_fieldindex (Some ks) k n = Ok i /\ util_key (Some ks) i n = Ok k /\ util_haskey (Some ks) k n = Ok true.
Proof. exact util_key_of_fieldindex. Qed.
Print Assumptions record_key_of_fieldindex.

(* C17b/Query 10: fieldindex (key i) = i needs distinct keys (util_fieldindex_of_key_refuted: keys a, a) *)
Theorem record_fieldindex_of_key : forall ks i n, NoDup ks -> 0 <= i < n -> zlen ks = n ->
  exists k, util_key (Some ks) i n = Ok k /\ util_fieldindex (Some ks) k n = Ok i.
Proof. exact util_fieldindex_of_key. Qed.
Print Assumptions record_fieldindex_of_key.

(* C17b/Query 11: tuples: key i = the decimal string of i and fieldindex / haskey read it back (std::stoi), for i <= INT_MAX (beyond: std::out_of_range escapes, also from haskey: util_tuple_roundtrip_refuted) *)
Theorem tuple_key_fieldindex_roundtrip : forall i n, 0 <= i < n -> i <= 2147483647 ->
  util_key None i n = Ok (dec_of_Z i) /\ util_fieldindex None (dec_of_Z i) n = Ok i /\
  util_haskey None (dec_of_Z i) n = Ok true.
Proof. exact util_tuple_roundtrip. Qed.
Print Assumptions tuple_key_fieldindex_roundtrip.

(* C17b/Query 12: every key listed by Form::keys is a key for haskey, and (union-free path) fieldindex finds it and key maps back; all form classes; rec_wf: the record reached has as many keys as contents, a tuple at most 2^31 fields. The converse fails (haskey_is_membership_refuted: "0" is a key of every non-empty record) *)
Theorem form_keys_have_key : forall f, rec_wf f = true -> forall ks k, f_keys f = Ok ks -> In k ks ->
  f_haskey f k = Ok true /\
  (f_record_path f = true -> exists i, f_fieldindex f k = Ok i /\ f_key f i = Ok k).
Proof. exact keys_have_key. Qed.
Print Assumptions form_keys_have_key.

(* C17b/Query 13: numfields = number of keys, or -1 with no keys when neither a record nor a union is reached (needs rec_wf: numfields_is_number_of_keys_refuted) *)
Theorem form_numfields_is_number_of_keys : forall f, rec_wf f = true -> forall n ks,
  f_numfields f = Ok n -> f_keys f = Ok ks -> (n = -1 /\ ks = []) \/ n = zlen ks.
Proof. exact numfields_is_number_of_keys. Qed.
Print Assumptions form_numfields_is_number_of_keys.

(* C17b/Query 14: the queries agree with the nested-list value: for a valid layout with no union between the array and its first record / leaf (union_free_path), every element, after peeling lists and None, has records with exactly the keys c_keys in order (tuples: "0","1",...), every number / string / record sits at list depth exactly purelist_depth, and if purelist_isregular the element is a rectangular block of the regular dimensions. Unions excluded: depth_agrees_with_value_refuted, keys_regular_agree_with_value_refuted *)
Theorem queries_agree_with_nested_list_value : forall c vs,
  Valid None c -> to_list c = Ok vs -> union_free_path c = true ->
  Forall (fun v => value_keys_ok (c_keys c) v = true /\
                   list_depth_exact (c_purelist_depth None c) v = true /\
                   (c_purelist_isregular c = true -> regular_value (ty_dims (type_of c)) v = true)) vs.
Proof. exact queries_agree_with_value. Qed.
Print Assumptions queries_agree_with_nested_list_value.

(* C17b/Query 15: numfields of a valid layout = number of its keys, or -1 with no keys (no record / union reached); all node classes *)
Theorem numfields_is_number_of_keys_layout : forall c, Valid None c ->
  (c_numfields c = -1 /\ c_keys c = []) \/ c_numfields c = zlen (c_keys c).
Proof. exact (fun c H => c_numfields_keys c None H). Qed.
Print Assumptions numfields_is_number_of_keys_layout.

(* C17b/Query 16: minmax_depth is ordered (min <= max) for every form that answers, all classes incl. VirtualForm; and for every layout with dimensions *)
Theorem minmax_depth_min_le_max : forall f mm, f_minmax_depth f = Ok mm -> fst mm <= snd mm.
Proof. exact minmax_depth_ordered. Qed.
Print Assumptions minmax_depth_min_le_max.

Theorem minmax_depth_min_le_max_layout : forall c, np_ok c = true -> fst (c_minmax_depth None c) <= snd (c_minmax_depth None c).
Proof. exact c_minmax_depth_ordered. Qed.
Print Assumptions minmax_depth_min_le_max_layout.

(* C17b/Query 17: on a form without record and union nodes the three depth queries coincide (also in their error status): minmax = (d,d), branch = (false,d), d >= 1 where d = purelist_depth. With records / unions the natural laws fail: depth_laws_refuted *)
Theorem pure_list_depth_queries_coincide : forall f, f_pure f = true ->
  f_minmax_depth f = (do d <- f_purelist_depth f; Ok (d, d)) /\
  f_branch_depth f = (do d <- f_purelist_depth f; Ok (false, d)) /\
  (forall d, f_purelist_depth f = Ok d -> 1 <= d).
Proof. exact pure_depths_coincide. Qed.
Print Assumptions pure_list_depth_queries_coincide.

(* C17b/Query 18: purelist_depth >= 1 when no union lies between the node and its first record / leaf (with unions it can be -1, 0, or a positive number unrelated to the leaves: depth_laws_refuted) *)
Theorem purelist_depth_positive_without_union : forall f, f_union_free_path f = true -> forall d, f_purelist_depth f = Ok d -> 1 <= d.
Proof. exact purelist_depth_positive. Qed.
Print Assumptions purelist_depth_positive_without_union.

(* C17b/Query 19: minmax_depth of a valid layout is that of its (core) type, computed with the C++ loop *)
Theorem minmax_depth_layout_eq_type : forall c, Valid None c -> c_minmax_depth None c = minmax_ty (type_of c).
Proof. exact c_minmax_is_type_minmax. Qed.
Print Assumptions minmax_depth_layout_eq_type.

(* C17b/Query 20: minmax_depth of a type with parameters (t_minmax_depth) = the C++ loop minmax_ty on its erasure to the core type language; every type *)
Theorem minmax_depth_type_eq_erased : forall t, t_minmax_depth t = minmax_ty (erase t).
Proof. exact t_minmax_erase. Qed.
Print Assumptions minmax_depth_type_eq_erased.

(* C17b/Query 21: the core AwkV.Types.minmax (plain min / max over fields / alternatives, used by axis resolution) = the C++ loop minmax_ty (which starts from (kMaxInt64, 0)) on every type whose depths fit an int64 (ty_depth_ok); without it they differ, on a term nested deeper than 2^63 lists: core_minmax_is_minmax_ty_refuted *)
Theorem core_minmax_eq_minmax_ty_partial : forall t, ty_depth_ok t = true -> minmax t = minmax_ty t.
Proof. exact core_minmax_is_minmax_ty_partial. Qed.
Print Assumptions core_minmax_eq_minmax_ty_partial.

(* C17b/Query 22: layout minmax_depth = core minmax of its type = C++ loop on its type *)
Theorem minmax_depth_layout_eq_core_type : forall c, Valid None c -> ty_depth_ok (type_of c) = true ->
  c_minmax_depth None c = minmax (type_of c) /\ minmax (type_of c) = minmax_ty (type_of c).
Proof. exact c_minmax_is_core_minmax. Qed.
Print Assumptions minmax_depth_layout_eq_core_type.

(* C17b/Query 23: a layout without record and union nodes: minmax_depth = (d,d), branch_depth = (false,d), d = purelist_depth >= 1, and every number / boolean / string of every element of the nested-list value sits at list depth exactly d *)
Theorem pure_layout_depth_queries : forall c, np_ok c = true -> pure_layout c = true ->
  c_minmax_depth None c = (c_purelist_depth None c, c_purelist_depth None c) /\
  c_branch_depth None c = (false, c_purelist_depth None c) /\ 1 <= c_purelist_depth None c.
Proof. exact pure_layout_depths. Qed.
Print Assumptions pure_layout_depth_queries.

Theorem purelist_depth_is_exact_leaf_depth : forall c vs, Valid None c -> to_list c = Ok vs -> pure_layout c = true ->
  Forall (fun v => leaf_depth_in (c_purelist_depth None c) (c_purelist_depth None c) v = true) vs.
Proof. exact pure_layout_leaf_depth. Qed.
Print Assumptions purelist_depth_is_exact_leaf_depth.

(* C17b/Query 24: all node classes, unions included: every record (tuple) found in an element of a valid layout, after peeling lists and None, has every key listed by the layout's keys() (for unions keys() is the intersection over the alternatives, so this is all one can say: keys_regular_agree_with_value_refuted) *)
Theorem listed_keys_are_in_every_record : forall c vs, Valid None c -> to_list c = Ok vs ->
  Forall (fun v => value_has_keys (c_keys c) v = true) vs.
Proof. exact keys_in_every_record. Qed.
Print Assumptions listed_keys_are_in_every_record.

(* C17b/Query 25: layouts: every key listed by keys() of a valid layout (tuples of at most 2^31 fields) is a key for haskey(); on a union-free path fieldindex() finds it and key() maps back *)
Theorem layout_keys_have_key : forall c, Valid None c -> c_tuples_small c = true -> forall k, In k (c_keys c) ->
  c_haskey c k = Ok true /\
  (c_record_path c = true -> exists i, c_fieldindex c k = Ok i /\ c_key c i = Ok k).
Proof. exact valid_keys_have_key. Qed.
Print Assumptions layout_keys_have_key.

(* C17b/Query 26: Content = Type on keys / numfields / fieldindex / key / haskey exactly -- answers and the exception raised (invalid_argument, out_of_range) -- for a valid layout that reaches a record through list / option / indexed nodes *)
Theorem field_queries_content_eq_type_exact : forall ts c, Valid None c -> c_record_path c = true ->
  exists t, type_of_form ts (form_of c) = Ok t /\
    t_keys t = TOk (c_keys c) /\ t_numfields t = TOk (c_numfields c) /\
    (forall k, t_fieldindex t k = tres_of (c_fieldindex c k)) /\
    (forall i, t_key t i = tres_of (c_key c i)) /\
    (forall k, t_haskey t k = tres_of (c_haskey c k)).
Proof. exact field_queries_content_type_exact. Qed.
Print Assumptions field_queries_content_eq_type_exact.

(* C17b/Query 27: purelist_depth of a layout >= 1 unless a union lies between the node and its first record / leaf *)
Theorem purelist_depth_positive_layout : forall c, np_ok c = true -> f_union_free_path (form_of c) = true -> 1 <= c_purelist_depth None c.
Proof. exact c_purelist_depth_positive. Qed.
Print Assumptions purelist_depth_positive_layout.

(* C17b/Query 28: branch_depth.first = false ("not branching") gives minmax_depth = (d, d), d = branch_depth.second; _partial: every record / union has at least one content (f_nonempty; otherwise depth_laws_refuted: record without fields, empty union) and the depth fits an int64; all form classes, records and unions included; and for layouts *)
Theorem not_branching_minmax_partial : forall f, f_nonempty f = true -> forall bd mm,
  f_branch_depth f = Ok bd -> f_minmax_depth f = Ok mm -> snd mm < kMaxInt64 -> fst bd = false ->
  mm = (snd bd, snd bd).
Proof. exact branch_false_minmax_partial. Qed.
Print Assumptions not_branching_minmax_partial.

Theorem not_branching_minmax_layout_partial : forall c, np_ok c = true -> f_nonempty (form_of c) = true ->
  snd (c_minmax_depth None c) < kMaxInt64 -> fst (c_branch_depth None c) = false ->
  c_minmax_depth None c = (snd (c_branch_depth None c), snd (c_branch_depth None c)).
Proof. exact c_branch_false_minmax_partial. Qed.
Print Assumptions not_branching_minmax_layout_partial.

(* C17b/Query 29: key(i) for i >= 0 is the i-th entry of keys(), every form class (rec_wf as above); conversely on a union-free path to a record *)
Theorem form_key_is_keys_entry : forall f, rec_wf f = true -> forall ks i k, f_keys f = Ok ks -> 0 <= i ->
  (f_key f i = Ok k -> get ks i = Ok k) /\ (f_record_path f = true -> get ks i = Ok k -> f_key f i = Ok k).
Proof. exact key_is_keys_entry. Qed.
Print Assumptions form_key_is_keys_entry.

(* C17b/Query 30: Type::keys answers exactly when the form reaches a record through list / option / indexed / virtual nodes (otherwise it throws although Form::keys answers: field_queries_form_type_refuted) *)
Theorem type_keys_answers_iff_form_reaches_record : forall ts f t, type_of_form ts f = Ok t ->
  ((exists ks, t_keys t = TOk ks) <-> f_record_path f = true).
Proof. exact type_keys_answers_iff_record_path. Qed.
Print Assumptions type_keys_answers_iff_form_reaches_record.

(* C17b/Query 31: key(i) of a valid layout (union-free path, rec_wf) names the i-th field of every record found in its nested-list value (tuples: position i, name the decimal string of i) *)
Theorem key_names_field_of_every_record : forall c vs i k,
  Valid None c -> to_list c = Ok vs -> union_free_path c = true -> c_rec_wf c = true ->
  0 <= i -> c_key c i = Ok k -> Forall (fun v => value_field_at i k v = true) vs.
Proof. exact key_names_value_field. Qed.
Print Assumptions key_names_field_of_every_record.

(* C17b/Query 32: fieldindex(k) of a listed key k answers the position of the field named k in every record of the value *)
Theorem fieldindex_is_position_in_every_record : forall c vs k,
  Valid None c -> to_list c = Ok vs -> union_free_path c = true -> c_rec_wf c = true -> c_record_path c = true ->
  In k (c_keys c) ->
  exists i, c_fieldindex c k = Ok i /\ Forall (fun v => value_field_at i k v = true) vs.
Proof. exact fieldindex_names_value_field. Qed.
Print Assumptions fieldindex_is_position_in_every_record.

(* C17b/Query 33: purelist_depth is the exact list depth of every number / string / record of the value for ALL node classes, unions included, as long as no union on the way mixes alternatives of different purelist_depth (depth_consistent; exactly the case where that union answers -1, after which the lists above add 1 each: depth_agrees_with_value_refuted) *)
Theorem purelist_depth_is_exact_depth_with_unions : forall c vs, Valid None c -> to_list c = Ok vs -> depth_consistent c = true ->
  Forall (fun v => list_depth_exact (c_purelist_depth None c) v = true) vs.
Proof. exact purelist_depth_exact_with_unions. Qed.
Print Assumptions purelist_depth_is_exact_depth_with_unions.

(* ===================================================================== C17b: lark *)
(* C17 (Lark): the fragment inverted by the repository's parser is inside the fragment of the reference parser. *)
Theorem lark_fragment_printable : forall hl t, lark_ok hl t = true -> printable t = true.
Proof. exact lark_ok_printable. Qed.
Print Assumptions lark_fragment_printable.

(* C17 (Lark): a type of the fragment [lark_ok high_level] survives Type::tostring followed by the model of ak.types.from_datashape(s, high_level) (Lark grammar + toast), with no ArrayType in the result. *)
Theorem lark_print_parse_roundtrip : forall hl t, lark_ok hl t = true -> lark_parse hl (type_tostring t) = Ok t.
Proof. exact lark_roundtrip. Qed.
Print Assumptions lark_print_parse_roundtrip.

(* C17 (Lark): the same with the ArrayType flag explicit (false). *)
Theorem lark_print_parse_roundtrip_full : forall hl t, lark_ok hl t = true -> lark_parse_full hl (type_tostring t) = Ok (t, false).
Proof. exact lark_roundtrip_full. Qed.
Print Assumptions lark_print_parse_roundtrip_full.

(* C17 (Lark): what the harness counts as "brought back": one of the two modes returns the type itself. *)
Theorem lark_print_parse_some_mode : forall t, lark_ok false t || lark_ok true t = true -> lark_parse false (type_tostring t) = Ok t \/ lark_parse true (type_tostring t) = Ok t.
Proof. exact lark_roundtrip_some_mode. Qed.
Print Assumptions lark_print_parse_some_mode.

(* C17 (Lark): on its fragment the repository's parser agrees with the reference parser type_parse. *)
Theorem lark_agrees_with_type_parse : forall hl t, lark_ok hl t = true -> lark_parse hl (type_tostring t) = type_parse (type_tostring t).
Proof. exact lark_agrees_with_reference. Qed.
Print Assumptions lark_agrees_with_type_parse.

(* C17 (Lark): the open findings lark-* as refutations (a printed type that does not come back in either mode). *)
Theorem lark_finding_empty_record_or_union : lark_parse false (type_tostring (RRec [] [] None [])) <> Ok (RRec [] [] None []) /\ lark_parse true (type_tostring (RRec [] [] None [])) <> Ok (RRec [] [] None []).
Proof. exact (proj1 (proj2 lark_empty_record_or_union_refuted)). Qed.
Print Assumptions lark_finding_empty_record_or_union.

(* C17 (Lark): finding lark-highlevel-turns-regular-into-arraytype: option[3 * var * int64] fails in low-level mode (assert high_level) and contains an ArrayType in high-level mode. *)
Theorem lark_finding_highlevel_arraytype : lark_parse false (type_tostring (ROpt [] [] (RReg [] [] 3 (RList [] [] (RNum [] [] (FD DInt64)))))) = Err EValue /\ lark_parse true (type_tostring (ROpt [] [] (RReg [] [] 3 (RList [] [] (RNum [] [] (FD DInt64)))))) = Err EOob.
Proof. exact lark_highlevel_arraytype_both_modes. Qed.
Print Assumptions lark_finding_highlevel_arraytype.

(* C17 (Lark): finding lark-dtype-not-in-grammar: the seven primitive names outside the TYPE terminal are rejected. *)
Theorem lark_finding_dtype_not_in_grammar : Forall (fun dt => (lark_parse false (type_tostring (RNum [] [] dt)) <> Ok (RNum [] [] dt) /\ lark_parse true (type_tostring (RNum [] [] dt)) <> Ok (RNum [] [] dt)) /\ lark_parse false (dtype_to_name dt) = Err EValue) [FFloat16; FFloat128; FComplex64; FComplex128; FComplex256; FDatetime64; FTimedelta64].
Proof. exact (proj2 lark_dtype_not_in_grammar_refuted). Qed.
Print Assumptions lark_finding_dtype_not_in_grammar.

(* C17 (Lark): finding lark-string-escapes-not-decoded: the key a"b comes back as a\"b. *)
Theorem lark_finding_string_escapes : lark_parse false (type_tostring (RRec [] [] (Some [[97; 34; 98]]) [RNum [] [] (FD DInt64)])) = Ok (RRec [] [] (Some [[97; 92; 34; 98]]) [RNum [] [] (FD DInt64)]).
Proof. exact (proj2 (proj2 lark_string_escapes_not_decoded_refuted)). Qed.
Print Assumptions lark_finding_string_escapes.

(* C17 (Lark): the high-level round trip extended to categorical types: any parameter-free node except a named record or a string type may carry "__categorical__": true (printed categorical[type=...]). *)
Theorem lark_print_parse_roundtrip_categorical : forall t, lark_okc t = true -> lark_parse true (type_tostring t) = Ok t.
Proof. exact lark_cat_roundtrip. Qed.
Print Assumptions lark_print_parse_roundtrip_categorical.

(* C17 (Lark): the categorical fragment contains the high-level parameter-free fragment. *)
Theorem lark_fragment_categorical_extends : forall t, lark_ok true t = true -> lark_okc t = true.
Proof. exact lark_ok_okc. Qed.
Print Assumptions lark_fragment_categorical_extends.

(* C17 (Lark): in low-level mode the parser never builds an ArrayType (lark_parse false is lark_parse_full false without the flag). *)
Theorem lark_lowlevel_never_arraytype : forall s, lark_parse false s = rmap fst (lark_parse_full false s).
Proof. exact lark_lowlevel_no_arraytype. Qed.
Print Assumptions lark_lowlevel_never_arraytype.

(* C17 (Lark): the text Type::string_parameters prints for a map with scalar values (no "__categorical__" key, sorted, keys without escapes; values null / booleans / integers / strings without escapes) is read back by the def_option production as that map. *)
Theorem lark_parameters_text_roundtrip : forall p rest, pok p = true -> lk_def_option (string_parameters p ++ rest) = Ok (p, rest).
Proof. exact lk_def_option_ok. Qed.
Print Assumptions lark_parameters_text_roundtrip.

(* C17 (Lark): the round trip for types whose nodes carry scalar parameters, or only "__categorical__": true (high level), or none: fragment lark_okp, in the stated mode. *)
Theorem lark_print_parse_roundtrip_parameters : forall hl t, lark_okp hl t = true -> lark_parse hl (type_tostring t) = Ok t.
Proof. exact lark_param_roundtrip. Qed.
Print Assumptions lark_print_parse_roundtrip_parameters.

(* C17 (Lark): the same, as the harness counts it (one of the two modes). *)
Theorem lark_print_parse_parameters_some_mode : forall t, lark_okp false t || lark_okp true t = true -> lark_parse false (type_tostring t) = Ok t \/ lark_parse true (type_tostring t) = Ok t.
Proof. exact lark_param_roundtrip_some_mode. Qed.
Print Assumptions lark_print_parse_parameters_some_mode.

(* C17 (Lark): lark_okp contains the parameter-free fragment (either mode) and the categorical fragment. *)
Theorem lark_fragment_parameters_extends : forall hl t, lark_ok hl t = true -> lark_okp hl t = true.
Proof. exact lark_ok_okp. Qed.
Print Assumptions lark_fragment_parameters_extends.

(* C17 (Lark): lark_okp true contains the categorical fragment lark_okc. *)
Theorem lark_fragment_parameters_extends_categorical : forall t, lark_okc t = true -> lark_okp true t = true.
Proof. exact lark_okc_okp. Qed.
Print Assumptions lark_fragment_parameters_extends_categorical.
