# ForthMachine32/64 substitutes (stateful C++ objects in the driver, inputs passed by value).
import numpy

from pyshim import core
from pyshim import content as C
from pyshim.builders import _Remote
from pyshim.core import hx, unhx_str, e_int, e_bool, e_str, dbl, undbl, d_int, d_bool, d_str, d_strs
from pyshim.nodes import rd_index

_FLAGS = ["raise_user_halt", "raise_recursion_depth_exceeded", "raise_stack_underflow", "raise_stack_overflow",
          "raise_read_beyond", "raise_seek_beyond", "raise_skip_beyond", "raise_rewind_beyond",
          "raise_division_by_zero", "raise_varint_too_big"]


def _flags(args, kwargs, skip=0):
    vals = [True] * 10
    args = list(args)
    if len(args) > 10:
        raise TypeError("too many arguments")
    for i, a in enumerate(args):
        vals[i] = a
    for k, v in kwargs.items():
        if k not in _FLAGS:
            raise TypeError("unexpected keyword argument " + k)
        vals[_FLAGS.index(k)] = v
    return "(" + " ".join(e_bool(v) for v in vals) + ")"


def _err(t):
    return None if t == "-" else unhx_str(t)


class _ForthMachine(_Remote):
    _width = None

    def __init__(self, source, stack_size=1024, recursion_depth=1024, output_initial_size=1024, output_resize_factor=1.5):
        if not isinstance(source, str):
            raise TypeError("ForthMachine source must be a str")
        self._remote_init("vm_new %s %s %s %s %s %s" % (
            self._width, hx(source), e_int(stack_size), e_int(recursion_depth), e_int(output_initial_size),
            dbl(output_resize_factor)), "vm_del")
        self._inputs = {}  # name -> the Python buffer object last passed (for write-back)
        self._handle()

    def _q(self, tail):
        return self._query("vm %d " + tail.replace("%", "%%"))

    def _m(self, tail):
        """mutating call whose result matters: log it for replay, return the result"""
        drv, h = self._handle()
        template = "vm %d " + tail.replace("%", "%%")
        try:
            out = core.request(template % h)
        except core.DriverCrashed:
            self._where.pop(drv, None)
            raise
        except Exception:
            self._log.append("!" + template)
            g, hh, applied = self._where[drv]
            self._where[drv] = (g, hh, applied + 1)
            raise
        self._log.append(template)
        g, hh, applied = self._where[drv]
        self._where[drv] = (g, hh, applied + 1)
        return out

    def __getitem__(self, key):
        t = self._q("getitem " + e_str(key))
        if t[0] == "int":
            return int(t[1])
        return C.fromsx(t[1])

    source = property(lambda self: d_str(self._q("source")))
    bytecodes = property(lambda self: C.fromsx(self._q("bytecodes")))
    decompiled = property(lambda self: d_str(self._q("decompiled")))
    dictionary = property(lambda self: d_strs(self._q("dictionary")))
    stack_max_depth = property(lambda self: d_int(self._q("stack_max_depth")))
    recursion_max_depth = property(lambda self: d_int(self._q("recursion_max_depth")))
    output_initial_size = property(lambda self: d_int(self._q("output_initial_size")))
    output_resize_factor = property(lambda self: undbl(self._q("output_resize_factor")))
    stack = property(lambda self: [int(x) for x in self._q("stack")])
    variables = property(lambda self: dict((unhx_str(kv[0]), int(kv[1])) for kv in self._q("variables")))
    outputs = property(lambda self: dict((unhx_str(kv[0]), C.fromsx(kv[1])) for kv in self._q("outputs")))
    current_bytecode_position = property(lambda self: d_int(self._q("current_bytecode_position")))
    current_recursion_depth = property(lambda self: d_int(self._q("current_recursion_depth")))
    current_instruction = property(lambda self: d_str(self._q("current_instruction")))
    count_instructions = property(lambda self: d_int(self._q("count_instructions")))
    count_reads = property(lambda self: d_int(self._q("count_reads")))
    count_writes = property(lambda self: d_int(self._q("count_writes")))
    count_nanoseconds = property(lambda self: d_int(self._q("count_nanoseconds")))
    is_ready = property(lambda self: d_bool(self._q("is_ready")))
    is_done = property(lambda self: d_bool(self._q("is_done")))
    is_segment_done = property(lambda self: d_bool(self._q("is_segment_done")))

    def stack_push(self, value):
        self._m("stack_push " + e_int(value))

    def stack_pop(self):
        return int(self._m("stack_pop"))

    def stack_clear(self):
        self._m("stack_clear")

    def string_at(self, at):
        return d_str(self._q("string_at " + e_int(at)))

    def input_position(self, name):
        return d_int(self._q("input_position " + e_str(name)))

    def output_NumpyArray(self, name):
        return C.fromsx(self._q("output_NumpyArray " + e_str(name)))

    def output_Index8(self, name):
        return rd_index(self._q("output_Index8 " + e_str(name)))

    def output_IndexU8(self, name):
        return rd_index(self._q("output_IndexU8 " + e_str(name)))

    def output_Index32(self, name):
        return rd_index(self._q("output_Index32 " + e_str(name)))

    def output_IndexU32(self, name):
        return rd_index(self._q("output_IndexU32 " + e_str(name)))

    def output_Index64(self, name):
        return rd_index(self._q("output_Index64 " + e_str(name)))

    def reset(self):
        self._m("reset")

    def _inputs_sx(self, inputs):
        if not isinstance(inputs, dict):
            raise TypeError("inputs must be a dict")
        parts = []
        for name, obj in inputs.items():
            if not isinstance(name, str):
                raise TypeError("input names must be str")
            try:
                mv = memoryview(obj)
            except TypeError:
                raise TypeError("ForthMachine inputs must support the buffer protocol")
            if d_bool(self._q("input_must_be_writable " + e_str(name))) and mv.readonly:
                raise BufferError("Object is not writable")
            if not mv.contiguous:
                raise BufferError("ForthMachine inputs must be contiguous (pyshim restriction)")
            parts.append("(%s x%s)" % (e_str(name), mv.tobytes().hex()))
        return "(" + " ".join(parts) + ")"

    def begin(self, inputs={}):
        self._m("begin " + self._inputs_sx(inputs))

    def step(self, *args, **kwargs):
        return _err(self._m("step " + _flags(args, kwargs)))

    def run(self, inputs={}, *args, **kwargs):
        return _err(self._m("run " + self._inputs_sx(inputs) + " " + _flags(args, kwargs)))

    def resume(self, *args, **kwargs):
        return _err(self._m("resume " + _flags(args, kwargs)))

    def call(self, name, *args, **kwargs):
        return _err(self._m("call " + e_str(name) + " " + _flags(args, kwargs)))

    def count_reset(self):
        self._m("count_reset")

    def is_variable(self, name):
        return d_bool(self._q("is_variable " + e_str(name)))

    def is_input(self, name):
        return d_bool(self._q("is_input " + e_str(name)))

    def is_output(self, name):
        return d_bool(self._q("is_output " + e_str(name)))

    def is_defined(self, name):
        return d_bool(self._q("is_defined " + e_str(name)))


ForthMachine32 = type("ForthMachine32", (_ForthMachine,), {"_width": "32"})
ForthMachine64 = type("ForthMachine64", (_ForthMachine,), {"_width": "64"})
