(* C19 — the documented semantics of the individual stack / arithmetic / comparison / bitwise words:
   ONE specification table `word_eff` (a finite table over the word, unbounded in the stack contents and the values)
   and ONE theorem `word_spec_proof` relating it to the model's `exec_builtin`. *)
From Coq Require Import ZArith Bool List Lia ZifyBool String.
From AwkForth Require Import Forth Proofs_C19.
Import ListNotations.
Open Scope Z_scope.

(* the vocabulary (AwkwardForth has no `-rot`: it is not in generic_builtin_words_, hence not in `builtin_words`) *)
Inductive word :=
| Wdup | Wdrop | Wswap | Wover | Wrot | Wnip | Wtuck
| Wadd | Wsub | Wmul | Wdiv | Wmod | Wdivmod | Wnegate | Wadd1 | Wsub1 | Wabs | Wmin | Wmax
| Weq | Wne | Wgt | Wge | Wlt | Wle | Weq0
| Winvert | Wand | Wor | Wxor | Wlshift | Wrshift | Wfalse | Wtrue.

Definition all_words : list word :=
  [Wdup; Wdrop; Wswap; Wover; Wrot; Wnip; Wtuck; Wadd; Wsub; Wmul; Wdiv; Wmod; Wdivmod; Wnegate; Wadd1; Wsub1; Wabs;
   Wmin; Wmax; Weq; Wne; Wgt; Wge; Wlt; Wle; Weq0; Winvert; Wand; Wor; Wxor; Wlshift; Wrshift; Wfalse; Wtrue].

Definition word_name (x : word) : string :=
  match x with
  | Wdup => "dup" | Wdrop => "drop" | Wswap => "swap" | Wover => "over" | Wrot => "rot" | Wnip => "nip" | Wtuck => "tuck"
  | Wadd => "+" | Wsub => "-" | Wmul => "*" | Wdiv => "/" | Wmod => "mod" | Wdivmod => "/mod" | Wnegate => "negate"
  | Wadd1 => "1+" | Wsub1 => "1-" | Wabs => "abs" | Wmin => "min" | Wmax => "max"
  | Weq => "=" | Wne => "<>" | Wgt => ">" | Wge => ">=" | Wlt => "<" | Wle => "<=" | Weq0 => "0="
  | Winvert => "invert" | Wand => "and" | Wor => "or" | Wxor => "xor" | Wlshift => "lshift" | Wrshift => "rshift"
  | Wfalse => "false" | Wtrue => "true"
  end%string.

Definition word_code (x : word) : Z :=
  match x with
  | Wdup => CODE_DUP | Wdrop => CODE_DROP | Wswap => CODE_SWAP | Wover => CODE_OVER | Wrot => CODE_ROT | Wnip => CODE_NIP
  | Wtuck => CODE_TUCK | Wadd => CODE_ADD | Wsub => CODE_SUB | Wmul => CODE_MUL | Wdiv => CODE_DIV | Wmod => CODE_MOD
  | Wdivmod => CODE_DIVMOD | Wnegate => CODE_NEGATE | Wadd1 => CODE_ADD1 | Wsub1 => CODE_SUB1 | Wabs => CODE_ABS
  | Wmin => CODE_MIN | Wmax => CODE_MAX | Weq => CODE_EQ | Wne => CODE_NE | Wgt => CODE_GT | Wge => CODE_GE
  | Wlt => CODE_LT | Wle => CODE_LE | Weq0 => CODE_EQ0 | Winvert => CODE_INVERT | Wand => CODE_AND | Wor => CODE_OR
  | Wxor => CODE_XOR | Wlshift => CODE_LSHIFT | Wrshift => CODE_RSHIFT | Wfalse => CODE_FALSE | Wtrue => CODE_TRUE
  end.

(* A stack effect in the notation of Forth stack comments `( a b c -- r1 r2 … )`: the arguments are the top cells
   with the LAST one on top; the result cells are listed bottom first / top last.  `None` = division by zero. *)
Inductive effect :=
| Eff0 (r : list Z)
| Eff1 (f : Z -> list Z)
| Eff2 (f : Z -> Z -> option (list Z))
| Eff3 (f : Z -> Z -> Z -> list Z).

Definition flag (b : bool) : Z := if b then -1 else 0.       (* Forth truth values: all bits set / zero *)

(* THE TABLE: the documented function of each word, at cell width w (two's-complement wraparound `wrap w`).
   `/` and `mod` are FLOOR division and modulo (Z./ and Z.modulo are floored), shifts take the count modulo the width,
   `rshift` is the arithmetic shift (floor (a / 2^n): C++ `>>` on a signed cell), `invert` is the bitwise complement. *)
Definition word_eff (w : Z) (x : word) : effect :=
  match x with
  | Wdup => Eff1 (fun a => [a; a])
  | Wdrop => Eff1 (fun a => [])
  | Wswap => Eff2 (fun a b => Some [b; a])
  | Wover => Eff2 (fun a b => Some [a; b; a])
  | Wrot => Eff3 (fun a b c => [b; c; a])
  | Wnip => Eff2 (fun a b => Some [b])
  | Wtuck => Eff2 (fun a b => Some [b; a; b])
  | Wadd => Eff2 (fun a b => Some [wrap w (a + b)])
  | Wsub => Eff2 (fun a b => Some [wrap w (a - b)])
  | Wmul => Eff2 (fun a b => Some [wrap w (a * b)])
  | Wdiv => Eff2 (fun a b => if b =? 0 then None else Some [wrap w (a / b)])
  | Wmod => Eff2 (fun a b => if b =? 0 then None else Some [a mod b])
  | Wdivmod => Eff2 (fun a b => if b =? 0 then None else Some [a mod b; wrap w (a / b)])
  | Wnegate => Eff1 (fun a => [wrap w (- a)])
  | Wadd1 => Eff1 (fun a => [wrap w (a + 1)])
  | Wsub1 => Eff1 (fun a => [wrap w (a - 1)])
  | Wabs => Eff1 (fun a => [wrap w (Z.abs a)])
  | Wmin => Eff2 (fun a b => Some [Z.min a b])
  | Wmax => Eff2 (fun a b => Some [Z.max a b])
  | Weq => Eff2 (fun a b => Some [flag (a =? b)])
  | Wne => Eff2 (fun a b => Some [flag (negb (a =? b))])
  | Wgt => Eff2 (fun a b => Some [flag (a >? b)])
  | Wge => Eff2 (fun a b => Some [flag (a >=? b)])
  | Wlt => Eff2 (fun a b => Some [flag (a <? b)])
  | Wle => Eff2 (fun a b => Some [flag (a <=? b)])
  | Weq0 => Eff1 (fun a => [flag (a =? 0)])
  | Winvert => Eff1 (fun a => [- a - 1])
  | Wand => Eff2 (fun a b => Some [Z.land a b])
  | Wor => Eff2 (fun a b => Some [Z.lor a b])
  | Wxor => Eff2 (fun a b => Some [Z.lxor a b])
  | Wlshift => Eff2 (fun a b => Some [wrap w (a * 2 ^ (b mod w))])
  | Wrshift => Eff2 (fun a b => Some [a / 2 ^ (b mod w)])
  | Wfalse => Eff0 [0]
  | Wtrue => Eff0 [-1]
  end.

Definition arity (ef : effect) : nat := match ef with Eff0 _ => 0 | Eff1 _ => 1 | Eff2 _ => 2 | Eff3 _ => 3 end.

(* the outcome the documentation prescribes:
   - fewer cells than the word consumes: stack-underflow error, nothing changed;
   - the result is longer than what is consumed and the stack is full: stack-overflow error, nothing changed;
   - division by zero: the division-by-zero error (`/` and `mod` have then already dropped the divisor, `/mod` has not);
   - otherwise the consumed cells are replaced by the result cells. *)
Definition finish (p : prog) (m : machine) (consumed : nat) (r rest : list Z) : step_result :=
  if (consumed <? List.length r)%nat && (zlen (m_stack m) =? p_stack_max p) then stop m E_overflow
  else continue (set_stack m (rev r ++ rest)).

Definition word_outcome (p : prog) (m : machine) (x : word) : step_result :=
  match word_eff (p_w p) x, m_stack m with
  | Eff0 r, s => finish p m 0 r s
  | Eff1 f, a :: s => finish p m 1 (f a) s
  | Eff2 f, b :: a :: s =>
    match f a b with
    | Some r => finish p m 2 r s
    | None => match x with Wdivmod => stop m E_div_zero | _ => stop (set_stack m (a :: s)) E_div_zero end
    end
  | Eff3 f, c :: b :: a :: s => finish p m 3 (f a b c) s
  | _, _ => stop m E_underflow
  end.

Definition in_cell (w z : Z) : Prop := - 2 ^ (w - 1) <= z < 2 ^ (w - 1).

(* the words are the compiler's vocabulary: each name is compiled to its opcode *)
Lemma word_names_compile : forall x, lookup_string (bytes (word_name x)) builtin_words = Some (word_code x).
Proof. intro x. destruct x; vm_compute; reflexivity. Qed.

Lemma all_words_complete : forall x, In x all_words.
Proof. intro x. destruct x; cbn; tauto. Qed.

Lemma all_words_cover_builtins :
  map (fun x => (bytes (word_name x), word_code x)) all_words
  = map (fun nc => (bytes (fst nc), snd nc)) (skipn 3 builtin_words).     (* all of builtin_words but i j k *)
Proof. vm_compute. reflexivity. Qed.

Lemma set_stack_same : forall m, set_stack m (m_stack m) = m.
Proof. intro m. destruct m; reflexivity. Qed.

Lemma shiftr_div : forall a n, 0 <= n -> Z.shiftr a n = a / 2 ^ n.
Proof. intros a n Hn. apply Z.shiftr_div_pow2. assumption. Qed.

Ltac stack_cases m :=
  let s := fresh "s" in
  destruct (m_stack m) as [|? [|? [|? s]]] eqn:?.

(* THE THEOREM: for every word of the table, every program / environment / machine state whose cells are in range:
   executing the word's opcode gives exactly the documented outcome. *)
Theorem word_spec_proof : forall p e m x, 0 < p_w p -> Forall (in_cell (p_w p)) (m_stack m) ->
  exec_builtin p e m (word_code x) = word_outcome p m x.
Proof.
  intros p e m x Hw Hr.
  assert (Hmod : forall b, 0 <= b mod p_w p) by (intro b; apply Z.mod_pos_bound; lia).
  destruct x; unfold word_outcome, word_eff, word_code, exec_builtin, finish, bin_op, un_op, push, can_push,
                     forth_lshift, forth_rshift;
    cbv beta iota; change (CODE_DIVMOD =? CODE_DIV) with false; change (CODE_DIVMOD =? CODE_MOD) with false;
    cbn [orb];
    stack_cases m; cbn [List.length Nat.ltb Nat.leb andb rev app negb]; try reflexivity;
    try (destruct (zlen _ =? p_stack_max p); reflexivity).
  (* what is left: / mod /mod, comparisons written the other way round, invert, shifts *)
  all: repeat match goal with
              | H : Forall _ (_ :: _) |- _ => inversion H; subst; clear H
              end.
  all: try match goal with
           | |- context [?b =? 0] => destruct (b =? 0) eqn:?; [reflexivity|]
           end.
  all: try (rewrite ?forth_div_spec, ?forth_mod_spec by (try assumption; lia); reflexivity).
  all: try (unfold bool_cell, flag, Z.gtb, Z.geb, Z.ltb, Z.leb; rewrite ?(Z.compare_antisym z z0);
            destruct (z ?= z0); reflexivity).
  all: try (rewrite Z.shiftl_mul_pow2 by apply Hmod; reflexivity).
  all: try (rewrite shiftr_div by apply Hmod; reflexivity).
  all: try (unfold Z.lnot, Z.pred; do 3 f_equal; lia).
Qed.

(* ---- the table on a concrete program: every word once, through the compiler and the public API *)
Definition prog_words := compile 64 32 16 (bytes
  "1 2 3 4 5 6 7 8 dup drop swap over rot nip tuck + - * -7 2 / -7 2 mod -7 2 /mod negate 1+ 1- abs 3 min 9 max 9 = 1 <> 2 > 0 >= 5 < 5 <= 0= invert 12 and 3 or 5 xor 2 lshift 1 rshift false true"%string).

Example word_spec_example :
  exists p m0 mf, prog_words = COk p /\ api_begin p (mkEnv []) (init_machine p) = Ok m0 /\
    complete 2 400 true p (mkEnv []) m0 = Ok mf /\ m_err mf = E_none /\ is_done mf = true /\
    m_stack mf = [-1; 0; 20; 1; 1; -4; -42; 5; 4; 3; 2; 1].
Proof.
  destruct prog_words as [p| | | |] eqn:E; try (vm_compute in E; discriminate).
  vm_compute in E. inversion E; subst p; clear E.
  eexists; eexists; eexists. split; [reflexivity|]. split; [vm_compute; reflexivity|].
  split; [vm_compute; reflexivity|]. repeat split.
Qed.
