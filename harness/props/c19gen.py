"""C19 — grammar-based generator of AwkwardForth programs, inputs, settings and segmentations.
All randomness comes from the rng passed in."""

DTYPES = ['bool', 'int8', 'int16', 'int32', 'int64', 'uint8', 'uint16', 'uint32', 'uint64', 'float32', 'float64']
READS_1 = ['?->', 'b->', 'B->']
READS_N = ['h->', 'i->', 'q->', 'n->', 'H->', 'I->', 'Q->', 'N->']
SIZE = {'?': 1, 'b': 1, 'B': 1, 'h': 2, 'H': 2, 'i': 4, 'I': 4, 'q': 8, 'Q': 8, 'n': 8, 'N': 8}
UN = ['negate', '1+', '1-', 'abs', '0=', 'invert', 'dup drop']
BIN = ['+', '-', '*', 'min', 'max', '=', '<>', '>', '>=', '<', '<=', 'and', 'or', 'xor']
EXTREMES = ['2147483647', '-2147483648', '0x7fffffff', '65536', '-1', '0', '1', '255', '0xff', '32768', '4294967295',
            '+7', '1000000']


class ProgGen:
    def __init__(self, rng, allow_exit=False, allow_halt=False, allow_pause=True, floats=True, big=False):
        self.r = rng
        self.allow_exit, self.allow_halt, self.allow_pause = allow_exit, allow_halt, allow_pause
        self.nvars = rng.choice([0, 1, 1, 2])
        self.nins = rng.choice([0, 1, 1, 2])
        self.nouts = rng.choice([0, 1, 1, 2, 3])
        dts = DTYPES if floats else DTYPES[:9]
        self.outs = [rng.choice(dts) for _ in range(self.nouts)]
        self.counters = 0            # dedicated loop counters c0, c1, ... (never touched by generated bodies)
        self.words = []              # (name, has_exit, net stack effect estimate)
        self.sd = 0                  # estimated lower bound of the stack depth
        self.budget = rng.choice([12, 25, 40, 60] if not big else [80, 120])
        self.feat = dict(do=False, exit=False, halt=False, pause=False, recursion=False, reads=False, writes=False,
                         begin=False)

    # ---------------------------------------------------------------- helpers
    def lit(self):
        r = self.r
        x = r.random()
        if x < 0.7:
            return str(r.randint(-3, 9))
        if x < 0.85:
            return str(r.randint(-300, 70000))
        return r.choice(EXTREMES)

    def need(self, n, out):
        while self.sd < n:
            out.append(self.lit())
            self.sd += 1

    def small(self, lo=0, hi=4):
        return str(self.r.randint(lo, hi))

    # ---------------------------------------------------------------- statements
    def stmt(self, out, depth, dodepth, in_word, in_do):
        r = self.r
        self.budget -= 1
        if r.random() < 0.03:      # comments, at statement boundaries only (the parser does not skip them inside phrases)
            out += r.choice([['(', 'a', 'comment', '(', 'nested', ')', ')'], ['\\', 'line', 'comment', '5', 'dup', '\n'],
                             ['(', ')'], ['\n']])
        k = r.random()
        if k < 0.16:
            out.append(self.lit()); self.sd += 1
        elif k < 0.26:
            w = r.choice(['dup', 'drop', 'swap', 'over', 'rot', 'nip', 'tuck'])
            n = {'dup': 1, 'drop': 1, 'swap': 2, 'over': 2, 'rot': 3, 'nip': 2, 'tuck': 2}[w]
            self.need(n, out)
            out.append(w)
            self.sd += {'dup': 1, 'drop': -1, 'swap': 0, 'over': 1, 'rot': 0, 'nip': -1, 'tuck': 1}[w]
        elif k < 0.34:
            self.need(1, out); out.append(r.choice(UN))
        elif k < 0.46:
            self.need(2, out); out.append(r.choice(BIN)); self.sd -= 1
        elif k < 0.52:
            # division family with a divisor that is usually a non-zero literal
            self.need(1, out)
            d = r.choice(['1', '2', '3', '-2', '7', '-7', '10', '0'] if r.random() < 0.92 else [self.lit()])
            w = r.choice(['/', 'mod', '/mod'])
            out += [d, w]
            self.sd += 1 if w == '/mod' else 0
        elif k < 0.56:
            self.need(1, out)
            c = r.choice(['0', '1', '2', '3', '7', '31', '32', '33', '63', '64', '-1'] if r.random() < 0.5 else [self.small(0, 8)])
            out += [c, r.choice(['lshift', 'rshift'])]
        elif k < 0.58:
            out.append(r.choice(['true', 'false'])); self.sd += 1
        elif k < 0.66 and self.nvars:
            v = 'v%d' % r.randrange(self.nvars)
            w = r.choice(['!', '+!', '@', '@'])
            if w == '@':
                out += [v, '@']; self.sd += 1
            else:
                self.need(1, out); out += [v, w]; self.sd -= 1
        elif k < 0.74 and self.nins:
            self.read_stmt(out)
        elif k < 0.82 and self.nouts:
            self.write_stmt(out)
        elif k < 0.90 and depth < 3 and self.budget > 3:
            self.control(out, depth, dodepth, in_word, in_do)
        elif k < 0.94 and self.words:
            cands = [w for w in self.words if not (in_do and w[1])]
            if cands:
                name, has_exit, net = r.choice(cands)
                self.need(max(0, -net) + 1, out)
                out.append(name)
                self.sd = max(0, self.sd + min(net, 0))
        elif k < 0.955 and dodepth >= 1:
            w = r.choice(['i'] + (['j'] if dodepth >= 2 else []) + (['k'] if dodepth >= 3 else []))
            out.append(w); self.sd += 1
        elif k < 0.975 and self.allow_pause:
            out.append('pause'); self.feat['pause'] = True
        elif k < 0.985 and self.allow_exit and not in_do:
            # exit under a condition so that the rest of the program still runs sometimes
            self.need(1, out)
            out += ['if', 'exit', 'then']; self.sd -= 1
            self.feat['exit'] = True
            self.cur_has_exit = True
        elif k < 0.99 and self.allow_halt:
            self.need(1, out)
            out += ['if', 'halt', 'then']; self.sd -= 1
            self.feat['halt'] = True
        else:
            out.append(self.lit()); self.sd += 1

    def read_stmt(self, out):
        r = self.r
        self.feat['reads'] = True
        x = 'x%d' % r.randrange(self.nins)
        k = r.random()
        if k < 0.12:
            out += [x, r.choice(['len', 'pos', 'end'])]; self.sd += 1
            return
        if k < 0.2:
            out += [self.small(0, 12), x, 'seek']
            return
        if k < 0.27:
            out += [str(r.randint(-3, 5)), x, 'skip']
            return
        rep = r.random() < 0.35
        big = r.random() < 0.3
        if k < 0.42:
            word = r.choice(['varint->', 'zigzag->'])
        elif k < 0.52:
            word = '%dbit->' % r.choice([1, 2, 3, 4, 5, 7, 8, 9, 12, 16, 17, 24, 31])
        else:
            word = r.choice(READS_1 + READS_N + READS_N)
        if big and word not in READS_1:
            word = '!' + word
        n = 1
        if rep:
            n = r.randint(0, 3)
            out.append(str(n))
            word = '#' + word
        to_out = self.nouts and r.random() < 0.45
        if to_out:
            out += [x, word, 'o%d' % r.randrange(self.nouts)]
            self.feat['writes'] = True
        else:
            out += [x, word, 'stack']
            self.sd += n

    def write_stmt(self, out):
        r = self.r
        self.feat['writes'] = True
        o = 'o%d' % r.randrange(self.nouts)
        k = r.random()
        if k < 0.5:
            self.need(1, out); out += [o, '<-', 'stack']; self.sd -= 1
        elif k < 0.7:
            self.need(1, out); out += [o, '+<-', 'stack']; self.sd -= 1
        elif k < 0.8:
            out += [o, 'len']; self.sd += 1
        elif k < 0.9:
            out += [self.small(0, 2), o, 'rewind']
        else:
            out += [self.small(0, 3), o, 'dup']

    def block(self, depth, dodepth, in_word, in_do, nmax=6, keep_nonneg=False):
        out = []
        sd0 = self.sd
        n = self.r.randint(0, nmax)
        for _ in range(n):
            if self.budget <= 0:
                break
            self.stmt(out, depth, dodepth, in_word, in_do)
        if keep_nonneg:
            while self.sd < sd0:
                out.append(self.lit()); self.sd += 1
        return out

    def counter(self):
        c = 'c%d' % self.counters
        self.counters += 1
        return c

    def control(self, out, depth, dodepth, in_word, in_do):
        r = self.r
        k = r.random()
        sd0 = self.sd
        if k < 0.25:
            self.need(1, out); self.sd -= 1
            sd1 = self.sd
            body = self.block(depth + 1, dodepth, in_word, in_do)
            self.sd = min(sd1, self.sd)
            out += ['if'] + body + ['then']
        elif k < 0.4:
            self.need(1, out); self.sd -= 1
            sd1 = self.sd
            a = self.block(depth + 1, dodepth, in_word, in_do)
            sda = self.sd
            self.sd = sd1
            b = self.block(depth + 1, dodepth, in_word, in_do)
            self.sd = min(sda, self.sd)
            out += ['if'] + a + ['else'] + b + ['then']
        elif k < 0.7:
            self.feat['do'] = True
            lo = r.randint(-1, 2)
            hi = lo + r.randint(0, 4)
            out += [str(hi), str(lo), 'do']
            sd1 = self.sd
            if r.random() < 0.3:
                body = self.block(depth + 1, dodepth + 1, in_word, True, nmax=4, keep_nonneg=True)
                out += body + [str(r.randint(1, 3)), '+loop']
            else:
                body = self.block(depth + 1, dodepth + 1, in_word, True, nmax=4, keep_nonneg=True)
                out += body + ['loop']
            self.sd = sd1
        elif k < 0.8:
            self.feat['begin'] = True
            c = self.counter()
            out += [self.small(1, 3), c, '!', 'begin']
            sd1 = self.sd
            body = self.block(depth + 1, dodepth, in_word, in_do, nmax=4, keep_nonneg=True)
            out += body + ['-1', c, '+!', c, '@', '0', '<=', 'until']
            self.sd = sd1
        elif k < 0.92:
            self.feat['begin'] = True
            c = self.counter()
            out += [self.small(0, 3), c, '!', 'begin', c, '@', '0', '>', 'while']
            sd1 = self.sd
            body = self.block(depth + 1, dodepth, in_word, in_do, nmax=4, keep_nonneg=True)
            out += body + ['-1', c, '+!', 'repeat']
            self.sd = sd1
        elif self.allow_exit and not in_do:
            self.feat['begin'] = True
            self.feat['exit'] = True
            self.cur_has_exit = True
            c = self.counter()
            out += [self.small(1, 3), c, '!', 'begin']
            sd1 = self.sd
            body = self.block(depth + 1, dodepth, in_word, in_do, nmax=3, keep_nonneg=True)
            out += body + ['-1', c, '+!', c, '@', '0', '<=', 'if', 'exit', 'then', 'again']
            self.sd = sd1
        else:
            out.append(self.lit()); self.sd += 1

    # ---------------------------------------------------------------- whole programs
    def program(self):
        r = self.r
        defs = []
        nwords = r.choice([0, 0, 1, 1, 2, 3])
        for wi in range(nwords):
            name = 'w%d' % wi
            self.sd = 2          # a word may assume two cells (callers provide them)
            self.cur_has_exit = False
            body = []
            recursive = r.random() < 0.3
            if recursive:
                # bounded recursion on a countdown argument
                self.feat['recursion'] = True
                pre = self.block(1, 0, True, False, nmax=3, keep_nonneg=True)
                self.sd = 2
                body = ['dup', '0', '>', 'if'] + pre + ['1-', r.choice([name, 'recurse'])] + ['then']
                net = 0
            else:
                body = self.block(0, 0, True, False, nmax=6)
                net = self.sd - 2
            defs.append([':', name] + body + [';'])
            self.words.append((name, self.cur_has_exit, net - 1 if recursive else net))
        self.sd = 0
        self.cur_has_exit = False
        main = []
        for wi, (name, he, net) in enumerate(self.words):
            if r.random() < 0.7:
                main += [self.small(0, 3), self.small(0, 4)]
                self.sd += 2
                main.append(name)
                self.sd = max(0, self.sd + min(net, 0))
        main += self.block(0, 0, False, False, nmax=10)
        while self.budget > 0 and r.random() < 0.5:
            main += self.block(0, 0, False, False, nmax=6)
        decl = []
        for i in range(self.nvars):
            decl += ['variable', 'v%d' % i]
        for i in range(self.counters):
            decl += ['variable', 'c%d' % i]
        for i in range(self.nins):
            decl += ['input', 'x%d' % i]
        for i in range(self.nouts):
            decl += ['output', 'o%d' % i, self.outs[i]]
        toks = decl
        for d in defs:
            toks += d
        toks += main
        return toks


def render(rng, toks):
    """tokens -> source text with random whitespace, newlines and comments"""
    parts = []
    for t in toks:
        if t == '\n':
            parts.append('\n')
            continue
        sep = ' ' if rng.random() < 0.85 else rng.choice(['  ', '\t', ' \r ', '\x0b', '\x0c '])
        parts.append(t + sep)
    return ''.join(parts).rstrip(' ') if rng.random() < 0.5 else ''.join(parts)


def gen_inputs(rng, n):
    ins = []
    for i in range(n):
        ln = rng.choice([0, 1, 3, 8, 8, 16, 24, 40])
        style = rng.random()
        if style < 0.5:
            bs = [rng.randrange(256) for _ in range(ln)]
        elif style < 0.8:
            bs = [rng.choice([0, 1, 2, 127, 128, 255, 3, 129]) for _ in range(ln)]
        else:
            bs = [rng.choice([0x80, 0xff, 0x81, 0x7f, 1]) for _ in range(ln)]    # long varints
        ins.append(('x%d' % i, bs))
    return ins


def gen_settings(rng, tight=False):
    if tight:
        return (rng.choice([0, 1, 2, 3, 5, 8]), rng.choice([1, 2, 3, 4, 6]), rng.choice([1, 2, 3]), rng.choice([11, 15, 20]))
    return (rng.choice([8, 16, 64, 1024]), rng.choice([4, 8, 16, 1024]), rng.choice([1, 2, 7, 1024]),
            rng.choice([11, 13, 15, 20, 35]))


# ---------------------------------------------------------------- fault-provoking and invalid programs
FAULTS = [
    ('underflow', lambda r: ['drop']),
    ('underflow2', lambda r: ['1', '+']),
    ('underflow-if', lambda r: ['if', '1', 'then']),
    ('div0', lambda r: ['5', '0', r.choice(['/', 'mod', '/mod'])]),
    ('overflow', lambda r: ['2000', '0', 'do', 'i', 'loop']),
    ('read-beyond', lambda r: ['100', 'x0', '#q->', 'stack']),
    ('read-beyond1', lambda r: ['x0', 'len', 'x0', 'seek', 'x0', 'b->', 'stack']),
    ('seek-beyond', lambda r: [r.choice(['-1', '1000']), 'x0', 'seek']),
    ('skip-beyond', lambda r: [r.choice(['-1', '1000']), 'x0', 'skip']),
    ('rewind-beyond', lambda r: ['1', 'o0', 'rewind']),
    ('dup-empty', lambda r: ['1', 'o0', 'dup']),
    ('recursion', lambda r: [':', 'deep', 'deep', ';', 'deep']),
    ('recursion-do', lambda r: ['1', '0', 'do'] * 6 + ['loop'] * 6),
    ('varint-big', lambda r: ['x0', 'varint->', 'stack']),
    ('halt', lambda r: ['1', 'halt', '2']),
    ('do-underflow', lambda r: ['1', 'do', 'loop']),
    ('plusloop-underflow', lambda r: ['3', '0', 'do', '+loop']),
]


def fault_program(rng):
    """a valid prefix followed by a fault-provoking phrase (and some trailing code that must not run)"""
    g = ProgGen(rng, floats=False)
    g.nins = max(g.nins, 1)
    g.nouts = max(g.nouts, 1)
    g.outs = (g.outs + ['int32'])[:g.nouts]
    name, f = rng.choice(FAULTS)
    toks = g.program()
    phrase = f(rng)
    if name in ('recursion',):
        # definitions must come at top level: put the phrase after the program
        toks = toks + phrase + ['7']
    else:
        toks = toks + phrase + ['7']
    return name, g, toks


def invalid_program(rng):
    """mutate a valid program into (most likely) a compile error"""
    g = ProgGen(rng, floats=False)
    toks = g.program() or ['1']
    k = rng.random()
    kind = 'mut'
    if k < 0.3:
        closers = [i for i, t in enumerate(toks) if t in ('then', 'loop', '+loop', ';', 'until', 'repeat', 'again')]
        if closers:
            del toks[rng.choice(closers)]
            kind = 'drop-closer'
        else:
            toks.append(rng.choice(['then', 'loop', ';', 'else', 'repeat', 'until']))
            kind = 'stray-closer'
    elif k < 0.45:
        toks.insert(rng.randrange(len(toks) + 1), rng.choice(['frobnicate', 'x9', 'v9', '12abc', 'o9', '--1', '0x']))
        kind = 'unknown-word'
    elif k < 0.55:
        toks = toks + rng.choice([['variable', 'dup'], ['variable', 'v0', 'variable', 'v0'], [':', '5', ';'],
                                  ['input', 'stack'], ['output', 'q', 'int33'], ['output', 'q'], ['variable'],
                                  [':', ';'], [':', 'a'], ['variable', '3bit->'], [':', 'int8', ';']])
        kind = 'bad-declaration'
    elif k < 0.65:
        toks = toks + rng.choice([['i'], ['1', '0', 'do', 'j', 'loop'], ['recurse'], ['1', '0', 'do', '1', '0', 'do', 'k', 'loop', 'loop']])
        kind = 'loop-word-outside'
    elif k < 0.75:
        toks = ['variable', 'q', 'input', 'y', 'output', 'z', 'int8'] + toks + rng.choice(
            [['q'], ['y'], ['z'], ['q', 'len'], ['y', '<-', 'stack'], ['z', '<-'], ['y', 'i->'], ['y', 'i->', 'q'],
             ['y', 'x->', 'stack'], ['y', '#', 'stack'], ['y', '0bit->', 'stack'], ['y', '65bit->', 'stack'],
             ['z', '+<-', 'z']])
        kind = 'bad-accessor'
    elif k < 0.85:
        toks.insert(rng.randrange(len(toks) + 1), rng.choice(['(', 'if', 'do', 'begin', ':']))
        kind = 'unclosed-opener'
    elif k < 0.92:
        toks = toks + rng.choice([['99999999999999999999999'], ['0xfffffffffffffffff'], ['variable', '99999999999999999999999'],
                                  ['18446744073709551615'], ['-18446744073709551615'], ['18446744073709551616']])
        kind = 'huge-literal'
    else:
        toks = toks + rng.choice([['begin', '1', 'while', '2', 'until'], ['begin', 'again', 'again'],
                                  ['1', 'if', 'else', 'else', 'then'], ['begin', '1', 'while', 'repeat', 'repeat']])
        kind = 'odd-nesting'
    return kind, g, toks


UB = [
    ('forth-ub-exit-in-do', lambda r: [':', 'f', '10', '0', 'do', 'i', 'i', '2', '=', 'if', 'exit', 'then', 'loop', ';', 'f', 'f']),
    ('forth-ub-exit-in-do', lambda r: [':', 'g', '7', '-1', 'if', 'exit', 'then', '8', ';', '3', '0', 'do', 'i', 'g', 'loop']),
]

# programs that were undefined behaviour / wrong before the fixes and are ordinary programs now
FIXED_UB = [
    lambda r: ['input', 'x0', '-1', 'x0', r.choice(['#i->', '#q->', '#b->', '#varint->', '#3bit->']), 'stack', 'x0', 'pos'],
    lambda r: ['input', 'x0', 'output', 'o0', 'int32', '-1', 'x0', '#i->', 'o0', 'o0', 'len'],
    lambda r: ['output', 'o0', 'int32', '5', 'o0', '<-', 'stack', '-2', 'o0', 'rewind', 'o0', 'len'],
    lambda r: ['1', '63', 'lshift', '-1', r.choice(['/', 'mod', '/mod'])],
    lambda r: ['-2147483648', '-1', r.choice(['/', 'mod', '/mod'])],
    lambda r: ['1', r.choice(['62', '30']), 'lshift', 'dup', '1+', r.choice(['mod', '/mod', '/'])],
    lambda r: ['1', r.choice(['40', '31', '63']), 'lshift', r.choice(['abs', 'negate abs'])],
    lambda r: ['input', 'x0', 'x0', r.choice(['q->', 'Q->', '!q->', 'n->', 'N->', 'I->', '!I->']), 'stack'],
    lambda r: ['1', '40', 'lshift', 'dup', '2', '+', 'swap', 'do', 'i', 'loop'],
]
