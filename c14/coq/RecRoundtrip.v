(** C14 — records and tuples: feeding the from_iter encoding of ANY well-formed value (atoms, lists, tuples, records,
    arbitrarily nested and heterogeneous) to a node with representation [rep c vs] gives [rep c' (vs ++ [v])]. *)
From Coq Require Import ZArith List Bool Lia.
From AwkV Require Import Base Layout.
From AwkBuilder Require Import Builder Spec GbLemmas Invariant StepLemmas AtomStep Push OpenClose
  RecInv RecRep RecFwd RecAtom RecOpen RecInner RecStatic.
Import ListNotations.
Open Scope Z_scope.

(* the inner loops of Builder.encode, named *)
Fixpoint enc_tup (l : list pyval) (i : Z) : list cmd :=
  match l with [] => [] | x :: t => CIndex i :: encode x ++ enc_tup t (i + 1) end.
Fixpoint enc_rec (fs : list (name * pyval)) : list cmd :=
  match fs with [] => [] | (k, x) :: t => CField k :: encode x ++ enc_rec t end.

Lemma encode_tup l : encode (PTup l) = CBeginTuple (zlen l) :: enc_tup l 0 ++ [CEndTuple].
Proof.
  reflexivity.
Qed.
Lemma encode_rec nm fs : encode (PRec nm fs) = CBeginRecord nm :: enc_rec fs ++ [CEndRecord].
Proof.
  reflexivity.
Qed.

(* ------------------------------------------------------------------ columns *)
Lemma tcols_blen vs cs : forall j, tcols vs cs j -> Forall (fun c => blen c = zlen vs) cs.
Proof.
  induction cs as [|c t IH]; intros j H; [constructor|]. destruct H as [H1 H2].
  constructor; [|eauto]. rewrite (rep_len _ _ H1). apply zlen_map.
Qed.

Lemma F2_rcols vs cs : forall ks, Forall2 (fun c k => rep c (map (fld k) vs)) cs ks -> rcols vs cs ks.
Proof. induction cs as [|c t IH]; intros ks H; inversion H; subst; cbn [rcols]; auto. Qed.

Lemma rcols_F2' vs cs : forall ks, rcols vs cs ks -> Forall2 (fun c k => rep c (map (fld k) vs)) cs ks.
Proof.
  induction cs as [|c t IH]; intros [|k kt] H; cbn [rcols] in H; try contradiction; [constructor|].
  destruct H. constructor; auto.
Qed.

(* ------------------------------------------------------------------ keys and fields *)
Definition o2l (x : option pyval) : list pyval := match x with Some v => [v] | None => [] end.

Lemma assoc_app {V} k (l m : list (name * V)) :
  assoc name_eqb k (l ++ m) = match assoc name_eqb k l with Some v => Some v | None => assoc name_eqb k m end.
Proof. induction l as [|[k' v] t IH]; [reflexivity|]. cbn [app assoc]. destruct (name_eqb k' k); auto. Qed.

Lemma assoc_notin {V} k (l : list (name * V)) : ~ In k (map fst l) -> assoc name_eqb k l = None.
Proof.
  induction l as [|[k' v] t IH]; intro H; [reflexivity|]. cbn [assoc]. cbn [map fst In] in H.
  destruct (name_eqb k' k) eqn:E; [apply name_eqb_eq in E; subst; tauto|]. apply IH. tauto.
Qed.

Lemma existsb_name k l : existsb (name_eqb k) l = true <-> In k l.
Proof.
  rewrite existsb_exists. split.
  - intros (x & Hx & E). apply name_eqb_eq in E. now subst.
  - intro H. exists k. split; [exact H|apply name_eqb_refl].
Qed.

Lemma keys_nodup_NoDup ks : keys_nodup ks = true -> NoDup ks.
Proof.
  induction ks as [|k t IH]; intro H; [constructor|]. cbn [keys_nodup] in H. apply andb_true_iff in H.
  destruct H as [H1 H2]. constructor; [|auto]. intro Hin. apply existsb_name in Hin. rewrite Hin in H1. discriminate.
Qed.

Lemma add_key_in l k : In k l -> add_key l k = l.
Proof. intro H. unfold add_key. apply existsb_name in H. now rewrite H. Qed.
Lemma add_key_notin l k : ~ In k l -> add_key l k = l ++ [k].
Proof.
  intro H. unfold add_key. destruct (existsb (name_eqb k) l) eqn:E; [|reflexivity]. apply existsb_name in E. contradiction.
Qed.
Lemma add_key_incl l k k' : In k' l -> In k' (add_key l k).
Proof. intro H. unfold add_key. destruct (existsb (name_eqb k) l); [exact H|]. apply in_or_app. now left. Qed.
Lemma add_key_self l k : In k (add_key l k).
Proof.
  unfold add_key. destruct (existsb (name_eqb k) l) eqn:E; [now apply existsb_name|]. apply in_or_app. right. now left.
Qed.
Lemma add_key_NoDup l k : NoDup l -> NoDup (add_key l k).
Proof.
  intro N. unfold add_key. destruct (existsb (name_eqb k) l) eqn:E; [exact N|]. apply NoDup_snoc; [exact N|].
  intro H. apply existsb_name in H. congruence.
Qed.
Lemma fold_add_incl ks : forall l k', In k' l -> In k' (fold_left add_key ks l).
Proof. induction ks as [|k t IH]; intros l k' H; [exact H|]. cbn [fold_left]. apply IH. now apply add_key_incl. Qed.
Lemma fold_add_in ks : forall l k', In k' ks -> In k' (fold_left add_key ks l).
Proof.
  induction ks as [|k t IH]; intros l k' H; [destruct H|]. cbn [fold_left]. destruct H as [->|H]; [|now apply IH].
  apply fold_add_incl. apply add_key_self.
Qed.

Lemma keys_of_snoc vs v : keys_of (vs ++ [v]) = fold_left add_key (rkeys v) (keys_of vs).
Proof. unfold keys_of. now rewrite fold_left_app. Qed.

Lemma keys_of_in vs : forall v k, In v vs -> In k (rkeys v) -> In k (keys_of vs).
Proof.
  induction vs as [|a t IH] using rev_ind; intros v k Hv Hk; [destruct Hv|].
  rewrite keys_of_snoc. apply in_app_or in Hv. destruct Hv as [Hv|[->|[]]].
  - apply fold_add_incl. eauto.
  - now apply fold_add_in.
Qed.

Lemma fld_absent k h0 : ~ In k (keys_of h0) -> map (fld k) h0 = repeat PNone (length h0).
Proof.
  intro H. assert (forall v, In v h0 -> fld k v = PNone) as G.
  { intros v Hv. destruct v; try reflexivity. cbn [fld]. rewrite assoc_notin; [reflexivity|].
    intro Hk. apply H. apply (keys_of_in h0 (PRec nm fs) k Hv Hk). }
  clear H. induction h0 as [|a t IH]; [reflexivity|]. cbn [map length repeat]. rewrite G by now left.
  f_equal. apply IH. intros; apply G; now right.
Qed.

Lemma F2_split {A B} (R : A -> B -> Prop) l1 : forall m1 a l2 b m2,
  length l1 = length m1 -> Forall2 R (l1 ++ a :: l2) (m1 ++ b :: m2) ->
  Forall2 R l1 m1 /\ R a b /\ Forall2 R l2 m2.
Proof.
  induction l1 as [|x t IH]; intros [|y u] a l2 b m2 L H; try discriminate L; cbn [app] in H; inversion H; subst.
  - auto.
  - destruct (IH u a l2 b m2 (eq_add_S _ _ L)) as (G1 & G2 & G3); auto.
Qed.

Lemma F2_impl_in {A B} (R R' : A -> B -> Prop) l m :
  Forall2 R l m -> (forall a b, In b m -> R a b -> R' a b) -> Forall2 R' l m.
Proof.
  induction 1 as [|a b l m Hab _ IH]; intro H; constructor.
  - apply H; [now left|exact Hab].
  - apply IH. intros; apply H; auto. now right.
Qed.

Lemma F2_map_r {A B C} (R : A -> C -> Prop) (f : B -> C) l m :
  Forall2 (fun a b => R a (f b)) l m -> Forall2 R l (map f m).
Proof. induction 1; cbn [map]; constructor; auto. Qed.
Lemma F2_map_r_inv {A B C} (R : A -> C -> Prop) (f : B -> C) l : forall m,
  Forall2 R l (map f m) -> Forall2 (fun a b => R a (f b)) l m.
Proof. induction l as [|a t IH]; intros [|b m] H; inversion H; subst; constructor; auto. Qed.

Definition rst (h0 : list pyval) (done : list (name * pyval)) (cs : list builder) (keys : list name) : Prop :=
  Forall2 (fun c k => rep c (map (fld k) h0 ++ o2l (assoc name_eqb k done))) cs keys.

Section WithOpts.
Variable o : opts.
Hypothesis Ho : good_opts o.

Definition pushes (v : pyval) : Prop :=
  forall K c vs, xokctx K -> rep c vs ->
  exists c', run o (xplug K c) (encode v) = Ok (xplug K c') /\ rep c' (vs ++ [v]).

Lemma push_atom v cmd : acmd v = Some cmd -> encode v = [cmd] -> pushes v.
Proof.
  intros Ha Ee K c vs OK R. rewrite Ee.
  destruct (xatom_step o Ho c v cmd vs R Ha) as (s & r & Es & Rs).
  assert (vstart cmd) as Vc by (destruct v; inversion Ha; exact I).
  pose proof (xstep_in o K c cmd s r OK Vc (rep_inactive _ _ R) Es) as E1.
  exists (pick s r). split; [|exact Rs]. cbn [run]. rewrite E1. reflexivity.
Qed.

Lemma push_many l :
  Forall pushes l -> forall K c vs, xokctx K -> rep c vs ->
  exists c', run o (xplug K c) (flat_map encode l) = Ok (xplug K c') /\ rep c' (vs ++ l).
Proof.
  induction 1 as [|v t Hv _ IH]; intros K c vs OK R.
  - exists c. cbn. rewrite app_nil_r. auto.
  - destruct (Hv K c vs OK R) as (c1 & E1 & R1). destruct (IH K c1 _ OK R1) as (c2 & E2 & R2).
    exists c2. cbn [flat_map]. rewrite run_app, E1. cbn [bind]. rewrite E2. split; [reflexivity|].
    now rewrite <- app_assoc in R2.
Qed.

(* ------------------------------------------------------------------ begin ... end around the node's own commands *)
Lemma push_struct v bc inner endc :
  encode v = bc :: inner ++ [endc] -> bcok bc -> kind_of endc = KEnd -> nonnone v = true ->
  (forall K' Nc h0, Forall fok K' -> rep Nc h0 -> altok Nc = true -> bkind Nc = bckind bc ->
     exists Nl Nf,
       run o (xplug K' (opened Nc)) inner = Ok (xplug K' Nl) /\ active Nl = true /\ blen Nl = zlen h0 /\
       step o Nl endc = SOk Nf None /\ rep Nf (h0 ++ [v]) /\ bkind Nf = bkind Nc /\ altok Nf = true) ->
  pushes v.
Proof.
  intros Ee B Ke Nv Hin K c vs OK R. rewrite Ee.
  destruct (xopen_step o Ho c vs bc R B) as (s & r & K1 & Nc & h0 & Es & Ep & Kn & (C1 & C2 & C3 & C4 & C5)).
  pose proof (xstep_in o K c bc s r OK (bcok_vstart _ B) (rep_inactive _ _ R) Es) as E1.
  pose proof OK as [FK _].
  assert (Forall fok (K ++ K1)) as FKK by (apply Forall_app; auto).
  destruct (Hin (K ++ K1) Nc h0 FKK C2 C3 Kn) as (Nl & Nf & Er & Al & Bl & Ee' & Rf & Kf & Tf).
  destruct (C5 Nl Nf v endc Al Bl Ke Ee' Rf Kf Tf Nv) as (c' & Ec & Rc).
  pose proof (xend_in o K (xplug K1 Nl) c' endc OK Ke (xplug_active K1 Nl Al) Ec) as E3.
  exists c'. split; [|exact Rc].
  cbn [run app]. rewrite E1, Ep, <- xplug_app. rewrite run_app, Er. cbn [bind run]. rewrite xplug_app, E3. reflexivity.
Qed.

Lemma xokctx_snoc K f : Forall fok K -> fok f -> site f -> xokctx (K ++ [f]).
Proof.
  intros FK Ff Sf. split; [apply Forall_app; split; [exact FK|constructor; [exact Ff|constructor]]|].
  right. exists K, f. auto.
Qed.

(* ------------------------------------------------------------------ lists *)
Lemma push_list l : Forall pushes l -> pushes (PList l).
Proof.
  intro F. apply (push_struct (PList l) CBeginList (flat_map encode l) CEndList); try reflexivity; try exact I.
  intros K' Nc h0 FK R T Kn.
  destruct Nc as [| | | | | |offs c bg| | |]; try discriminate Kn.
  pose proof (rep_len _ _ R) as BL.
  destruct R as (-> & W & ws0 & H & Rc). cbn [opened].
  change (BList offs c true) with (xplug [XList offs] c). rewrite <- xplug_app.
  destruct (push_many l F (K' ++ [XList offs]) c ws0 (xokctx_snoc K' (XList offs) FK I I) Rc) as (c0' & E & R').
  destruct (list_end o Ho offs c0' ws0 h0 l W H R') as (offs' & Ee & Rf).
  exists (BList offs c0' true), (BList offs' c0' false). rewrite E, xplug_app. cbn [xplug].
  split; [reflexivity|split; [reflexivity|split; [exact BL|split; [exact Ee|split; [exact Rf|split; reflexivity]]]]].
Qed.

(* ------------------------------------------------------------------ tuples *)
Lemma tuple_loop : forall t post pre ldone K len ni h0,
  Forall pushes t -> tcols h0 post (length pre) -> length t = length post -> length ldone = length pre ->
  Forall fok K -> 0 <= len -> nready (pre ++ post) ni ->
  exists post' ni',
    run o (xplug K (BTuple (pre ++ post) len true ni)) (enc_tup t (zlen pre))
    = Ok (xplug K (BTuple (pre ++ post') len true ni')) /\
    tcols (h0 ++ [PTup (ldone ++ t)]) post' (length pre) /\ length post' = length post /\
    nready (pre ++ post') ni'.
Proof.
  induction t as [|x t IH]; intros post pre ldone K len ni h0 F Tc L Ld FK Hl Hr.
  - destruct post; [|discriminate]. exists [], ni. cbn [enc_tup run tcols]. auto.
  - destruct post as [|c post]; [discriminate|]. destruct Tc as [Rc Tc]. inversion F as [|? ? Fx Ft]; subst.
    cbn [enc_tup].
    assert (0 <= zlen pre < zlen (pre ++ c :: post)) as Hi.
    { rewrite zlen_app, zlen_cons. pose proof (zlen_nonneg pre). pose proof (zlen_nonneg post). lia. }
    pose proof (tuple_index o (pre ++ c :: post) len ni (zlen pre) Hr Hi) as Ei.
    pose proof (xnode_in o K (BTuple (pre ++ c :: post) len true ni) (BTuple (pre ++ c :: post) len true (zlen pre))
                  (CIndex (zlen pre)) FK I eq_refl Ei eq_refl eq_refl) as E1.
    change (BTuple (pre ++ c :: post) len true (zlen pre)) with (xplug [XTup pre post len] c) in E1.
    rewrite <- xplug_app in E1.
    destruct (Fx (K ++ [XTup pre post len]) c _ (xokctx_snoc K (XTup pre post len) FK Hl I) Rc) as (c' & E2 & R2).
    assert (nready ((pre ++ [c']) ++ post) (zlen pre)) as Hr'.
    { rewrite <- app_assoc. cbn [app]. apply nready_at. eapply rep_inactive; eauto. }
    assert (tcols h0 post (length (pre ++ [c']))) as Tc' by (rewrite app_length; cbn [length]; now rewrite Nat.add_1_r).
    assert (length (ldone ++ [x]) = length (pre ++ [c'])) as Ld' by (rewrite !app_length; cbn [length]; lia).
    destruct (IH post (pre ++ [c']) (ldone ++ [x]) K len (zlen pre) h0 Ft Tc' (eq_add_S _ _ L) Ld' FK Hl Hr')
      as (post' & ni' & E3 & T3 & L3 & Hr3).
    exists (c' :: post'), ni'. split; [|split; [|split]].
    + cbn [run]. rewrite E1, run_app, E2. cbn [bind]. rewrite xplug_app. cbn [xplug].
      replace (pre ++ c' :: post) with ((pre ++ [c']) ++ post) by (now rewrite <- app_assoc).
      replace (zlen pre + 1) with (zlen (pre ++ [c'])) by (now rewrite zlen_snoc).
      rewrite E3. now rewrite <- app_assoc.
    + rewrite <- app_assoc in T3. cbn [app] in T3. cbn [tcols]. split.
      * rewrite map_app. cbn [map slot]. rewrite <- Ld, nth_middle, Ld. exact R2.
      * rewrite app_length in T3. cbn [length] in T3. now rewrite Nat.add_1_r in T3.
    + cbn [length]. now rewrite L3.
    + rewrite <- app_assoc in Hr3. exact Hr3.
Qed.

Lemma push_tuple l : Forall pushes l -> pushes (PTup l).
Proof.
  intro F. apply (push_struct (PTup l) (CBeginTuple (zlen l)) (enc_tup l 0) CEndTuple);
    [apply encode_tup|apply zlen_nonneg|reflexivity|reflexivity|].
  intros K' Nc h0 FK R T Kn.
  destruct Nc as [| | | | | | | |cs len bg ni0|]; try discriminate Kn.
  apply rep_tuple in R. destruct R as (-> & -> & Ft & Tc).
  cbn [bkind bckind] in Kn. injection Kn as Kn. unfold zlen in Kn. rewrite Nat2Z.id in Kn.
  cbn [opened]. pose proof (zlen_nonneg h0) as Hl.
  destruct (tuple_loop l cs [] [] K' (zlen h0) (-1) h0 F Tc (eq_sym Kn) eq_refl FK Hl (or_introl eq_refl))
    as (cs' & ni' & E & T' & L' & Hr).
  cbn [app length zlen] in E, T', Hr. change (Z.of_nat 0) with 0 in E.
  exists (BTuple cs' (zlen h0) true ni'), (BTuple cs' (zlen h0 + 1) false ni').
  split; [exact E|split; [reflexivity|split; [|split; [|split; [|split]]]]].
  - cbn [blen]. now rewrite (nonneg_neq_m1 _ Hl).
  - apply tuple_end; [exact Hr|]. rewrite <- (zlen_snoc h0 (PTup l)). eapply tcols_blen; eauto.
  - apply rep_tuple. refine (conj eq_refl (conj (eq_sym (zlen_snoc _ _)) (conj _ T'))).
    rewrite forallb_snoc, L', Ft. cbn [istup andb]. rewrite Kn. apply Nat.eqb_refl.
  - cbn [bkind]. now rewrite L'.
  - reflexivity.
Qed.

(* ------------------------------------------------------------------ records *)
Lemma record_loop : forall t done cs keys K rn nullp len ni ntt h0,
  Forall (fun kv : name * pyval => pushes (snd kv)) t -> NoDup (map fst (done ++ t)) ->
  rst h0 done cs keys -> NoDup keys -> (forall k, In k (keys_of h0) -> In k keys) -> len = zlen h0 ->
  Forall fok K -> 0 <= ntt -> nready cs ni ->
  exists cs' keys' ni' ntt',
    run o (xplug K (BRecord cs keys rn nullp len true ni ntt)) (enc_rec t)
    = Ok (xplug K (BRecord cs' keys' rn nullp len true ni' ntt')) /\
    rst h0 (done ++ t) cs' keys' /\ keys' = fold_left add_key (map fst t) keys /\ nready cs' ni'.
Proof.
  induction t as [|[k x] t IH]; intros done cs keys K rn nullp len ni ntt h0 F ND Rs NK Inc Hlen FK Hn Hr.
  - exists cs, keys, ni, ntt. rewrite app_nil_r. cbn [enc_rec run map fold_left]. auto.
  - inversion F as [|? ? Fx Ft]; subst. cbn [snd] in Fx.
    pose proof (zlen_nonneg h0) as Hl.
    assert (length cs = length keys) as EL.
    { clear - Rs. unfold rst in Rs. induction Rs; cbn; auto. }
    destruct (record_field o Ho cs keys rn nullp (zlen h0) ni ntt k Hr Hn Hl EL)
      as (pre & c & post & kpre & kpost & ntt' & Es & Lp & Hn' & Hcase).
    pose proof (xnode_in o K (BRecord cs keys rn nullp (zlen h0) true ni ntt)
                  (BRecord (pre ++ c :: post) (kpre ++ k :: kpost) rn nullp (zlen h0) true (zlen pre) ntt')
                  (CField k) FK I eq_refl Es eq_refl eq_refl) as E1.
    assert (~ In k (map fst done)) as Kd.
    { rewrite map_app in ND. cbn [map fst] in ND. apply NoDup_remove_2 in ND. intro H. apply ND. apply in_or_app. now left. }
    assert (rst h0 done (pre ++ c :: post) (kpre ++ k :: kpost) /\ NoDup (kpre ++ k :: kpost) /\
            kpre ++ k :: kpost = add_key keys k) as (Rs1 & NK1 & Ek1).
    { destruct Hcase as [[-> ->]|(Nk & -> & -> & -> & -> & Rc)].
      - refine (conj Rs (conj NK _)). symmetry. apply add_key_in. apply in_or_app. right. now left.
      - refine (conj _ (conj _ _)).
        + apply Forall2_app; [exact Rs|]. constructor; [|constructor].
          rewrite (assoc_notin k done Kd). cbn [o2l]. rewrite app_nil_r.
          rewrite fld_absent by (intro H; apply Nk; now apply Inc). unfold zlen in Rc. now rewrite Nat2Z.id in Rc.
        + now apply NoDup_snoc.
        + symmetry. now apply add_key_notin. }
    destruct (F2_split _ pre kpre c post k kpost Lp Rs1) as (R1 & Rc & R2).
    rewrite (assoc_notin k done Kd) in Rc. cbn [o2l] in Rc.
    change (BRecord (pre ++ c :: post) (kpre ++ k :: kpost) rn nullp (zlen h0) true (zlen pre) ntt')
      with (xplug [XRec pre post (kpre ++ k :: kpost) rn nullp (zlen h0) ntt'] c) in E1.
    rewrite <- xplug_app in E1.
    destruct (Fx (K ++ [XRec pre post (kpre ++ k :: kpost) rn nullp (zlen h0) ntt']) c _
                 (xokctx_snoc K (XRec pre post (kpre ++ k :: kpost) rn nullp (zlen h0) ntt') FK Hl I) Rc)
      as (c' & E2 & R2').
    assert (rst h0 (done ++ [(k, x)]) (pre ++ c' :: post) (kpre ++ k :: kpost)) as Rs2.
    { assert (forall k', k' <> k -> assoc name_eqb k' (done ++ [(k, x)]) = assoc name_eqb k' done) as Ao.
      { intros k' Hk. rewrite assoc_app. destruct (assoc name_eqb k' done); [reflexivity|]. cbn [assoc].
        replace (name_eqb k k') with false; [reflexivity|]. symmetry. apply name_eqb_neq. congruence. }
      apply NoDup_remove_2 in NK1.
      apply Forall2_app; [|constructor].
      - eapply F2_impl_in; [exact R1|]. intros a b Hb Hab. cbv beta. rewrite Ao; [exact Hab|].
        intros ->. apply NK1. apply in_or_app. now left.
      - rewrite assoc_app, (assoc_notin k done Kd). cbn [assoc]. rewrite name_eqb_refl. cbn [o2l].
        now rewrite app_nil_r in R2'.
      - eapply F2_impl_in; [exact R2|]. intros a b Hb Hab. cbv beta. rewrite Ao; [exact Hab|].
        intros ->. apply NK1. apply in_or_app. now right. }
    assert (NoDup (map fst ((done ++ [(k, x)]) ++ t))) as ND' by (now rewrite <- app_assoc).
    assert (forall k0, In k0 (keys_of h0) -> In k0 (kpre ++ k :: kpost)) as Inc'.
    { intros k0 H0. rewrite Ek1. apply add_key_incl. now apply Inc. }
    destruct (IH (done ++ [(k, x)]) (pre ++ c' :: post) (kpre ++ k :: kpost) K rn nullp (zlen h0) (zlen pre) ntt' h0
                 Ft ND' Rs2 NK1 Inc' eq_refl FK Hn' (nready_at pre c' post (rep_inactive _ _ R2')))
      as (cs' & keys' & ni' & ntt'' & E3 & Rs3 & Ek3 & Hr3).
    exists cs', keys', ni', ntt''. split; [|split; [|split]].
    + cbn [enc_rec run]. rewrite E1, run_app, E2. cbn [bind]. rewrite xplug_app. cbn [xplug]. exact E3.
    + now rewrite <- app_assoc in Rs3.
    + cbn [map fst fold_left]. now rewrite <- Ek1.
    + exact Hr3.
Qed.

Lemma push_record nm fs :
  keys_nodup (map fst fs) = true -> Forall (fun kv : name * pyval => pushes (snd kv)) fs ->
  pushes (PRec nm fs).
Proof.
  intros Hnd F. apply (push_struct (PRec nm fs) (CBeginRecord nm) (enc_rec fs) CEndRecord);
    [apply encode_rec|exact I|reflexivity|reflexivity|].
  intros K' Nc h0 FK R T Kn.
  destruct Nc as [| | | | | | |cs keys rn nullp len bg ni0 ntt0| |]; try discriminate Kn.
  apply rep_record in R. destruct R as (-> & -> & Fr & Ek & Rc).
  cbn [bkind bckind] in Kn. injection Kn as Kn.
  cbn [opened]. pose proof (zlen_nonneg h0) as Hl.
  assert (rst h0 [] cs keys) as Rs0.
  { eapply F2_impl_in; [apply (rcols_F2' h0 cs keys Rc)|]. intros a b _ Hab. cbn [assoc o2l]. now rewrite app_nil_r. }
  assert (NoDup keys) as NK by (rewrite Ek; apply RecStatic.keys_of_nodup).
  destruct (record_loop fs [] cs keys K' rn nullp (zlen h0) (-1) 0 h0 F (keys_nodup_NoDup _ Hnd) Rs0 NK
              (fun k H => eq_ind_r (fun l => In k l) H Ek) eq_refl FK (Z.le_refl 0) (or_introl eq_refl))
    as (cs' & keys' & ni' & ntt' & E & Rs & Ek' & Hr).
  cbn [app] in Rs.
  set (hs := map (fun k => map (fld k) h0 ++ o2l (assoc name_eqb k fs)) keys').
  assert (Forall2 (fun c h => rep c h /\ (zlen h = zlen h0 \/ zlen h = zlen h0 + 1)) cs' hs) as Fh.
  { apply F2_map_r. eapply F2_impl_in; [exact Rs|]. intros a b _ Hab. split; [exact Hab|].
    rewrite zlen_app, zlen_map. destruct (assoc name_eqb b fs); cbn [o2l]; [right|left]; rewrite ?zlen_cons, zlen_nil; lia. }
  destruct (fill_loop_rec o Ho (zlen h0) cs' hs Fh) as (cs'' & Ef & Ff).
  exists (BRecord cs' keys' rn nullp (zlen h0) true ni' ntt'), (BRecord cs'' keys' rn nullp (zlen h0 + 1) false ni' ntt').
  split; [exact E|split; [reflexivity|split; [|split; [|split; [|split]]]]].
  - cbn [blen]. now rewrite (nonneg_neq_m1 _ Hl).
  - now apply record_end.
  - apply rep_record.
    refine (conj eq_refl (conj (eq_sym (zlen_snoc _ _)) (conj _ (conj _ _)))).
    + rewrite forallb_snoc, Fr. cbn [isrec andb]. rewrite Hnd, andb_true_r. apply oname_eqb_eq. now symmetry.
    + rewrite keys_of_snoc. cbn [rkeys]. now rewrite <- Ek.
    + apply F2_rcols. unfold hs in Ff. apply F2_map_r_inv in Ff. eapply F2_impl_in; [exact Ff|].
      intros a b _ Hab. cbv beta in Hab. rewrite map_app. cbn [map fld].
      rewrite zlen_app, zlen_map in Hab. destruct (assoc name_eqb b fs) as [y|]; cbn [o2l] in Hab.
      * rewrite zlen_cons, zlen_nil in Hab.
        replace (zlen h0 + (0 + 1) =? zlen h0) with false in Hab by (symmetry; apply Z.eqb_neq; lia). exact Hab.
      * rewrite zlen_nil, Z.add_0_r, Z.eqb_refl, app_nil_r in Hab. exact Hab.
  - reflexivity.
  - reflexivity.
Qed.

(* ------------------------------------------------------------------ every value of the fragment *)
Lemma push_all v : pywf v = true -> pushes v.
Proof.
  induction v as [| | | | |l IH|l IH|nm fs IH] using pyval_indx; intro Hok.
  - apply (push_atom PNone CNull); reflexivity.
  - apply (push_atom (PBool b) (CBool b)); reflexivity.
  - apply (push_atom (PInt z) (CInt z)); reflexivity.
  - apply (push_atom (PFloat z) (CReal z)); reflexivity.
  - apply (push_atom (PStr e s) (CStr e s)); reflexivity.
  - apply push_list. cbn [pywf] in Hok. rewrite forallb_forall in Hok. rewrite Forall_forall in *. auto.
  - apply push_tuple. cbn [pywf] in Hok. rewrite forallb_forall in Hok. rewrite Forall_forall in *. auto.
  - cbn [pywf] in Hok. apply andb_true_iff in Hok. destruct Hok as [H2 H3]. apply push_record; [exact H2|].
    clear H2. induction fs as [|[k x] t IHt]; [constructor|]. apply andb_true_iff in H3. destruct H3 as [Hx Ht].
      inversion IH; subst. constructor; [cbn [snd] in *; auto|auto].
Qed.

Theorem feed_values_x vs :
  forallb pywf vs = true -> exists b, run o ab_init (encode_all vs) = Ok b /\ rep b vs.
Proof.
  intro Hok.
  assert (Forall pushes vs) as F.
  { rewrite forallb_forall in Hok. apply Forall_forall. intros; apply push_all; auto. }
  destruct (push_many vs F [] ab_init [] (conj (Forall_nil _) (or_introl eq_refl)) rep_unknown0) as (b & E & R).
  exists b. cbn [xplug app] in *. auto.
Qed.

End WithOpts.
