(* typerun: runs the extracted C17 model (c17/coq: Forms.v, TypeStr.v, Typing.v) on the cases the implementation ran
   (impl/drv/typedrv.cpp) and prints what the model says, as byte lists, for the harness to compare.

   input  (one case per line):
     (id describe TYPESTRS LAYOUT)      LAYOUT in the core syntax (ocaml/rd.ml); TYPESTRS = (((k..) (v..))...)
     (id fromjson TYPESTRS (b...))      a JSON text (bytes)
     (id parsetype (b...))              a type string (bytes): model's type_parse, printed back
     (id larkparse HL (b...))           a type string (bytes): Lark.v's lark_parse_full / lark_parse (the model of the
                                        repository's from_datashape(s, high_level=HL), HL = 0 | 1); prints the parsed
                                        type as a tree: (tree T) (array 0|1: an ArrayType occurs) (lp ok|oob) (larkok 0|1)
                                        (printed (b...)), or (id err value|fuel|other)
   output:
     (id ok (k v)...) | (id err) | (id bad (msg))

   Everything that decides anything is extracted Rocq; this file only reads S-expressions / JSON text into the
   extracted data types and prints results.  The JSON reader mirrors impl/rapidjson_shim (strictness, number kinds). *)
open C17model
open Sx
open Rd

let bytes_of_sx (x : Sx.t) : z list = match x with L l -> List.map z_of_sx l | _ -> bad "bytes expected"
let sx_of_bytes (b : z list) : string = "(" ^ String.concat " " (List.map string_of_z b) ^ ")"
let string_of_bytes (b : z list) : string = string_of_name b
let bytes_of_str (s : string) : z list = name_of_string s

let typestrs_of_sx (x : Sx.t) : (z list * z list) list =
  match x with
  | L l -> List.map (function L [k; v] -> (bytes_of_sx k, bytes_of_sx v) | _ -> bad "typestrs") l
  | _ -> bad "typestrs"

(* ---------------------------------------------------------------- JSON text -> extracted json *)
exception Jerr
let uint64_max = z_of_string "18446744073709551615"
let int64_min = z_of_string "-9223372036854775808"
let z_le a b = Z.leb a b

(* rj::Writer::Double of the shim: shortest round-trip digits, then RapidJSON's Prettify *)
let dtoa (v : float) : string =
  if v = 0.0 then (if 1.0 /. v < 0.0 then "-0.0" else "0.0") else begin
    let neg = v < 0.0 in
    let v = abs_float v in
    let buf = ref "" in
    (try
       for p = 1 to 17 do
         buf := Printf.sprintf "%.*e" (p - 1) v;
         if float_of_string !buf = v then raise Exit
       done
     with Exit -> ());
    let s = !buf in
    let e = String.index s 'e' in
    let exp10 = int_of_string (String.sub s (e + 1) (String.length s - e - 1)) in
    let mant = String.sub s 0 e in
    let digits = Buffer.create 20 in
    String.iter (fun c -> if c >= '0' && c <= '9' then Buffer.add_char digits c) mant;
    let d = ref (Buffer.contents digits) in
    while String.length !d > 1 && !d.[String.length !d - 1] = '0' do d := String.sub !d 0 (String.length !d - 1) done;
    let d = !d in
    let k = exp10 - (String.length d - 1) in
    let length = String.length d in
    let kk = length + k in
    let out =
      if 0 <= k && kk <= 21 then d ^ String.make k '0' ^ ".0"
      else if 0 < kk && kk <= 21 then String.sub d 0 kk ^ "." ^ String.sub d kk (length - kk)
      else if -6 < kk && kk <= 0 then "0." ^ String.make (-kk) '0' ^ d
      else if kk < -324 then "0.0"
      else begin
        let e = kk - 1 in
        let eb = (if e < 0 then "-" else "") ^ string_of_int (abs e) in
        if length = 1 then d ^ "e" ^ eb else String.sub d 0 1 ^ "." ^ String.sub d 1 (length - 1) ^ "e" ^ eb
      end in
    (if neg then "-" else "") ^ out
  end

let json_of_text (s : string) : json =
  let n = String.length s in
  let p = ref 0 in
  let peek () = if !p < n then s.[!p] else '\000' in
  let take () = let c = peek () in incr p; c in
  let skipws () = while (let c = peek () in c = ' ' || c = '\n' || c = '\r' || c = '\t') && !p < n do incr p done in
  let consume c = if peek () = c && !p < n then (incr p; true) else false in
  let hex4 () =
    let cp = ref 0 in
    for _ = 1 to 4 do
      let c = peek () in
      cp := !cp lsl 4;
      if c >= '0' && c <= '9' then cp := !cp + (Char.code c - 48)
      else if c >= 'A' && c <= 'F' then cp := !cp + (Char.code c - 55)
      else if c >= 'a' && c <= 'f' then cp := !cp + (Char.code c - 87)
      else raise Jerr;
      incr p
    done; !cp in
  let utf8 b cp =
    let add x = Buffer.add_char b (Char.chr x) in
    if cp <= 0x7F then add cp
    else if cp <= 0x7FF then (add (0xC0 lor (cp lsr 6)); add (0x80 lor (cp land 0x3F)))
    else if cp <= 0xFFFF then (add (0xE0 lor (cp lsr 12)); add (0x80 lor ((cp lsr 6) land 0x3F)); add (0x80 lor (cp land 0x3F)))
    else (add (0xF0 lor (cp lsr 18)); add (0x80 lor ((cp lsr 12) land 0x3F)); add (0x80 lor ((cp lsr 6) land 0x3F)); add (0x80 lor (cp land 0x3F))) in
  let parse_string () : string =
    ignore (take ());
    let b = Buffer.create 16 in
    let fin = ref false in
    while not !fin do
      if !p >= n then raise Jerr;
      let c = peek () in
      if c = '\\' then begin
        incr p;
        if !p >= n then raise Jerr;
        (match peek () with
         | '"' -> Buffer.add_char b '"'; incr p
         | '\\' -> Buffer.add_char b '\\'; incr p
         | '/' -> Buffer.add_char b '/'; incr p
         | 'b' -> Buffer.add_char b '\b'; incr p
         | 'f' -> Buffer.add_char b '\012'; incr p
         | 'n' -> Buffer.add_char b '\n'; incr p
         | 'r' -> Buffer.add_char b '\r'; incr p
         | 't' -> Buffer.add_char b '\t'; incr p
         | 'u' ->
           incr p;
           let cp = hex4 () in
           let cp =
             if cp >= 0xD800 && cp <= 0xDBFF then begin
               if not (consume '\\' && consume 'u') then raise Jerr;
               let cp2 = hex4 () in
               if cp2 < 0xDC00 || cp2 > 0xDFFF then raise Jerr;
               (((cp - 0xD800) lsl 10) lor (cp2 - 0xDC00)) + 0x10000
             end
             else if cp >= 0xDC00 && cp <= 0xDFFF then raise Jerr
             else cp in
           utf8 b cp
         | _ -> raise Jerr)
      end
      else if c = '"' then (incr p; fin := true)
      else if Char.code c < 0x20 then raise Jerr
      else (Buffer.add_char b c; incr p)
    done;
    Buffer.contents b in
  let rec value () : json =
    match peek () with
    | 'n' -> incr p; if consume 'u' && consume 'l' && consume 'l' then JNull else raise Jerr
    | 't' -> incr p; if consume 'r' && consume 'u' && consume 'e' then JBool true else raise Jerr
    | 'f' -> incr p; if consume 'a' && consume 'l' && consume 's' && consume 'e' then JBool false else raise Jerr
    | '"' -> JStr (bytes_of_str (parse_string ()))
    | '{' ->
      incr p; skipws ();
      if consume '}' then JObj [] else begin
        let items = ref [] in
        let fin = ref false in
        while not !fin do
          if peek () <> '"' || !p >= n then raise Jerr;
          let k = parse_string () in
          skipws ();
          if not (consume ':') then raise Jerr;
          skipws ();
          let v = value () in
          items := (bytes_of_str k, v) :: !items;
          skipws ();
          if consume ',' then skipws ()
          else if consume '}' then fin := true
          else raise Jerr
        done;
        JObj (List.rev !items)
      end
    | '[' ->
      incr p; skipws ();
      if consume ']' then JArr [] else begin
        let items = ref [] in
        let fin = ref false in
        while not !fin do
          let v = value () in
          items := v :: !items;
          skipws ();
          if consume ',' then skipws ()
          else if consume ']' then fin := true
          else raise Jerr
        done;
        JArr (List.rev !items)
      end
    | _ -> number ()
  and number () : json =
    let start = !p in
    let minus = consume '-' in
    if peek () = 'N' && !p < n then begin
      incr p; if consume 'a' && consume 'N' then raise Jerr (* NaN: not printable by the Writer; never generated *) else raise Jerr
    end
    else if peek () = 'I' && !p < n then raise Jerr    (* Infinity: never generated *)
    else begin
      if consume '0' then ()
      else if peek () >= '1' && peek () <= '9' then (while peek () >= '0' && peek () <= '9' && !p < n do incr p done)
      else raise Jerr;
      let isdouble = ref false in
      if peek () = '.' && !p < n then begin
        isdouble := true; incr p;
        if not (peek () >= '0' && peek () <= '9' && !p < n) then raise Jerr;
        while peek () >= '0' && peek () <= '9' && !p < n do incr p done
      end;
      if (peek () = 'e' || peek () = 'E') && !p < n then begin
        isdouble := true; incr p;
        if (peek () = '+' || peek () = '-') && !p < n then incr p;
        if not (peek () >= '0' && peek () <= '9' && !p < n) then raise Jerr;
        while peek () >= '0' && peek () <= '9' && !p < n do incr p done
      end;
      let txt = String.sub s start (!p - start) in
      if not !isdouble then begin
        let z = z_of_string txt in
        if (minus && z_le int64_min z) || (not minus && z_le z uint64_max) then JInt z
        else JDbl (bytes_of_str (dtoa (float_of_string txt)))
      end
      else begin
        let d = float_of_string txt in
        if d = infinity || d = neg_infinity then raise Jerr;
        JDbl (bytes_of_str (dtoa d))
      end
    end in
  try
    skipws ();
    if !p >= n then JNull   (* empty document: RapidJSON leaves a Null document *)
    else begin
      let v = value () in
      skipws ();
      if !p < n then JNull else v
    end
  with Jerr | Bad _ | Failure _ | Invalid_argument _ -> JNull   (* a document with a parse error is Null *)

(* ---------------------------------------------------------------- printing results *)
let kv k v = "(" ^ k ^ " " ^ v ^ ")"
let b01 b = if b then "1" else "0"
let res_str (f : 'a -> string) (r : 'a res) : string = match r with Ok a -> f a | Err _ -> "err"

let depth_block (tag : string) pl mm bd isreg nf keys : string =
  let mm_s = match mm with Ok (a, b) -> string_of_z a ^ " " ^ string_of_z b | Err _ -> "err err" in
  let bd_s = match bd with Ok (a, b) -> b01 a ^ " " ^ string_of_z b | Err _ -> "err err" in
  "(" ^ tag ^ " " ^ res_str string_of_z pl ^ " " ^ mm_s ^ " " ^ bd_s ^ " " ^ res_str b01 isreg ^ " "
  ^ res_str string_of_z nf ^ " " ^ res_str (fun ks -> "(" ^ String.concat " " (List.map sx_of_bytes ks) ^ ")") keys ^ ")"

let item_str (i : item) : string =
  match i with
  | INone -> "none"
  | IScalar dt -> "(scalar " ^ sx_of_bytes (dtype_to_name dt) ^ ")"
  | IRecord t -> "(record " ^ sx_of_bytes (type_tostring t) ^ ")"
  | IArray t -> "(array " ^ sx_of_bytes (type_tostring t) ^ ")"

(* ---------------------------------------------------------------- features of a type, for classifying what the
   repository's Lark parser cannot read back (classification only; nothing here decides a verdict) *)
let str_of_b = string_of_bytes
let record_name_of (p : params) : string option =
  match p with
  | [(k, JStr s)] when str_of_b k = "__record__" ->
    let w = str_of_b (cstr s) in
    let alpha c = (c >= 'a' && c <= 'z') || (c >= 'A' && c <= 'Z') || c = '_' in
    let alnum c = alpha c || (c >= '0' && c <= '9') in
    let kw = ["var"; "option"; "bool"; "int8"; "int16"; "int32"; "int64"; "int128"; "uint8"; "uint16"; "uint32"; "uint64";
              "uint128"; "float16"; "float32"; "float64"; "float128"; "decimal32"; "decimal64"; "decimal128"; "bignum"; "int";
              "real"; "complex"; "intptr"; "uintptr"; "string"; "char"; "bytes"; "date"; "json"; "void"; "datetime";
              "categorical"; "pointer"] in
    if String.length w > 0 && alpha w.[0] && String.for_all alnum w && not (List.mem w kw) then Some w else None
  | _ -> None
let categorical_true (p : params) = List.exists (fun (k, v) -> str_of_b k = "__categorical__" && v = JBool true) p
let params_empty (p : params) = p = [] || (List.length p = 1 && categorical_true p)
let rec json_has_expnum (j : json) : bool =
  match j with
  | JDbl t -> let s = str_of_b t in String.contains s 'e' && not (String.contains s '.')
  | JArr l -> List.exists json_has_expnum l
  | JObj m -> List.exists (fun (_, v) -> json_has_expnum v) m
  | _ -> false
let features (t : rty) : string list =
  let fs = ref [] in
  let add f = if not (List.mem f !fs) then fs := f :: !fs in
  let node (t0 : rty) (p : params) (ts : bytes) (k : unit -> unit) =
    if ts <> [] then begin
      (match str_of_b ts with "string" | "bytes" | "char" | "byte" -> () | _ -> add "custom-typestr");
      if not (t0 = t_string || t0 = t_bytes || t0 = t_char || t0 = t_byte) then add "typestr-hides";
      if categorical_true p then add "needs-hl"
    end else begin
      if categorical_true p then add "needs-hl";
      if List.exists (fun (k, v) -> str_of_b k = "__categorical__" && v <> JBool true) p then add "hidden-categorical";
      if List.exists (fun (_, v) -> json_has_expnum v) p then add "expnum";
      k ()
    end in
  let rec go (t : rty) =
    match t with
    | RNum (p, ts, dt) ->
      node t p ts (fun () ->
          if not (params_empty p) then add "params";
          (match dt with
           | FD (DFloat32 | DFloat64 | DBool | DInt8 | DInt16 | DInt32 | DInt64 | DUInt8 | DUInt16 | DUInt32 | DUInt64) -> ()
           | _ -> add "dtype"))
    | RUnk (p, ts) -> node t p ts (fun () -> if not (params_empty p) then add "params")
    | RList (p, ts, t') -> node t p ts (fun () -> if not (params_empty p) then add "params"; go t')
    | RReg (p, ts, _, t') -> node t p ts (fun () -> add "regular"; if not (params_empty p) then add "params"; go t')
    | ROpt (p, ts, t') ->
      node t p ts (fun () ->
          if not (params_empty p) then add "params"
          else (match t' with RList _ | RReg _ -> add "needs-hl" | _ -> ());
          go t')
    | RUnion (p, ts, l) ->
      node t p ts (fun () -> if not (params_empty p) then add "params"; if l = [] then add "empty"; List.iter go l)
    | RRec (p, ts, ks, l) ->
      node t p ts (fun () ->
          if l = [] then add "empty";
          (match record_name_of p with
           | Some w ->
             add "needs-hl";
             if ks = None then add "named-tuple";
             if not (String.for_all (fun c -> (c >= 'a' && c <= 'z') || (c >= 'A' && c <= 'Z')) w) then add "name-charset";
             if List.mem w ["union"; "struct"; "tuple"; "unknown"; "byte"; "parameters"; "type"] then add "reserved-name"
           | None -> if not (params_empty p) then add "params");
          List.iter go l) in
  go t; !fs

(* ---------------------------------------------------------------- an rty as a tree (larkparse): nothing is decided here,
   the harness maps this text and the repository parser's object tree to one canonical form
     T = (num P TS (b..)) | (unk P TS) | (list P TS T) | (reg P TS n T) | (opt P TS T)
       | (rec P TS none|(keys (b..)...) (T...)) | (union P TS (T...))
     P = ((pm (b..) J)...)   TS = (b..)
     J = null | true | false | (i n) | (d (b..)) | (s (b..)) | (a J...) | (o (pm (b..) J)...) *)
let rec json_tree (j : json) : string =
  match j with
  | JNull -> "null"
  | JBool true -> "true"
  | JBool false -> "false"
  | JInt z -> "(i " ^ string_of_z z ^ ")"
  | JDbl t -> "(d " ^ sx_of_bytes t ^ ")"
  | JStr s -> "(s " ^ sx_of_bytes s ^ ")"
  | JArr l -> "(a" ^ String.concat "" (List.map (fun x -> " " ^ json_tree x) l) ^ ")"
  | JObj m -> "(o" ^ String.concat "" (List.map (fun (k, v) -> " (pm " ^ sx_of_bytes k ^ " " ^ json_tree v ^ ")") m) ^ ")"
let params_tree (p : params) : string =
  "(" ^ String.concat " " (List.map (fun (k, v) -> "(pm " ^ sx_of_bytes k ^ " " ^ json_tree v ^ ")") p) ^ ")"
let rec rty_tree (t : rty) : string =
  let many l = "(" ^ String.concat " " (List.map rty_tree l) ^ ")" in
  match t with
  | RNum (p, ts, dt) -> "(num " ^ params_tree p ^ " " ^ sx_of_bytes ts ^ " " ^ sx_of_bytes (dtype_to_name dt) ^ ")"
  | RUnk (p, ts) -> "(unk " ^ params_tree p ^ " " ^ sx_of_bytes ts ^ ")"
  | RList (p, ts, t') -> "(list " ^ params_tree p ^ " " ^ sx_of_bytes ts ^ " " ^ rty_tree t' ^ ")"
  | RReg (p, ts, n, t') -> "(reg " ^ params_tree p ^ " " ^ sx_of_bytes ts ^ " " ^ string_of_z n ^ " " ^ rty_tree t' ^ ")"
  | ROpt (p, ts, t') -> "(opt " ^ params_tree p ^ " " ^ sx_of_bytes ts ^ " " ^ rty_tree t' ^ ")"
  | RRec (p, ts, ks, l) ->
    "(rec " ^ params_tree p ^ " " ^ sx_of_bytes ts ^ " "
    ^ (match ks with None -> "none" | Some ks -> "(keys" ^ String.concat "" (List.map (fun k -> " " ^ sx_of_bytes k) ks) ^ ")")
    ^ " " ^ many l ^ ")"
  | RUnion (p, ts, l) -> "(union " ^ params_tree p ^ " " ^ sx_of_bytes ts ^ " " ^ many l ^ ")"

(* everything derivable from a form *)
let form_block (ts : typestrs) (f : form) : string =
  let t = type_of_form ts f in
  let j = form_tojson false f and jv = form_tojson true f in
  let rt = (match form_fromjson j with Ok f' -> f' = f | Err _ -> false) in
  let rtv = (match form_fromjson jv with Ok f' -> f' = f | Err _ -> false) in
  let parse =
    match t with
    | Ok t' ->
      let s = type_tostring t' in
      (match type_parse s with
       | Ok t2 -> if t2 = t' then "same" else if printable t' then "BAD-differs" else "other"
       | Err _ -> if printable t' then "BAD-err" else "none")
    | Err _ -> "na" in
  let printable_s = (match t with Ok t' -> b01 (printable t') | Err _ -> "na") in
  String.concat " " [
    kv "ftype" (res_str (fun t -> sx_of_bytes (type_tostring t)) t);
    kv "form" (sx_of_bytes (json_print j));
    kv "formv" (sx_of_bytes (json_print jv));
    kv "rt" (b01 rt ^ b01 rtv);
    kv "wf" (b01 (form_wf f));
    depth_block "fdepth" (f_purelist_depth f) (f_minmax_depth f) (f_branch_depth f) (f_purelist_isregular f)
      (f_numfields f) (f_keys f);
    kv "items" (res_str (fun l -> "(" ^ String.concat " " (List.map item_str l) ^ ")") (item_types ts f));
    kv "feat" (match t with Ok t' -> String.concat " " (features t') | Err _ -> "");
    kv "printable" printable_s;
    kv "parse" parse ]

let clampi lo hi x = if x < lo then lo else if x > hi then hi else x

let handle (line : string) : string =
  let cs = Sx.parse line in
  match cs with
  | L (A id :: A op :: args) ->
    (try
       (match op, args with
        | "describe", [tsx; lay] ->
          let ts = typestrs_of_sx tsx in
          let c = content_of_sx lay in
          let f = form_of c in
          let valid = valid_b c in
          let t = type_of_form ts f in
          (* theorem (a) on this input: erase (type_of_form (form_of c)) = type_of c *)
          let erase_ok = (match t with Ok t' -> erase t' = type_of c | Err _ -> false) in
          (* theorems (e) and (b) on this input *)
          let typed =
            if not valid then "na" else
              match to_list c with
              | Ok vs ->
                let mm = minmax_ty (type_of c) in
                b01 (List.for_all (has_typeb (type_of c)) vs) ^ b01 (List.for_all (leaf_depth_in (fst mm) (snd mm)) vs)
              | Err _ -> "err" in
          (* theorem (f) on this input: slicing keeps the type *)
          let n = small_int_of_z (clen c) in
          let ranges =
            if not valid then "na" else
              b01 (List.for_all (fun (a, b) ->
                  let a = clampi 0 n (if a < 0 then a + n else a) in
                  let b = clampi 0 n (if b < 0 then b + n else b) in
                  let b = if b < a then a else b in
                  match crange c (z_of_int a) (z_of_int b) with
                  | Ok c' -> type_of c' = type_of c && (match type_of_form ts (form_of c') with Ok t2 -> Ok t2 = t | Err _ -> false)
                  | Err _ -> false)
                  [(0, n); (0, 0); (1, n); (0, n - 1); (1, 2); (-2, n + 3); (n, n); (-1, 1); (2, 1)]) in
          let agree = np_ok c in
          "(" ^ id ^ " ok " ^ String.concat " " [
            kv "valid" (b01 valid);
            kv "type" (res_str (fun t -> sx_of_bytes (type_tostring t)) t);
            form_block ts f;
            depth_block "depth" (Ok (c_purelist_depth None c)) (Ok (c_minmax_depth None c)) (Ok (c_branch_depth None c))
              (Ok (c_purelist_isregular c)) (Ok (c_numfields c)) (Ok (c_keys c));
            kv "len" (string_of_z (clen c));
            kv "erase" (b01 erase_ok); kv "typed" typed; kv "ranges" ranges; kv "npok" (b01 agree) ] ^ ")"
        | "fromjson", [tsx; txt] ->
          let ts = typestrs_of_sx tsx in
          let j = json_of_text (string_of_bytes (bytes_of_sx txt)) in
          (match form_fromjson j with
           | Ok f -> "(" ^ id ^ " ok " ^ form_block ts f ^ ")"
           | Err _ -> "(" ^ id ^ " err)")
        | "parsetype", [txt] ->
          (match type_parse (bytes_of_sx txt) with
           | Ok t -> "(" ^ id ^ " ok " ^ kv "printed" (sx_of_bytes (type_tostring t)) ^ " " ^ kv "printable" (b01 (printable t)) ^ ")"
           | Err _ -> "(" ^ id ^ " err)")
        | "larkparse", [A hl; txt] ->
          let hl = (match hl with "0" -> false | "1" -> true | _ -> bad "HL must be 0 or 1") in
          let s = bytes_of_sx txt in
          let errname = function EValue -> "value" | EFuel -> "fuel" | _ -> "other" in
          (match lark_parse_full hl s, lark_parse hl s with
           | Ok (t, arr), lp ->
             let lps = (match lp with
                 | Ok t2 -> if t2 = t then "ok" else "BAD-differs"
                 | Err EOob -> "oob"
                 | Err _ -> "BAD-err") in
             "(" ^ id ^ " ok " ^ String.concat " " [
               kv "tree" (rty_tree t); kv "array" (b01 arr); kv "lp" lps; kv "larkok" (b01 (lark_ok hl t));
               kv "printed" (sx_of_bytes (type_tostring t)) ] ^ ")"
           | Err e, Err e2 -> if e = e2 then "(" ^ id ^ " err " ^ errname e ^ ")" else "(" ^ id ^ " bad (lark_parse and lark_parse_full fail differently))"
           | Err _, Ok _ -> "(" ^ id ^ " bad (lark_parse succeeds where lark_parse_full fails))")
        | _ -> "(" ^ id ^ " bad (unknown op " ^ op ^ "))")
     with
     | Bad s -> "(" ^ id ^ " bad (" ^ s ^ "))"
     | Sx.Parse s -> "(" ^ id ^ " bad (" ^ s ^ "))"
     | Stack_overflow -> "(" ^ id ^ " bad (stack overflow))")
  | _ -> "(? bad (case syntax))"

let () =
  try
    while true do
      let line = input_line stdin in
      if String.length line > 0 && line.[0] <> '#' then begin
        print_string (try handle line with Sx.Parse s -> "(? bad (" ^ s ^ "))");
        print_newline ()
      end
    done
  with End_of_file -> ()
